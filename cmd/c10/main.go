// C10 — signed transactions and blocks are not malleable by third parties; only low-s
// signatures with a recovery id below 4 are accepted or produced.
//
// Legs:
//
//	producer  every signature made by cipher.SignHash, Transaction.SignInput / SignInputs and by a
//	          publisher node signing the blocks it creates must have s <= n/2 and recid < 4
//	verifier  for valid signatures (reference-made and package-made), the mathematically valid
//	          high-s twin, recid variants, r+n / s+n re-encodings, and directed constructions (s just
//	          above n/2 but below 2^255; small r so that r+n fits; r taken from x in [n,p)) are
//	          offered to VerifyAddressSignedHash, VerifyPubKeySignedHash,
//	          VerifySignatureRecoverPubKey, Transaction.Verify, VerifyInputSignatures and
//	          SignedBlock.VerifySignature
//	roles     real follower nodes (lib/fix): for valid signed transactions every single-bit flip of
//	          the encoding and the structured transforms are offered for pool admission
//	          (InjectForeignTransaction) and, inside a publisher-signed block, for block acceptance
//	          (ExecuteSignedBlock); for valid signed blocks every bit of header and signature, sampled
//	          body bits and the signature transforms are offered for block acceptance. Different
//	          bytes that are accepted in the same role are a violation. Controls: the unmodified
//	          transaction / block is accepted afterwards.
package main

import (
	"bytes"
	"encoding/hex"
	"encoding/json"
	"fmt"
	"io/ioutil"
	"math/big"
	"math/rand"
	"os"
	"path/filepath"
	"sync"

	"github.com/skycoin/skycoin/src/cipher"
	"github.com/skycoin/skycoin/src/cipher/encoder"
	"github.com/skycoin/skycoin/src/coin"

	"verif/lib/fix"
	"verif/lib/ledger"
	"verif/lib/refsecp"
	"verif/lib/txk"
	"verif/lib/vf"
)

var r *vf.Run

var (
	capMu   sync.Mutex
	capSeen = map[string]int{}
)

func capped(key string) bool {
	capMu.Lock()
	defer capMu.Unlock()
	capSeen[key]++
	if capSeen[key] > 2 {
		r.Count("violation.repeats", 1)
		return true
	}
	return false
}

func hx(b []byte) string { return hex.EncodeToString(b) }

func main() {
	fix.Quiet()
	r = vf.Start("C10", "exploration")
	if p := r.ReplayPath(); p != "" {
		replay(p)
	}
	legProducer()
	legVerifier()
	legDirected()
	legTxnFunctions()
	legRoles()

	for _, api := range []string{"SignHash", "SignInput", "SignInputs", "node-block"} {
		r.Floor("produced."+api, 10)
	}
	r.Floor("produced.recid-odd", 10)
	for _, tr := range []string{"high-s-twin", "high-s-noflip", "recid+4", "recid+2", "recid=0xff", "recid|0x80", "recid^1"} {
		r.Floor("fn.offered."+tr, 50)
	}
	for _, api := range []string{"VerifyAddressSignedHash", "VerifyPubKeySignedHash", "VerifySignatureRecoverPubKey", "Transaction.Verify", "VerifyInputSignatures", "SignedBlock.VerifySignature"} {
		r.Floor("fn.refused."+api, 50)
		r.Floor("fn.control.accepted."+api, 20)
	}
	r.Floor("directed.window.offered", 10)
	r.Floor("directed.small-r.r+n.offered", 5)
	r.Floor("directed.wrapped-r.offered", 5)
	r.Floor("role.txn.controls.pool", 4)
	r.Floor("role.txn.controls.block", 4)
	r.Floor("role.txn.bitflip.offered.pool", 5000)
	r.Floor("role.txn.bitflip.offered.block", 5000)
	r.Floor("role.txn.bitflip.reached-sig.pool", 500)
	for _, tr := range []string{"high-s-twin", "high-s-noflip", "recid+2", "recid+4", "recid=0xff", "reorder-inputs+sigs.rehash", "reorder-outputs.rehash"} {
		r.Floor("role.txn."+tr+".reached-sig.pool", 1)
		r.Floor("role.txn."+tr+".reached-sig.block", 1)
	}
	for _, tr := range []string{"trailing-bytes", "dup-input", "reorder-inputs+sigs", "reorder-outputs"} {
		r.Floor("role.txn."+tr+".offered", 1)
	}
	r.Floor("role.block.controls", 4)
	r.Floor("role.block.bitflip.header.offered", 900)
	r.Floor("role.block.bitflip.sig.offered", 500)
	r.Floor("role.block.bitflip.body.offered", 100)
	for _, tr := range []string{"high-s-twin", "high-s-noflip", "recid+2", "recid+4", "recid=0xff", "trailing-bytes"} {
		r.Floor("role.block."+tr+".offered", 1)
	}
	r.Extra("cpu_s", txk.CPUSeconds())
	r.Finish("producer: seeded keys/messages/transactions signed by the package and by publisher nodes; verifier: per valid signature 9 transforms built with math/big, plus directed constructions (chosen s or r with the message solved for); roles: per lane a real publisher+follower on bolt files, valid 1-3 input / 1-2 output transactions signed by harness keys; all single-bit flips of the transaction encoding and of block header+signature, sampled body bits, structured transforms (s->n-s with/without recid^1, r->r+n when it fits, recid+2/+4/0xff, trailing bytes, input reorder with signatures, output reorder, duplicated input). A case is non-trivial when the mutated bytes differ from the original and (for the reached-sig counters) still decode and pass every structural rule. distinct = (leg, transform, stage) classes and distinct base transactions/blocks.",
		"lib/refsecp is a correct textbook secp256k1; lib/ledger encodings are the documented layouts",
		"a mutant that the node does not admit (decode error, Verify error, node error) counts as not accepted; a panic while processing a mutant is reported as a violation of its own kind",
		"r+n re-encodings do not fit in 32 bytes for signatures of honest hashes (probability 2^-128): exercised on directed constructions at function level only",
		"blocks that carry mutated transactions are re-signed with the publisher key (the role 'transaction in a block' is what is tested, not the block signature)",
		"held on the cases generated; not a proof",
	)
}

// ---------------------------------------------------------------------------------
// producer side

func checkProduced(api string, sig cipher.Sig, ctx map[string]interface{}) {
	r.Eval(1)
	r.Count("produced."+api, 1)
	if sig[64]&1 == 1 {
		r.Count("produced.recid-odd", 1)
	}
	if form := txk.SigForm(sig); form != "" {
		if !capped("produced/" + api + "/" + form) {
			ctx["sig"] = hx(sig[:])
			r.Violation("produced-noncanonical", map[string]string{"api": api, "form": form}, ctx)
		}
	}
}

func legProducer() {
	n := txk.Scaled(r.Pick(4000, 100000))
	vf.Parallel(n, 16, func(i int) {
		g := r.Rand("producer", i)
		d := txk.Scalar(g)
		var sec cipher.SecKey
		copy(sec[:], refsecp.To32(d))
		msg := txk.RandHash(g)
		if i%16 == 0 {
			// boundary messages: tiny, huge (>= n), top bit patterns
			edge := [][]byte{refsecp.To32(big.NewInt(1)), refsecp.To32(refsecp.N), refsecp.To32(new(big.Int).Sub(refsecp.N, big.NewInt(1))), bytes.Repeat([]byte{0xFF}, 32), refsecp.To32(refsecp.HalfN)}
			copy(msg[:], edge[(i/16)%len(edge)])
		}
		var sig cipher.Sig
		var err error
		if p, m, frame := vf.Recover(func() { sig, err = cipher.SignHash(msg, sec) }); p {
			r.Count("produced.panic", 1)
			if !capped("producer-panic/" + frame) {
				r.Violation("panic", map[string]string{"call": "SignHash", "frame": frame, "msg": m}, map[string]interface{}{"sec": hx(sec[:]), "hash": hx(msg[:])})
			}
			return
		}
		if err != nil {
			r.Count("produced.SignHash.error", 1)
			return
		}
		checkProduced("SignHash", sig, map[string]interface{}{"sec": hx(sec[:]), "hash": hx(msg[:])})
	})
	// transactions
	m := txk.Scaled(r.Pick(600, 15000))
	vf.Parallel(m, 16, func(i int) {
		g := r.Rand("producer-txn", i)
		nIn := 1 + g.Intn(4)
		var t coin.Transaction
		keys := make([]cipher.SecKey, nIn)
		for j := 0; j < nIn; j++ {
			t.In = append(t.In, txk.RandHash(g))
			copy(keys[j][:], refsecp.To32(txk.Scalar(g)))
		}
		t.Out = append(t.Out, txk.Out(txk.RandAddr(g), uint64(1+g.Intn(1000)), uint64(g.Intn(1000))))
		if i%2 == 0 {
			if p, msg, frame := vf.Recover(func() { t.SignInputs(keys) }); p {
				r.Violation("panic", map[string]string{"call": "SignInputs", "frame": frame, "msg": msg}, nil)
				return
			}
			for _, s := range t.Sigs {
				checkProduced("SignInputs", s, map[string]interface{}{"txn": t})
			}
		} else {
			t.InnerHash = ledger.InnerHash(&t)
			for j := 0; j < nIn; j++ {
				var err error
				if p, msg, frame := vf.Recover(func() { err = t.SignInput(keys[j], j) }); p {
					r.Violation("panic", map[string]string{"call": "SignInput", "frame": frame, "msg": msg}, nil)
					return
				}
				if err != nil {
					r.Count("produced.SignInput.error", 1)
					continue
				}
				checkProduced("SignInput", t.Sigs[j], map[string]interface{}{"txn": t, "index": j})
			}
		}
	})
}

// ---------------------------------------------------------------------------------
// verifier side, signature level

type variant struct {
	name string
	sig  cipher.Sig
}

func sigVariants(sig cipher.Sig) []variant {
	vs := []variant{
		{"high-s-twin", txk.HighS(sig, true)},
		{"high-s-noflip", txk.HighS(sig, false)},
		{"recid+4", txk.RecID(sig, sig[64]+4)},
		{"recid+2", txk.RecID(sig, sig[64]^2)},
		{"recid=0xff", txk.RecID(sig, 0xFF)},
		{"recid|0x80", txk.RecID(sig, sig[64]|0x80)},
		{"recid^1", txk.RecID(sig, sig[64]^1)},
	}
	if v, ok := txk.RPlusN(sig); ok {
		vs = append(vs, variant{"r+n", v})
	}
	if v, ok := txk.SPlusN(sig); ok {
		vs = append(vs, variant{"s+n", v})
	}
	return vs
}

type sigAPI struct {
	name  string
	bound bool // bound to a key: any different signature accepted is malleability
	call  func(sig cipher.Sig) error
}

func keyAPIs(pub cipher.PubKey, addr cipher.Address, msg cipher.SHA256) []sigAPI {
	return []sigAPI{
		{"VerifyAddressSignedHash", true, func(s cipher.Sig) error { return cipher.VerifyAddressSignedHash(addr, s, msg) }},
		{"VerifyPubKeySignedHash", true, func(s cipher.Sig) error { return cipher.VerifyPubKeySignedHash(pub, s, msg) }},
		{"VerifySignatureRecoverPubKey", false, func(s cipher.Sig) error { return cipher.VerifySignatureRecoverPubKey(s, msg) }},
	}
}

// offerSig offers one variant to one API and judges the answer
func offerSig(api sigAPI, leg, transform string, orig, v cipher.Sig, ctx map[string]interface{}) (refused bool) {
	if v == orig {
		return false
	}
	r.Eval(1)
	var err error
	if p, msg, frame := vf.Recover(func() { err = api.call(v) }); p {
		r.Count(leg+".panic", 1)
		if !capped("panic/" + api.name + "/" + frame) {
			ctx["sig"] = hx(v[:])
			r.Violation("panic", map[string]string{"call": api.name, "frame": frame, "msg": msg, "transform": transform}, ctx)
		}
		return false
	}
	if err != nil {
		r.Count("fn.refused."+api.name, 1)
		return true
	}
	form := txk.SigForm(v)
	r.Count("fn.accepted-variant."+api.name+"."+transform, 1)
	w := map[string]interface{}{"original": hx(orig[:]), "variant": hx(v[:]), "transform": transform}
	for k, x := range ctx {
		w[k] = x
	}
	if form != "" {
		if !capped("noncanon/" + api.name + "/" + form) {
			r.Violation("noncanonical-accepted", map[string]string{"api": api.name, "form": form, "transform": transform, "leg": leg}, w)
		}
		return false
	}
	if api.bound {
		if !capped("malleable/" + api.name + "/" + transform) {
			r.Violation("malleable-signature", map[string]string{"api": api.name, "transform": transform, "leg": leg}, w)
		}
	}
	return false
}

func control(api string, err error, ctx map[string]interface{}) bool {
	if err == nil {
		r.Count("fn.control.accepted."+api, 1)
		return true
	}
	r.Count("fn.control.refused."+api, 1)
	if !capped("control/" + api) {
		r.Inconclusive(fmt.Sprintf("control: a valid canonical signature was refused by %s: %v (%v)", api, err, ctx))
	}
	return false
}

func legVerifier() {
	n := txk.Scaled(r.Pick(3000, 60000))
	vf.Parallel(n, 16, func(i int) {
		g := r.Rand("verifier", i)
		k := txk.NewKey(g)
		msg := txk.RandHash(g)
		var sig cipher.Sig
		src := "reference"
		if i%2 == 1 {
			src = "package"
			var err error
			sig, err = cipher.SignHash(msg, k.Sec)
			if err != nil {
				return
			}
		} else {
			sig = txk.Sign(k, msg, g)
		}
		ctx := map[string]interface{}{"pub": hx(k.Pub[:]), "hash": hx(msg[:]), "signer": src}
		apis := keyAPIs(k.Pub, k.Addr, msg)
		for _, a := range apis {
			var err error
			if p, _, _ := vf.Recover(func() { err = a.call(sig) }); p {
				err = fmt.Errorf("panic")
			}
			control(a.name, err, ctx)
		}
		for _, v := range sigVariants(sig) {
			r.Count("fn.offered."+v.name, 1)
			r.Distinct("fn:" + v.name + ":" + txk.SigForm(v.sig))
			for _, a := range apis {
				offerSig(a, "verifier", v.name, sig, v.sig, ctx)
			}
		}
		if i < 2 {
			twin := txk.HighS(sig, true)
			r.Sample(map[string]interface{}{"leg": "verifier", "pub": hx(k.Pub[:]), "hash": hx(msg[:]), "sig": hx(sig[:]), "high_s_twin": hx(twin[:])})
		}
	})
}

// ---------------------------------------------------------------------------------
// directed constructions

var two255 = new(big.Int).Lsh(big.NewInt(1), 255)

func modN(x *big.Int) *big.Int { return new(big.Int).Mod(x, refsecp.N) }

// solveMsg returns the message z for which (r,s) made with nonce k is a valid signature by d
func solveMsg(d, k, rr, s *big.Int) cipher.SHA256 {
	z := modN(new(big.Int).Sub(new(big.Int).Mul(s, k), new(big.Int).Mul(rr, d)))
	var h cipher.SHA256
	copy(h[:], refsecp.To32(z))
	return h
}

func legDirected() {
	// (1) s in (n/2, 2^255): high-s although the top bit of s is clear
	nWin := txk.Scaled(r.Pick(48, 600))
	vf.Parallel(nWin, 16, func(i int) {
		g := r.Rand("window", i)
		k := txk.NewKey(g)
		nonce := txk.Scalar(g)
		R := refsecp.Mul(nonce, refsecp.G())
		rr := modN(R.X)
		if rr.Sign() == 0 {
			return
		}
		var s *big.Int
		where := ""
		switch i % 4 {
		case 0:
			s, where = new(big.Int).Add(refsecp.HalfN, big.NewInt(1)), "n/2+1"
		case 1:
			s, where = new(big.Int).Sub(two255, big.NewInt(1)), "2^255-1"
		default:
			width := new(big.Int).Sub(two255, refsecp.HalfN)
			off := new(big.Int).Rand(g, new(big.Int).Sub(width, big.NewInt(2)))
			s, where = new(big.Int).Add(new(big.Int).Add(refsecp.HalfN, big.NewInt(1)), off), "random-in-window"
		}
		msg := solveMsg(k.D, nonce, rr, s)
		if msg == (cipher.SHA256{}) {
			return
		}
		recid := int(R.Y.Bit(0))
		if R.X.Cmp(refsecp.N) >= 0 {
			recid |= 2
		}
		sig := txk.ToSig(refsecp.Sig{R: rr, S: s, RecID: recid})
		// self-check of the construction with the textbook rule
		q, err := refsecp.Decompress(k.Pub[:])
		if err != nil || !refsecp.Verify(msg[:], rr, s, q) {
			r.Inconclusive("directed window construction is not a valid textbook signature (harness error)")
			return
		}
		if rec, ok := refsecp.Recover(msg[:], rr, s, recid); !ok || !bytes.Equal(refsecp.Compress(rec), k.Pub[:]) {
			r.Inconclusive("directed window construction does not recover the signer (harness error)")
			return
		}
		ctx := map[string]interface{}{"pub": hx(k.Pub[:]), "hash": hx(msg[:]), "s_position": where, "construction": "s chosen, message solved: z = s*k - r*d mod n"}
		low := txk.HighS(sig, true) // n-s with flipped parity: the canonical twin
		apis := keyAPIs(k.Pub, k.Addr, msg)
		r.Count("directed.window.offered", 1)
		r.Distinct("directed:window:" + where)
		for _, a := range apis {
			// the canonical twin is the control
			var cerr error
			vf.Recover(func() { cerr = a.call(low) })
			if cerr == nil {
				r.Count("directed.window.low-twin-accepted."+a.name, 1)
			}
			if offerSig(a, "directed-window", "s-in-(n/2,2^255):"+where, low, sig, ctx) {
				r.Count("directed.window.refused."+a.name, 1)
			} else {
				r.Count("directed.window.ACCEPTED."+a.name, 1)
			}
		}
	})

	// (2) small r (r+n fits in 32 bytes): R chosen, key recovered
	nSmall := txk.Scaled(r.Pick(24, 300))
	vf.Parallel(nSmall, 16, func(i int) {
		g := r.Rand("small-r", i)
		var x *big.Int
		var odd bool
		for {
			x = new(big.Int).Rand(g, new(big.Int).Lsh(big.NewInt(1), 128))
			odd = g.Intn(2) == 1
			if x.Sign() > 0 {
				if _, ok := refsecp.LiftX(x, odd); ok {
					break
				}
			}
		}
		s := new(big.Int).Rand(g, refsecp.HalfN)
		s.Add(s, big.NewInt(1))
		msg := txk.RandHash(g)
		recid := 0
		if odd {
			recid = 1
		}
		q, ok := refsecp.Recover(msg[:], x, s, recid)
		if !ok {
			return
		}
		var pub cipher.PubKey
		copy(pub[:], refsecp.Compress(q))
		addr := ledger.AddressOfPub(pub[:])
		sig := txk.ToSig(refsecp.Sig{R: x, S: s, RecID: recid})
		ctx := map[string]interface{}{"pub": hx(pub[:]), "hash": hx(msg[:]), "construction": "r < 2^128 chosen as a curve x, key recovered"}
		apis := keyAPIs(pub, addr, msg)
		for _, a := range apis {
			var err error
			vf.Recover(func() { err = a.call(sig) })
			control(a.name, err, ctx)
		}
		for _, v := range sigVariants(sig) {
			r.Count("directed.small-r."+v.name+".offered", 1)
			r.Distinct("directed:small-r:" + v.name)
			for _, a := range apis {
				offerSig(a, "directed-small-r", v.name, sig, v.sig, ctx)
			}
		}
	})

	// (3) r from a curve x in [n, p): recid 2/3 is the honest encoding
	nWrap := txk.Scaled(r.Pick(24, 300))
	pMinusN := new(big.Int).Sub(refsecp.P, refsecp.N)
	vf.Parallel(nWrap, 16, func(i int) {
		g := r.Rand("wrapped-r", i)
		var x *big.Int
		var odd bool
		for {
			x = new(big.Int).Add(refsecp.N, new(big.Int).Rand(g, pMinusN))
			odd = g.Intn(2) == 1
			if _, ok := refsecp.LiftX(x, odd); ok {
				break
			}
		}
		rr := new(big.Int).Sub(x, refsecp.N)
		if rr.Sign() == 0 {
			return
		}
		s := new(big.Int).Rand(g, refsecp.HalfN)
		s.Add(s, big.NewInt(1))
		msg := txk.RandHash(g)
		recid := 2
		if odd {
			recid = 3
		}
		q, ok := refsecp.Recover(msg[:], rr, s, recid)
		if !ok {
			return
		}
		var pub cipher.PubKey
		copy(pub[:], refsecp.Compress(q))
		addr := ledger.AddressOfPub(pub[:])
		sig := txk.ToSig(refsecp.Sig{R: rr, S: s, RecID: recid})
		ctx := map[string]interface{}{"pub": hx(pub[:]), "hash": hx(msg[:]), "construction": "r = x-n for a curve x in [n,p), recid 2|parity"}
		apis := keyAPIs(pub, addr, msg)
		r.Count("directed.wrapped-r.offered", 1)
		for _, a := range apis {
			// whether the honest recid-2/3 form is accepted is a curve-arithmetic question (C14): recorded only
			var err error
			vf.Recover(func() { err = a.call(sig) })
			if err == nil {
				r.Count("directed.wrapped-r.base-accepted."+a.name, 1)
			} else {
				r.Count("directed.wrapped-r.base-refused."+a.name, 1)
			}
		}
		for _, v := range sigVariants(sig) {
			r.Distinct("directed:wrapped-r:" + v.name)
			for _, a := range apis {
				offerSig(a, "directed-wrapped-r", v.name, sig, v.sig, ctx)
			}
		}
	})
}

// ---------------------------------------------------------------------------------
// verifier side, transaction / block functions

func legTxnFunctions() {
	n := txk.Scaled(r.Pick(400, 8000))
	vf.Parallel(n, 16, func(i int) {
		g := r.Rand("txn-fn", i)
		nIn := 1 + g.Intn(3)
		keys := make([]txk.Key, nIn)
		uxs := make(coin.UxArray, nIn)
		var t coin.Transaction
		for j := 0; j < nIn; j++ {
			keys[j] = txk.NewKey(g)
			uxs[j] = coin.UxOut{
				Head: coin.UxHead{Time: uint64(g.Intn(1 << 30)), BkSeq: uint64(g.Intn(1000))},
				Body: coin.UxBody{SrcTransaction: txk.RandHash(g), Address: keys[j].Addr, Coins: uint64(1+g.Intn(100)) * 1e6, Hours: uint64(g.Intn(1000))},
			}
			t.In = append(t.In, ledger.UxID(uxs[j]))
		}
		t.Out = append(t.Out, txk.Out(txk.RandAddr(g), 1e6, 1))
		txk.SignAll(&t, keys, g)

		var e1, e2 error
		vf.Recover(func() { e1 = t.Verify() })
		if p, msg, _ := vf.Recover(func() { e2 = t.VerifyInputSignatures(uxs) }); p {
			e2 = fmt.Errorf("panic: %s", msg)
		}
		ok1 := control("Transaction.Verify", e1, map[string]interface{}{"txn": hx(ledger.TxnBytes(&t))})
		ok2 := control("VerifyInputSignatures", e2, map[string]interface{}{"txn": hx(ledger.TxnBytes(&t))})
		j := g.Intn(nIn)
		for _, v := range sigVariants(t.Sigs[j]) {
			if v.sig == t.Sigs[j] {
				continue
			}
			m := txk.Clone(t)
			m.Sigs[j] = v.sig
			ctx := map[string]interface{}{"original": hx(ledger.TxnBytes(&t)), "variant": hx(ledger.TxnBytes(&m)), "transform": v.name, "index": j}
			form := txk.SigForm(v.sig)
			r.Count("fn.offered."+v.name, 1)
			if ok1 {
				r.Eval(1)
				var err error
				if p, msg, frame := vf.Recover(func() { err = m.Verify() }); p {
					r.Violation("panic", map[string]string{"call": "Transaction.Verify", "frame": frame, "msg": msg, "transform": v.name}, ctx)
				} else if err != nil {
					r.Count("fn.refused.Transaction.Verify", 1)
				} else if form != "" {
					// Verify is not bound to an owner: only the canonical-form rule applies
					if !capped("noncanon/Transaction.Verify/" + form) {
						r.Violation("noncanonical-accepted", map[string]string{"api": "Transaction.Verify", "form": form, "transform": v.name, "leg": "txn-fn"}, ctx)
					}
				} else {
					r.Count("fn.accepted-variant.Transaction.Verify."+v.name, 1)
				}
			}
			if ok2 {
				r.Eval(1)
				var err error
				if p, msg, frame := vf.Recover(func() { err = m.VerifyInputSignatures(uxs) }); p {
					r.Violation("panic", map[string]string{"call": "VerifyInputSignatures", "frame": frame, "msg": msg, "transform": v.name}, ctx)
				} else if err != nil {
					r.Count("fn.refused.VerifyInputSignatures", 1)
				} else {
					kind, attrs := "malleable-signature", map[string]string{"api": "VerifyInputSignatures", "transform": v.name, "leg": "txn-fn"}
					if form != "" {
						kind, attrs["form"] = "noncanonical-accepted", form
					}
					if !capped(kind + "/VerifyInputSignatures/" + v.name) {
						r.Violation(kind, attrs, ctx)
					}
				}
			}
		}

		// block signature
		pk := keys[0]
		hdr := coin.BlockHeader{Version: uint32(g.Intn(2)), Time: g.Uint64(), BkSeq: g.Uint64(), Fee: g.Uint64(), PrevHash: txk.RandHash(g), BodyHash: txk.RandHash(g), UxHash: txk.RandHash(g)}
		sb := coin.SignedBlock{Block: coin.Block{Head: hdr}, Sig: txk.Sign(pk, ledger.HeaderHash(hdr), g)}
		var e3 error
		vf.Recover(func() { e3 = sb.VerifySignature(pk.Pub) })
		if control("SignedBlock.VerifySignature", e3, map[string]interface{}{"header": hx(ledger.HeaderBytes(hdr)), "sig": hx(sb.Sig[:])}) {
			for _, v := range sigVariants(sb.Sig) {
				if v.sig == sb.Sig {
					continue
				}
				r.Eval(1)
				m := sb
				m.Sig = v.sig
				var err error
				ctx := map[string]interface{}{"header": hx(ledger.HeaderBytes(hdr)), "pub": hx(pk.Pub[:]), "original": hx(sb.Sig[:]), "variant": hx(v.sig[:])}
				if p, msg, frame := vf.Recover(func() { err = m.VerifySignature(pk.Pub) }); p {
					r.Violation("panic", map[string]string{"call": "SignedBlock.VerifySignature", "frame": frame, "msg": msg, "transform": v.name}, ctx)
				} else if err != nil {
					r.Count("fn.refused.SignedBlock.VerifySignature", 1)
				} else {
					kind, attrs := "malleable-signature", map[string]string{"api": "SignedBlock.VerifySignature", "transform": v.name, "leg": "txn-fn"}
					if form := txk.SigForm(v.sig); form != "" {
						kind, attrs["form"] = "noncanonical-accepted", form
					}
					if !capped(kind + "/SignedBlock.VerifySignature/" + v.name) {
						r.Violation(kind, attrs, ctx)
					}
				}
			}
		}
	})
}

// ---------------------------------------------------------------------------------
// roles on real nodes

// structOK reports that every structural rule of the statement of C09 holds, i.e. that the
// transaction gets as far as signature verification
func structOK(t *coin.Transaction) bool {
	if len(t.In) == 0 || len(t.Out) == 0 || len(t.Sigs) != len(t.In) || t.Type != 0 {
		return false
	}
	seen := map[cipher.SHA256]bool{}
	for _, in := range t.In {
		if seen[in] {
			return false
		}
		seen[in] = true
	}
	total := new(big.Int)
	outs := map[coin.TransactionOutput]bool{}
	for _, o := range t.Out {
		if o.Coins == 0 || outs[o] {
			return false
		}
		outs[o] = true
		total.Add(total, ledger.BigU(o.Coins))
	}
	if !ledger.Fits(total) || uint64(t.Length) != ledger.TxnSize(t) || ledger.InnerHash(t) != t.InnerHash {
		return false
	}
	for _, s := range t.Sigs {
		if s == (cipher.Sig{}) {
			return false
		}
	}
	return true
}

type mutant struct {
	transform string
	bytes     []byte
}

func txnTransforms(t coin.Transaction, g *rand.Rand) []mutant {
	var ms []mutant
	add := func(name string, m coin.Transaction) {
		ms = append(ms, mutant{name, ledger.TxnBytes(&m)})
	}
	for j := range t.Sigs {
		for _, v := range sigVariants(t.Sigs[j]) {
			m := txk.Clone(t)
			m.Sigs[j] = v.sig
			add(v.name, m)
		}
	}
	raw := ledger.TxnBytes(&t)
	for _, extra := range [][]byte{{0}, {0xFF}, make([]byte, 32), raw[:4]} {
		ms = append(ms, mutant{"trailing-bytes", append(append([]byte(nil), raw...), extra...)})
		// the same with the length field bumped to the new size
		b := append(append([]byte(nil), raw...), extra...)
		n := uint32(len(b))
		b[0], b[1], b[2], b[3] = byte(n), byte(n>>8), byte(n>>16), byte(n>>24)
		ms = append(ms, mutant{"trailing-bytes", b})
	}
	if len(t.In) >= 2 {
		m := txk.Clone(t)
		m.In[0], m.In[1] = m.In[1], m.In[0]
		m.Sigs[0], m.Sigs[1] = m.Sigs[1], m.Sigs[0]
		add("reorder-inputs+sigs", m)
		m2 := txk.Clone(m)
		txk.Seal(&m2)
		add("reorder-inputs+sigs.rehash", m2)
		m3 := txk.Clone(t)
		m3.In[0], m3.In[1] = m3.In[1], m3.In[0]
		txk.Seal(&m3)
		add("reorder-inputs-only.rehash", m3)
	}
	if len(t.Out) >= 2 {
		m := txk.Clone(t)
		m.Out[0], m.Out[1] = m.Out[1], m.Out[0]
		add("reorder-outputs", m)
		m2 := txk.Clone(m)
		txk.Seal(&m2)
		add("reorder-outputs.rehash", m2)
	}
	{
		m := txk.Clone(t)
		m.In = append(m.In, m.In[0])
		m.Sigs = append(m.Sigs, m.Sigs[0])
		m.Length = uint32(ledger.TxnSize(&m))
		add("dup-input", m)
		m2 := txk.Clone(m)
		txk.Seal(&m2)
		add("dup-input", m2)
	}
	return ms
}

type laneCtx struct {
	l    *txk.Lane
	g    *rand.Rand
	idx  int
	dead bool
}

func (lc *laneCtx) violation(kind string, attrs map[string]string, w map[string]interface{}) {
	attrs["lane"] = fmt.Sprint(lc.idx)
	r.Violation(kind, attrs, w)
}

// offerTxn offers mutated transaction bytes in both roles
func (lc *laneCtx) offerTxn(orig []byte, m mutant, tag string) {
	if bytes.Equal(orig, m.bytes) {
		return
	}
	r.Eval(1)
	pre := "role.txn." + tag
	r.Count(pre+".offered", 1)
	var t coin.Transaction
	var err error
	if p, msg, frame := vf.Recover(func() { t, err = coin.DeserializeTransaction(m.bytes) }); p {
		if !capped("panic/decode/" + frame) {
			lc.violation("panic", map[string]string{"call": "DeserializeTransaction", "frame": frame, "msg": msg}, map[string]interface{}{"bytes": hx(m.bytes)})
		}
		return
	}
	if err != nil {
		r.Count(pre+".decode-failed", 1)
		return
	}
	reached := structOK(&t)
	w := map[string]interface{}{"original": hx(orig), "mutant": hx(m.bytes), "transform": m.transform}

	// role: pool admission
	r.Count(pre+".offered.pool", 1)
	if reached {
		r.Count(pre+".reached-sig.pool", 1)
	}
	if p, msg, frame := vf.Recover(func() { _, _, err = lc.l.Fol.V.InjectForeignTransaction(t) }); p {
		if !capped("panic/inject/" + frame) {
			lc.violation("panic", map[string]string{"call": "InjectForeignTransaction", "frame": frame, "msg": msg, "transform": m.transform}, w)
		}
	} else if err == nil {
		r.Count(pre+".ACCEPTED.pool", 1)
		if !capped("accepted/pool/" + m.transform) {
			lc.violation("mutant-accepted", map[string]string{"role": "pool-admission", "object": "transaction", "transform": m.transform}, w)
		}
	} else {
		r.Count(pre+".refused.pool", 1)
	}

	// role: member of a publisher-signed block
	if lc.dead {
		return
	}
	r.Count(pre+".offered.block", 1)
	if reached {
		r.Count(pre+".reached-sig.block", 1)
	}
	when := lc.l.M.HeadTime() + 10
	sb := lc.l.Chain.SignBlock(lc.l.RawBlock(coin.Transactions{t}, when))
	if p, msg, frame := vf.Recover(func() { err = lc.l.Fol.V.ExecuteSignedBlock(sb) }); p {
		if !capped("panic/execute/" + frame) {
			lc.violation("panic", map[string]string{"call": "ExecuteSignedBlock", "frame": frame, "msg": msg, "transform": m.transform}, w)
		}
	} else if err == nil {
		r.Count(pre+".ACCEPTED.block", 1)
		lc.dead = true // the follower left the modelled chain; the lane stops offering blocks
		if !capped("accepted/block/" + m.transform) {
			lc.violation("mutant-accepted", map[string]string{"role": "block-acceptance", "object": "transaction", "transform": m.transform}, w)
		}
	} else {
		r.Count(pre+".refused.block", 1)
	}
}

// offerBlock offers mutated block bytes for block acceptance
func (lc *laneCtx) offerBlock(orig []byte, mb []byte, transform, tag string) {
	if bytes.Equal(orig, mb) || lc.dead {
		return
	}
	r.Eval(1)
	pre := "role.block." + tag
	r.Count(pre+".offered", 1)
	var sb coin.SignedBlock
	var err error
	if p, msg, frame := vf.Recover(func() { err = encoder.DeserializeRawExact(mb, &sb) }); p {
		if !capped("panic/decode-block/" + frame) {
			lc.violation("panic", map[string]string{"call": "DeserializeRawExact(SignedBlock)", "frame": frame, "msg": msg}, map[string]interface{}{"bytes": hx(mb)})
		}
		return
	}
	if err != nil {
		r.Count(pre+".decode-failed", 1)
		return
	}
	w := map[string]interface{}{"original": hx(orig), "mutant": hx(mb), "transform": transform}
	if p, msg, frame := vf.Recover(func() { err = lc.l.Fol.V.ExecuteSignedBlock(sb) }); p {
		if !capped("panic/execute/" + frame) {
			lc.violation("panic", map[string]string{"call": "ExecuteSignedBlock", "frame": frame, "msg": msg, "transform": transform}, w)
		}
	} else if err == nil {
		r.Count(pre+".ACCEPTED", 1)
		lc.dead = true
		if !capped("accepted/blockbytes/" + transform) {
			lc.violation("mutant-accepted", map[string]string{"role": "block-acceptance", "object": "block", "transform": transform}, w)
		}
	} else {
		r.Count(pre+".refused", 1)
	}
	// the same bytes offered to a node in block-publisher (arbitrating) configuration holding the
	// same chain: a publisher node receives blocks from peers too and must refuse them alike
	if arb := lc.l.Arb; arb != nil && !lc.dead {
		r.Count(pre+".publisher-mode.offered", 1)
		if p, msg, frame := vf.Recover(func() { err = arb.V.ExecuteSignedBlock(sb) }); p {
			if !capped("panic/execute-arb/" + frame) {
				lc.violation("panic", map[string]string{"call": "ExecuteSignedBlock(publisher-mode)", "frame": frame, "msg": msg, "transform": transform}, w)
			}
		} else if err == nil {
			r.Count(pre+".publisher-mode.ACCEPTED", 1)
			lc.dead = true
			if !capped("accepted/blockbytes-arb/" + transform) {
				lc.violation("mutant-accepted", map[string]string{"role": "block-acceptance(publisher-mode node)", "object": "block", "transform": transform}, w)
			}
		} else {
			r.Count(pre+".publisher-mode.refused", 1)
		}
	}
}

var shapes = [][2]int{{1, 1}, {2, 2}, {1, 2}, {2, 1}, {3, 2}}

func legRoles() {
	lanes := r.Pick(16, 48)
	perLane := txk.Scaled(r.Pick(3, 13)) // transactions (and blocks) per lane: q 48, t 624
	bodyBits := r.Pick(150, 600)
	root := vf.TempDir("c10")
	defer os.RemoveAll(root)
	vf.Parallel(lanes, 16, func(li int) {
		dir := filepath.Join(root, fmt.Sprint(li))
		_ = os.MkdirAll(dir, 0755)
		defer os.RemoveAll(dir)
		g := r.Rand("lane", li)
		l, err := txk.NewLane(fmt.Sprintf("c10-s%d-l%d", r.Seed, li), dir, 100000000000000, 8, 4, 2, nil)
		if err != nil {
			r.Inconclusive(fmt.Sprintf("lane %d setup: %v", li, err))
			return
		}
		defer l.Close()
		lc := &laneCtx{l: l, g: g, idx: li}
		if p, msg, frame := vf.Recover(func() { lc.run(perLane, bodyBits) }); p {
			r.Inconclusive(fmt.Sprintf("lane %d: harness panic %s at %s", li, msg, frame))
		}
	})
}

func (lc *laneCtx) run(perLane, bodyBits int) {
	l, g := lc.l, lc.g
	// block 1 is created and signed by the publisher node itself from a pooled transaction (producer
	// side, block signing); it is then given to the follower
	gen := l.Utxos()
	var outs []coin.TransactionOutput
	nUsers := len(l.Keys) - 4
	per := uint64(1000000000) // 1000 coins
	nOuts := 8 * perLane
	if nOuts < 16 {
		nOuts = 16
	}
	var spent uint64
	for i := 0; i < nOuts; i++ {
		outs = append(outs, txk.Out(l.Keys[4+i%nUsers].Addr, per+uint64(i)*1000000, 100000+uint64(i)))
		spent += per + uint64(i)*1000000
	}
	outs = append(outs, txk.Out(l.GenKey.Addr, gen[0].Body.Coins-spent, 1000000))
	first := l.MakeTxn(gen, outs, g)
	if _, _, _, err := l.Pub.V.InjectUserTransaction(first); err != nil {
		r.Inconclusive(fmt.Sprintf("lane %d: publisher refused the fan-out transaction: %v", lc.idx, err))
		return
	}
	sb, err := l.Pub.V.VerifCreateAndExecuteBlock(l.NextTime(3600))
	if err != nil {
		r.Inconclusive(fmt.Sprintf("lane %d: publisher could not create block 1: %v", lc.idx, err))
		return
	}
	checkProduced("node-block", sb.Sig, map[string]interface{}{"header": hx(ledger.HeaderBytes(sb.Head))})
	if err := l.Commit(sb); err != nil {
		r.Inconclusive(fmt.Sprintf("lane %d: follower refused the publisher's block 1: %v", lc.idx, err))
		return
	}

	for k := 0; k < perLane && !lc.dead; k++ {
		shape := shapes[(lc.idx+k)%len(shapes)]
		var in []coin.UxOut
		users := l.Utxos()
		for _, ux := range users {
			if ux.Body.Address != l.GenKey.Addr && len(in) < shape[0] {
				// different owners where possible
				dup := false
				for _, x := range in {
					if x.Body.Address == ux.Body.Address {
						dup = true
					}
				}
				if !dup {
					in = append(in, ux)
				}
			}
		}
		if len(in) < shape[0] {
			r.Inconclusive(fmt.Sprintf("lane %d: ran out of unspent outputs", lc.idx))
			return
		}
		var coins, hours uint64
		for _, ux := range in {
			coins += ux.Body.Coins
			a, _ := ledger.Accrued(ux, l.M.HeadTime())
			hours += a.Uint64()
		}
		var touts []coin.TransactionOutput
		if shape[1] == 1 || coins < 2000000 {
			touts = []coin.TransactionOutput{txk.Out(l.Keys[4+g.Intn(nUsers)].Addr, coins, hours/4)}
		} else {
			touts = []coin.TransactionOutput{
				txk.Out(l.Keys[4+g.Intn(nUsers)].Addr, coins-1000000, hours/4),
				txk.Out(l.Keys[4+g.Intn(nUsers)].Addr, 1000000, hours/8),
			}
		}
		t := l.MakeTxn(in, touts, g)
		if hard := l.M.TxnSingleHard(&t); len(hard) > 0 {
			r.Inconclusive(fmt.Sprintf("lane %d: generated base transaction is not valid per model: %v", lc.idx, hard))
			return
		}
		raw := ledger.TxnBytes(&t)
		r.Distinct("base-txn:" + hx(raw[:16]))
		if lc.idx == 0 && k == 0 {
			r.Sample(map[string]interface{}{"leg": "roles", "base_txn": hx(raw), "bits": len(raw) * 8, "shape": fmt.Sprint(shape)})
		}

		// every single-bit flip
		for b := 0; b < len(raw)*8; b++ {
			lc.offerTxn(raw, mutant{"bitflip", txk.FlipBit(raw, b)}, "bitflip")
		}
		// structured transforms
		for _, m := range txnTransforms(t, g) {
			lc.offerTxn(raw, m, m.transform)
			r.Distinct("role:txn:" + m.transform)
		}
		if lc.dead {
			return
		}
		// controls: the unmodified bytes are accepted in both roles
		dt, err := coin.DeserializeTransaction(raw)
		if err != nil {
			r.Inconclusive(fmt.Sprintf("lane %d: base transaction does not decode: %v", lc.idx, err))
			return
		}
		if _, softErr, err := l.Fol.V.InjectForeignTransaction(dt); err != nil || softErr != nil {
			r.Inconclusive(fmt.Sprintf("lane %d: control: base transaction not admitted: %v %v", lc.idx, err, softErr))
			return
		}
		r.Count("role.txn.controls.pool", 1)

		// the block that carries it: first the block-level mutations, then the block itself
		blk := l.SignBlock(l.RawBlock(coin.Transactions{dt}, l.NextTime(uint64(10+g.Intn(5000)))), g)
		braw := encoder.Serialize(blk)
		r.Distinct("base-block:" + hx(braw[:16]))
		nb := len(braw)
		for b := 0; b < 124*8; b++ {
			lc.offerBlock(braw, txk.FlipBit(braw, b), "bitflip", "bitflip.header")
		}
		for b := (nb - 65) * 8; b < nb*8; b++ {
			lc.offerBlock(braw, txk.FlipBit(braw, b), "bitflip", "bitflip.sig")
		}
		bodyLen := (nb - 65 - 124) * 8
		if bodyBits >= bodyLen {
			for b := 0; b < bodyLen; b++ {
				lc.offerBlock(braw, txk.FlipBit(braw, 124*8+b), "bitflip", "bitflip.body")
			}
		} else {
			for _, b := range g.Perm(bodyLen)[:bodyBits] {
				lc.offerBlock(braw, txk.FlipBit(braw, 124*8+b), "bitflip", "bitflip.body")
			}
		}
		for _, v := range sigVariants(blk.Sig) {
			m := blk
			m.Sig = v.sig
			lc.offerBlock(braw, encoder.Serialize(m), v.name, v.name)
			r.Distinct("role:block:" + v.name)
		}
		for _, extra := range [][]byte{{0}, {0xFF}, make([]byte, 65)} {
			lc.offerBlock(braw, append(append([]byte(nil), braw...), extra...), "trailing-bytes", "trailing-bytes")
		}
		if lc.dead {
			return
		}
		var cb coin.SignedBlock
		if err := encoder.DeserializeRawExact(braw, &cb); err != nil {
			r.Inconclusive(fmt.Sprintf("lane %d: base block does not decode: %v", lc.idx, err))
			return
		}
		if err := l.Commit(cb); err != nil {
			r.Inconclusive(fmt.Sprintf("lane %d: control: base block refused: %v (model %v)", lc.idx, err, l.M.BlockConds(&cb)))
			return
		}
		r.Count("role.block.controls", 1)
		r.Count("role.txn.controls.block", 1)
	}
}

// ---------------------------------------------------------------------------------

// replay re-offers the signature of a recorded function-level violation; node-level violations
// are reproduced by running the check again with the recorded seed (lanes are seeded)
func replay(path string) {
	b, err := ioutil.ReadFile(path)
	if err != nil {
		fmt.Fprintln(os.Stderr, err)
		os.Exit(3)
	}
	var doc struct {
		Seed    int64             `json:"seed"`
		Attrs   map[string]string `json:"attrs"`
		Witness struct {
			Pub      string `json:"pub"`
			Hash     string `json:"hash"`
			Original string `json:"original"`
			Variant  string `json:"variant"`
			Mutant   string `json:"mutant"`
		} `json:"witness"`
	}
	if err := json.Unmarshal(b, &doc); err != nil {
		fmt.Fprintln(os.Stderr, err)
		os.Exit(3)
	}
	pubB, _ := hex.DecodeString(doc.Witness.Pub)
	hashB, _ := hex.DecodeString(doc.Witness.Hash)
	varB, _ := hex.DecodeString(doc.Witness.Variant)
	if len(pubB) != 33 || len(hashB) != 32 || len(varB) != 65 {
		fmt.Printf("replay: not a signature-level witness; run the check with VERIF_SEED=%d to reproduce\n", doc.Seed)
		os.Exit(3)
	}
	var pub cipher.PubKey
	var msg cipher.SHA256
	var sig cipher.Sig
	copy(pub[:], pubB)
	copy(msg[:], hashB)
	copy(sig[:], varB)
	addr := ledger.AddressOfPub(pub[:])
	fmt.Printf("replay: signature form=%q canonical=%v\n", txk.SigForm(sig), txk.Canonical(sig))
	for _, a := range keyAPIs(pub, addr, msg) {
		var orig cipher.Sig
		if ob, _ := hex.DecodeString(doc.Witness.Original); len(ob) == 65 {
			copy(orig[:], ob)
		}
		r.Count("fn.offered.replay", 1)
		refused := offerSig(a, "replay", doc.Attrs["transform"], orig, sig, map[string]interface{}{"pub": doc.Witness.Pub, "hash": doc.Witness.Hash})
		fmt.Printf("replay: %s refused=%v\n", a.name, refused)
	}
	r.Distinct("replay:a")
	r.Distinct("replay:b")
	r.Finish("replay of one recorded signature-level case")
}
