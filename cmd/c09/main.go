// C09 — transaction validity is exactly the documented rule set; decoding is canonical.
//
// Leg "wf" (differential, booleans only): generated transactions — valid signed, partially
// signed, unsigned — carrying zero to three rule-breaking mutations drawn independently, boundary
// element counts, and random structs, are given to coin.Transaction.Verify / VerifyUnsigned; the
// accept/reject answer is compared with lib/ledger.WellFormed, which states the rule list of the
// property with math/big sums, the harness' own encodings and textbook signature recovery.
//
// Leg "decode" (child processes): random bytes and mutated valid encodings are given to
// coin.DeserializeTransaction: it must fail or produce a transaction whose re-encoding (by the
// package and by the harness' own layout) is the identical byte string; a panic is a violation.
package main

import (
	"bytes"
	"encoding/hex"
	"encoding/json"
	"fmt"
	"io/ioutil"
	"math/big"
	"math/rand"
	"os"
	"sort"
	"strconv"
	"strings"
	"sync"
	"time"

	"github.com/skycoin/skycoin/src/cipher"
	"github.com/skycoin/skycoin/src/coin"

	"verif/lib/ledger"
	"verif/lib/refsecp"
	"verif/lib/txk"
	"verif/lib/vf"
)

var r *vf.Run

// rules that the generator can break on purpose; the model decides what is actually broken
var breakable = []string{
	"no-inputs", "no-outputs", "sig-count", "dup-input", "dup-output", "type", "zero-coin-output",
	"out-coins-overflow", "length", "inner-hash", "null-sig", "bad-sig",
}

// every label the model can emit for the signed check (floors are set over these)
var signedRules = breakable

var (
	capMu           sync.Mutex
	capSeen         = map[string]int{}
	fullySignedOnce sync.Once
)

func capped(key string) bool {
	capMu.Lock()
	defer capMu.Unlock()
	capSeen[key]++
	return capSeen[key] > 3
}

func main() {
	if vf.ChildMode() == "decode" {
		decodeChild()
		return
	}
	r = vf.Start("C09", "exploration")
	if p := r.ReplayPath(); p != "" {
		replay(p)
	}
	legWellFormed()
	legBoundary()
	legDecode()

	for _, rule := range signedRules {
		r.Floor("signed.sole."+rule, 20)
		r.Floor("signed.combo."+rule, 20)
	}
	for _, rule := range []string{"no-inputs", "no-outputs", "sig-count", "dup-input", "dup-output", "type", "zero-coin-output", "out-coins-overflow", "length", "inner-hash", "bad-sig"} {
		r.Floor("unsigned.sole."+rule, 10)
		r.Floor("unsigned.combo."+rule, 10)
	}
	r.Floor("signed.wellformed.accepted", 500)
	r.Floor("unsigned.wellformed.accepted", 500)
	r.Floor("unsigned.partial.accepted", 100)
	r.Floor("unsigned.allnull.accepted", 100)
	r.Floor("badsig.form.high-s-twin", 10)
	r.Floor("badsig.form.recid+4", 10)
	r.Floor("badsig.form.r-off-curve", 10)
	r.Floor("sigok.form.other-message", 10)
	r.Floor("boundary.cases", 6)
	r.Floor("decode.cases", 1000)
	r.Floor("decode.ok.roundtrip", 200)
	r.Floor("decode.error", 200)
	r.Floor("decode.children.ok", 1)
	r.Extra("cpu_s", txk.CPUSeconds())
	r.Finish("wf: seeded transactions (1-8 inputs/outputs; fully signed, partially signed, all-null) built with the harness' own encodings and textbook ECDSA, with 0-3 independently drawn rule-breaking mutations (no inputs, no outputs, signature count, repeated input, identical outputs, type, zero-coin output, coin sum >= 2^64, length field, inner hash, null signature, nine kinds of unrecoverable/non-canonical signature) plus boundary element counts 65535/65536 and random structs; Verify()==nil and VerifyUnsigned()==nil are compared with the rule list of the statement (booleans only). A case is non-trivial when the model finds a distinct set of broken rules for a distinct shape; counters signed.sole.<rule> / signed.combo.<rule> show every rule as the only failing one and in combination. decode: random bytes, valid encodings, bit flips, truncations, extensions and count-prefix edits: error or byte-identical re-encoding, never a panic.",
		"lib/ledger.WellFormed states the rule list correctly; it uses math/big, its own byte layout and lib/refsecp (textbook recovery; signature must be low-s with recovery id < 4 as property C10 states)",
		"VerifyUnsigned of a transaction without any null signature: the statement is silent (the function's documentation requires one); such cases are counted (unsigned.fully_signed.*) and not asserted",
		"transactions with more than 65535 inputs/outputs/signatures have no encoding, hence no length field equal to the encoded size: expected not well formed",
		"held on the cases generated; not a proof",
	)
}

// ---------------------------------------------------------------------------------
// generator

type genCase struct {
	T      coin.Transaction
	Intent []string
	Shape  string
	Notes  []string
}

func pickN(g *rand.Rand) int {
	return []int{1, 1, 1, 2, 2, 2, 3, 3, 4, 8}[g.Intn(10)]
}

func has(l []string, s string) bool {
	for _, x := range l {
		if x == s {
			return true
		}
	}
	return false
}

var two64 = new(big.Int).Lsh(big.NewInt(1), 64)

// offCurveR finds an r in [1,n-1] that is not the x coordinate of a curve point
func offCurveR(g *rand.Rand) *big.Int {
	for {
		x := txk.Scalar(g)
		if _, ok := refsecp.LiftX(x, false); !ok {
			return x
		}
	}
}

// badSig returns a signature that must not count as valid and recoverable, and its form name
func badSig(g *rand.Rand, good cipher.Sig) (cipher.Sig, string) {
	switch g.Intn(11) {
	case 0:
		return txk.HighS(good, true), "high-s-twin"
	case 1:
		return txk.HighS(good, false), "high-s-noflip"
	case 2:
		return txk.RecID(good, good[64]+4), "recid+4"
	case 3:
		return txk.RecID(good, 0xFF), "recid=0xff"
	case 4:
		s := good
		for i := 0; i < 32; i++ {
			s[i] = 0
		}
		return s, "r=0"
	case 5:
		s := good
		for i := 32; i < 64; i++ {
			s[i] = 0
		}
		return s, "s=0"
	case 6:
		s := good
		v := new(big.Int).Add(refsecp.N, big.NewInt(int64(g.Intn(3))))
		copy(s[:32], refsecp.To32(v))
		return s, "r>=n"
	case 7:
		s := good
		copy(s[32:64], refsecp.To32(refsecp.N))
		return s, "s=n"
	case 8:
		s := good
		copy(s[:32], refsecp.To32(offCurveR(g)))
		return s, "r-off-curve"
	case 9:
		// recid with the "r overflowed" bit: r+n is not below p for any ordinary r
		return txk.RecID(good, good[64]|2), "recid+2"
	default:
		s := good
		s[64] = byte(4 + g.Intn(252))
		return s, "recid-random>=4"
	}
}

// gen builds one case. nb rule breaks are drawn independently from the breakable list.
func gen(g *rand.Rand) genCase {
	var c genCase
	nb := []int{0, 1, 1, 1, 1, 1, 2, 2, 2, 3}[g.Intn(10)]
	for len(c.Intent) < nb {
		b := breakable[g.Intn(len(breakable))]
		if !has(c.Intent, b) {
			c.Intent = append(c.Intent, b)
		}
	}
	sort.Strings(c.Intent)
	want := func(s string) bool { return has(c.Intent, s) }

	nIn, nOut := pickN(g), pickN(g)
	if (want("dup-input")) && nIn < 2 {
		nIn = 2 + g.Intn(2)
	}
	if (want("dup-output") || want("out-coins-overflow")) && nOut < 2 {
		nOut = 2 + g.Intn(2)
	}
	need := 0
	if want("out-coins-overflow") {
		need += 2
	}
	if want("zero-coin-output") {
		need++
	}
	if want("dup-output") {
		need += 2
	}
	if nOut < need {
		nOut = need
	}
	if want("no-inputs") {
		nIn = 0
	}
	if want("no-outputs") {
		nOut = 0
	}
	t := &c.T
	for i := 0; i < nIn; i++ {
		t.In = append(t.In, txk.RandHash(g))
	}
	if want("dup-input") && nIn >= 2 {
		i := g.Intn(nIn)
		j := (i + 1 + g.Intn(nIn-1)) % nIn
		t.In[j] = t.In[i]
	}
	for i := 0; i < nOut; i++ {
		coins := uint64(1 + g.Int63n(1e12))
		if g.Intn(4) == 0 {
			coins = uint64(1 + g.Intn(3))
		}
		hours := uint64(g.Int63())
		if g.Intn(3) == 0 {
			hours = g.Uint64() // output hours are not a well-formedness rule: any value, sums may wrap
		}
		a := txk.RandAddr(g)
		if g.Intn(8) == 0 {
			a = cipher.Address{} // the null address is not excluded by the rule list
		}
		if g.Intn(8) == 0 {
			a.Version = byte(g.Intn(256))
		}
		t.Out = append(t.Out, txk.Out(a, coins, hours))
	}
	// slots for the output mutations are distinct where possible
	slots := g.Perm(nOut)
	next := 0
	take := func() int { i := slots[next%len(slots)]; next++; return i }
	if want("out-coins-overflow") && nOut >= 2 {
		i, j := take(), take()
		switch g.Intn(3) {
		case 0:
			t.Out[i].Coins, t.Out[j].Coins = 1<<63, 1<<63
			if i == j {
				t.Out[i].Coins = 1 << 63
			}
		case 1:
			t.Out[i].Coins, t.Out[j].Coins = ^uint64(0), 1
		default:
			// exactly 2^64 in total over all outputs
			sum := new(big.Int)
			for k := range t.Out {
				if k != i {
					sum.Add(sum, ledger.BigU(t.Out[k].Coins))
				}
			}
			t.Out[i].Coins = new(big.Int).Sub(two64, sum).Uint64()
		}
	} else if nOut >= 2 && g.Intn(6) == 0 {
		// boundary: total exactly 2^64-1 (fits)
		i := take()
		sum := new(big.Int)
		for k := range t.Out {
			if k != i {
				sum.Add(sum, ledger.BigU(t.Out[k].Coins))
			}
		}
		t.Out[i].Coins = new(big.Int).Sub(new(big.Int).Sub(two64, big.NewInt(1)), sum).Uint64()
		c.Notes = append(c.Notes, "coins-total-2^64-1")
	}
	if want("zero-coin-output") && nOut >= 1 {
		t.Out[take()].Coins = 0
	}
	if want("dup-output") && nOut >= 2 {
		i := take()
		j := take()
		if i == j {
			j = (i + 1) % nOut
		}
		t.Out[j] = t.Out[i]
	} else if nOut >= 2 && g.Intn(5) == 0 {
		// near-duplicates: differ in exactly one field, not identical
		i, j := slots[0], slots[1]
		t.Out[j] = t.Out[i]
		switch g.Intn(3) {
		case 0:
			t.Out[j].Hours ^= 1
		case 1:
			t.Out[j].Coins ^= 1
			if t.Out[j].Coins == 0 {
				t.Out[j].Coins = 2
			}
		default:
			t.Out[j].Address.Key[g.Intn(20)] ^= 1
		}
		c.Notes = append(c.Notes, "near-dup-output")
	}

	t.InnerHash = ledger.InnerHash(t)
	if want("inner-hash") {
		if g.Intn(2) == 0 {
			t.InnerHash[g.Intn(32)] ^= 1 << uint(g.Intn(8))
		} else {
			t.InnerHash = txk.RandHash(g)
		}
	}
	if want("type") {
		t.Type = []byte{1, 2, 0x80, 0xFF, byte(1 + g.Intn(255))}[g.Intn(5)]
	}

	// signatures: over the stored inner hash, so that a wrong inner hash stays the only broken rule
	mode := g.Intn(4) // 0,1 fully signed; 2 partial; 3 all null
	c.Shape = fmt.Sprintf("in%d/out%d/mode%d", nIn, nOut, mode)
	t.Sigs = make([]cipher.Sig, nIn)
	signedIdx := []int{}
	for i := 0; i < nIn; i++ {
		null := mode == 3 || (mode == 2 && g.Intn(2) == 0)
		if null {
			continue
		}
		k := txk.Key{D: txk.Scalar(g)}
		t.Sigs[i] = txk.Sign(k, ledger.SigMsg(t.InnerHash, t.In[i]), g)
		signedIdx = append(signedIdx, i)
	}
	if want("null-sig") && nIn > 0 && len(signedIdx) == nIn {
		i := g.Intn(nIn)
		t.Sigs[i] = cipher.Sig{}
		signedIdx = append(signedIdx[:0:0], filterOut(signedIdx, i)...)
	}
	if want("bad-sig") && nIn > 0 {
		if len(signedIdx) == 0 {
			// make one real signature to spoil
			i := g.Intn(nIn)
			t.Sigs[i] = txk.Sign(txk.Key{D: txk.Scalar(g)}, ledger.SigMsg(t.InnerHash, t.In[i]), g)
			signedIdx = append(signedIdx, i)
		}
		i := signedIdx[g.Intn(len(signedIdx))]
		var form string
		t.Sigs[i], form = badSig(g, t.Sigs[i])
		c.Notes = append(c.Notes, "badsig:"+form)
	} else if len(signedIdx) > 0 && g.Intn(6) == 0 {
		// signatures that are canonical and recoverable but belong to another key or message:
		// still "valid and recoverable" as far as a context-free check can tell
		i := signedIdx[g.Intn(len(signedIdx))]
		switch g.Intn(2) {
		case 0:
			t.Sigs[i] = txk.Sign(txk.Key{D: txk.Scalar(g)}, txk.RandHash(g), g)
			c.Notes = append(c.Notes, "sigok:other-message")
		default:
			t.Sigs[i] = txk.RecID(t.Sigs[i], t.Sigs[i][64]^1)
			c.Notes = append(c.Notes, "sigok:recid^1")
		}
	}
	if want("sig-count") {
		switch {
		case len(t.Sigs) > 0 && g.Intn(2) == 0:
			t.Sigs = t.Sigs[:len(t.Sigs)-1]
		case g.Intn(2) == 0:
			t.Sigs = append(t.Sigs, cipher.Sig{})
		default:
			t.Sigs = append(t.Sigs, txk.Sign(txk.Key{D: txk.Scalar(g)}, txk.RandHash(g), g))
		}
	}
	t.Length = uint32(ledger.TxnSize(t))
	if want("length") {
		switch g.Intn(5) {
		case 0:
			t.Length++
		case 1:
			t.Length--
		case 2:
			t.Length = 0
		case 3:
			t.Length = ^uint32(0)
		default:
			t.Length ^= 1 << uint(g.Intn(32))
		}
	}
	return c
}

func filterOut(l []int, x int) []int {
	var out []int
	for _, v := range l {
		if v != x {
			out = append(out, v)
		}
	}
	return out
}

// randomStruct fills every field at random (no signing): mostly several rules broken
func randomStruct(g *rand.Rand) genCase {
	var c genCase
	t := &c.T
	nS, nI, nO := g.Intn(4), g.Intn(4), g.Intn(4)
	for i := 0; i < nS; i++ {
		var s cipher.Sig
		if g.Intn(3) > 0 {
			g.Read(s[:])
			if g.Intn(2) == 0 {
				s[64] = byte(g.Intn(4))
				s[32] &= 0x7F
			}
		}
		t.Sigs = append(t.Sigs, s)
	}
	for i := 0; i < nI; i++ {
		t.In = append(t.In, txk.RandHash(g))
	}
	for i := 0; i < nO; i++ {
		t.Out = append(t.Out, txk.Out(txk.RandAddr(g), uint64(g.Intn(3)), g.Uint64()))
	}
	if g.Intn(2) == 0 {
		t.InnerHash = ledger.InnerHash(t)
	} else {
		t.InnerHash = txk.RandHash(g)
	}
	if g.Intn(4) == 0 {
		t.Type = byte(g.Intn(256))
	}
	t.Length = uint32(ledger.TxnSize(t))
	if g.Intn(4) == 0 {
		t.Length = g.Uint32()
	}
	c.Shape = fmt.Sprintf("random/s%d/i%d/o%d", nS, nI, nO)
	c.Intent = []string{"random"}
	return c
}

// ---------------------------------------------------------------------------------
// evaluation

func witness(c *genCase, extra map[string]interface{}) map[string]interface{} {
	w := map[string]interface{}{
		"intent": c.Intent, "shape": c.Shape, "notes": c.Notes,
		"n_sigs": len(c.T.Sigs), "n_in": len(c.T.In), "n_out": len(c.T.Out),
	}
	if len(c.T.Sigs) <= 65535 && len(c.T.In) <= 65535 && len(c.T.Out) <= 65535 && ledger.TxnSize(&c.T) < 4096 {
		w["bytes"] = hex.EncodeToString(ledger.TxnBytes(&c.T))
		w["txn"] = c.T
	}
	for k, v := range extra {
		w[k] = v
	}
	return w
}

func evaluate(c *genCase) {
	t := &c.T
	r.Eval(1)
	signedBad := ledger.WellFormed(t, true)
	unsignedBad := ledger.WellFormed(t, false)

	var errS, errU error
	if p, msg, frame := vf.Recover(func() { errS = t.Verify() }); p {
		if !capped("panic/Verify/" + frame) {
			r.Violation("panic", map[string]string{"call": "Verify", "frame": frame, "msg": msg}, witness(c, nil))
		}
		return
	}
	if p, msg, frame := vf.Recover(func() { errU = t.VerifyUnsigned() }); p {
		if !capped("panic/VerifyUnsigned/" + frame) {
			r.Violation("panic", map[string]string{"call": "VerifyUnsigned", "frame": frame, "msg": msg}, witness(c, nil))
		}
		return
	}
	for _, n := range c.Notes {
		if strings.HasPrefix(n, "badsig:") {
			r.Count("badsig.form."+n[7:], 1)
		}
		if strings.HasPrefix(n, "sigok:") && len(signedBad) == 0 {
			r.Count("sigok.form."+n[6:], 1)
		}
		if n == "near-dup-output" || n == "coins-total-2^64-1" {
			r.Count("boundary."+n, 1)
		}
	}

	// --- signed check
	tally("signed", signedBad)
	r.Distinct("S:" + c.Shape + ":" + strings.Join(signedBad, ","))
	if len(signedBad) == 0 {
		if errS == nil {
			r.Count("signed.wellformed.accepted", 1)
		} else if !capped("S-rej/" + errS.Error()) {
			r.Violation("verify-rejects-wellformed", map[string]string{"check": "signed", "err": errS.Error(), "shape": c.Shape}, witness(c, nil))
		}
	} else {
		if errS != nil {
			r.Count("signed.malformed.rejected", 1)
		} else if !capped("S-acc/" + strings.Join(signedBad, ",")) {
			r.Violation("verify-accepts-malformed", map[string]string{"check": "signed", "rules": strings.Join(signedBad, ","), "shape": c.Shape, "notes": strings.Join(c.Notes, ",")}, witness(c, nil))
		}
	}

	// --- unsigned check
	needsNull := has(unsignedBad, "unsigned-needs-null")
	rest := []string{}
	for _, b := range unsignedBad {
		if b != "unsigned-needs-null" {
			rest = append(rest, b)
		}
	}
	if needsNull && len(rest) == 0 {
		// every listed rule holds and there is no null signature: the statement is silent
		if errU != nil {
			r.Count("unsigned.fully_signed.code_rejects", 1)
			if ledger.TxnSize(t) < 400 {
				fullySignedOnce.Do(func() {
					r.Extra("unsigned_fully_signed_example", map[string]interface{}{
						"bytes": hex.EncodeToString(ledger.TxnBytes(t)), "Verify": fmt.Sprint(errS), "VerifyUnsigned": errU.Error(),
						"note": "every listed rule holds and every signature is valid; VerifyUnsigned refuses because no signature is null (documented on the function, not in the property statement); not asserted",
					})
				})
			}
		} else {
			r.Count("unsigned.fully_signed.code_accepts", 1)
		}
		return
	}
	tally("unsigned", rest)
	r.Distinct("U:" + c.Shape + ":" + strings.Join(rest, ","))
	if len(rest) == 0 {
		if errU == nil {
			r.Count("unsigned.wellformed.accepted", 1)
			nulls := 0
			for _, s := range t.Sigs {
				if s == (cipher.Sig{}) {
					nulls++
				}
			}
			if nulls == len(t.Sigs) {
				r.Count("unsigned.allnull.accepted", 1)
			} else {
				r.Count("unsigned.partial.accepted", 1)
			}
		} else if !capped("U-rej/" + errU.Error()) {
			r.Violation("verify-rejects-wellformed", map[string]string{"check": "unsigned", "err": errU.Error(), "shape": c.Shape}, witness(c, nil))
		}
	} else {
		if errU != nil {
			r.Count("unsigned.malformed.rejected", 1)
		} else if !capped("U-acc/" + strings.Join(rest, ",")) {
			r.Violation("verify-accepts-malformed", map[string]string{"check": "unsigned", "rules": strings.Join(rest, ","), "shape": c.Shape, "notes": strings.Join(c.Notes, ",")}, witness(c, nil))
		}
	}
}

func tally(check string, bad []string) {
	if len(bad) == 1 {
		r.Count(check+".sole."+bad[0], 1)
	} else if len(bad) > 1 {
		for _, b := range bad {
			r.Count(check+".combo."+b, 1)
		}
	}
}

func legWellFormed() {
	n := txk.Scaled(r.Pick(24000, 400000))
	nRandom := txk.Scaled(r.Pick(6000, 120000))
	vf.Parallel(n, 16, func(i int) {
		g := r.Rand("wf", i)
		c := gen(g)
		evaluate(&c)
		if i < 3 {
			r.Sample(map[string]interface{}{"leg": "wf", "intent": c.Intent, "shape": c.Shape, "notes": c.Notes,
				"model_signed": ledger.WellFormed(&c.T, true), "model_unsigned": ledger.WellFormed(&c.T, false),
				"bytes": hex.EncodeToString(ledger.TxnBytes(&c.T))})
		}
	})
	vf.Parallel(nRandom, 16, func(i int) {
		g := r.Rand("random-struct", i)
		c := randomStruct(g)
		evaluate(&c)
	})
}

// ---------------------------------------------------------------------------------
// boundary element counts

func legBoundary() {
	g := r.Rand("boundary")
	mk := func(nIn, nOut int, signed int) genCase {
		var c genCase
		t := &c.T
		for i := 0; i < nIn; i++ {
			t.In = append(t.In, txk.RandHash(g))
		}
		for i := 0; i < nOut; i++ {
			t.Out = append(t.Out, txk.Out(txk.RandAddr(g), uint64(1+i%7), uint64(i)))
		}
		t.InnerHash = ledger.InnerHash(t)
		t.Sigs = make([]cipher.Sig, nIn)
		c.Shape = fmt.Sprintf("boundary/in%d/out%d/signed%d", nIn, nOut, signed)
		c.Intent = []string{"boundary"}
		return c
	}
	signSome := func(c *genCase, idx []int) {
		var mu sync.Mutex
		vf.Parallel(len(idx), 16, func(j int) {
			i := idx[j]
			gg := r.Rand("boundary-sig", c.Shape, i)
			s := txk.Sign(txk.Key{D: txk.Scalar(gg)}, ledger.SigMsg(c.T.InnerHash, c.T.In[i]), gg)
			// warm the reference cache in parallel
			ledger.RecoverSig(s, ledger.SigMsg(c.T.InnerHash, c.T.In[i]))
			mu.Lock()
			c.T.Sigs[i] = s
			mu.Unlock()
		})
	}
	seal := func(c *genCase) {
		if len(c.T.In) <= 65535 && len(c.T.Out) <= 65535 {
			c.T.Length = uint32(ledger.TxnSize(&c.T))
		} else {
			c.T.Length = uint32(ledger.TxnSize(&c.T) & 0xFFFFFFFF)
		}
	}
	run := func(c genCase) {
		seal(&c)
		evaluate(&c)
		r.Count("boundary.cases", 1)
	}
	// outputs at and over the limit, one signed input
	for _, nOut := range []int{65534, 65535, 65536} {
		c := mk(1, nOut, 1)
		signSome(&c, []int{0})
		run(c)
	}
	// inputs at and over the limit: all null (unsigned check) and one signed
	for _, nIn := range []int{65535, 65536} {
		c := mk(nIn, 1, 0)
		run(c)
		c2 := mk(nIn, 2, 1)
		signSome(&c2, []int{nIn / 2})
		run(c2)
	}
	if !r.Quick() {
		// fully signed at the limit
		c := mk(65535, 1, 65535)
		idx := make([]int, 65535)
		for i := range idx {
			idx[i] = i
		}
		signSome(&c, idx)
		run(c)
		r.Count("boundary.fully_signed_65535", 1)
	}
}

// ---------------------------------------------------------------------------------
// decode canonicity (child processes)

type childOut struct {
	Counts     map[string]int64         `json:"counts"`
	Distinct   []string                 `json:"distinct"`
	Violations []map[string]interface{} `json:"violations"`
}

func legDecode() {
	batches := r.Pick(8, 32)
	per := txk.Scaled(r.Pick(25000, 125000))
	dir := vf.TempDir("c09")
	defer os.RemoveAll(dir)
	vf.Parallel(batches, 8, func(b int) {
		d := fmt.Sprintf("%s/%d", dir, b)
		_ = os.MkdirAll(d, 0755)
		res := vf.RunChild(d, "", "decode", nil, []string{"C09_BATCH=" + strconv.Itoa(b), "C09_N=" + strconv.Itoa(per)}, 10*time.Minute)
		if res.TimedOut {
			r.Inconclusive(fmt.Sprintf("decode child %d exceeded the watchdog", b))
			return
		}
		if res.ExitCode != 0 || res.Signaled {
			head, frame := vf.CrashSignature(res.Stderr)
			r.Violation("decoder-crash", map[string]string{"frame": frame, "headline": head, "batch": fmt.Sprint(b)},
				map[string]interface{}{"stderr_tail": tail(res.Stderr, 3000), "batch": b, "n": per})
			return
		}
		var out childOut
		if err := json.Unmarshal(res.Stdout, &out); err != nil {
			r.Inconclusive(fmt.Sprintf("decode child %d output unreadable: %v", b, err))
			return
		}
		r.Count("decode.children.ok", 1)
		for k, v := range out.Counts {
			r.Count(k, v)
		}
		for _, k := range out.Distinct {
			r.Distinct(k)
		}
		r.Eval(out.Counts["decode.cases"])
		for _, v := range out.Violations {
			kind, _ := v["kind"].(string)
			attrs := map[string]string{}
			if a, ok := v["attrs"].(map[string]interface{}); ok {
				for k, x := range a {
					attrs[k] = fmt.Sprint(x)
				}
			}
			r.Violation(kind, attrs, v)
		}
	})
}

func tail(b []byte, n int) string {
	if len(b) > n {
		b = b[len(b)-n:]
	}
	return string(b)
}

// validBytes encodes a random (not necessarily well formed) transaction struct with the
// harness' own layout
func validBytes(g *rand.Rand) []byte {
	var t coin.Transaction
	nS, nI, nO := g.Intn(4), g.Intn(4), g.Intn(4)
	if g.Intn(20) == 0 {
		nS, nI, nO = g.Intn(40), g.Intn(40), g.Intn(40)
	}
	for i := 0; i < nS; i++ {
		var s cipher.Sig
		g.Read(s[:])
		t.Sigs = append(t.Sigs, s)
	}
	for i := 0; i < nI; i++ {
		t.In = append(t.In, txk.RandHash(g))
	}
	for i := 0; i < nO; i++ {
		a := txk.RandAddr(g)
		a.Version = byte(g.Intn(256))
		t.Out = append(t.Out, txk.Out(a, g.Uint64(), g.Uint64()))
	}
	t.Type = byte(g.Intn(256))
	t.Length = g.Uint32()
	if g.Intn(2) == 0 {
		t.Length = uint32(ledger.TxnSize(&t))
	}
	g.Read(t.InnerHash[:])
	return ledger.TxnBytes(&t)
}

func putU32(b []byte, off int, v uint32) {
	if off+4 <= len(b) {
		b[off], b[off+1], b[off+2], b[off+3] = byte(v), byte(v>>8), byte(v>>16), byte(v>>24)
	}
}

func getU32(b []byte, off int) uint32 {
	if off+4 > len(b) {
		return 0
	}
	return uint32(b[off]) | uint32(b[off+1])<<8 | uint32(b[off+2])<<16 | uint32(b[off+3])<<24
}

func decodeChild() {
	run := vf.Start("C09", "exploration")
	batch, _ := strconv.Atoi(os.Getenv("C09_BATCH"))
	n, _ := strconv.Atoi(os.Getenv("C09_N"))
	out := childOut{Counts: map[string]int64{}}
	seen := map[string]bool{}
	viol := func(kind string, attrs map[string]string, in []byte, more map[string]interface{}) {
		out.Counts["decode.violations"]++
		if len(out.Violations) >= 10 {
			return
		}
		v := map[string]interface{}{"kind": kind, "attrs": attrs, "input": hex.EncodeToString(in)}
		for k, x := range more {
			v[k] = x
		}
		out.Violations = append(out.Violations, v)
	}
	g := run.Rand("decode", batch)
	for i := 0; i < n; i++ {
		var b []byte
		class := ""
		switch x := g.Intn(100); {
		case x < 15:
			class = "random"
			b = make([]byte, g.Intn(400))
			g.Read(b)
		case x < 25:
			// random tail after a plausible fixed header with small counts
			class = "random-small-counts"
			b = make([]byte, 37+g.Intn(300))
			g.Read(b)
			putU32(b, 37, uint32(g.Intn(3)))
		case x < 40:
			class = "valid"
			b = validBytes(g)
		default:
			b = validBytes(g)
			switch m := g.Intn(8); m {
			case 0, 1:
				class = "bitflip"
				if len(b) > 0 {
					b = txk.FlipBit(b, g.Intn(len(b)*8))
				}
			case 2:
				class = "truncate"
				b = b[:g.Intn(len(b)+1)]
			case 3:
				class = "extend"
				ext := make([]byte, 1+g.Intn(70))
				if g.Intn(2) == 0 {
					g.Read(ext)
				}
				b = append(b, ext...)
			case 4, 5, 6:
				class = "count-edit"
				// the three count prefixes sit at 37, 41+65*nS, 45+65*nS+32*nI
				nS := int(getU32(b, 37))
				nI := int(getU32(b, 41+65*nS))
				offs := []int{37, 41 + 65*nS, 45 + 65*nS + 32*nI}
				off := offs[g.Intn(3)]
				cur := getU32(b, off)
				vals := []uint32{cur + 1, cur - 1, 0, 65535, 65536, 0xFFFFFFFF, 0x80000000, uint32(g.Intn(70000))}
				putU32(b, off, vals[g.Intn(len(vals))])
			default:
				class = "length-field-edit"
				putU32(b, 0, g.Uint32())
			}
		}
		out.Counts["decode.cases"]++
		out.Counts["decode.class."+class]++
		var txn coin.Transaction
		var err error
		p, msg, frame := vf.Recover(func() { txn, err = coin.DeserializeTransaction(b) })
		if p {
			viol("decode-panic", map[string]string{"frame": frame, "class": class, "msg": msg}, b, nil)
			continue
		}
		if err != nil {
			out.Counts["decode.error"]++
			out.Counts["decode.error."+class]++
			continue
		}
		var re []byte
		p, msg, frame = vf.Recover(func() { re, err = txn.Serialize() })
		if p {
			viol("reencode-panic", map[string]string{"frame": frame, "class": class, "msg": msg}, b, nil)
			continue
		}
		if err != nil {
			viol("decoded-not-reencodable", map[string]string{"class": class, "err": err.Error()}, b, nil)
			continue
		}
		if !bytes.Equal(re, b) {
			viol("reencode-differs", map[string]string{"class": class, "by": "package"}, b, map[string]interface{}{"reencoded": hex.EncodeToString(re)})
			continue
		}
		if own := ledger.TxnBytes(&txn); !bytes.Equal(own, b) {
			viol("reencode-differs", map[string]string{"class": class, "by": "documented-layout"}, b, map[string]interface{}{"reencoded": hex.EncodeToString(own)})
			continue
		}
		out.Counts["decode.ok.roundtrip"]++
		out.Counts["decode.ok."+class]++
		key := fmt.Sprintf("dec:%s:%d/%d/%d", class, len(txn.Sigs), len(txn.In), len(txn.Out))
		if !seen[key] {
			seen[key] = true
			out.Distinct = append(out.Distinct, key)
		}
	}
	enc, _ := json.Marshal(out)
	os.Stdout.Write(enc)
}

// ---------------------------------------------------------------------------------

func replay(path string) {
	b, err := ioutil.ReadFile(path)
	if err != nil {
		fmt.Fprintln(os.Stderr, err)
		os.Exit(3)
	}
	var doc struct {
		Witness struct {
			Bytes string `json:"bytes"`
			Input string `json:"input"`
		} `json:"witness"`
	}
	_ = json.Unmarshal(b, &doc)
	hx := doc.Witness.Bytes
	if hx == "" {
		hx = doc.Witness.Input
	}
	raw, err := hex.DecodeString(hx)
	if err != nil || len(raw) == 0 {
		fmt.Fprintln(os.Stderr, "replay file has no transaction bytes")
		os.Exit(3)
	}
	txn, err := coin.DeserializeTransaction(raw)
	fmt.Printf("replay: decode err=%v\n", err)
	if err == nil {
		re, _ := txn.Serialize()
		fmt.Printf("replay: reencode identical=%v\n", bytes.Equal(re, raw))
		fmt.Printf("replay: Verify=%v VerifyUnsigned=%v\n", txn.Verify(), txn.VerifyUnsigned())
		fmt.Printf("replay: model signed=%v unsigned=%v\n", ledger.WellFormed(&txn, true), ledger.WellFormed(&txn, false))
		c := genCase{T: txn, Shape: "replay", Intent: []string{"replay"}}
		evaluate(&c)
	}
	r.Finish("replay of one recorded case")
}
