// c32 decides property C32 (the connection pool is race-free and shuts down under any
// schedule) by running batches of stress rounds in `vpool` children built with -race and
// aggregating what their monitors and the race detector observed.
package main

import (
	"encoding/json"
	"fmt"
	"io/ioutil"
	"os"
	"path/filepath"
	"regexp"
	"sort"
	"strings"
	"sync"
	"time"

	"verif/lib/sched"
	"verif/lib/vf"
)

type viol struct {
	Kind   string            `json:"kind"`
	Attrs  map[string]string `json:"attrs"`
	Detail string            `json:"detail"`
}

type hang struct {
	Awaited string   `json:"awaited"`
	Witness bool     `json:"witness"`
	View    []string `json:"view"`
	Dump    string   `json:"dump"`
}

type roundResult struct {
	Round        int              `json:"round"`
	Mode         string           `json:"mode"`
	Workers      int              `json:"workers"`
	ListenFailed bool             `json:"listen_failed"`
	Ops          map[string]int64 `json:"ops"`
	Callbacks    map[string]int64 `json:"callbacks"`
	Reasons      map[string]int64 `json:"reasons"`
	Received     int64            `json:"received"`
	SendResults  int64            `json:"send_results"`
	Violations   []viol           `json:"violations"`
	Hang         *hang            `json:"hang"`
	OrderHash    string           `json:"order_hash"`
	ShutdownSig  string           `json:"shutdown_sig"`
	Points       [8]int64         `json:"points"`
	NoiseActs    [3]int64         `json:"noise_acts"`
	ShutdownUs   int64            `json:"shutdown_us"`
	Sizes        [5]int           `json:"sizes"`
	PeerSockets  int              `json:"peer_sockets"`
	PeerClosed   int              `json:"peer_closed"`
	PeerUnattrib int              `json:"peer_unattributed"`
	LogDropped   int64            `json:"log_dropped"`
	LateEvents   int64            `json:"late_events"`
	Note         string           `json:"note"`
}

var productPkgs = []string{
	"github.com/skycoin/skycoin/src/daemon/gnet",
	"github.com/skycoin/skycoin/src/daemon/strand",
}

type raceAgg struct {
	rep   sched.RaceReport
	count int
	round string
}

func main() {
	r := vf.Start("C32", "exploration")
	rounds := r.Pick(192, 3000)
	batch := r.Pick(12, 25)
	procs := 16
	bin := filepath.Join(os.Getenv("VERIF_BIN"), "vpool")
	if _, err := os.Stat(bin); err != nil {
		fmt.Fprintf(os.Stderr, "c32: vpool binary not found at %s (run through ./check)\n", bin)
		os.Exit(3)
	}
	sched.RepoDir = vf.RepoDir()
	tmp := vf.TempDir("c32") // removed before Finish (which exits the process)

	type job struct{ first, count int }
	var jobs []job
	for f := 0; f < rounds; f += batch {
		c := batch
		if f+c > rounds {
			c = rounds - f
		}
		jobs = append(jobs, job{f, c})
	}

	var mu sync.Mutex
	races := map[string]*raceAgg{}
	raceBlocks := 0
	orders := map[string]bool{}
	sigs := map[string]bool{}
	latency := map[string]int64{}
	hangs := 0
	type monAgg struct {
		v     viol
		n     int
		cases []map[string]interface{}
	}
	monViol := map[string]*monAgg{}
	var monOrder []string

	handleRound := func(rr *roundResult) {
		mu.Lock()
		defer mu.Unlock()
		if rr.Note == "late" {
			r.Count("late-callback-events", rr.LateEvents)
		} else if rr.ListenFailed {
			r.Count("rounds.setup-failed", 1)
			return
		} else {
			r.Eval(1)
			r.Count("rounds", 1)
			r.Count("rounds.mode."+rr.Mode, 1)
			r.Count("workers", int64(rr.Workers))
			for k, v := range rr.Ops {
				r.Count("op."+k, v)
				if !strings.HasPrefix(k, "phase:") {
					r.Count("ops", v)
				}
			}
			for k, v := range rr.Callbacks {
				r.Count(k, v)
			}
			for k, v := range rr.Reasons {
				if strings.HasPrefix(k, "other:") || strings.HasPrefix(k, "connfail:other:") {
					k = k[:strings.Index(k, "other:")+5]
				}
				r.Count("reason."+k, v)
			}
			r.Count("messages.handled", rr.Received)
			r.Count("send-results.drained", rr.SendResults)
			for i, n := range rr.Points {
				if i > 0 {
					r.Count("point."+sched.Points[i], n)
				}
			}
			r.Count("noise.yield", rr.NoiseActs[0])
			r.Count("noise.spin", rr.NoiseActs[1])
			r.Count("noise.sleep", rr.NoiseActs[2])
			r.Count("peer-sockets.checked", int64(rr.PeerSockets))
			r.Count("peer-sockets.closed-by-pool", int64(rr.PeerClosed))
			r.Count("peer-sockets.dialled-during-shutdown(not asserted)", int64(rr.PeerUnattrib))
			if rr.LogDropped > 0 {
				r.Inconclusive(fmt.Sprintf("round %d: callback log overflowed (%d events dropped)", rr.Round, rr.LogDropped))
			}
			if rr.Hang == nil {
				r.Count("shutdown.returned", 1)
				if rr.Sizes == [5]int{} {
					r.Count("shutdown.maps-empty", 1)
				}
				switch us := rr.ShutdownUs; {
				case us < 1000:
					latency["<1ms"]++
				case us < 10000:
					latency["<10ms"]++
				case us < 50000:
					latency["<50ms"]++
				case us < 250000:
					latency["<250ms"]++
				case us < 1000000:
					latency["<1s"]++
				default:
					latency[">=1s"]++
				}
				if !orders[rr.OrderHash] {
					orders[rr.OrderHash] = true
					r.Count("interleavings.distinct", 1)
					r.Distinct("order:" + rr.OrderHash)
				}
				if rr.ShutdownSig != "" && !sigs[rr.ShutdownSig] {
					sigs[rr.ShutdownSig] = true
					r.Count("shutdown-windows.distinct", 1)
				}
			}
		}
		for _, v := range rr.Violations {
			r.Count("monitor."+v.Kind, 1)
			key := v.Kind + fmt.Sprint(v.Attrs)
			mv := monViol[key]
			if mv == nil {
				mv = &monAgg{v: v}
				monViol[key] = mv
				monOrder = append(monOrder, key)
			}
			mv.n++
			if len(mv.cases) < 5 {
				mv.cases = append(mv.cases, map[string]interface{}{"round": rr.Round, "mode": rr.Mode, "detail": v.Detail,
					"rerun": fmt.Sprintf("GORACE='halt_on_error=0 exitcode=0' %s -seed %d -first %d -count 1 -out /dev/stdout", bin, r.Seed, rr.Round)})
			}
		}
		if rr.Hang != nil {
			hangs++
			r.Count("hang.watchdog-fired", 1)
			if rr.Hang.Witness {
				r.Count("hang.deadlock-witness", 1)
				r.Violation("hang", map[string]string{"awaited": rr.Hang.Awaited, "mode": rr.Mode, "blocked": blockedSig(rr.Hang.View)},
					map[string]interface{}{"round": rr.Round, "mode": rr.Mode, "awaited": rr.Hang.Awaited, "pool_goroutines": rr.Hang.View, "goroutine_dump": rr.Hang.Dump})
			} else {
				r.Inconclusive(fmt.Sprintf("round %d: watchdog fired while waiting for %s without a logical deadlock witness", rr.Round, rr.Hang.Awaited))
				_ = ioutil.WriteFile(filepath.Join(vf.Root(), "replays", fmt.Sprintf("C32-watchdog-seed%d-round%d.txt", r.Seed, rr.Round)), []byte(rr.Hang.Dump), 0644)
			}
		}
	}

	handleRaceLog := func(text string, where string) {
		reps := sched.ParseRaceReports(text, productPkgs)
		mu.Lock()
		defer mu.Unlock()
		raceBlocks += len(reps)
		for _, rep := range reps {
			a := races[rep.Key]
			if a == nil {
				a = &raceAgg{rep: rep, round: where}
				races[rep.Key] = a
			}
			a.count++
		}
	}

	vf.Parallel(len(jobs), procs, func(i int) {
		j := jobs[i]
		first, left := j.first, j.count
		for attempt := 0; left > 0 && attempt < j.count+2; attempt++ {
			dir := filepath.Join(tmp, fmt.Sprintf("job%d-%d", i, attempt))
			_ = os.MkdirAll(dir, 0755)
			outPath := filepath.Join(dir, "rounds.jsonl")
			env := []string{
				"GORACE=halt_on_error=0 exitcode=0 history_size=5 log_path=" + filepath.Join(dir, "race"),
				"GOMEMLIMIT=3GiB",
			}
			args := []string{"-seed", fmt.Sprint(r.Seed), "-first", fmt.Sprint(first), "-count", fmt.Sprint(left),
				"-slot", fmt.Sprint(i % procs), "-out", outPath}
			res := vf.RunChild(dir, bin, "vpool", args, env, time.Duration(left)*150*time.Second+120*time.Second)
			done := 0
			hung := false
			if b, err := ioutil.ReadFile(outPath); err == nil {
				for _, line := range strings.Split(string(b), "\n") {
					if strings.TrimSpace(line) == "" {
						continue
					}
					var rr roundResult
					if err := json.Unmarshal([]byte(line), &rr); err != nil {
						r.Inconclusive("unreadable child output: " + err.Error())
						continue
					}
					if rr.Note != "late" {
						done++
					}
					if rr.Hang != nil {
						hung = true
					}
					handleRound(&rr)
				}
			}
			matches, _ := filepath.Glob(filepath.Join(dir, "race.*"))
			for _, m := range matches {
				if b, err := ioutil.ReadFile(m); err == nil {
					handleRaceLog(string(b), fmt.Sprintf("rounds %d..%d", first, first+left-1))
				}
			}
			if strings.Contains(string(res.Stderr), "WARNING: DATA RACE") {
				handleRaceLog(string(res.Stderr), fmt.Sprintf("rounds %d..%d (stderr)", first, first+left-1))
			}
			if done >= left && !hung && res.ExitCode == 0 && !res.TimedOut {
				left = 0
				break
			}
			if !hung {
				// the child died or overran inside round first+done
				head, frame := vf.CrashSignature(res.Stderr)
				mu.Lock()
				if res.TimedOut {
					r.Inconclusive(fmt.Sprintf("vpool child overran its time limit in round %d", first+done))
				} else if head != "" {
					r.Count("child.crash", 1)
					r.Violation("crash", map[string]string{"headline": head, "frame": frame},
						map[string]interface{}{"round": first + done, "stderr_tail": tail(string(res.Stderr), 6000)})
				} else {
					r.Inconclusive(fmt.Sprintf("vpool child exited with code %d in round %d: %s", res.ExitCode, first+done, tail(string(res.Stderr), 300)))
				}
				mu.Unlock()
				done++ // skip the round that killed the child
			}
			first += done
			left -= done
		}
	})

	// monitor violations, one per (kind, attrs) class
	sort.Strings(monOrder)
	for _, k := range monOrder {
		mv := monViol[k]
		r.Violation(mv.v.Kind, mv.v.Attrs, map[string]interface{}{"occurrences": mv.n, "cases": mv.cases})
	}

	// race reports
	keys := make([]string, 0, len(races))
	for k := range races {
		keys = append(keys, k)
	}
	sort.Strings(keys)
	r.Count("race.report-blocks", int64(raceBlocks))
	pairs := map[string]bool{}
	var raceSummary []map[string]interface{}
	for _, k := range keys {
		a := races[k]
		r.Count("race.distinct."+a.rep.Class, 1)
		raceSummary = append(raceSummary, map[string]interface{}{"class": a.rep.Class, "frames": a.rep.Pair, "key": k, "count": a.count})
		switch a.rep.Class {
		case "product":
			if pairs[a.rep.Pair] {
				continue // same pair of innermost frames through another call path
			}
			pairs[a.rep.Pair] = true
			r.Count("race.distinct-frame-pairs", 1)
			r.Violation("race", map[string]string{"frames": a.rep.Pair},
				map[string]interface{}{"frames": a.rep.Pair, "stack_key": k, "occurrences": a.count, "first_seen": a.round, "report": a.rep.Text})
		case "harness":
			if strings.Contains(a.rep.Pair, "readReturnedConnection") && strings.Contains(a.rep.Pair, "gnet.") {
				// the harness side is the plain read of a value the pool returned as a copy; the
				// other side is the pool writing it: the returned value aliases pool state
				if pairs[a.rep.Pair] {
					continue
				}
				pairs[a.rep.Pair] = true
				r.Count("race.distinct-frame-pairs", 1)
				r.Violation("race", map[string]string{"frames": a.rep.Pair, "class": "returned-value-aliases-pool-state"},
					map[string]interface{}{"frames": a.rep.Pair, "stack_key": k, "occurrences": a.count, "first_seen": a.round, "report": a.rep.Text})
				continue
			}
			r.Inconclusive("race report involving harness code (harness bug): " + a.rep.Pair)
			fmt.Fprintf(os.Stderr, "HARNESS RACE:\n%s\n", a.rep.Text)
		default:
			r.Inconclusive("race report that cannot be attributed to gnet/strand on both sides (" + a.rep.Class + "): " + a.rep.Pair)
			_ = ioutil.WriteFile(filepath.Join(vf.Root(), "replays", fmt.Sprintf("C32-race-%s-%s.txt", a.rep.Class, k)), []byte(a.rep.Text), 0644)
		}
	}
	_ = os.RemoveAll(tmp)
	r.Extra("race_reports", raceSummary)
	r.Extra("shutdown_latency", latency)
	r.Extra("rounds_planned", rounds)
	r.Sample(map[string]interface{}{"what": "one round = 8-32 goroutines x 15-54 seeded pool operations against one ConnectionPool with 2-3 TCP peers, Shutdown at a seeded point", "rounds": r.Get("rounds")})

	// floors: a run that observed too little is inconclusive
	r.Floor("rounds", int64(rounds*9/10))
	for _, m := range []string{"mid", "early", "late", "startup"} {
		r.Floor("rounds.mode."+m, 1)
	}
	q := int64(r.Pick(1, 10))
	for _, k := range []string{"Connect:ok", "Connect:exists", "Connect:dial-error", "Connect:pool-closed", "Disconnect:ok", "Disconnect:pool-closed",
		"SendMessage:ok", "SendMessage:not-connected", "SendMessage:pool-closed", "BroadcastMessage:ok", "BroadcastMessage:pool-closed",
		"GetConnections:ok", "GetConnection:ok", "IsMaxOutgoingDefaultConnectionsReached:ok", "Size:ok", "Size:pool-closed", "SendPings:ok", "GetStaleConnections:ok", "ListeningAddress:ok",
		"peer.dial:ok", "peer.close:ok"} {
		r.Floor("op."+k, 5*q)
	}
	r.Floor("op.SendMessage:queue-full", q)
	r.Floor("op.phase:before", 500*q)
	r.Floor("op.phase:during", 50*q)
	r.Floor("op.phase:after", 100*q)
	r.Floor("cb.connect", 200*q)
	r.Floor("cb.disconnect", 100*q)
	r.Floor("cb.connfail", 5*q)
	r.Floor("messages.handled", 200*q)
	for i := 1; i < len(sched.Points); i++ {
		r.Floor("point."+sched.Points[i], 20*q)
	}
	r.Floor("interleavings.distinct", int64(rounds/2))
	r.Floor("shutdown.maps-empty", int64(rounds*8/10))
	r.Floor("peer-sockets.closed-by-pool", 200*q)

	r.Finish("each round is a seeded plan (goroutine count, operation mix, peer behaviours, Shutdown point: mid-flight / right after start / while Run is starting / after the workers); distinct = distinct orders in which the verifPoint schedule points were reached",
		"the race detector only reports races that occur on the schedules actually executed",
		"schedule noise is seeded but the Go scheduler and the kernel are not: a seed fixes the plan, not the interleaving",
		"a wall-clock watchdog (120 s per round, 30 s once only Shutdown/Run are awaited; typical round < 1 s) only collects goroutine dumps; 'hang' needs two identical all-blocked dumps 4 s apart",
		"peer sockets are given 10 s after Shutdown returned to observe EOF/reset")
}

var viewRe = regexp.MustCompile(`^\d+ \[([^\]]*)\] (.*):\d*$`)

// blockedSig is a schedule-independent signature of a deadlock view: the sorted set of
// "state@function" of the pool's goroutines
func blockedSig(view []string) string {
	set := map[string]bool{}
	for _, l := range view {
		if m := viewRe.FindStringSubmatch(l); m != nil {
			fn := strings.TrimPrefix(m[2], "github.com/skycoin/skycoin/src/daemon/")
			set[m[1]+"@"+fn] = true
		}
	}
	out := make([]string, 0, len(set))
	for k := range set {
		out = append(out, k)
	}
	sort.Strings(out)
	return strings.Join(out, ";")
}

func tail(s string, n int) string {
	if len(s) > n {
		return s[len(s)-n:]
	}
	return s
}
