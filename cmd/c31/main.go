// c31: checked arithmetic, fee and coin-hour formulas against math/big.
//
// Monitor: the real mathutil.AddUint64/AddUint32/MultUint64/Uint64ToInt64/Int64ToUint64/
// IntToUint32, fee.RequiredFee/RemainingHours and coin.UxOut.CoinHours are called on
// (a) an exhaustive boundary lattice (all pairs / triples of lattice points) and
// (b) uniformly random, log-uniform and "near the overflow boundary" tuples. Every result is
// compared with the mathematical value computed with math/big from the property statement.
package main

import (
	"fmt"
	"io/ioutil"
	"log"
	"math/big"
	"math/bits"
	"math/rand"
	"os"
	"sort"
	"strconv"
	"sync"

	"github.com/skycoin/skycoin/src/coin"
	"github.com/skycoin/skycoin/src/util/fee"
	"github.com/skycoin/skycoin/src/util/logging"
	"github.com/skycoin/skycoin/src/util/mathutil"

	"verif/lib/rp"
	"verif/lib/vf"
)

const workers = 16

var (
	bMaxU64  = new(big.Int).SetUint64(^uint64(0))
	bMaxU32  = new(big.Int).SetUint64(uint64(^uint32(0)))
	bMaxI64  = new(big.Int).SetUint64(1<<63 - 1)
	bZero    = big.NewInt(0)
	bMillion = big.NewInt(1000000)
	b3600    = big.NewInt(3600)
	b36e8    = new(big.Int).Mul(big.NewInt(3600), big.NewInt(1000000))
)

// local holds per-worker counters, merged at the end (no lock contention in the hot loop)
type dkey struct {
	name       string // "<fn>.<outcome>" (constant strings, no allocation)
	b1, b2, b3 int8
}

type local struct {
	counts   map[string]int64
	distinct map[dkey]struct{}
	evals    int64
	// scratch big ints
	a, b, c, d, e, f big.Int
	t                [8]big.Int
}

func newLocal() *local {
	return &local{counts: map[string]int64{}, distinct: map[dkey]struct{}{}}
}

func (l *local) merge(r *vf.Run) {
	for k, v := range l.counts {
		r.Count(k, v)
	}
	for k := range l.distinct {
		r.Distinct(fmt.Sprintf("%s:%d:%d:%d", k.name, k.b1, k.b2, k.b3))
	}
	r.Eval(l.evals)
}

func bitlen(x uint64) int { return bits.Len64(x) }

// note records one evaluated case: "<fn>.<outcome>" and the magnitude bucket of its arguments
func (l *local) note(name string, bl ...int) {
	l.evals++
	l.counts[name]++
	k := dkey{name: name, b1: -1, b2: -1, b3: -1}
	if len(bl) > 0 {
		k.b1 = int8(bl[0])
	}
	if len(bl) > 1 {
		k.b2 = int8(bl[1])
	}
	if len(bl) > 2 {
		k.b3 = int8(bl[2])
	}
	l.distinct[k] = struct{}{}
}

type checker struct {
	r *vf.Run
}

func (c *checker) viol(kind string, attrs map[string]string, witness interface{}) {
	c.r.Violation(kind, attrs, witness)
}

func u(x uint64) string { return fmt.Sprintf("%d", x) }

// ---- binary helpers -------------------------------------------------------------------

func (c *checker) add64(l *local, a, b uint64) {
	l.a.SetUint64(a)
	l.b.SetUint64(b)
	l.c.Add(&l.a, &l.b)
	fits := l.c.Cmp(bMaxU64) <= 0
	var got uint64
	var err error
	p, msg, frame := vf.Recover(func() { got, err = mathutil.AddUint64(a, b) })
	if p {
		c.viol("panic", map[string]string{"fn": "AddUint64", "frame": frame, "msg": msg, "a": u(a), "b": u(b)}, nil)
		return
	}
	switch {
	case fits && err != nil:
		c.viol("spurious-error", map[string]string{"fn": "AddUint64", "a": u(a), "b": u(b), "err": err.Error()}, nil)
	case fits && l.c.Uint64() != got:
		c.viol("wrong-value", map[string]string{"fn": "AddUint64", "a": u(a), "b": u(b), "got": u(got), "want": l.c.String()}, nil)
	case !fits && err == nil:
		c.viol("missed-overflow", map[string]string{"fn": "AddUint64", "a": u(a), "b": u(b), "got": u(got), "want": l.c.String()}, nil)
	}
	if fits {
		l.note("AddUint64.ok", bitlen(a), bitlen(b))
	} else {
		l.note("AddUint64.overflow", bitlen(a), bitlen(b))
	}
}

func (c *checker) mult64(l *local, a, b uint64) {
	l.a.SetUint64(a)
	l.b.SetUint64(b)
	l.c.Mul(&l.a, &l.b)
	fits := l.c.Cmp(bMaxU64) <= 0
	var got uint64
	var err error
	p, msg, frame := vf.Recover(func() { got, err = mathutil.MultUint64(a, b) })
	if p {
		c.viol("panic", map[string]string{"fn": "MultUint64", "frame": frame, "msg": msg, "a": u(a), "b": u(b)}, nil)
		return
	}
	switch {
	case fits && err != nil:
		c.viol("spurious-error", map[string]string{"fn": "MultUint64", "a": u(a), "b": u(b), "err": err.Error()}, nil)
	case fits && l.c.Uint64() != got:
		c.viol("wrong-value", map[string]string{"fn": "MultUint64", "a": u(a), "b": u(b), "got": u(got), "want": l.c.String()}, nil)
	case !fits && err == nil:
		c.viol("missed-overflow", map[string]string{"fn": "MultUint64", "a": u(a), "b": u(b), "got": u(got), "want": l.c.String()}, nil)
	}
	if fits {
		l.note("MultUint64.ok", bitlen(a), bitlen(b))
	} else {
		l.note("MultUint64.overflow", bitlen(a), bitlen(b))
	}
}

func (c *checker) add32(l *local, a, b uint32) {
	l.a.SetUint64(uint64(a))
	l.b.SetUint64(uint64(b))
	l.c.Add(&l.a, &l.b)
	fits := l.c.Cmp(bMaxU32) <= 0
	var got uint32
	var err error
	p, msg, frame := vf.Recover(func() { got, err = mathutil.AddUint32(a, b) })
	if p {
		c.viol("panic", map[string]string{"fn": "AddUint32", "frame": frame, "msg": msg, "a": u(uint64(a)), "b": u(uint64(b))}, nil)
		return
	}
	switch {
	case fits && err != nil:
		c.viol("spurious-error", map[string]string{"fn": "AddUint32", "a": u(uint64(a)), "b": u(uint64(b)), "err": err.Error()}, nil)
	case fits && l.c.Uint64() != uint64(got):
		c.viol("wrong-value", map[string]string{"fn": "AddUint32", "a": u(uint64(a)), "b": u(uint64(b)), "got": u(uint64(got)), "want": l.c.String()}, nil)
	case !fits && err == nil:
		c.viol("missed-overflow", map[string]string{"fn": "AddUint32", "a": u(uint64(a)), "b": u(uint64(b)), "got": u(uint64(got)), "want": l.c.String()}, nil)
	}
	if fits {
		l.note("AddUint32.ok", bitlen(uint64(a)), bitlen(uint64(b)))
	} else {
		l.note("AddUint32.overflow", bitlen(uint64(a)), bitlen(uint64(b)))
	}
}

// ---- conversions ----------------------------------------------------------------------

func (c *checker) conv(l *local, a uint64) {
	// Uint64ToInt64
	l.a.SetUint64(a)
	fits := l.a.Cmp(bMaxI64) <= 0
	{
		var got int64
		var err error
		p, msg, frame := vf.Recover(func() { got, err = mathutil.Uint64ToInt64(a) })
		if p {
			c.viol("panic", map[string]string{"fn": "Uint64ToInt64", "frame": frame, "msg": msg, "a": u(a)}, nil)
		} else {
			switch {
			case fits && err != nil:
				c.viol("spurious-error", map[string]string{"fn": "Uint64ToInt64", "a": u(a), "err": err.Error()}, nil)
			case fits && big.NewInt(got).Cmp(&l.a) != 0:
				c.viol("wrong-value", map[string]string{"fn": "Uint64ToInt64", "a": u(a), "got": fmt.Sprint(got)}, nil)
			case !fits && err == nil:
				c.viol("missed-overflow", map[string]string{"fn": "Uint64ToInt64", "a": u(a), "got": fmt.Sprint(got)}, nil)
			}
		}
		if fits {
			l.note("Uint64ToInt64.ok", bitlen(a))
		} else {
			l.note("Uint64ToInt64.overflow", bitlen(a))
		}
	}
	// Int64ToUint64 on the same bit pattern read as signed
	{
		s := int64(a)
		l.b.SetInt64(s)
		nonneg := l.b.Sign() >= 0
		var got uint64
		var err error
		p, msg, frame := vf.Recover(func() { got, err = mathutil.Int64ToUint64(s) })
		if p {
			c.viol("panic", map[string]string{"fn": "Int64ToUint64", "frame": frame, "msg": msg, "a": fmt.Sprint(s)}, nil)
		} else {
			l.c.SetUint64(got)
			switch {
			case nonneg && err != nil:
				c.viol("spurious-error", map[string]string{"fn": "Int64ToUint64", "a": fmt.Sprint(s), "err": err.Error()}, nil)
			case nonneg && l.c.Cmp(&l.b) != 0:
				c.viol("wrong-value", map[string]string{"fn": "Int64ToUint64", "a": fmt.Sprint(s), "got": u(got)}, nil)
			case !nonneg && err == nil:
				c.viol("missed-overflow", map[string]string{"fn": "Int64ToUint64", "a": fmt.Sprint(s), "got": u(got)}, nil)
			}
		}
		if nonneg {
			l.note("Int64ToUint64.ok", bitlen(a))
		} else {
			l.note("Int64ToUint64.underflow", bitlen(uint64(-s)))
		}
	}
	// IntToUint32 on the same bit pattern read as int (64-bit platform)
	{
		s := int(int64(a))
		l.b.SetInt64(int64(s))
		fits32 := l.b.Sign() >= 0 && l.b.Cmp(bMaxU32) <= 0
		var got uint32
		var err error
		p, msg, frame := vf.Recover(func() { got, err = mathutil.IntToUint32(s) })
		if p {
			c.viol("panic", map[string]string{"fn": "IntToUint32", "frame": frame, "msg": msg, "a": fmt.Sprint(s)}, nil)
		} else {
			l.c.SetUint64(uint64(got))
			switch {
			case fits32 && err != nil:
				c.viol("spurious-error", map[string]string{"fn": "IntToUint32", "a": fmt.Sprint(s), "err": err.Error()}, nil)
			case fits32 && l.c.Cmp(&l.b) != 0:
				c.viol("wrong-value", map[string]string{"fn": "IntToUint32", "a": fmt.Sprint(s), "got": u(uint64(got))}, nil)
			case !fits32 && err == nil:
				c.viol("missed-overflow", map[string]string{"fn": "IntToUint32", "a": fmt.Sprint(s), "got": u(uint64(got))}, nil)
			}
		}
		switch {
		case fits32:
			l.note("IntToUint32.ok", bitlen(a))
		case l.b.Sign() < 0:
			l.note("IntToUint32.underflow", bitlen(uint64(-int64(s))))
		default:
			l.note("IntToUint32.overflow", bitlen(a))
		}
	}
}

// ---- fee ------------------------------------------------------------------------------

func (c *checker) feeCheck(l *local, h uint64, bf uint32) {
	if bf == 0 {
		return // the statement quantifies over burn factors >= 1
	}
	l.a.SetUint64(h)
	l.b.SetUint64(uint64(bf))
	// ceil(h/b) = (h + b - 1) / b in unbounded integers
	l.c.Add(&l.a, &l.b)
	l.c.Sub(&l.c, big.NewInt(1))
	l.c.Quo(&l.c, &l.b)
	// remaining = h - ceil(h/b); must be >= 0
	l.d.Sub(&l.a, &l.c)
	if l.d.Sign() < 0 {
		// mathematically impossible for b >= 1; would be a harness error
		c.r.Inconclusive("oracle self-check: h - ceil(h/b) negative")
		return
	}
	var gotFee, gotRem uint64
	p, msg, frame := vf.Recover(func() { gotFee = fee.RequiredFee(h, bf) })
	if p {
		c.viol("panic", map[string]string{"fn": "RequiredFee", "frame": frame, "msg": msg, "hours": u(h), "burn": u(uint64(bf))}, nil)
		return
	}
	if l.c.Cmp(l.e.SetUint64(gotFee)) != 0 {
		c.viol("wrong-value", map[string]string{"fn": "RequiredFee", "hours": u(h), "burn": u(uint64(bf)), "got": u(gotFee), "want": l.c.String()}, nil)
	}
	p, msg, frame = vf.Recover(func() { gotRem = fee.RemainingHours(h, bf) })
	if p {
		c.viol("panic", map[string]string{"fn": "RemainingHours", "frame": frame, "msg": msg, "hours": u(h), "burn": u(uint64(bf))}, nil)
		return
	}
	if l.d.Cmp(l.e.SetUint64(gotRem)) != 0 {
		c.viol("wrong-value", map[string]string{"fn": "RemainingHours", "hours": u(h), "burn": u(uint64(bf)), "got": u(gotRem), "want": l.d.String()}, nil)
	}
	l.f.Mod(&l.a, &l.b)
	if l.f.Sign() == 0 {
		l.note("fee.exact", bitlen(h), bitlen(uint64(bf)))
	} else {
		l.note("fee.rounded_up", bitlen(h), bitlen(uint64(bf)))
	}
}

// ---- coin hours -----------------------------------------------------------------------

// coinHours evaluates UxOut.CoinHours for an output created at headTime with the given coins
// and initial hours, asked at time headTime+elapsed (which must not wrap)
func (c *checker) coinHours(l *local, headTime, coins, hours, elapsed uint64) {
	t := headTime + elapsed
	if t < headTime {
		return // not a representable query time
	}
	ux := coin.UxOut{Head: coin.UxHead{Time: headTime}, Body: coin.UxBody{Coins: coins, Hours: hours}}
	l.a.SetUint64(coins)
	l.b.SetUint64(elapsed)
	l.c.SetUint64(hours)
	// documented computation: whole-coin seconds, droplet seconds, their sum, the final sum
	whole, rem, wcs, ds, sum, final, stmt, tmp := &l.t[0], &l.t[1], &l.t[2], &l.t[3], &l.t[4], &l.t[5], &l.t[6], &l.t[7]
	whole.QuoRem(&l.a, bMillion, rem)
	wcs.Mul(&l.b, whole)
	ds.Mul(&l.b, rem)
	sum.Add(wcs, tmp.Quo(ds, bMillion))
	final.Add(&l.c, tmp.Quo(sum, b3600))
	// statement formula: hours + floor(coins*elapsed/3.6e9)
	stmt.Mul(&l.a, &l.b)
	stmt.Quo(stmt, b36e8)
	stmt.Add(stmt, &l.c)
	if stmt.Cmp(final) != 0 {
		c.r.Inconclusive("oracle self-check: documented computation != statement formula")
		return
	}
	class := "ok"
	switch {
	case wcs.Cmp(bMaxU64) > 0:
		class = "overflow_whole_coin_seconds"
	case ds.Cmp(bMaxU64) > 0:
		class = "overflow_droplet_seconds"
	case sum.Cmp(bMaxU64) > 0:
		class = "overflow_seconds_sum"
	case final.Cmp(bMaxU64) > 0:
		class = "overflow_final_sum"
	}
	var got uint64
	var err error
	p, msg, frame := vf.Recover(func() { got, err = ux.CoinHours(t) })
	attrs := map[string]string{"fn": "CoinHours", "class": class, "coins": u(coins), "hours": u(hours), "elapsed": u(elapsed), "head_time": u(headTime)}
	if p {
		attrs["frame"], attrs["msg"] = frame, msg
		c.viol("panic", attrs, nil)
		return
	}
	switch {
	case class == "ok" && err != nil:
		attrs["err"] = err.Error()
		c.viol("spurious-error", attrs, nil)
	case class == "ok" && final.Cmp(l.d.SetUint64(got)) != 0:
		attrs["got"], attrs["want"] = u(got), final.String()
		c.viol("wrong-value", attrs, nil)
	case class != "ok" && err == nil:
		attrs["got"], attrs["want"] = u(got), final.String()
		c.viol("missed-overflow", attrs, nil)
	}
	l.note("CoinHours."+class, bitlen(coins), bitlen(elapsed), bitlen(hours)/8)
}

// coinHoursBefore: query time before the output's creation time; elapsed time is zero, so the
// accrued hours are the initial hours
func (c *checker) coinHoursBefore(l *local, headTime, coins, hours, t uint64) {
	if t >= headTime {
		return
	}
	ux := coin.UxOut{Head: coin.UxHead{Time: headTime}, Body: coin.UxBody{Coins: coins, Hours: hours}}
	var got uint64
	var err error
	p, msg, frame := vf.Recover(func() { got, err = ux.CoinHours(t) })
	attrs := map[string]string{"fn": "CoinHours", "class": "before_creation", "coins": u(coins), "hours": u(hours), "t": u(t), "head_time": u(headTime)}
	if p {
		attrs["frame"], attrs["msg"] = frame, msg
		c.viol("panic", attrs, nil)
		return
	}
	if err != nil {
		attrs["err"] = err.Error()
		c.viol("spurious-error", attrs, nil)
	} else if got != hours {
		attrs["got"] = u(got)
		c.viol("wrong-value", attrs, nil)
	}
	l.note("CoinHours.before_creation", bitlen(coins), bitlen(hours))
}

// ---- lattices -------------------------------------------------------------------------

func uniq(xs []uint64) []uint64 {
	sort.Slice(xs, func(i, j int) bool { return xs[i] < xs[j] })
	out := xs[:0]
	for i, x := range xs {
		if i == 0 || x != xs[i-1] {
			out = append(out, x)
		}
	}
	return out
}

// base64 lattice: 0,1,2, 2^k-1,2^k,2^k+1, 10^6-1,10^6,10^6+1, multiples of 3600*10^6 +-1, max
func baseLattice() []uint64 {
	xs := []uint64{0, 1, 2, 3, ^uint64(0), ^uint64(0) - 1, ^uint64(0) - 2}
	for k := uint(1); k < 64; k++ {
		p := uint64(1) << k
		xs = append(xs, p-1, p, p+1)
	}
	xs = append(xs, 999999, 1000000, 1000001, 3599, 3600, 3601)
	for _, m := range []uint64{1, 2, 3, 10, 1000, 1000000} {
		v := 3600 * 1000000 * m
		xs = append(xs, v-1, v, v+1)
	}
	return uniq(xs)
}

// withQuotients adds floor(max/m)-1, floor(max/m), floor(max/m)+1 for every m of co
func withQuotients(xs []uint64, co []uint64, max uint64) []uint64 {
	out := append([]uint64(nil), xs...)
	for _, m := range co {
		if m == 0 {
			continue
		}
		q := max / m
		out = append(out, q-1, q, q+1)
	}
	return uniq(out)
}

func lattice32() []uint32 {
	xs := []uint64{0, 1, 2, 3}
	for k := uint(1); k < 32; k++ {
		p := uint64(1) << k
		xs = append(xs, p-1, p, p+1)
	}
	xs = append(xs, 1<<32-1, 1<<32-2, 1<<32-3, 999999, 1000000, 1000001, 10, 9, 11, 100, 3600)
	xs = uniq(xs)
	out := []uint32{}
	for _, x := range xs {
		if x <= 1<<32-1 {
			out = append(out, uint32(x))
		}
	}
	return out
}

// ---- random tuples --------------------------------------------------------------------

func logUniform(rng *rand.Rand) uint64 {
	n := uint(rng.Intn(65))
	if n == 0 {
		return 0
	}
	x := rng.Uint64()
	if n < 64 {
		x &= (uint64(1) << n) - 1
		x |= uint64(1) << (n - 1)
	} else {
		x |= uint64(1) << 63
	}
	return x
}

func main() {
	log.SetOutput(ioutil.Discard) // CoinHours logs every overflow
	logging.Disable()
	r := vf.Start("C31", "exploration")
	c := &checker{r: r}
	if p := r.ReplayPath(); p != "" {
		replay(c, p)
	}

	base := baseLattice()
	mulLat := withQuotients(base, base, ^uint64(0))
	lat32 := lattice32()
	r.Extra("lattice_sizes", map[string]int{"base64": len(base), "mult64": len(mulLat), "u32": len(lat32)})

	var mu sync.Mutex
	locals := []*local{}
	getLocal := func() *local {
		l := newLocal()
		mu.Lock()
		locals = append(locals, l)
		mu.Unlock()
		return l
	}
	pool := sync.Pool{New: func() interface{} { return getLocal() }}

	// (a1) binary helpers: all pairs
	vf.Parallel(len(mulLat), workers, func(i int) {
		l := pool.Get().(*local)
		defer pool.Put(l)
		a := mulLat[i]
		for _, b := range mulLat {
			c.mult64(l, a, b)
		}
		l.counts["lattice.mult64_pairs"] += int64(len(mulLat))
	})
	vf.Parallel(len(base), workers, func(i int) {
		l := pool.Get().(*local)
		defer pool.Put(l)
		a := base[i]
		for _, b := range base {
			c.add64(l, a, b)
			c.add64(l, a, ^uint64(0)-b)   // complement: sums around 2^64
			c.add64(l, a, ^uint64(0)-b+1) // a + (2^64 - b)
		}
		c.conv(l, a)
		c.conv(l, -a)
		l.counts["lattice.add64_pairs"] += int64(3 * len(base))
		l.counts["lattice.conv_points"] += 2
	})
	vf.Parallel(len(lat32), workers, func(i int) {
		l := pool.Get().(*local)
		defer pool.Put(l)
		a := lat32[i]
		for _, b := range lat32 {
			c.add32(l, a, b)
			c.add32(l, a, ^uint32(0)-b)
			c.add32(l, a, ^uint32(0)-b+1)
		}
		l.counts["lattice.add32_pairs"] += int64(3 * len(lat32))
	})
	// (a2) fee: hours lattice (with quotient points for the burn factors) x burn factors
	burn := []uint32{}
	for _, b := range lat32 {
		if b >= 1 {
			burn = append(burn, b)
		}
	}
	feeH := base
	{
		extra := []uint64{}
		for _, b := range burn {
			for _, h := range []uint64{1, 2, 1000, 1 << 40, ^uint64(0) / uint64(b)} {
				v := h * uint64(b) // may wrap; still a valid uint64 argument
				extra = append(extra, v-1, v, v+1)
			}
		}
		feeH = uniq(append(append([]uint64(nil), base...), extra...))
	}
	vf.Parallel(len(feeH), workers, func(i int) {
		l := pool.Get().(*local)
		defer pool.Put(l)
		for _, b := range burn {
			c.feeCheck(l, feeH[i], b)
		}
		l.counts["lattice.fee_pairs"] += int64(len(burn))
	})
	// (a3) CoinHours: coins x elapsed x hours lattice triples
	coinsLat := base
	elapsedLat := withQuotients(base, []uint64{1, 2, 3, 1000, 999999, 1000000, 1000001, 25e12, 100e12}, ^uint64(0))
	hoursLat := []uint64{0, 1, 2, 1 << 31, 1 << 32, 1<<63 - 1, 1 << 63, 1<<63 + 1, ^uint64(0) - 3600, ^uint64(0) - 2, ^uint64(0) - 1, ^uint64(0)}
	if !r.Quick() {
		hoursLat = base
	}
	vf.Parallel(len(coinsLat), workers, func(i int) {
		l := pool.Get().(*local)
		defer pool.Put(l)
		coins := coinsLat[i]
		for _, el := range elapsedLat {
			for _, h := range hoursLat {
				c.coinHours(l, 0, coins, h, el)
			}
			// hours chosen so that the final sum lands on the 2^64 boundary
			earned := new(big.Int).Mul(new(big.Int).SetUint64(coins), new(big.Int).SetUint64(el))
			earned.Quo(earned, b36e8)
			if earned.Cmp(bMaxU64) <= 0 {
				e := earned.Uint64()
				for _, d := range []uint64{0, 1, 2} {
					c.coinHours(l, 0, coins, ^uint64(0)-e-d+1, el) // hours + earned = 2^64 - d + ... boundary
					c.coinHours(l, 0, coins, ^uint64(0)-e+d, el)
				}
			}
			// non-zero creation time, and a query before creation
			if el < 1<<62 {
				c.coinHours(l, 1<<62, coins, 7, el)
				c.coinHoursBefore(l, el+1, coins, uint64(i), el)
			}
		}
		l.counts["lattice.coinhours_triples"] += int64(len(elapsedLat) * len(hoursLat))
	})

	// (b) random tuples
	nRand := r.Pick(5000000, 100000000)
	shards := 64
	per := nRand / shards
	vf.Parallel(shards, workers, func(s int) {
		l := pool.Get().(*local)
		defer pool.Put(l)
		rng := r.Rand("random", s)
		for i := 0; i < per; i++ {
			var a, b, h uint64
			mode := i % 5
			switch mode {
			case 0: // uniform
				a, b, h = rng.Uint64(), rng.Uint64(), rng.Uint64()
			case 1: // log-uniform
				a, b, h = logUniform(rng), logUniform(rng), logUniform(rng)
			case 2: // product near 2^64: b = floor(max/a) + {-2..2}
				a = logUniform(rng)
				if a == 0 {
					a = 1
				}
				b = ^uint64(0)/a + uint64(rng.Intn(5)) - 2
				h = logUniform(rng)
			case 3: // sum near 2^64
				a = logUniform(rng)
				b = ^uint64(0) - a + uint64(rng.Intn(5)) - 2
				h = rng.Uint64()
			case 4: // coins*elapsed/1e6 near 2^64 (the whole-coin + droplet seconds sum boundary)
				a = logUniform(rng)
				if a < 1000000 {
					a += 1000000
				}
				q := new(big.Int).Mul(bMaxU64, bMillion)
				q.Quo(q, new(big.Int).SetUint64(a))
				if q.Cmp(bMaxU64) > 0 {
					q.Set(bMaxU64)
				}
				b = q.Uint64() + uint64(rng.Intn(5)) - 2
				h = logUniform(rng) >> uint(rng.Intn(64))
			}
			c.add64(l, a, b)
			c.mult64(l, a, b)
			c.add32(l, uint32(a), uint32(b))
			if mode == 3 {
				c.add32(l, uint32(a), ^uint32(0)-uint32(a)+uint32(rng.Intn(5))-2)
			}
			c.conv(l, a)
			bf := uint32(b)
			if i&4 != 0 {
				bf = uint32(logUniform(rng) >> 32)
			}
			if bf == 0 {
				bf = 1
			}
			c.feeCheck(l, a, bf)
			// CoinHours: realistic and hostile magnitudes
			coins, el := a, b
			if mode == 1 && i&8 != 0 {
				coins = a % 100000000000000 // up to the total supply in droplets
				el = b % 4000000000         // up to ~126 years
			}
			ht := uint64(0)
			if i&16 != 0 && el < 1<<63 {
				ht = rng.Uint64() >> 1
			}
			c.coinHours(l, ht, coins, h, el)
			if i&31 == 0 {
				c.coinHoursBefore(l, ht|1, coins, h, rng.Uint64()%(ht|1))
			}
		}
		l.counts["random.tuples"] += int64(per)
	})

	for _, l := range locals {
		l.merge(r)
	}

	// the minimal D17 input from DESIGN section 6, evaluated explicitly
	{
		l := newLocal()
		c.coinHours(l, 0, 1000001, 0, ^uint64(0))
		l.merge(r)
	}

	r.Sample(map[string]interface{}{"fn": "AddUint64", "a": "18446744073709551615", "b": "1", "expect": "error (2^64 does not fit)"})
	r.Sample(map[string]interface{}{"fn": "MultUint64", "a": "4294967296", "b": "4294967296", "expect": "error (2^64)"})
	r.Sample(map[string]interface{}{"fn": "RequiredFee", "hours": "11", "burn": "10", "expect": "2 (ceil), remaining 9"})
	r.Sample(map[string]interface{}{"fn": "CoinHours", "coins": "1000001", "elapsed": "18446744073709551615", "hours": "0", "expect": "error: whole-coin seconds + droplet seconds/1e6 exceeds 2^64-1"})

	for _, k := range []string{"AddUint64.ok", "AddUint64.overflow", "MultUint64.ok", "MultUint64.overflow", "AddUint32.ok", "AddUint32.overflow",
		"Uint64ToInt64.ok", "Uint64ToInt64.overflow", "Int64ToUint64.ok", "Int64ToUint64.underflow",
		"IntToUint32.ok", "IntToUint32.overflow", "IntToUint32.underflow", "fee.exact", "fee.rounded_up",
		"CoinHours.ok", "CoinHours.overflow_whole_coin_seconds", "CoinHours.overflow_droplet_seconds",
		"CoinHours.overflow_seconds_sum", "CoinHours.overflow_final_sum", "CoinHours.before_creation"} {
		min := int64(1000)
		switch k {
		case "CoinHours.overflow_seconds_sum":
			min = 5000 // the class of defect D17: every earlier product fits, the sum of the two parts does not
		case "Uint64ToInt64.overflow", "Int64ToUint64.underflow", "IntToUint32.underflow", "IntToUint32.ok":
			min = 100
		}
		r.Floor(k, min)
	}
	r.Floor("random.tuples", int64(nRand*9/10))

	r.Finish("boundary lattice (0,1,2, 2^k-1/2^k/2^k+1 for all k, 10^6 and 3600*10^6 neighbourhoods, floor(max/m)+-1) taken as all pairs for the binary helpers and fee, all coins x elapsed x hours triples for CoinHours, plus uniform / log-uniform / near-boundary random tuples; a case is distinct by (function, outcome class, bit lengths of its arguments); every expected value and every overflow decision is computed with math/big",
		"int is 64 bits on the platform under test (IntToUint32 is exercised with 64-bit ints)",
		"CoinHours intermediates are those of the documented computation: seconds*floor(coins/1e6), seconds*(coins mod 1e6), their sum after dividing the droplet part by 1e6, and hours + sum/3600",
		"burn factor 0 (division by zero) is outside the property's quantifier and not called",
		"the statement asks for all values; this run answers only for the lattice and samples counted above")
}

// replay re-evaluates the single case recorded in a replay file
func replay(c *checker, path string) {
	f := rp.Load(path, "C31")
	l := newLocal()
	switch f.Attrs["fn"] {
	case "AddUint64":
		c.add64(l, f.U64("a"), f.U64("b"))
	case "MultUint64":
		c.mult64(l, f.U64("a"), f.U64("b"))
	case "AddUint32":
		c.add32(l, uint32(f.U64("a")), uint32(f.U64("b")))
	case "Uint64ToInt64":
		c.conv(l, f.U64("a"))
	case "Int64ToUint64", "IntToUint32":
		v, err := strconv.ParseInt(f.Attrs["a"], 10, 64)
		if err != nil {
			fmt.Fprintln(os.Stderr, "replay:", err)
			os.Exit(3)
		}
		c.conv(l, uint64(v))
	case "RequiredFee", "RemainingHours":
		c.feeCheck(l, f.U64("hours"), uint32(f.U64("burn")))
	case "CoinHours":
		if f.Attrs["class"] == "before_creation" {
			c.coinHoursBefore(l, f.U64("head_time"), f.U64("coins"), f.U64("hours"), f.U64("t"))
		} else {
			c.coinHours(l, f.U64("head_time"), f.U64("coins"), f.U64("hours"), f.U64("elapsed"))
		}
	default:
		fmt.Fprintf(os.Stderr, "replay: unknown fn %q\n", f.Attrs["fn"])
		os.Exit(3)
	}
	rp.Done("C31", c.r.Violations())
}
