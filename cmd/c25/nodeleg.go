package main

import (
	"encoding/binary"
	"encoding/json"
	"fmt"
	"io/ioutil"
	"math"
	"math/rand"
	"net/http"
	"os"
	"path/filepath"
	"strings"
	"sync"
	"time"

	"github.com/skycoin/skycoin/src/cipher"

	"verif/lib/node"
	"verif/lib/vf"
	"verif/lib/wire"
)

// ---------------------------------------------------------------------------------
// introduction variants for the node level (verdict always from the byte-level model)

var validIntroClasses = []string{"canonical", "no-genesis", "wrong-genesis", "version-min+1", "version-maxint", "burn-2", "maxtxn-1024", "decimals-6", "decimals-0", "ua-256", "ua-remark"}

var invalidIntroClasses = []string{"self-mirror", "version-min-1", "version-0", "version-neg", "extra-absent", "extra-len0", "extra-short",
	"pubkey-bitflip", "pubkey-random", "params-truncated", "burn-0", "burn-1", "maxtxn-1023", "maxtxn-0", "decimals-7", "decimals-255",
	"ua-missing", "ua-empty", "ua-too-long", "ua-len-beyond", "ua-len-huge", "ua-malformed", "ua-illegal-malformed", "genesis-partial",
	"outer-len-plus1", "outer-len-max"}

// introVariant builds an introduction body of the named class
func introVariant(class string, rng *rand.Rand, own ownParams, genesis [32]byte, mirror uint32, port uint16) []byte {
	version := own.MinVersion
	pk := own.Pubkey
	burn, size, dec := uint32(10), uint32(32768), uint8(3)
	ua := "skycoin:0.27.0"
	declared := -1
	tail := genesis[:]
	var rawExtra []byte
	useRaw := false
	noExtra, len0 := false, false
	outer := 0 // +1 / max
	switch class {
	case "canonical":
	case "no-genesis":
		tail = nil
	case "wrong-genesis":
		tail = randBytes(rng, 32)
	case "version-min+1":
		version++
	case "version-maxint":
		version = math.MaxInt32
	case "burn-2":
		burn = 2
	case "maxtxn-1024":
		size = 1024
	case "decimals-6":
		dec = 6
	case "decimals-0":
		dec = 0
	case "ua-256":
		ua = longAgent(256)
	case "ua-remark":
		ua = "skycoin:0.27.0(verif; c25)"
	case "self-mirror":
		mirror = own.Mirror
	case "version-min-1":
		version--
	case "version-0":
		version = 0
	case "version-neg":
		version = -1 - int32(rng.Intn(1000))
	case "extra-absent":
		noExtra = true
	case "extra-len0":
		len0 = true
	case "extra-short":
		useRaw = true
		rawExtra = append([]byte(nil), own.Pubkey[:1+rng.Intn(32)]...)
	case "pubkey-bitflip":
		pk[rng.Intn(33)] ^= 1 << uint(rng.Intn(8))
	case "pubkey-random":
		copy(pk[:], randBytes(rng, 33))
	case "params-truncated":
		useRaw = true
		rawExtra = append(append([]byte(nil), own.Pubkey[:]...), randBytes(rng, rng.Intn(9))...)
	case "burn-0":
		burn = 0
	case "burn-1":
		burn = 1
	case "maxtxn-1023":
		size = 1023
	case "maxtxn-0":
		size = 0
	case "decimals-7":
		dec = 7
	case "decimals-255":
		dec = 255
	case "ua-missing":
		useRaw = true
		rawExtra = append([]byte(nil), own.Pubkey[:]...)
		rawExtra = append(rawExtra, le32(burn)...)
		rawExtra = append(rawExtra, le32(size)...)
		rawExtra = append(rawExtra, dec)
		rawExtra = append(rawExtra, randBytes(rng, rng.Intn(4))...)
	case "ua-empty":
		ua = ""
	case "ua-too-long":
		ua = longAgent(257 + rng.Intn(100))
	case "ua-len-beyond":
		declared = len(ua) + 33 + rng.Intn(30)
	case "ua-len-huge":
		declared = math.MaxUint32
	case "ua-malformed":
		ua = malformedAgents[1+rng.Intn(len(malformedAgents)-1)]
	case "ua-illegal-malformed":
		ua = "sky<coin:\x00 1.2"
	case "genesis-partial":
		tail = genesis[:1+rng.Intn(31)]
	case "outer-len-plus1":
		outer = 1
	case "outer-len-max":
		outer = 2
	default:
		panic("unknown intro class " + class)
	}
	body := make([]byte, 10)
	binary.LittleEndian.PutUint32(body[0:], mirror)
	binary.LittleEndian.PutUint16(body[4:], port)
	binary.LittleEndian.PutUint32(body[6:], uint32(version))
	if noExtra {
		return body
	}
	var extra []byte
	switch {
	case len0:
	case useRaw:
		extra = rawExtra
	default:
		extra = append(extra, pk[:]...)
		extra = append(extra, le32(burn)...)
		extra = append(extra, le32(size)...)
		extra = append(extra, dec)
		if declared < 0 {
			declared = len(ua)
		}
		extra = append(extra, le32(uint32(declared))...)
		extra = append(extra, ua...)
		extra = append(extra, tail...)
	}
	n := uint32(len(extra))
	switch outer {
	case 1:
		n++
	case 2:
		n = math.MaxUint32
	}
	body = append(body, le32(n)...)
	body = append(body, extra...)
	return body
}

// ---------------------------------------------------------------------------------
// the 12 message types with well-formed bodies

var allTypes = []string{"INTR", "GETP", "GIVP", "PING", "PONG", "GETB", "GIVB", "ANNB", "GETT", "GIVT", "ANNT", "DISC"}

func plainBody(id string, rng *rand.Rand) []byte {
	switch id {
	case "GETP", "PING", "PONG":
		return nil
	case "GIVP":
		n := rng.Intn(4)
		b := le32(uint32(n))
		for i := 0; i < n; i++ {
			b = append(b, le32(0x7f000001)...)
			var p [2]byte
			binary.LittleEndian.PutUint16(p[:], uint16(2000+rng.Intn(60000)))
			b = append(b, p[:]...)
		}
		return b
	case "GETB":
		return wire.U64Body(uint64(rng.Intn(5)), 20)
	case "GIVB", "GIVT":
		return le32(0)
	case "ANNB":
		return wire.U64Body(uint64(rng.Intn(100)))
	case "GETT", "ANNT":
		n := rng.Intn(3)
		hs := make([]cipher.SHA256, n)
		for i := range hs {
			copy(hs[i][:], randBytes(rng, 32))
		}
		return wire.HashesBody(hs)
	case "DISC":
		b := make([]byte, 2)
		binary.LittleEndian.PutUint16(b, uint16(rng.Intn(25)))
		return append(b, le32(0)...)
	}
	panic("unknown type " + id)
}

// ---------------------------------------------------------------------------------

type step struct {
	ID   string
	Body []byte
	Kind string // "givp", "disc", "other", "intro"
}

type nodeCase struct {
	Steps  []step
	Shape  string // e.g. "GIVP PING INTR(valid:canonical)"
	Expect string // "introduced" | "disconnect" | "observe" (DISC: exempt, only 'not introduced' is checked)
	Why    string // what the model says decides the case
	Class  string // intro class used ("" if none)
	// listen addresses the node may legitimately put into its peer list because of this case: the one
	// announced by an introduction the model judges valid (wherever it stands in the order: a disconnect is
	// asynchronous, a valid introduction queued behind the deciding message is still handled), and the
	// addresses advertised in peer lists
	PeerListOK []string
}

// planCase builds case number i of a node's list
func planCase(i, ni int, rng *rand.Rand, own ownParams, genesis [32]byte, mirror uint32) nodeCase {
	port := uint16(1024 + rng.Intn(60000))
	intro := func(class string) (step, verdict, string) {
		b := introVariant(class, rng, own, genesis, mirror, port)
		m, _, v, extra, ok := splitBody(b)
		if !ok {
			return step{"INTR", b, "intro"}, vInvalid, "undecodable-body"
		}
		want, reason := judge(own, m, v, extra)
		return step{"INTR", b, "intro"}, want, reason
	}
	singles := len(allTypes) - 1 + len(validIntroClasses) + len(invalidIntroClasses)
	var c nodeCase
	switch {
	case i < len(allTypes)-1:
		// every non-INTR type as the only message
		id := allTypes[1+i]
		kind := "other"
		switch id {
		case "GIVP":
			kind = "givp"
		case "DISC":
			kind = "disc"
		}
		c.Steps = []step{{id, plainBody(id, rng), kind}}
		if kind != "disc" && (i+ni)%2 == 0 {
			// a valid introduction follows: a peer list alone decides nothing, and after any
			// other first message the introduction must come too late
			s, _, _ := intro("canonical")
			c.Steps = append(c.Steps, s)
			c.Class = "canonical"
		} else if kind == "givp" {
			c.Steps = append(c.Steps, step{"PING", nil, "other"})
		}
	case i < singles:
		k := i - (len(allTypes) - 1)
		class := ""
		if k < len(validIntroClasses) {
			class = validIntroClasses[k]
		} else {
			class = invalidIntroClasses[k-len(validIntroClasses)]
		}
		s, _, _ := intro(class)
		c.Steps = []step{s}
		c.Class = class
	default:
		// GIVP* [one other message] GIVP* INTR
		for k := rng.Intn(3); k > 0; k-- {
			c.Steps = append(c.Steps, step{"GIVP", plainBody("GIVP", rng), "givp"})
		}
		if rng.Intn(2) == 0 {
			others := []string{"GETP", "PING", "PONG", "GETB", "GIVB", "ANNB", "GETT", "GIVT", "ANNT"}
			id := others[rng.Intn(len(others))]
			c.Steps = append(c.Steps, step{id, plainBody(id, rng), "other"})
			for k := rng.Intn(2); k > 0; k-- {
				c.Steps = append(c.Steps, step{"GIVP", plainBody("GIVP", rng), "givp"})
			}
		}
		class := ""
		if rng.Intn(2) == 0 {
			class = validIntroClasses[rng.Intn(len(validIntroClasses))]
		} else {
			class = invalidIntroClasses[rng.Intn(len(invalidIntroClasses))]
		}
		s, _, _ := intro(class)
		c.Steps = append(c.Steps, s)
		c.Class = class
	}
	// the model walks the order: the first deciding message decides
	c.Expect = ""
	var shape []string
	for _, s := range c.Steps {
		switch s.Kind {
		case "givp":
			shape = append(shape, "GIVP")
			for k := 4; k+6 <= len(s.Body); k += 6 {
				ip := binary.LittleEndian.Uint32(s.Body[k:])
				c.PeerListOK = append(c.PeerListOK, fmt.Sprintf("%d.%d.%d.%d:%d", byte(ip>>24), byte(ip>>16), byte(ip>>8), byte(ip), binary.LittleEndian.Uint16(s.Body[k+4:])))
			}
		case "disc":
			shape = append(shape, "DISC")
			if c.Expect == "" {
				c.Expect, c.Why = "observe", "DISC before introduction (exempt)"
			}
		case "other":
			shape = append(shape, s.ID)
			if c.Expect == "" {
				c.Expect, c.Why = "disconnect", s.ID+" before introduction"
			}
		case "intro":
			m, _, v, extra, ok := splitBody(s.Body)
			want, reason := vInvalid, "undecodable-body"
			if ok {
				want, reason = judge(own, m, v, extra)
			}
			if want == vEither {
				panic("node-level introduction class with undecided verdict: " + c.Class)
			}
			shape = append(shape, "INTR("+want.String()+")")
			if want == vValid {
				c.PeerListOK = append(c.PeerListOK, fmt.Sprintf("127.0.0.1:%d", port))
			}
			if c.Expect == "" {
				if want == vValid {
					c.Expect, c.Why = "introduced", "valid introduction in connected state"
				} else {
					c.Expect, c.Why = "disconnect", "invalid introduction: "+reason
				}
			}
		}
	}
	if c.Expect == "" {
		panic("case without deciding message")
	}
	c.Shape = strings.Join(shape, " ")
	return c
}

// ---------------------------------------------------------------------------------

type apiConn struct {
	Addr       string `json:"address"`
	State      string `json:"state"`
	Mirror     uint32 `json:"mirror"`
	ListenPort uint16 `json:"listen_port"`
	Outgoing   bool   `json:"outgoing"`
}

func listConns(apiAddr string) ([]apiConn, error) {
	resp, err := http.Get("http://" + apiAddr + "/api/v1/network/connections?states=pending,connected,introduced")
	if err != nil {
		return nil, err
	}
	defer resp.Body.Close()
	b, _ := ioutil.ReadAll(resp.Body)
	if resp.StatusCode != 200 {
		return nil, fmt.Errorf("connections: %d %s", resp.StatusCode, b)
	}
	var doc struct {
		Connections []apiConn `json:"connections"`
	}
	if err := json.Unmarshal(b, &doc); err != nil {
		return nil, err
	}
	return doc.Connections, nil
}

func findConn(cs []apiConn, addr string) *apiConn {
	for i := range cs {
		if cs[i].Addr == addr {
			return &cs[i]
		}
	}
	return nil
}

func hasMsg(p *wire.Peer, id string, from, to int) bool {
	for i := from; i < to && i < len(p.Recv); i++ {
		if p.Recv[i].ID == id {
			return true
		}
	}
	return false
}

const watchdog = 15 * time.Second

var sampleMu sync.Mutex
var nodeSamples int

func runNodeLeg(r *vf.Run) {
	bin := filepath.Join(os.Getenv("VERIF_BIN"), "vnode")
	if _, err := os.Stat(bin); err != nil {
		r.Inconclusive("vnode binary missing: " + err.Error())
		return
	}
	total := r.Pick(960, 20000)
	nodes := r.Pick(8, 16)
	per := total / nodes
	root := vf.TempDir("c25")
	defer os.RemoveAll(root)
	var genesis [32]byte
	gh := cipher.SumSHA256([]byte("c25-genesis"))
	copy(genesis[:], gh[:])

	vf.Parallel(nodes, nodes, func(ni int) {
		rng := r.Rand("node", ni)
		dir := filepath.Join(root, fmt.Sprintf("n%d", ni))
		opts := node.Options{DataDir: filepath.Join(dir, "data"), ChainTag: fmt.Sprintf("c25-%d-%d", r.Seed, ni), Volume: 100e12,
			Publisher: true, Arbitrating: true, DisableCSRF: true}
		proc, err := node.Spawn(bin, dir, opts)
		if err != nil {
			r.Inconclusive(fmt.Sprintf("node %d did not start: %v", ni, err))
			return
		}
		defer proc.Kill()
		chain := opts.Chain()
		own := ownParams{MinVersion: 2}
		copy(own.Pubkey[:], chain.Publisher.Pub[:])

		// learn the node's mirror from the introduction it sends on connect
		p0, err := wire.Dial(proc.PeerAddr)
		if err != nil {
			r.Inconclusive(fmt.Sprintf("node %d: dial: %v", ni, err))
			return
		}
		idx, ok := p0.WaitFor("INTR", 0, watchdog)
		if !ok || len(p0.Recv[idx].Body) < 10 {
			r.Inconclusive(fmt.Sprintf("node %d sent no introduction", ni))
			p0.Close()
			return
		}
		own.Mirror = binary.LittleEndian.Uint32(p0.Recv[idx].Body)
		nodeVersion := int32(binary.LittleEndian.Uint32(p0.Recv[idx].Body[6:]))
		_ = nodeVersion
		p0.Close()

		used := map[uint32]bool{own.Mirror: true}
		peerListOK := map[string]bool{}
		for i := 0; i < per; i++ {
			if r.Violations() > 20 {
				break
			}
			var mirror uint32
			for {
				mirror = rng.Uint32()
				if !used[mirror] {
					used[mirror] = true
					break
				}
			}
			c := planCase(i, ni, rng, own, genesis, mirror)
			for _, a := range c.PeerListOK {
				peerListOK[a] = true
			}
			runNodeCase(r, proc, c, ni, i)
			if !proc.Alive() {
				break
			}
		}
		// the node must have survived everything
		alive := proc.Alive()
		if alive {
			if cs, err := listConns(proc.APIAddr); err != nil {
				r.Violation("node-unresponsive", map[string]string{"leg": "node", "err": err.Error()}, nil)
			} else {
				_ = cs
				r.Count("node.alive-at-end", 1)
			}
		}
		headline, frame := vf.CrashSignature(proc.Stderr())
		if !alive || headline != "" {
			r.Violation("node-crash", map[string]string{"leg": "node", "headline": headline, "frame": frame}, map[string]interface{}{"stderr_tail": tail(proc.Stderr(), 4000)})
		}
		if !proc.Stop(20*time.Second) || !alive {
			return
		}
		// the peer list the node saved on its way down: nothing but addresses from valid introductions
		// (and advertised peers) may be in it
		pb, err := os.ReadFile(filepath.Join(opts.DataDir, "peers.json"))
		var peers map[string]json.RawMessage
		if err != nil || json.Unmarshal(pb, &peers) != nil {
			return
		}
		r.Count("node.peerlist.nodes-checked", 1)
		for a := range peers {
			r.Count("node.peerlist.entries", 1)
			if !peerListOK[a] {
				r.Violation("rejected-introduction-counted-as-introduced", map[string]string{"leg": "node", "evidence": "peer-list", "entry": a},
					map[string]interface{}{"node": ni, "peer_list": string(pb)})
			}
		}
	})

	for _, id := range allTypes {
		r.Floor("node.first."+id, 1)
	}
	for _, c := range validIntroClasses {
		r.Floor("node.intro-class."+c, 1)
	}
	for _, c := range invalidIntroClasses {
		r.Floor("node.intro-class."+c, 1)
	}
	r.Floor("node.verdict.introduced", int64(r.Pick(100, 2000)))
	r.Floor("node.verdict.disconnected", int64(r.Pick(200, 4000)))
	r.Floor("node.verdict.disconnected.by-non-intro-message", int64(r.Pick(50, 1000)))
	r.Floor("node.verdict.disconnected.by-invalid-intro", int64(r.Pick(50, 1000)))
	r.Floor("node.api.gone-after-disconnect", int64(r.Pick(200, 4000)))
	r.Floor("node.alive-at-end", int64(nodes))
	r.Floor("node.peerlist.nodes-checked", int64(nodes/2))
	r.Floor("node.peerlist.entries", int64(r.Pick(50, 1000)))
}

func tail(b []byte, n int) string {
	if len(b) > n {
		b = b[len(b)-n:]
	}
	return string(b)
}

func runNodeCase(r *vf.Run, proc *node.Proc, c nodeCase, ni, i int) {
	r.Eval(1)
	r.Count("node.cases", 1)
	r.Count("node.first."+c.Steps[0].ID, 1)
	if c.Class != "" {
		r.Count("node.intro-class."+c.Class, 1)
	}
	var frames [][]byte
	size := 0
	for _, s := range c.Steps {
		f := wire.Frame(s.ID, s.Body)
		frames = append(frames, f)
		size += len(f)
	}
	witness := func(p *wire.Peer) map[string]interface{} {
		var sent, recv []string
		for k, s := range c.Steps {
			sent = append(sent, s.ID+":"+vf.Hex(frames[k]))
		}
		if p != nil {
			for _, m := range p.Recv {
				recv = append(recv, m.ID+":"+vf.Hex(m.Body))
			}
		}
		return map[string]interface{}{"shape": c.Shape, "expect": c.Expect, "why": c.Why, "sent_frames": sent, "received": recv, "node": ni, "case": i}
	}
	attrs := func(extra ...string) map[string]string {
		m := map[string]string{"leg": "node", "shape": c.Shape, "expect": c.Expect, "why": c.Why, "class": c.Class, "first": c.Steps[0].ID}
		for k := 0; k+1 < len(extra); k += 2 {
			m[extra[k]] = extra[k+1]
		}
		return m
	}
	p, err := wire.Dial(proc.PeerAddr)
	if err != nil {
		r.Count("node.dial-failed", 1)
		return
	}
	defer p.Close()
	local := p.C.LocalAddr().String()
	// one burst (below the receiver's 1024-byte read buffer) or one write per message
	var sendErr error
	if size < 1000 && (i%2 == 0) {
		var all []byte
		for _, f := range frames {
			all = append(all, f...)
		}
		sendErr = p.SendRaw(all)
		r.Count("node.sent.one-burst", 1)
	} else {
		for _, f := range frames {
			if sendErr = p.SendRaw(f); sendErr != nil {
				break
			}
		}
		r.Count("node.sent.per-message", 1)
	}
	_ = sendErr // a write error means the node already closed; the verdict comes from reading

	switch c.Expect {
	case "introduced":
		from := 0
		if err := p.Send("PING", nil); err != nil {
			r.Violation("valid-introduction-refused", attrs("observed", "write failed: "+err.Error()), witness(p))
			return
		}
		pi, ok := p.WaitFor("PONG", from, watchdog)
		if !ok {
			if p.EOF {
				r.Violation("valid-introduction-refused", attrs("observed", "connection closed"), witness(p))
			} else {
				r.Inconclusive("watchdog: no PONG and no EOF after a valid introduction (" + c.Shape + ")")
			}
			return
		}
		if hasMsg(p, "DISC", 0, pi) {
			r.Violation("valid-introduction-refused", attrs("observed", "DISC queued before the PONG"), witness(p))
			return
		}
		cs, err := listConns(proc.APIAddr)
		if err != nil {
			r.Inconclusive("API: " + err.Error())
			return
		}
		e := findConn(cs, local)
		if e == nil || e.State != "introduced" {
			st := "not listed"
			if e != nil {
				st = e.State
			}
			r.Violation("valid-introduction-not-reported-introduced", attrs("api_state", st), witness(p))
			return
		}
		r.Count("node.verdict.introduced", 1)
		r.Distinct("node:" + c.Shape + ":introduced")
		if !hasMsg(p, "GETB", 0, len(p.Recv)) {
			r.Count("node.introduced.no-getb-seen", 1)
		}
		sampleNode(r, c, "introduced; API state introduced", p)
	case "disconnect":
		// A PING is sent right away as a probe: once its PONG arrives everything before it has been
		// processed (one FIFO event loop) and a DISC message initiated by an earlier message would
		// have been queued before the PONG (one FIFO write queue per connection).
		_ = p.Send("PING", nil)
		pi, gotPong := p.WaitFor("PONG", 0, watchdog)
		if gotPong && !hasMsg(p, "DISC", 0, pi) {
			st := "?"
			if cs, err := listConns(proc.APIAddr); err == nil {
				if e := findConn(cs, local); e != nil {
					st = e.State
				} else {
					st = "not listed"
				}
			}
			kind := "no-disconnect-after-non-introduction-message"
			if strings.HasPrefix(c.Why, "invalid introduction") {
				kind = "invalid-introduction-accepted"
			}
			r.Violation(kind, attrs("observed", "PONG without any DISC queued before it", "api_state", st, "decider", strings.Fields(c.Why)[0]), witness(p))
			return
		}
		if gotPong {
			r.Count("node.disconnect.pong-after-DISC", 1)
		}
		if !p.WaitClosed(watchdog) {
			r.Inconclusive("watchdog: connection neither closed nor provably alive (" + c.Shape + ")")
			return
		}
		r.Count("node.verdict.disconnected", 1)
		if strings.HasPrefix(c.Why, "invalid introduction") {
			r.Count("node.verdict.disconnected.by-invalid-intro", 1)
		} else {
			r.Count("node.verdict.disconnected.by-non-intro-message", 1)
		}
		if hasMsg(p, "DISC", 0, len(p.Recv)) {
			r.Count("node.disconnect.with-DISC-message", 1)
		} else {
			r.Count("node.disconnect.without-DISC-message", 1)
		}
		r.Distinct("node:" + c.Shape + ":disconnected")
		// the peer is gone from the node's books (eventually: removal follows the socket close)
		deadline := time.Now().Add(watchdog)
		polls := 0
		for {
			cs, err := listConns(proc.APIAddr)
			if err != nil {
				r.Inconclusive("API: " + err.Error())
				return
			}
			polls++
			if findConn(cs, local) == nil {
				r.Count("node.api.gone-after-disconnect", 1)
				if polls > 1 {
					r.Count("node.api.gone-needed-polling", 1)
				}
				break
			}
			if time.Now().After(deadline) {
				r.Inconclusive("watchdog: closed connection still listed by the API (" + c.Shape + ")")
				return
			}
			time.Sleep(2 * time.Millisecond)
		}
		sampleNode(r, c, "EOF; no longer listed", p)
	case "observe":
		// DISC before introduction: exempt from the disconnect rule; it must not be introduced
		closed := p.WaitClosed(3 * time.Second)
		if closed {
			r.Count("node.disc-first.closed", 1)
		} else {
			r.Count("node.disc-first.still-open", 1)
		}
		cs, err := listConns(proc.APIAddr)
		if err == nil {
			if e := findConn(cs, local); e != nil && e.State == "introduced" {
				r.Violation("introduced-without-introduction", attrs("api_state", e.State), witness(p))
				return
			}
		}
		r.Distinct("node:" + c.Shape + ":observed")
	}
}

func sampleNode(r *vf.Run, c nodeCase, outcome string, p *wire.Peer) {
	sampleMu.Lock()
	defer sampleMu.Unlock()
	if nodeSamples >= 3 {
		return
	}
	nodeSamples++
	var recv []string
	for _, m := range p.Recv {
		recv = append(recv, m.ID)
	}
	r.Sample(map[string]interface{}{"leg": "node", "shape": c.Shape, "intro_class": c.Class, "model": c.Expect + " (" + c.Why + ")", "observed": outcome, "received": strings.Join(recv, " ")})
}
