// C25 — Only correctly introduced peers reach the protocol.
//
// Function level (funcleg.go): generated introduction bodies are decoded with the real decoder
// and given to the real IntroductionMessage.Verify; the verdict is compared with a model written
// from the statement and the documented layout (model.go). A panic is a violation.
//
// Node level (nodeleg.go): real nodes (vnode children) receive, on fresh TCP connections, every
// message type as first message and short message orders ending in a valid or invalid
// introduction. Verdicts are logical: a PONG proves that everything sent before was processed,
// the connection listing of the HTTP API shows the state, a closed connection is observed as EOF.
// After its graceful stop, the peer list a node saved may only name peers of valid introductions.
//
// Rude peers (rudeleg.go, rudenode.go): the peer whose introduction is rejected closes, half-closes
// or resets its socket or stops reading, with further messages behind the introduction, while a
// well-behaved peer keeps the node busy; the node's own disconnect call then fails or races. Such
// a peer may never count as introduced: connection registry (polled inside the node), connection
// listing of the API, replies on the connection, saved peer list.
package main

import (
	"os"
	"strings"
	"sync"

	"verif/lib/vf"
)

func main() {
	if os.Getenv(rudeNodeEnv) != "" && len(os.Args) == 2 && strings.HasSuffix(os.Args[1], "options.json") {
		rudeNodeMain()
		return
	}
	r := vf.Start("C25", "exploration")
	legs := os.Getenv("C25_LEGS") // dev aid: "func", "node", "rude" (floors of the legs left out then fail)
	want := func(l string) bool { return legs == "" || strings.Contains(legs, l) }
	if want("func") {
		runFuncLeg(r)
	}
	var wg sync.WaitGroup
	if want("rude") {
		wg.Add(1)
		go func() {
			defer wg.Done()
			runRudeLeg(r)
		}()
	}
	if want("node") {
		runNodeLeg(r)
	}
	wg.Wait()
	r.Finish("function level: seeded introduction bodies (mirror equal/adjacent/different, protocol version around the minimum and at the int32 limits, extra absent / explicit zero length / 1..32 bytes / structured with right or wrong pubkey, each verification parameter at and beyond its range, user agents valid / 256 bytes / too long / malformed / illegal characters / wrong length prefixes / missing, genesis hash absent / full / wrong / partial / followed by more bytes, random extras, wrong outer length prefix) through the real decoder and IntroductionMessage.Verify vs a byte-level model; node level: vnode children, per fresh connection one of the 12 message types as first message or GIVP* [other message] GIVP* INTR(valid | one invalid class), and the peer list saved at the node's graceful stop; rude peers: own node children with a registry reader inside, per fresh connection GIVP{0..2} INTR(each invalid class) + 0..3 of GETB/GETP/GIVP/ANNT/ANNB/GETT/PING in one write, then close / half-close / reset (at once, after 200 us, after 1 ms) or no more reading, while an introduced peer sends bursts of 0/10/20/30 ANNT before, after or around that write (the node's own disconnect call then fails for part of the cases: counted), model verdict 'never introduced' vs connection registry, API listing, replies and saved peer list; distinct = distinct (label set, model reason) classes at function level, distinct (sequence shape, outcome) classes at node level, distinct (peer behaviour, model reason, follow-up messages) classes for rude peers",
		"a user agent containing illegal characters whose stripped form is valid, bytes after the genesis hash, and semver numbers above 64 bits are not decided by the documents: behaviour is recorded (func.either.*), not judged",
		"node level uses introductions with listen port >= 1024 and a mirror unique among live connections, so that the peer-list and duplicate-connection rules (outside this property) do not interfere",
		"'caused a disconnect' is observed as EOF on the peer socket; if no EOF arrives within the watchdog a PING probe is sent: a PONG with no DISC message queued before it proves logically (one FIFO event loop, one FIFO write queue per connection) that all messages were processed and no disconnect was initiated; anything else after a missed watchdog is inconclusive",
		"node-level bursts stay below 1024 bytes so that they are not cut by the receiver's read buffer (message loss at read-buffer cuts belongs to C22)",
		"a disconnect is asynchronous: a valid introduction queued behind a message that already caused a disconnect is still handled, so the saved peer list may name the listen address of every model-valid introduction sent (and advertised peers), never that of a rejected one; rude peers announce listen ports 62100+ that nothing valid uses",
		"rude peers: no second introduction follows the rejected one; the well-behaved peer's bursts stay at 30+1 messages (gnet drops a connection with more than 32 undelivered messages: C22); pauses and burst placement only shape the workload, every verdict is a set comparison after logical barriers (PONG of the well-behaved peer, connection no longer listed, graceful stop)")
}
