// C25 — Only correctly introduced peers reach the protocol.
//
// Function level (funcleg.go): generated introduction bodies are decoded with the real decoder
// and given to the real IntroductionMessage.Verify; the verdict is compared with a model written
// from the statement and the documented layout (model.go). A panic is a violation.
//
// Node level (nodeleg.go): real nodes (vnode children) receive, on fresh TCP connections, every
// message type as first message and short message orders ending in a valid or invalid
// introduction. Verdicts are logical: a PONG proves that everything sent before was processed,
// the connection listing of the HTTP API shows the state, a closed connection is observed as EOF.
package main

import (
	"verif/lib/vf"
)

func main() {
	r := vf.Start("C25", "exploration")
	runFuncLeg(r)
	runNodeLeg(r)
	r.Finish("function level: seeded introduction bodies (mirror equal/adjacent/different, protocol version around the minimum and at the int32 limits, extra absent / explicit zero length / 1..32 bytes / structured with right or wrong pubkey, each verification parameter at and beyond its range, user agents valid / 256 bytes / too long / malformed / illegal characters / wrong length prefixes / missing, genesis hash absent / full / wrong / partial / followed by more bytes, random extras, wrong outer length prefix) through the real decoder and IntroductionMessage.Verify vs a byte-level model; node level: vnode children, per fresh connection one of the 12 message types as first message or GIVP* [other message] GIVP* INTR(valid | one invalid class); distinct = distinct (label set, model reason) classes at function level and distinct (sequence shape, outcome) classes at node level",
		"a user agent containing illegal characters whose stripped form is valid, bytes after the genesis hash, and semver numbers above 64 bits are not decided by the documents: behaviour is recorded (func.either.*), not judged",
		"node level uses introductions with listen port >= 1024 and a mirror unique among live connections, so that the peer-list and duplicate-connection rules (outside this property) do not interfere",
		"'caused a disconnect' is observed as EOF on the peer socket; if no EOF arrives within the watchdog a PING probe is sent: a PONG with no DISC message queued before it proves logically (one FIFO event loop, one FIFO write queue per connection) that all messages were processed and no disconnect was initiated; anything else after a missed watchdog is inconclusive",
		"node-level bursts stay below 1024 bytes so that they are not cut by the receiver's read buffer (message loss at read-buffer cuts belongs to C22)")
}
