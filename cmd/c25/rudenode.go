package main

// The rude leg's node: the same real node as cmd/vnode (lib/node.Start), run by this binary as a
// child process so that two observers can sit inside it:
//
//   - a reader of the daemon's connection registry (hook Connections.VerifSnapshot) that polls it for
//     the whole life of the node and remembers every connection it ever saw in state "introduced",
//     with the mirror and listen port registered for it (a rejected introduction may not even
//     transiently count as introduced);
//   - a log hook that remembers the "Disconnect" warnings and errors (the node's own disconnect call
//     failed). This one is coverage only: it shows that the failing-disconnect path was reached.
//
// Neither decides anything: both lists are written to <workdir>/monitor.json when the node stops
// and the parent compares them with the model.

import (
	"encoding/hex"
	"encoding/json"
	"fmt"
	"io"
	"os"
	"path/filepath"
	"sync"
	"time"

	"github.com/sirupsen/logrus"
	"github.com/skycoin/skycoin/src/util/logging"

	"verif/lib/node"
)

type seenIntroduced struct {
	Addr       string `json:"addr"`
	Mirror     uint32 `json:"mirror"`
	ListenPort uint16 `json:"listen_port"`
	UserAgent  string `json:"user_agent"`
}

type failedDisconnect struct {
	Addr  string `json:"addr"`
	Level string `json:"level"`
	Err   string `json:"err"`
}

type monitorReport struct {
	Polls      int64              `json:"polls"`
	Introduced []seenIntroduced   `json:"introduced"`
	Failed     []failedDisconnect `json:"failed_disconnects"`
}

type discHook struct {
	mu     sync.Mutex
	failed []failedDisconnect
}

func (h *discHook) Levels() []logrus.Level {
	return []logrus.Level{logrus.WarnLevel, logrus.ErrorLevel}
}

func (h *discHook) Fire(e *logrus.Entry) error {
	if e.Message != "Disconnect" {
		return nil
	}
	rec := failedDisconnect{Level: e.Level.String()}
	if a, ok := e.Data["addr"].(string); ok {
		rec.Addr = a
	}
	if err, ok := e.Data[logrus.ErrorKey].(error); ok && err != nil {
		rec.Err = err.Error()
	}
	h.mu.Lock()
	if len(h.failed) < 1<<20 {
		h.failed = append(h.failed, rec)
	}
	h.mu.Unlock()
	return nil
}

func rudeNodeMain() {
	var o node.Options
	if len(os.Args) < 2 {
		fmt.Fprintln(os.Stderr, "usage: c25 <options.json> (child mode)")
		os.Exit(2)
	}
	b, err := os.ReadFile(os.Args[1])
	if err == nil {
		err = json.Unmarshal(b, &o)
	}
	if err != nil {
		fmt.Fprintln(os.Stderr, err)
		os.Exit(2)
	}
	workdir := filepath.Dir(os.Args[1])
	hook := &discHook{}
	o.Verbose = true // keep lib/node from touching the logger: it is set up here
	logging.SetOutputTo(io.Discard)
	logging.SetLevel(logrus.InfoLevel)
	logging.AddHook(hook)

	n, err := node.Start(o)
	enc := json.NewEncoder(os.Stdout)
	if err != nil {
		_ = enc.Encode(node.Ready{Err: err.Error()})
		os.Exit(1)
	}

	// the registry reader
	var rep monitorReport
	seen := map[seenIntroduced]bool{}
	quit := make(chan struct{})
	var wg sync.WaitGroup
	wg.Add(1)
	go func() {
		defer wg.Done()
		conns := n.Daemon.VerifConnections()
		for {
			select {
			case <-quit:
				return
			default:
			}
			s := conns.VerifSnapshot()
			rep.Polls++
			for _, c := range s.Conns {
				if string(c.State) == "introduced" {
					ua, _ := c.UserAgent.Build()
					k := seenIntroduced{Addr: c.Addr, Mirror: c.Mirror, ListenPort: c.ListenPort, UserAgent: ua}
					if !seen[k] {
						seen[k] = true
						rep.Introduced = append(rep.Introduced, k)
					}
				}
			}
			time.Sleep(20 * time.Microsecond)
		}
	}()

	_ = enc.Encode(node.Ready{APIAddr: n.APIAddr, PeerAddr: n.PeerAddr, PID: os.Getpid(), GenesisSig: hex.EncodeToString(n.Chain.GenesisSig[:])})
	done := make(chan struct{})
	go func() {
		_, _ = io.Copy(io.Discard, os.Stdin)
		close(done)
	}()
	select {
	case <-done:
	case err := <-n.RunErr:
		fmt.Fprintln(os.Stderr, "node run error:", err)
	}
	close(quit)
	wg.Wait()
	n.Stop()
	hook.mu.Lock()
	rep.Failed = hook.failed
	hook.mu.Unlock()
	out, _ := json.Marshal(rep)
	tmp := filepath.Join(workdir, "monitor.json.tmp")
	if err := os.WriteFile(tmp, out, 0644); err == nil {
		_ = os.Rename(tmp, filepath.Join(workdir, "monitor.json"))
	}
}
