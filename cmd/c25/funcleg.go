package main

import (
	"fmt"
	"strings"
	"sync"

	"github.com/sirupsen/logrus"

	"github.com/skycoin/skycoin/src/cipher"
	"github.com/skycoin/skycoin/src/daemon"
	"github.com/skycoin/skycoin/src/util/logging"

	"verif/lib/vf"
)

// labels whose generator classes must all have been observed (floors)
var funcLabelFloors = []string{
	"mirror:equal", "mirror:plus1", "mirror:minus1", "mirror:different",
	"version:min-1", "version:min-2", "version:0", "version:-1", "version:minint", "version:maxint", "version:min+1", "version:min", "version:random",
	"extra:absent", "extra:len0", "extra:short-pubkey-prefix", "extra:short-random", "extra:random", "extra:random-after-params", "extra:structured",
	"pubkey:bitflip", "pubkey:zero", "pubkey:random", "pubkey:right", "params:truncated",
	"burn:below-range", "burn:at-minimum", "burn:in-range", "maxtxn:below-range", "maxtxn:at-minimum", "maxtxn:in-range",
	"decimals:above-range", "decimals:at-maximum", "decimals:in-range",
	"ua:valid", "ua:valid-256-bytes", "ua:too-long", "ua:empty", "ua:malformed", "ua:illegal-chars", "ua:illegal-chars-malformed", "ua:random-bytes",
	"ua:length-prefix-beyond-data", "ua:length-prefix-short", "ua:length-prefix-huge", "ua:length-prefix-257", "ua:missing",
	"genesis:absent", "genesis:full", "genesis:wrong", "genesis:partial", "genesis:trailing-bytes",
	"outer-len:+1", "outer-len:-1", "outer-len:max", "outer-len:truncated-prefix",
}

func runFuncLeg(r *vf.Run) {
	logging.Disable()
	n := r.Pick(60000, 5000000)
	const shard = 2000
	shards := (n + shard - 1) / shard
	pub, _ := cipher.MustGenerateDeterministicKeyPair([]byte(fmt.Sprintf("c25-chain-%d", r.Seed)))
	var genesis [32]byte
	gh := cipher.SumSHA256([]byte("c25-genesis"))
	copy(genesis[:], gh[:])

	vf.Parallel(shards, 16, func(s int) {
		rng := r.Rand("func", s)
		own := ownParams{MinVersion: []int32{2, 2, 1, 7, 0, -3}[s%6]}
		switch s % 5 {
		case 0:
			own.Mirror = 0
		case 1:
			own.Mirror = 0xffffffff
		default:
			own.Mirror = rng.Uint32()
		}
		copy(own.Pubkey[:], pub[:])
		dc := daemon.NewDaemonConfig()
		dc.Mirror = own.Mirror
		dc.MinProtocolVersion = own.MinVersion
		dc.BlockchainPubkey = pub
		lo, hi := s*shard, (s+1)*shard
		if hi > n {
			hi = n
		}
		for i := lo; i < hi; i++ {
			gc := genIntro(rng, own, genesis)
			evalFunc(r, dc, own, gc)
		}
	})
	for _, l := range funcLabelFloors {
		r.Floor("func.label."+l, 5)
	}
	r.Floor("func.model.valid", 1000)
	r.Floor("func.model.invalid", 1000)
	r.Floor("func.model.either", 50)
	r.Floor("func.undecodable", 100)
	r.Floor("func.accepted", 1000)
	r.Floor("func.rejected", 1000)
}

func evalFunc(r *vf.Run, dc daemon.DaemonConfig, own ownParams, gc genCase) {
	r.Eval(1)
	for _, l := range gc.Labels {
		r.Count("func.label."+l, 1)
	}
	labels := strings.Join(gc.Labels, ",")
	attrs := func(extra ...string) map[string]string {
		m := map[string]string{"leg": "function", "labels": labels, "body": vf.Hex(gc.Body),
			"own_mirror": fmt.Sprint(own.Mirror), "min_version": fmt.Sprint(own.MinVersion)}
		for i := 0; i+1 < len(extra); i += 2 {
			m[extra[i]] = extra[i+1]
		}
		return m
	}

	var m daemon.IntroductionMessage
	var used uint64
	var derr error
	if p, msg, frame := vf.Recover(func() { used, derr = m.Decode(gc.Body) }); p {
		r.Violation("panic", attrs("where", "decode", "panic", msg, "frame", frame), gc)
		return
	}
	realDecodable := derr == nil && used == uint64(len(gc.Body))
	mirror, _, version, extra, modelDecodable := splitBody(gc.Body)
	if realDecodable != modelDecodable {
		r.Violation("decode-mismatch", attrs("real", fmt.Sprint(realDecodable, " ", derr, " used=", used), "model", fmt.Sprint(modelDecodable)), gc)
		return
	}
	if !realDecodable {
		r.Count("func.undecodable", 1)
		r.Distinct("undecodable:" + labels)
		return
	}
	want, reason := judge(own, mirror, version, extra)
	var verr error
	if p, msg, frame := vf.Recover(func() { verr = m.Verify(dc, logrus.Fields{}) }); p {
		r.Violation("panic", attrs("where", "verify", "panic", msg, "frame", frame, "model", want.String(), "reason", reason), gc)
		return
	}
	r.Count("func.model."+want.String(), 1)
	if reason != "" {
		r.Count("func.reason."+reason, 1)
	}
	r.Distinct(labels + "|" + reason)
	if verr == nil {
		r.Count("func.accepted", 1)
	} else {
		r.Count("func.rejected", 1)
		r.Count("func.real-reason."+strings.ReplaceAll(verr.Error(), " ", "_"), 1)
	}
	switch want {
	case vValid:
		if verr != nil {
			r.Violation("rejects-valid-introduction", attrs("real_err", verr.Error()), gc)
		}
	case vInvalid:
		if verr == nil {
			r.Violation("accepts-invalid-introduction", attrs("reason", reason), gc)
		}
	case vEither:
		if verr == nil {
			r.Count("func.either."+reason+".accepted", 1)
		} else {
			r.Count("func.either."+reason+".rejected", 1)
		}
	}
	if takeFuncSample(want) {
		r.Sample(map[string]interface{}{"leg": "function", "labels": gc.Labels, "body": vf.Hex(gc.Body), "model": want.String(), "real_err": fmt.Sprint(verr)})
	}
}

var funcSampleMu sync.Mutex
var funcSampled = map[verdict]bool{}

// takeFuncSample lets one case per model verdict into the evidence samples
func takeFuncSample(v verdict) bool {
	funcSampleMu.Lock()
	defer funcSampleMu.Unlock()
	if funcSampled[v] {
		return false
	}
	funcSampled[v] = true
	return true
}
