package main

// Generator of introduction message bodies. Each generated body carries labels describing what
// the generator intended (for the evidence counters); the expected verdict is NOT taken from the
// labels but computed from the bytes by the model (model.go).

import (
	"encoding/binary"
	"math"
	"math/rand"
	"strings"
)

type genCase struct {
	Body   []byte
	Labels []string // generator intent, e.g. "extra:structured", "ua:illegal-chars"
}

func le32(v uint32) []byte {
	b := make([]byte, 4)
	binary.LittleEndian.PutUint32(b, v)
	return b
}

var validAgents = []string{
	"skycoin:0.27.0",
	"skycoin:0.26.0(remark; here)",
	"Sky-coin_x+y:1.2.3-rc1",
	"a:0.0.0",
	"coin:10.20.30-alpha.1+build.5",
	"coin:1.0.0+20130313144700",
	"coin:1.0.0-0.3.7",
	"coin:1.0.0-x-y-z.--",
	"skycoin:0.27.0(a=b,c?~ !$%;:.)",
	"x:1.2.3(+)",
}

var malformedAgents = []string{
	"",
	"skycoin",
	"skycoin:",
	":0.27.0",
	"skycoin:0.27",
	"skycoin:0.27.0.1",
	"skycoin:01.2.3",
	"skycoin:1.02.3",
	"skycoin:1.2.03",
	"skycoin:1.2.3-",
	"skycoin:1.2.3-01",
	"skycoin:1.2.3+",
	"skycoin:1.2.3-a..b",
	"skycoin:1.2.3abc",
	"skycoin:v1.2.3",
	"sky coin:1.2.3",
	"sky.coin:1.2.3",
	"skycoin:1.2.3()",
	"skycoin:1.2.3(",
	"skycoin:1.2.3(x",
	"skycoin:1.2.3(x)y",
	"skycoin:1.2.3(a(b))",
	"skycoin:1.2.3(a/b)",
	"skycoin:1.2.3 (x)",
	"skycoin:1.2.3-a_b",
	"skycoin:1.2.3+a+b",
	"skycoin;1.2.3",
	"1.2.3",
	"skycoin:1..3",
	"skycoin:.1.3",
	"skycoin:1.2.3(x)(y)",
}

const illegalBytes = "<>&\"'#@|{}`\x00\x01\x1f\x7f\x80\xff\xc3\xa9\n\t"

func randBytes(rng *rand.Rand, n int) []byte {
	b := make([]byte, n)
	rng.Read(b)
	return b
}

// longAgent builds a format-valid user agent of exactly n bytes (n >= 10)
func longAgent(n int) string {
	return "c:1.2.3(" + strings.Repeat("r", n-9) + ")"
}

// genIntro draws one body. own is the receiver's configuration (needed for "equal mirror",
// "right pubkey", "version around the minimum").
func genIntro(rng *rand.Rand, own ownParams, genesis [32]byte) genCase {
	var labels []string
	add := func(s string) { labels = append(labels, s) }

	// --- mirror
	var mirror uint32
	switch x := rng.Intn(20); {
	case x == 0:
		mirror = own.Mirror
		add("mirror:equal")
	case x == 1:
		mirror = own.Mirror + 1
		add("mirror:plus1")
	case x == 2:
		mirror = own.Mirror - 1
		add("mirror:minus1")
	default:
		mirror = rng.Uint32()
		if mirror == own.Mirror {
			mirror++
		}
		add("mirror:different")
	}
	// --- version
	var version int32
	switch x := rng.Intn(16); {
	case x == 0:
		version = own.MinVersion - 1
		add("version:min-1")
	case x == 1:
		version = own.MinVersion - 2
		add("version:min-2")
	case x == 2:
		version = 0
		add("version:0")
	case x == 3:
		version = -1
		add("version:-1")
	case x == 4:
		version = math.MinInt32
		add("version:minint")
	case x == 5:
		version = math.MaxInt32
		add("version:maxint")
	case x == 6:
		version = own.MinVersion + 1
		add("version:min+1")
	case x == 7:
		version = int32(rng.Uint32())
		add("version:random")
	default:
		version = own.MinVersion
		add("version:min")
	}
	port := uint16(1024 + rng.Intn(60000))

	// --- extra
	var extra []byte
	explicitZero := false
	switch x := rng.Intn(100); {
	case x < 3:
		add("extra:absent")
	case x < 5:
		explicitZero = true
		add("extra:len0")
	case x < 13:
		n := 1 + rng.Intn(32)
		if rng.Intn(2) == 0 {
			extra = append([]byte(nil), own.Pubkey[:n]...)
			add("extra:short-pubkey-prefix")
		} else {
			extra = randBytes(rng, n)
			add("extra:short-random")
		}
	case x < 20:
		n := rng.Intn(160)
		extra = randBytes(rng, n)
		add("extra:random")
	case x < 26:
		// right pubkey, valid parameters, then random bytes
		extra = append(extra, own.Pubkey[:]...)
		extra = append(extra, le32(10)...)
		extra = append(extra, le32(32768)...)
		extra = append(extra, 3)
		extra = append(extra, randBytes(rng, rng.Intn(80))...)
		add("extra:random-after-params")
	default:
		add("extra:structured")
		extra = genStructured(rng, own, genesis, add)
	}

	body := make([]byte, 10)
	binary.LittleEndian.PutUint32(body[0:], mirror)
	binary.LittleEndian.PutUint16(body[4:], port)
	binary.LittleEndian.PutUint32(body[6:], uint32(version))
	if len(extra) > 0 || explicitZero {
		// occasionally a wrong outer length prefix (undecodable body)
		n := uint32(len(extra))
		switch x := rng.Intn(60); {
		case x == 0:
			n++
			add("outer-len:+1")
		case x == 1 && n > 0:
			n--
			add("outer-len:-1")
		case x == 2:
			n = 0xffffffff
			add("outer-len:max")
		}
		body = append(body, le32(n)...)
		body = append(body, extra...)
	} else if rng.Intn(40) == 0 {
		body = append(body, randBytes(rng, 1+rng.Intn(3))...)
		add("outer-len:truncated-prefix")
	}
	return genCase{Body: body, Labels: labels}
}

func genStructured(rng *rand.Rand, own ownParams, genesis [32]byte, add func(string)) []byte {
	var extra []byte
	// pubkey
	pk := own.Pubkey
	switch x := rng.Intn(14); {
	case x == 0:
		pk[rng.Intn(33)] ^= 1 << uint(rng.Intn(8))
		add("pubkey:bitflip")
	case x == 1:
		pk = [33]byte{}
		add("pubkey:zero")
	case x == 2:
		copy(pk[:], randBytes(rng, 33))
		add("pubkey:random")
	default:
		add("pubkey:right")
	}
	extra = append(extra, pk[:]...)
	// possibly cut inside the parameters
	if rng.Intn(25) == 0 {
		n := rng.Intn(9)
		extra = append(extra, randBytes(rng, n)...)
		add("params:truncated")
		return extra
	}
	burns := []uint32{0, 1, 2, 3, 10, 100, math.MaxUint32}
	sizes := []uint32{0, 1, 1023, 1024, 1025, 32768, math.MaxUint32}
	decs := []uint8{0, 1, 3, 6, 7, 8, 255}
	burn, size, dec := uint32(10), uint32(32768), uint8(3)
	switch x := rng.Intn(10); {
	case x == 0:
		burn = burns[rng.Intn(len(burns))]
	case x == 1:
		size = sizes[rng.Intn(len(sizes))]
	case x == 2:
		dec = decs[rng.Intn(len(decs))]
	case x == 3:
		burn, size, dec = burns[rng.Intn(len(burns))], sizes[rng.Intn(len(sizes))], decs[rng.Intn(len(decs))]
	}
	switch {
	case burn < 2:
		add("burn:below-range")
	case burn == 2:
		add("burn:at-minimum")
	default:
		add("burn:in-range")
	}
	switch {
	case size < 1024:
		add("maxtxn:below-range")
	case size == 1024:
		add("maxtxn:at-minimum")
	default:
		add("maxtxn:in-range")
	}
	switch {
	case dec > 6:
		add("decimals:above-range")
	case dec == 6:
		add("decimals:at-maximum")
	default:
		add("decimals:in-range")
	}
	extra = append(extra, le32(burn)...)
	extra = append(extra, le32(size)...)
	extra = append(extra, dec)

	// user agent
	ua := validAgents[rng.Intn(len(validAgents))]
	declared := -1 // -1: true length
	switch x := rng.Intn(40); {
	case x < 18:
		add("ua:valid")
	case x < 20:
		ua = longAgent(256)
		add("ua:valid-256-bytes")
	case x < 23:
		ua = longAgent(257 + rng.Intn(300))
		add("ua:too-long")
	case x < 28:
		ua = malformedAgents[rng.Intn(len(malformedAgents))]
		if ua == "" {
			add("ua:empty")
		} else {
			add("ua:malformed")
		}
	case x < 32:
		// illegal characters inside an otherwise valid agent
		b := []byte(ua)
		for k := 1 + rng.Intn(3); k > 0; k-- {
			p := rng.Intn(len(b) + 1)
			c := illegalBytes[rng.Intn(len(illegalBytes))]
			b = append(b[:p], append([]byte{c}, b[p:]...)...)
		}
		ua = string(b)
		add("ua:illegal-chars")
	case x < 34:
		// illegal characters inside a malformed agent
		m := malformedAgents[1+rng.Intn(len(malformedAgents)-1)]
		p := rng.Intn(len(m) + 1)
		ua = m[:p] + string(illegalBytes[rng.Intn(len(illegalBytes))]) + m[p:]
		add("ua:illegal-chars-malformed")
	case x < 35:
		ua = string(randBytes(rng, 1+rng.Intn(40)))
		add("ua:random-bytes")
	case x < 36:
		declared = len(ua) + 1 + rng.Intn(64)
		add("ua:length-prefix-beyond-data")
	case x < 37:
		declared = rng.Intn(len(ua))
		add("ua:length-prefix-short")
	case x < 38:
		declared = int(uint32(math.MaxUint32) - uint32(rng.Intn(3)))
		add("ua:length-prefix-huge")
	case x < 39:
		// user agent missing entirely or a partial length prefix
		n := rng.Intn(4)
		extra = append(extra, randBytes(rng, n)...)
		add("ua:missing")
		return extra
	default:
		declared = 257
		ua = longAgent(256)
		add("ua:length-prefix-257")
	}
	if declared < 0 {
		declared = len(ua)
	}
	extra = append(extra, le32(uint32(declared))...)
	extra = append(extra, ua...)

	// genesis hash
	switch x := rng.Intn(20); {
	case x < 6:
		add("genesis:absent")
	case x < 12:
		extra = append(extra, genesis[:]...)
		add("genesis:full")
	case x < 15:
		extra = append(extra, randBytes(rng, 32)...)
		add("genesis:wrong")
	case x < 18:
		extra = append(extra, genesis[:1+rng.Intn(31)]...)
		add("genesis:partial")
	default:
		extra = append(extra, genesis[:]...)
		extra = append(extra, randBytes(rng, 1+rng.Intn(40))...)
		add("genesis:trailing-bytes")
	}
	return extra
}
