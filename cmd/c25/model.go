package main

// Model of "is this a correct introduction" written from the property statement, the layout
// comment of IntroductionMessage.Extra in src/daemon/messages.go, the documented transaction
// verification parameter ranges (params.MinBurnFactor = 2, params.MinTransactionSize = 1024,
// at most droplet.Exponent = 6 decimals) and the user agent format documented in
// src/util/useragent (package comment) + semver 2.0.0. It works on the raw message body bytes
// and never calls skycoin code.

import (
	"encoding/binary"
	"strings"
)

type verdict int

const (
	vValid   verdict = iota // every documented condition holds: must be accepted
	vInvalid                // a documented condition is violated: must be rejected
	vEither                 // the documents do not decide (see reasons): behaviour is only recorded
)

func (v verdict) String() string {
	switch v {
	case vValid:
		return "valid"
	case vInvalid:
		return "invalid"
	}
	return "either"
}

// ownParams is what the receiving node compares against
type ownParams struct {
	Mirror     uint32
	MinVersion int32
	Pubkey     [33]byte
}

// splitBody parses the message body: mirror(4) port(2) version(4) [extra: len(4) bytes]. ok=false
// if the body is not an exact encoding (too short, length prefix beyond the data, trailing bytes)
func splitBody(body []byte) (mirror uint32, port uint16, version int32, extra []byte, ok bool) {
	if len(body) < 10 {
		return 0, 0, 0, nil, false
	}
	mirror = binary.LittleEndian.Uint32(body[0:])
	port = binary.LittleEndian.Uint16(body[4:])
	version = int32(binary.LittleEndian.Uint32(body[6:]))
	rest := body[10:]
	if len(rest) == 0 {
		return mirror, port, version, nil, true
	}
	if len(rest) < 4 {
		return 0, 0, 0, nil, false
	}
	n := uint64(binary.LittleEndian.Uint32(rest))
	rest = rest[4:]
	if n != uint64(len(rest)) {
		return 0, 0, 0, nil, false
	}
	return mirror, port, version, rest, true
}

// judge returns the model's verdict and the first violated condition
func judge(own ownParams, mirror uint32, version int32, extra []byte) (verdict, string) {
	if mirror == own.Mirror {
		return vInvalid, "self-connection"
	}
	if version < own.MinVersion {
		return vInvalid, "version-below-minimum"
	}
	if len(extra) == 0 {
		return vInvalid, "no-pubkey"
	}
	if len(extra) < 33 {
		return vInvalid, "extra-shorter-than-pubkey"
	}
	for i := 0; i < 33; i++ {
		if extra[i] != own.Pubkey[i] {
			return vInvalid, "pubkey-mismatch"
		}
	}
	if len(extra) < 33+9 {
		return vInvalid, "params-truncated"
	}
	burn := binary.LittleEndian.Uint32(extra[33:])
	maxTxn := binary.LittleEndian.Uint32(extra[37:])
	dec := extra[41]
	if burn < 2 {
		return vInvalid, "burn-factor-below-2"
	}
	if maxTxn < 1024 {
		return vInvalid, "max-txn-size-below-1024"
	}
	if dec > 6 {
		return vInvalid, "decimals-above-6"
	}
	rest := extra[42:]
	if len(rest) < 4 {
		return vInvalid, "user-agent-missing"
	}
	n := uint64(binary.LittleEndian.Uint32(rest))
	rest = rest[4:]
	if n > 256 {
		return vInvalid, "user-agent-too-long"
	}
	if n > uint64(len(rest)) {
		return vInvalid, "user-agent-length-beyond-data"
	}
	ua := string(rest[:n])
	tail := rest[n:]
	uv, ur := judgeUserAgent(ua)
	if uv == vInvalid {
		return vInvalid, ur
	}
	if len(tail) > 0 && len(tail) < 32 {
		return vInvalid, "genesis-hash-partial"
	}
	if uv == vEither {
		return vEither, ur
	}
	if len(tail) > 32 {
		// bytes after the genesis hash: the layout comment says the field exists "to accommodate
		// multiple versions of this packet", it does not say what to do with unknown trailing data
		return vEither, "bytes-after-genesis-hash"
	}
	return vValid, ""
}

const uaIllegal = `<>&"'#@|{}` + "`"

func isNameChar(c byte) bool {
	return c >= 'A' && c <= 'Z' || c >= 'a' && c <= 'z' || c >= '0' && c <= '9' || c == '-' || c == '_' || c == '+'
}

func isRemarkChar(c byte) bool {
	return isNameChar(c) || strings.IndexByte(";:!$%,.=?~ ", c) >= 0
}

func isAlnumHyphen(c byte) bool {
	return c >= 'A' && c <= 'Z' || c >= 'a' && c <= 'z' || c >= '0' && c <= '9' || c == '-'
}

func allDigits(s string) bool {
	if s == "" {
		return false
	}
	for i := 0; i < len(s); i++ {
		if s[i] < '0' || s[i] > '9' {
			return false
		}
	}
	return true
}

// semverOK: semver 2.0.0 grammar. huge=true if a numeric identifier has more than 19 digits
// (the specification has no bound, an implementation with 64-bit numbers may refuse)
func semverOK(s string) (ok bool, huge bool) {
	build := ""
	hasBuild := false
	if i := strings.IndexByte(s, '+'); i >= 0 {
		build, hasBuild, s = s[i+1:], true, s[:i]
	}
	pre := ""
	hasPre := false
	if i := strings.IndexByte(s, '-'); i >= 0 {
		pre, hasPre, s = s[i+1:], true, s[:i]
	}
	core := strings.Split(s, ".")
	if len(core) != 3 {
		return false, false
	}
	for _, c := range core {
		if !allDigits(c) || (len(c) > 1 && c[0] == '0') {
			return false, false
		}
		if len(c) > 19 {
			huge = true
		}
	}
	if hasPre {
		for _, id := range strings.Split(pre, ".") {
			if id == "" {
				return false, false
			}
			for i := 0; i < len(id); i++ {
				if !isAlnumHyphen(id[i]) {
					return false, false
				}
			}
			if allDigits(id) {
				if len(id) > 1 && id[0] == '0' {
					return false, false
				}
				if len(id) > 19 {
					huge = true
				}
			}
		}
	}
	if hasBuild {
		for _, id := range strings.Split(build, ".") {
			if id == "" {
				return false, false
			}
			for i := 0; i < len(id); i++ {
				if !isAlnumHyphen(id[i]) {
					return false, false
				}
			}
		}
	}
	return true, huge
}

// uaFormat checks `$NAME:$VERSION($REMARK)` on a string without illegal characters
func uaFormat(s string) (ok bool, huge bool, why string) {
	if s == "" {
		return false, false, "user-agent-empty"
	}
	if len(s) > 256 {
		return false, false, "user-agent-too-long"
	}
	i := strings.IndexByte(s, ':')
	if i <= 0 {
		return false, false, "user-agent-malformed"
	}
	name := s[:i]
	for k := 0; k < len(name); k++ {
		if !isNameChar(name[k]) {
			return false, false, "user-agent-malformed"
		}
	}
	rest := s[i+1:]
	remark := ""
	hasRemark := false
	if j := strings.IndexByte(rest, '('); j >= 0 {
		if !strings.HasSuffix(rest, ")") || len(rest)-j < 3 {
			return false, false, "user-agent-malformed"
		}
		remark, hasRemark, rest = rest[j+1:len(rest)-1], true, rest[:j]
	}
	if hasRemark {
		for k := 0; k < len(remark); k++ {
			if !isRemarkChar(remark[k]) {
				return false, false, "user-agent-malformed"
			}
		}
	}
	// the documented version pattern: digits '.' digits '.' digit then [A-Za-z0-9-.+]*
	for k := 0; k < len(rest); k++ {
		c := rest[k]
		if !(isAlnumHyphen(c) || c == '.' || c == '+') {
			return false, false, "user-agent-malformed"
		}
	}
	sok, h := semverOK(rest)
	if !sok {
		return false, false, "user-agent-version-not-semver"
	}
	return true, h, ""
}

// judgeUserAgent: a user agent without illegal characters is valid iff it has the documented
// format. With illegal characters (non-printable, non-ASCII or one of IllegalChars) the
// documentation calls them forbidden while the receiver is documented to sanitise (strip) them
// before parsing: if what remains is not a valid user agent the message must be refused, otherwise
// the documents do not decide.
func judgeUserAgent(ua string) (verdict, string) {
	clean := make([]byte, 0, len(ua))
	illegal := false
	for i := 0; i < len(ua); i++ {
		c := ua[i]
		if c < 0x20 || c > 0x7e || strings.IndexByte(uaIllegal, c) >= 0 {
			illegal = true
			continue
		}
		clean = append(clean, c)
	}
	ok, huge, why := uaFormat(string(clean))
	if !ok {
		return vInvalid, why
	}
	if illegal {
		return vEither, "user-agent-illegal-chars-stripped"
	}
	if huge {
		return vEither, "user-agent-version-number-above-64-bits"
	}
	return vValid, ""
}
