package main

// Rude-peer leg. The node leg's peers are polite: after a rejected introduction they keep the socket
// open and read the DISC message, so the node's own disconnect always goes through. Here the peer
// whose introduction the model rejects ends the connection itself or stops cooperating:
//
//	close       writes the messages and closes the socket
//	half-close  writes, shuts down its sending side (FIN) and reads until the node closes
//	reset       writes and resets the connection (SO_LINGER 0)
//	stall       writes and never reads again (the socket stays open until the node gave up on it)
//
// (close / half-close / reset follow the write at once, after 200 us or after 1 ms.) The rejected
// introduction may be preceded by peer lists (allowed before introduction) and is followed, in the same
// write, by 0..3 further protocol messages (GETB, GETP, GIVP, ANNT, ANNB, GETT, PING). Meanwhile a
// second, correctly introduced peer keeps the node's event loop busy with bursts of transaction
// announcements (0, 10, 20 or 30 ANNT of 31 unknown hashes, each answered by a GETT, then a PING), sent
// just after the rude peer's write, just before it, or so that the rude peer writes when the first
// answer to the burst has come back. The node then handles the rejected introduction when its
// network layer may already have dropped the connection, so that its own disconnect call fails.
//
// Whatever happens to the connection, the model says the same thing for every case: the introduction
// is invalid, therefore the peer never counts as introduced. Observed:
//
//	replies           whatever the peer still receives may only be the node's INTR and DISC
//	registry          a reader inside the node (rudenode.go) polls the daemon's connection registry for
//	                  the node's whole life; it may never see one of these connections as introduced
//	connection table  after every 13 cases the HTTP API's connection listing is polled until none of
//	                  the connections is listed any more (each was listed: the node's own INTR had been
//	                  received before the peer wrote); no poll may show one as introduced
//	peer list         after the node was stopped gracefully, the peer list it saved (peers.json) may
//	                  only contain the listen addresses announced in valid introductions
//
// Every case ends with the well-behaved peer's PING/PONG barrier. A log hook inside the node counts how
// often the node's own disconnect call for a rejected introduction failed (coverage, never a verdict).

import (
	"encoding/binary"
	"encoding/json"
	"fmt"
	"math/rand"
	"net"
	"os"
	"path/filepath"
	"strings"
	"sync"
	"time"

	"github.com/skycoin/skycoin/src/cipher"

	"verif/lib/node"
	"verif/lib/vf"
	"verif/lib/wire"
)

var rudeModes = []string{"close", "half-close", "reset", "stall"}

var rudeFollowUps = []string{"GETB", "GETP", "GIVP", "ANNT", "ANNB", "GETT", "PING"}

// at most 30 announcements + 1 PING per burst: gnet hands received messages over through a 32-slot
// channel and drops the connection when it is full (C22's subject, not this property's)
var rudeLoads = []int{0, 10, 20, 30, 30, 20}

// load-running: the rude peer writes once the first answer to the burst has arrived (the node is in the middle of it)
var rudeOrders = []string{"load-running", "load-running", "load-first", "intro-first"}

var rudePauses = []time.Duration{0, 200 * time.Microsecond, time.Millisecond}

const (
	rudeHelperPort = 62000
	rudePortBase   = 62100 // rude peers announce listen ports 62100+i: disjoint from everything valid
)

type rudeCase struct {
	Class  string
	Prefix int      // peer lists before the introduction
	Follow []string // messages after the introduction, same write
	Mode   string
	Load   int           // ANNT messages in the helper's burst
	Order  string        // "load-first" | "intro-first"
	Pause  time.Duration // between the peer's write and its close / half-close / reset
	Port   uint16
	Reason string // model's reason for rejecting
	Frames []byte
	Sent   []string
}

func (c rudeCase) shape() string {
	s := strings.Repeat("GIVP ", c.Prefix) + "INTR(invalid)"
	if len(c.Follow) > 0 {
		s += " " + strings.Join(c.Follow, " ")
	}
	return s
}

func planRude(i int, rng *rand.Rand, own ownParams, genesis [32]byte, mirror uint32) rudeCase {
	c := rudeCase{Port: uint16(rudePortBase + i)}
	// every class, mode and follow-up type is visited systematically; the rest is drawn
	c.Class = invalidIntroClasses[i%len(invalidIntroClasses)]
	c.Mode = rudeModes[(i/len(invalidIntroClasses)+i)%len(rudeModes)]
	c.Load = rudeLoads[rng.Intn(len(rudeLoads))]
	c.Order = "idle"
	if c.Load > 0 {
		c.Order = rudeOrders[rng.Intn(len(rudeOrders))]
	}
	c.Pause = rudePauses[rng.Intn(len(rudePauses))]
	c.Prefix = 0
	if rng.Intn(3) == 0 {
		c.Prefix = 1 + rng.Intn(2)
	}
	nf := rng.Intn(4)
	for k := 0; k < nf; k++ {
		id := rudeFollowUps[(i+k*3+rng.Intn(2))%len(rudeFollowUps)]
		c.Follow = append(c.Follow, id)
	}
	for k := 0; k < c.Prefix; k++ {
		f := wire.Frame("GIVP", plainBody("GIVP", rng))
		c.Frames = append(c.Frames, f...)
		c.Sent = append(c.Sent, "GIVP:"+vf.Hex(f))
	}
	body := introVariant(c.Class, rng, own, genesis, mirror, c.Port)
	m, _, v, extra, ok := splitBody(body)
	want, reason := vInvalid, "undecodable-body"
	if ok {
		want, reason = judge(own, m, v, extra)
	}
	if want != vInvalid {
		panic("rude leg: introduction class not invalid by the model: " + c.Class)
	}
	c.Reason = reason
	f := wire.Frame("INTR", body)
	c.Frames = append(c.Frames, f...)
	c.Sent = append(c.Sent, "INTR:"+vf.Hex(f))
	for _, id := range c.Follow {
		f := wire.Frame(id, plainBody(id, rng))
		c.Frames = append(c.Frames, f...)
		c.Sent = append(c.Sent, id+":"+vf.Hex(f))
	}
	return c
}

// loadBurst is what the well-behaved peer sends: k announcements of 31 hashes nobody knows, then a PING
func loadBurst(rng *rand.Rand, k int) []byte {
	var b []byte
	for j := 0; j < k; j++ {
		hs := make([]cipher.SHA256, 31) // a frame just below the receiver's 1024-byte read buffer
		for x := range hs {
			_, _ = rng.Read(hs[x][:])
		}
		b = append(b, wire.Frame("ANNT", wire.HashesBody(hs))...)
	}
	return append(b, wire.Frame("PING", nil)...)
}

var rudeSampleMu sync.Mutex
var rudeSamples int

// rudeNodeEnv marks a child process of this binary that has to run the node (see rudenode.go)
const rudeNodeEnv = "C25_RUDE_NODE"

func runRudeLeg(r *vf.Run) {
	// the node is this binary in child mode (rudenode.go): lib/node's child protocol, plus the observers
	bin, err := os.Executable()
	if err != nil {
		r.Inconclusive("own executable unknown: " + err.Error())
		return
	}
	os.Setenv(rudeNodeEnv, "1")
	nodes := r.Pick(4, 8)
	per := r.Pick(104, 1040) // multiples of len(invalidIntroClasses) x len(rudeModes)
	root := vf.TempDir("c25r")
	defer os.RemoveAll(root)
	var genesis [32]byte
	gh := cipher.SumSHA256([]byte("c25-genesis"))
	copy(genesis[:], gh[:])

	vf.Parallel(nodes, nodes, func(ni int) {
		rng := r.Rand("rude", ni)
		dir := filepath.Join(root, fmt.Sprintf("r%d", ni))
		opts := node.Options{DataDir: filepath.Join(dir, "data"), ChainTag: fmt.Sprintf("c25r-%d-%d", r.Seed, ni), Volume: 100e12,
			Publisher: true, Arbitrating: true, DisableCSRF: true}
		proc, err := node.Spawn(bin, dir, opts)
		if err != nil {
			r.Inconclusive(fmt.Sprintf("rude node %d did not start: %v", ni, err))
			return
		}
		defer proc.Kill()
		chain := opts.Chain()
		own := ownParams{MinVersion: 2}
		copy(own.Pubkey[:], chain.Publisher.Pub[:])

		// the helper: a correctly introduced peer; the node's INTR tells us its mirror
		helper, err := wire.Dial(proc.PeerAddr)
		if err != nil {
			r.Inconclusive(fmt.Sprintf("rude node %d: dial: %v", ni, err))
			return
		}
		defer helper.Close()
		idx, ok := helper.WaitFor("INTR", 0, watchdog)
		if !ok || len(helper.Recv[idx].Body) < 10 {
			r.Inconclusive(fmt.Sprintf("rude node %d sent no introduction", ni))
			return
		}
		own.Mirror = binary.LittleEndian.Uint32(helper.Recv[idx].Body)
		used := map[uint32]bool{own.Mirror: true}
		newMirror := func() uint32 {
			for {
				m := rng.Uint32()
				if !used[m] {
					used[m] = true
					return m
				}
			}
		}
		hb := introVariant("canonical", rng, own, genesis, newMirror(), rudeHelperPort)
		if m, _, v, extra, ok := splitBody(hb); !ok {
			panic("helper introduction does not parse")
		} else if want, _ := judge(own, m, v, extra); want != vValid {
			panic("helper introduction not valid by the model")
		}
		_ = helper.Send("INTR", hb)
		if !helper.Barrier(watchdog) {
			r.Inconclusive(fmt.Sprintf("rude node %d: helper peer was not accepted", ni))
			return
		}
		allowed := map[string]bool{fmt.Sprintf("127.0.0.1:%d", rudeHelperPort): true}
		byPort := map[string]rudeCase{}
		byLocal := map[string]rudeCase{}
		unsettled := map[string]rudeCase{}
		batch := 0

		for i := 0; i < per; i++ {
			if r.Violations() > 20 {
				break
			}
			c := planRude(i, rng, own, genesis, newMirror())
			byPort[fmt.Sprintf("127.0.0.1:%d", c.Port)] = c
			local, done := runRudeCase(r, proc, helper, rng, c, ni, i)
			if local != "" {
				// (an ephemeral port may come back within a run: both cases are rejected introductions)
				byLocal[local] = c
				unsettled[local] = c
				batch++
			}
			if !done || !proc.Alive() {
				break
			}
			if (i+1)%13 == 0 || i+1 == per {
				if !settleRude(r, proc, unsettled, ni) {
					break
				}
				r.Count("rude.gone-from-table", int64(batch))
				unsettled, batch = map[string]rudeCase{}, 0
			}
		}
		helperOK := helper.Barrier(watchdog)
		if helperOK {
			r.Count("rude.helper.alive-at-end", 1)
		} else if proc.Alive() {
			r.Inconclusive(fmt.Sprintf("rude node %d: the well-behaved peer lost its connection", ni))
		}
		helper.Close()

		alive := proc.Alive()
		headline, frame := vf.CrashSignature(proc.Stderr())
		if !alive || headline != "" {
			r.Violation("node-crash", map[string]string{"leg": "rude", "headline": headline, "frame": frame}, map[string]interface{}{"stderr_tail": tail(proc.Stderr(), 4000)})
			return
		}
		r.Count("rude.node.alive-at-end", 1)
		if !proc.Stop(30 * time.Second) {
			r.Inconclusive(fmt.Sprintf("rude node %d did not stop gracefully: no saved peer list", ni))
			return
		}

		// the observers inside the node
		var rep monitorReport
		mb, err := os.ReadFile(filepath.Join(dir, "monitor.json"))
		if err == nil {
			err = json.Unmarshal(mb, &rep)
		}
		if err != nil {
			r.Inconclusive(fmt.Sprintf("rude node %d: no monitor report: %v", ni, err))
			return
		}
		r.Count("rude.registry.polls", rep.Polls)
		for _, s := range rep.Introduced {
			c, isRude := byLocal[s.Addr]
			if !isRude {
				r.Count("rude.registry.introduced-seen.valid-introduction", 1)
				continue
			}
			attrs := map[string]string{"leg": "rude", "evidence": "connection-registry", "class": c.Class, "mode": c.Mode, "why": "invalid introduction: " + c.Reason,
				"shape": c.shape(), "load": fmt.Sprint(c.Load), "order": c.Order, "registered_mirror": fmt.Sprint(s.Mirror), "registered_listen_port": fmt.Sprint(s.ListenPort)}
			r.Violation("rejected-introduction-counted-as-introduced", attrs, map[string]interface{}{"node": ni, "sent_frames": c.Sent, "peer_addr": s.Addr, "seen": s})
		}
		// coverage only: how often did the node's own disconnect call for a rejected introduction fail?
		// (the introduction handler logs it as a warning, the pre-introduction gate as an error)
		seen := map[string]bool{}
		for _, f := range rep.Failed {
			c, isRude := byLocal[f.Addr]
			if !isRude {
				continue
			}
			what := "other"
			switch {
			case strings.Contains(f.Err, "not connected"):
				what = "not-connected"
			case strings.Contains(f.Err, "queue full"):
				what = "write-queue-full"
			}
			if f.Level != "warning" {
				if strings.Contains(f.Err, "DisconnectMessage") {
					r.Count("rude.node-disconnect-failed.follow-up-message."+what, 1)
				} else {
					// e.g. the network layer's own disconnect after the daemon's disconnect had already gone through
					r.Count("rude.node-disconnect-failed.elsewhere", 1)
				}
				continue
			}
			if seen[f.Addr] {
				continue
			}
			seen[f.Addr] = true
			r.Count("rude.node-disconnect-failed.introduction."+what, 1)
			r.Count("rude.node-disconnect-failed.introduction.mode."+c.Mode, 1)
			r.Count(fmt.Sprintf("rude.node-disconnect-failed.introduction.load.%d", c.Load), 1)
			r.Count(fmt.Sprintf("rude.node-disconnect-failed.introduction.pause.%v", c.Pause), 1)
			r.Count("rude.node-disconnect-failed.introduction.order."+c.Order, 1)
			r.Distinct("rude-disconnect-failed:" + c.Mode + ":" + c.Reason)
		}

		// the saved peer list
		pb, err := os.ReadFile(filepath.Join(opts.DataDir, "peers.json"))
		if err != nil {
			r.Inconclusive(fmt.Sprintf("rude node %d: no saved peer list: %v", ni, err))
			return
		}
		var peers map[string]json.RawMessage
		if err := json.Unmarshal(pb, &peers); err != nil {
			r.Inconclusive(fmt.Sprintf("rude node %d: saved peer list unreadable: %v", ni, err))
			return
		}
		r.Count("rude.peerlist.nodes-checked", 1)
		for a := range peers {
			r.Count("rude.peerlist.entries", 1)
			if allowed[a] {
				r.Count("rude.peerlist.entries.valid-introduction", 1)
				continue
			}
			attrs := map[string]string{"leg": "rude", "evidence": "peer-list", "entry": a}
			wit := map[string]interface{}{"node": ni, "peer_list": string(pb)}
			if c, ok := byPort[a]; ok {
				attrs["class"], attrs["mode"], attrs["why"], attrs["shape"] = c.Class, c.Mode, "invalid introduction: "+c.Reason, c.shape()
				attrs["load"], attrs["order"] = fmt.Sprint(c.Load), c.Order
				wit["sent_frames"] = c.Sent
			}
			r.Violation("rejected-introduction-counted-as-introduced", attrs, wit)
		}
		if !peersHas(peers, allowed) {
			// the well-behaved peer's valid introduction must have been recorded, otherwise the file says nothing
			r.Inconclusive(fmt.Sprintf("rude node %d: saved peer list lacks the well-behaved peer", ni))
		}
	})

	r.Floor("rude.cases", int64(nodes*per*9/10))
	r.Floor("rude.gone-from-table", int64(nodes*per*9/10))
	for _, m := range rudeModes {
		r.Floor("rude.mode."+m, int64(nodes*per/len(rudeModes)/2))
	}
	for _, c := range invalidIntroClasses {
		r.Floor("rude.class."+c, int64(nodes))
	}
	for _, id := range rudeFollowUps {
		r.Floor("rude.follow."+id, int64(nodes))
	}
	r.Floor("rude.loaded", int64(nodes*per/3))
	r.Floor("rude.peerlist.nodes-checked", int64(nodes))
	r.Floor("rude.peerlist.entries.valid-introduction", int64(nodes))
	r.Floor("rude.helper.alive-at-end", int64(nodes))
	r.Floor("rude.registry.polls", int64(nodes*100))
	// the point of the leg: the node's disconnect call for a rejected introduction did fail
	r.Floor("rude.node-disconnect-failed.introduction.not-connected", int64(r.Pick(3, 30)))
}

func peersHas(peers map[string]json.RawMessage, want map[string]bool) bool {
	for a := range want {
		if _, ok := peers[a]; !ok {
			return false
		}
	}
	return true
}

// settleRude polls the connection listing of the HTTP API until none of the given connections (all of
// them were registered: the node's INTR had arrived before the peer wrote) is listed any more; while
// they are, none may be listed as introduced
func settleRude(r *vf.Run, proc *node.Proc, pending map[string]rudeCase, ni int) bool {
	deadline := time.Now().Add(watchdog)
	flagged := map[string]bool{}
	for {
		cs, err := listConns(proc.APIAddr)
		if err != nil {
			r.Inconclusive("API: " + err.Error())
			return false
		}
		r.Count("rude.api-polls", 1)
		left := 0
		for _, e := range cs {
			c, ok := pending[e.Addr]
			if !ok {
				continue
			}
			left++
			r.Count("rude.api.seen-still-listed", 1)
			if e.State == "introduced" && !flagged[e.Addr] {
				flagged[e.Addr] = true
				r.Violation("rejected-introduction-counted-as-introduced", map[string]string{"leg": "rude", "evidence": "connection-table", "api_state": e.State,
					"api_mirror": fmt.Sprint(e.Mirror), "api_listen_port": fmt.Sprint(e.ListenPort), "shape": c.shape(), "class": c.Class, "mode": c.Mode,
					"why": "invalid introduction: " + c.Reason, "load": fmt.Sprint(c.Load), "order": c.Order},
					map[string]interface{}{"node": ni, "sent_frames": c.Sent, "peer_addr": e.Addr})
			}
		}
		if left == 0 {
			return true
		}
		if time.Now().After(deadline) {
			r.Inconclusive(fmt.Sprintf("watchdog: %d connections of rejected introductions still listed", left))
			return false
		}
		time.Sleep(2 * time.Millisecond)
	}
}

// runRudeCase returns the peer's local address (the node's name for the connection) and whether
// the case ran to its end
func runRudeCase(r *vf.Run, proc *node.Proc, helper *wire.Peer, rng *rand.Rand, c rudeCase, ni, i int) (string, bool) {
	r.Eval(1)
	p, err := wire.Dial(proc.PeerAddr)
	if err != nil {
		r.Count("rude.dial-failed", 1)
		return "", true
	}
	defer p.Close()
	local := p.C.LocalAddr().String()
	// the node's INTR is sent by the handler that registered the connection: from here on the
	// connection table has this connection
	if _, ok := p.WaitFor("INTR", 0, watchdog); !ok {
		r.Inconclusive("watchdog: node sent no introduction to a fresh connection")
		return local, false
	}
	attrs := func(extra ...string) map[string]string {
		m := map[string]string{"leg": "rude", "shape": c.shape(), "class": c.Class, "mode": c.Mode, "why": "invalid introduction: " + c.Reason,
			"load": fmt.Sprint(c.Load), "order": c.Order}
		for k := 0; k+1 < len(extra); k += 2 {
			m[extra[k]] = extra[k+1]
		}
		return m
	}
	witness := func() map[string]interface{} {
		var recv []string
		for _, m := range p.Recv {
			recv = append(recv, m.ID+":"+vf.Hex(m.Body))
		}
		return map[string]interface{}{"node": ni, "case": i, "sent_frames": c.Sent, "received": recv, "peer_addr": local}
	}

	burst := loadBurst(rng, c.Load)
	helper.Recv = nil
	tc, _ := p.C.(*net.TCPConn)
	rude := func() {
		_ = p.SendRaw(c.Frames)
		if c.Pause > 0 && c.Mode != "stall" {
			time.Sleep(c.Pause)
		}
		switch c.Mode {
		case "close":
			p.Close()
		case "half-close":
			if tc != nil {
				_ = tc.CloseWrite()
			}
		case "reset":
			if tc != nil {
				_ = tc.SetLinger(0)
			}
			p.Close()
		case "stall":
		}
	}
	switch c.Order {
	case "intro-first":
		rude()
		_ = helper.SendRaw(burst)
	case "load-running":
		_ = helper.SendRaw(burst)
		_, _ = helper.WaitFor("GETT", 0, watchdog)
		rude()
	default:
		_ = helper.SendRaw(burst)
		rude()
	}

	// the well-behaved peer's barrier: its burst has been worked off, it is still served
	if _, ok := helper.WaitFor("PONG", 0, watchdog); !ok {
		r.Inconclusive("watchdog: the well-behaved peer got no PONG")
		return local, false
	}
	getts := 0
	for _, m := range helper.Recv {
		if m.ID == "GETT" {
			getts++
		}
	}
	r.Count("rude.helper.barriers", 1)
	r.Count("rude.helper.announcements-answered", int64(getts))

	// what the rude peer still received
	switch c.Mode {
	case "half-close", "stall":
		if !p.WaitClosed(watchdog) {
			r.Inconclusive("watchdog: node did not close the connection of a rejected introduction (" + c.Mode + ")")
			return local, false
		}
		sawDISC := false
		for _, m := range p.Recv {
			switch m.ID {
			case "INTR":
			case "DISC":
				sawDISC = true
			default:
				r.Violation("rejected-introduction-counted-as-introduced", attrs("evidence", "reply", "reply", m.ID), witness())
				return local, true
			}
		}
		if sawDISC {
			r.Count("rude.received-DISC."+c.Mode, 1)
		} else {
			r.Count("rude.closed-without-DISC."+c.Mode, 1)
		}
	}

	r.Count("rude.cases", 1)
	r.Count("rude.mode."+c.Mode, 1)
	r.Count("rude.class."+c.Class, 1)
	r.Count("rude.order."+c.Order, 1)
	r.Count(fmt.Sprintf("rude.load.%d", c.Load), 1)
	r.Count(fmt.Sprintf("rude.pause.%v", c.Pause), 1)
	if c.Load > 0 {
		r.Count("rude.loaded", 1)
	}
	if c.Prefix > 0 {
		r.Count("rude.with-peer-list-prefix", 1)
	}
	if len(c.Follow) == 0 {
		r.Count("rude.follow.none", 1)
	}
	for _, id := range c.Follow {
		r.Count("rude.follow."+id, 1)
	}
	r.Distinct("rude:" + c.Mode + ":" + c.Reason + ":" + strings.Join(c.Follow, "+"))
	rudeSampleMu.Lock()
	if rudeSamples < 2 {
		rudeSamples++
		r.Sample(map[string]interface{}{"leg": "rude", "shape": c.shape(), "intro_class": c.Class, "peer_behaviour": c.Mode, "helper_burst_annt": c.Load,
			"model": "never introduced (invalid introduction: " + c.Reason + ")", "observed": "nothing but INTR/DISC received (connection table, registry and saved peer list are compared afterwards)"})
	}
	rudeSampleMu.Unlock()
	return local, true
}
