package main

// Handler leg: the messages a RUNNING node builds in reply to its peers.
//
// A real node (nodechild.go) is started on a database that already holds a chain and a pool of
// unconfirmed transactions; a raw wire peer (lib/wire) then asks it for things:
//
//	GETB(last, n)   -> GIVB   candidate items: blocks last+1 .. last+min(n, response count, head-last)
//	GETT(hashes)    -> GIVT   candidate items: the pool transactions among the hashes, in request order
//	ANNT(hashes)    -> GETT   candidate items: the hashes NOT in the pool, in announcement order
//	GIVT(txns)      -> ANNT   candidate items: the hashes of the transactions that were new, in order
//	GETP            -> GIVP   candidate items: min(reply count, exchangeable peers) random distinct peers
//	(introduction)  -> INTR, GETB, ANNT...   only the length limit is asserted
//
// Every frame the node puts on the wire is compared with the node's CONFIGURED maximum outgoing
// length, and every reply with the 'longest prefix of the candidate items that fits' rule: the
// candidate list and its cumulative encoded sizes come from the harness's own knowledge of the
// chain, the pool and the documented wire format (the same size model and judge() as the
// constructor leg). gnet refuses to send an oversized message and drops the connection instead,
// so a reply built for a larger limit shows up here as "candidate items fit, but no reply / the
// connection was closed" - asked twice on two connections before it counts.
//
// Configurations: the defaults (outgoing 256 KiB < incoming 1 MiB) with blocks and a pool big
// enough that replies must be truncated, and small outgoing limits just above the smallest one
// the node accepts for its block size (so that hash and peer lists must be truncated too).

import (
	"crypto/sha256"
	"encoding/binary"
	"encoding/hex"
	"encoding/json"
	"fmt"
	"math/rand"
	"os"
	"path/filepath"
	"sort"
	"time"

	"github.com/skycoin/skycoin/src/cipher"
	"github.com/skycoin/skycoin/src/cipher/encoder"
	"github.com/skycoin/skycoin/src/coin"

	"verif/lib/fix"
	"verif/lib/vf"
	"verif/lib/wire"
)

const (
	nodeWatchdog = 3 * time.Minute // generous; its expiry is never a verdict
	nodeVolume   = 100e12
	coinUnit     = 1e6
)

type nodeCfg struct {
	name       string
	maxTxn     uint32 // 0: the compiled-in 32768
	maxOut     int    // 0: default 256 KiB
	maxIn      int    // 0: default 1 MiB
	replyCount int    // 0: default
	blocksResp uint64 // 0: default
	// world shape
	nBlocks        int
	blockOutsLo    int // outputs of the first transaction of a block
	blockOutsHi    int
	poolN          int
	poolOutsLo     int
	poolOutsHi     int
	freshN         int
	nPeers         int
	casesPerFamily int
}

func (c nodeCfg) txnLimit() uint32 {
	if c.maxTxn == 0 {
		return 32768
	}
	return c.maxTxn
}

func (c nodeCfg) outLimit() uint64 {
	if c.maxOut == 0 {
		return defaultMax
	}
	return uint64(c.maxOut)
}

func (c nodeCfg) inLimit() uint64 {
	if c.maxIn == 0 {
		return 1024 * 1024
	}
	return uint64(c.maxIn)
}

// small-1 (and every odd one) has its outgoing limit right at the smallest accepted value
func nSmallConfigs(r *vf.Run) int { return r.Pick(2, 6) }

// nodeConfigs: index 0 is the default configuration, the others have small limits drawn from
// the run's seed
func nodeConfigs(r *vf.Run) []nodeCfg {
	cases := r.Pick(10, 40)
	cfgs := []nodeCfg{{
		name: "default", nBlocks: 24, blockOutsLo: 330, blockOutsHi: 870, poolN: 300, poolOutsLo: 18, poolOutsHi: 70,
		freshN: 60, nPeers: 120, casesPerFamily: cases,
	}}
	nSmall := nSmallConfigs(r)
	for i := 0; i < nSmall; i++ {
		rng := r.Rand("node-config", i)
		maxTxn := uint32(1024 + rng.Intn(1500))
		// the smallest outgoing limit the node accepts is one empty block + the maximum block
		// size + 12 bytes of message header
		minOut := 12 + sizeBlockFix + int(maxTxn)
		hi := (int(maxTxn) - 150) / sizeTxnOutput
		c := nodeCfg{
			name:   fmt.Sprintf("small-%d", i),
			maxTxn: maxTxn, maxOut: minOut + rng.Intn(2400), maxIn: 0,
			replyCount: 520 + rng.Intn(300), blocksResp: uint64(10 + rng.Intn(40)),
			nBlocks: 50, blockOutsLo: hi / 3, blockOutsHi: hi,
			poolN: 230, poolOutsLo: 1, poolOutsHi: hi,
			freshN: 480, nPeers: 700, casesPerFamily: cases,
		}
		if i%2 == 1 {
			c.maxOut = minOut + rng.Intn(40) // right at the floor
		}
		if rng.Intn(2) == 0 {
			c.maxIn = 128*1024 + rng.Intn(512*1024)
		}
		cfgs = append(cfgs, c)
	}
	return cfgs
}

// ---------------------------------------------------------------------------------
// the world: a chain and a pool made by a real publisher visor from harness transactions

type world struct {
	chain  *fix.Chain
	tag    string
	blocks []coin.SignedBlock // index = seq
	pool   []coin.Transaction // in the node's pool when it starts
	fresh  []coin.Transaction // valid on the node's head, unknown to the node
	peers  []string
	dbPath string // copy of the publisher's database: blocks + pool
}

// splitTxn spends ux into n outputs (n is reduced to what coins and hours allow); outputs are
// pairwise distinct (different hours)
func splitTxn(chain *fix.Chain, ux coin.UxOut, n int) (coin.Transaction, bool) {
	units := ux.Body.Coins / coinUnit
	if units == 0 || ux.Body.Hours < 8 {
		return coin.Transaction{}, false
	}
	if uint64(n) > units {
		n = int(units)
	}
	budget := ux.Body.Hours / 2 // the rest is burnt
	for n > 1 && uint64(n)*uint64(n) > budget {
		n /= 2
	}
	if n < 1 {
		n = 1
	}
	users := chain.Keys[chain.NDist:]
	base := (budget - uint64(n)*uint64(n-1)/2) / uint64(n)
	q := units / uint64(n)
	outs := make([]fix.Out, n)
	for i := 0; i < n; i++ {
		c := q * coinUnit
		if i == n-1 {
			c = ux.Body.Coins - q*coinUnit*uint64(n-1)
		}
		outs[i] = fix.Out{Addr: users[i%len(users)].Addr, Coins: c, Hours: base + uint64(i)}
	}
	return chain.MakeTxn([]coin.UxOut{ux}, outs), true
}

func outsFor(size int) int { return (size - 150) / sizeTxnOutput }

func buildWorld(rng *rand.Rand, cfg nodeCfg, tag, dir string) (*world, error) {
	chain := fix.NewChain(tag, nodeVolume, 14, 4, 2)
	pubPath := filepath.Join(dir, "pub.db")
	pn, err := chain.Open(pubPath, true, true)
	if err != nil {
		return nil, fmt.Errorf("open publisher: %v", err)
	}
	closed := false
	defer func() {
		if !closed {
			pn.Close()
		}
	}()
	g, err := pn.V.GetSignedBlockBySeq(0)
	if err != nil || g == nil {
		return nil, fmt.Errorf("no genesis block: %v", err)
	}
	w := &world{chain: chain, tag: tag, blocks: []coin.SignedBlock{*g}}
	var spend []coin.UxOut
	spend = append(spend, coin.CreateUnspents(g.Head, g.Body.Transactions[0])...)
	limit := int(cfg.txnLimit())
	// richest first keeps the splitting tree shallow (coins and hours shrink with every level)
	takeRich := func() coin.UxOut {
		sort.SliceStable(spend, func(i, j int) bool { return spend[i].Body.Coins > spend[j].Body.Coins })
		top := 6
		if top > len(spend) {
			top = len(spend)
		}
		k := rng.Intn(top)
		ux := spend[k]
		spend = append(spend[:k], spend[k+1:]...)
		return ux
	}
	takeAny := func() coin.UxOut {
		k := rng.Intn(len(spend))
		ux := spend[k]
		spend = append(spend[:k], spend[k+1:]...)
		return ux
	}
	inject := func(v *fix.Node, t coin.Transaction, what string) error {
		if _, soft, err := v.V.InjectForeignTransaction(t); err != nil || soft != nil {
			return fmt.Errorf("publisher refused a harness %s transaction: %v %v", what, err, soft)
		}
		return nil
	}
	when := g.Head.Time
	// at least nBlocks blocks, and as many more as it takes to have an output for every pool
	// and fresh transaction
	for seq := 1; seq <= cfg.nBlocks || (len(spend) < cfg.poolN+cfg.freshN+20 && seq <= 4*cfg.nBlocks); seq++ {
		budget := limit
		nt := 0
		for budget >= 150+sizeTxnOutput && len(spend) > 0 && nt < 4 {
			var want int
			if nt == 0 {
				want = cfg.blockOutsLo + rng.Intn(cfg.blockOutsHi-cfg.blockOutsLo+1)
			} else {
				if rng.Intn(3) != 0 {
					break
				}
				want = 1 + rng.Intn(12)
			}
			if m := outsFor(budget); want > m {
				want = m
			}
			if want < 1 {
				break
			}
			t, ok := splitTxn(chain, takeRich(), want)
			if !ok {
				break
			}
			if err := inject(pn, t, "block"); err != nil {
				return nil, err
			}
			budget -= int(txnSize(&t))
			nt++
		}
		if nt == 0 {
			return nil, fmt.Errorf("no transaction for block %d", seq)
		}
		when += 10 + uint64(rng.Intn(600))
		sb, err := pn.V.VerifCreateAndExecuteBlock(when)
		if err != nil {
			return nil, fmt.Errorf("publisher created no block at seq %d: %v", seq, err)
		}
		if sb.Head.BkSeq != uint64(seq) || len(sb.Body.Transactions) != nt {
			return nil, fmt.Errorf("publisher block %d has seq %d with %d/%d transactions", seq, sb.Head.BkSeq, len(sb.Body.Transactions), nt)
		}
		for _, t := range sb.Body.Transactions {
			spend = append(spend, coin.CreateUnspents(sb.Head, t)...)
		}
		w.blocks = append(w.blocks, sb)
	}
	if len(spend) < cfg.poolN+cfg.freshN {
		return nil, fmt.Errorf("only %d spendable outputs for %d pool and %d fresh transactions", len(spend), cfg.poolN, cfg.freshN)
	}
	for i := 0; i < cfg.poolN; i++ {
		want := cfg.poolOutsLo + rng.Intn(cfg.poolOutsHi-cfg.poolOutsLo+1)
		if i%5 == 0 { // a share of full-size transactions
			want = cfg.poolOutsHi
		}
		t, ok := splitTxn(chain, takeAny(), want)
		if !ok {
			i--
			if len(spend) < cfg.freshN+cfg.poolN-i {
				return nil, fmt.Errorf("ran out of spendable outputs for the pool")
			}
			continue
		}
		if err := inject(pn, t, "pool"); err != nil {
			return nil, err
		}
		w.pool = append(w.pool, t)
	}
	// the node's database: blocks + pool
	closed = true
	if err := pn.Close(); err != nil {
		return nil, err
	}
	w.dbPath = filepath.Join(dir, "world.db")
	if err := fix.CopyFile(w.dbPath, pubPath); err != nil {
		return nil, err
	}
	// transactions the node has not seen; the publisher vouches for their validity
	pn2, err := chain.Open(pubPath, true, true)
	if err != nil {
		return nil, fmt.Errorf("reopen publisher: %v", err)
	}
	defer pn2.Close()
	for len(w.fresh) < cfg.freshN && len(spend) > 0 {
		t, ok := splitTxn(chain, takeAny(), 1+rng.Intn(3))
		if !ok {
			continue
		}
		if err := inject(pn2, t, "fresh"); err != nil {
			return nil, err
		}
		w.fresh = append(w.fresh, t)
	}
	if len(w.fresh) < cfg.freshN {
		return nil, fmt.Errorf("only %d fresh transactions", len(w.fresh))
	}
	// exchangeable peers for the node's peer list
	seen := map[string]bool{}
	for len(w.peers) < cfg.nPeers {
		a, b := 1+rng.Intn(223), rng.Intn(256)
		if a == 127 || (a == 169 && b == 254) {
			continue
		}
		addr := fmt.Sprintf("%d.%d.%d.%d:%d", a, b, rng.Intn(256), 1+rng.Intn(254), 1024+rng.Intn(64000))
		if !seen[addr] {
			seen[addr] = true
			w.peers = append(w.peers, addr)
		}
	}
	return w, nil
}

func writePeersFile(path string, peers []string) error {
	type pj struct {
		Addr            string
		LastSeen        int64
		HasIncomingPort bool
	}
	m := map[string]pj{}
	now := time.Now().Unix() // bookkeeping of the peer list only; nothing here decides
	for _, a := range peers {
		m[a] = pj{Addr: a, LastSeen: now, HasIncomingPort: true}
	}
	b, err := json.Marshal(m)
	if err != nil {
		return err
	}
	return os.WriteFile(path, b, 0600)
}

func txnHash(t *coin.Transaction) cipher.SHA256 {
	return cipher.SHA256(sha256.Sum256(encoder.Serialize(t)))
}

// ---------------------------------------------------------------------------------
// the session with one node

type session struct {
	r    *vf.Run
	l    *local
	cfg  nodeCfg
	w    *world
	proc *childProc
	fams map[string]*family
	L    uint64

	pr     *wire.Peer
	mirror uint32
	seen   int

	known     map[cipher.SHA256]int // hash -> index into knownTxns
	knownTxns []coin.Transaction
	freshNext int
	dead      bool // setup trouble: stop (inconclusive already recorded)
	viol      map[string]int
}

func (s *session) attrs(handler, message string) map[string]string {
	return map[string]string{"leg": "node", "config": s.cfg.name, "handler": handler, "message": message,
		"max": fmt.Sprint(s.L), "max_incoming": fmt.Sprint(s.cfg.inLimit())}
}

func (s *session) inconclusive(why string) {
	s.dead = true
	s.r.Inconclusive("node leg (" + s.cfg.name + "): " + why)
}

// scan compares every frame received so far with the configured outgoing limit
func (s *session) scan() {
	for ; s.seen < len(s.pr.Recv); s.seen++ {
		m := s.pr.Recv[s.seen]
		n := uint64(8 + len(m.Body))
		s.l.counts["node.frames_checked"]++
		s.l.counts["node.frames."+printable(m.ID)]++
		s.l.evals++
		if n > s.L {
			a := s.attrs("any", printable(m.ID))
			a["encoded_len"] = fmt.Sprint(n)
			a["excess_bytes"] = fmt.Sprint(n - s.L)
			s.r.Violation("message-exceeds-limit", a, nil)
		}
	}
}

func printable(id string) string {
	for _, c := range id {
		if c < 'A' || c > 'Z' {
			return hex.EncodeToString([]byte(id))
		}
	}
	return id
}

func (s *session) connect() bool {
	if s.pr != nil {
		s.scan()
		s.pr.Close()
		s.pr = nil
	}
	for attempt := 0; attempt < 3; attempt++ {
		if !s.proc.alive() {
			headline, frame := vf.CrashSignature(s.proc.stderr())
			a := s.attrs("any", "any")
			a["headline"], a["frame"] = headline, frame
			if headline != "" {
				s.r.Violation("node-crash", a, nil)
				s.dead = true
			} else {
				s.inconclusive("the node process ended without a crash report")
			}
			return false
		}
		pr, err := wire.Dial(s.proc.PeerAddr)
		if err != nil {
			continue
		}
		s.mirror++
		s.pr, s.seen = pr, 0
		if pr.Introduce(s.w.chain.Publisher.Pub, s.mirror, nodeWatchdog) && pr.Barrier(nodeWatchdog) {
			s.l.counts["node.connections"]++
			s.scan()
			return true
		}
		pr.Close()
		s.pr = nil
	}
	s.inconclusive("could not introduce a peer to the node")
	return false
}

const (
	stOK = iota
	stClosed
	stWatchdog
)

// exchange sends one request followed by PING and returns what the node sent before the PONG
func (s *session) exchange(id string, body []byte) ([]wire.Msg, int) {
	from := len(s.pr.Recv)
	raw := append(wire.Frame(id, body), wire.Frame("PING", nil)...)
	if err := s.pr.SendRaw(raw); err != nil {
		s.pr.Drain(200 * time.Millisecond)
		s.scan()
		return s.pr.Recv[from:], stClosed
	}
	idx, ok := s.pr.WaitFor("PONG", from, nodeWatchdog)
	s.scan()
	if ok {
		return s.pr.Recv[from:idx], stOK
	}
	if s.pr.EOF {
		return s.pr.Recv[from:], stClosed
	}
	return s.pr.Recv[from:], stWatchdog
}

func pick(msgs []wire.Msg, id string) (found []wire.Msg) {
	for _, m := range msgs {
		if m.ID == id {
			found = append(found, m)
		}
	}
	return
}

// ask runs one request; a connection the node closed is replaced and the request repeated once
// (makeReq is called again, so that a request with side effects can use new material).
// Returns the reply frames with the wanted id, whether the node closed the connection on both
// attempts, and ok=false if the leg cannot continue.
func (s *session) ask(reqID, replyID string, makeReq func(attempt int) []byte) (replies []wire.Msg, closedTwice, ok bool) {
	for attempt := 0; attempt < 2; attempt++ {
		if s.pr == nil || s.pr.EOF {
			if !s.connect() {
				return nil, false, false
			}
		}
		msgs, st := s.exchange(reqID, makeReq(attempt))
		switch st {
		case stOK:
			return pick(msgs, replyID), false, true
		case stWatchdog:
			s.inconclusive("no PONG from the node within the watchdog time")
			return nil, false, false
		case stClosed:
			s.l.counts["node.connection_closed_by_node"]++
			s.pr.Close()
			s.pr = nil
			if attempt == 1 {
				if !s.connect() {
					return nil, false, false
				}
				return pick(msgs, replyID), true, true
			}
		}
	}
	return nil, false, true
}

// judgeReply: rq = candidate items (prepared), replies = frames of the reply type
func (s *session) judgeReply(handler string, rq *request, replies []wire.Msg, closedTwice bool, desc string) {
	f := rq.fam
	a := s.attrs(handler, f.name)
	a["requested"] = fmt.Sprint(rq.n)
	a["case"] = desc
	s.l.evals++
	s.l.counts["node."+f.name+".cases"]++
	kmax := len(rq.cum) - 1
	kfit := 0
	for kfit < kmax && rq.cum[kfit+1] <= s.L {
		kfit++
	}
	total := rq.cum[kmax]
	if total > s.L && total <= s.cfg.inLimit() {
		s.l.counts["node."+f.name+".candidates_between_outgoing_and_incoming_limit"]++
	}
	if len(replies) > 1 {
		a["replies"] = fmt.Sprint(len(replies))
		s.r.Violation("more-than-one-reply", a, nil)
		return
	}
	if len(replies) == 0 {
		if rq.n == 0 {
			s.l.counts["node."+f.name+".nothing_to_send"]++
			return
		}
		if kfit >= 1 {
			a["fitting_items"] = fmt.Sprint(kfit)
			a["candidate_bytes"] = fmt.Sprint(total)
			a["connection_closed_by_node"] = fmt.Sprint(closedTwice)
			if s.viol[handler] == 0 {
				s.r.Violation("no-reply-although-items-fit", a, nil)
			}
			s.viol[handler]++
		}
		return
	}
	if rq.n == 0 {
		// nothing was asked for that the node has: a reply is not forbidden by the statement, but
		// it must still be an empty, fitting message
		s.l.counts["node."+f.name+".reply_without_candidates"]++
	}
	enc := wire.Frame(replies[0].ID, replies[0].Body)
	if len(enc) < headerSize {
		a["encoded_len"] = fmt.Sprint(len(enc))
		s.r.Violation("not-a-prefix-of-request", a, nil)
		return
	}
	k := int(binary.LittleEndian.Uint32(enc[8:12]))
	a["items"] = fmt.Sprint(k)
	if !judge(s.r, s.l, "node.", rq, s.L, enc, k, a) {
		s.viol[handler]++
	}
}

func (s *session) prep(fam string, n int, sizes []uint64, data interface{}, rng *rand.Rand) *request {
	rq := &request{fam: s.fams[fam], list: "node/" + s.cfg.name, n: n, sizes: sizes, data: data, capLow: -1}
	if !prepare(s.r, rq, rng) {
		s.dead = true
		return nil
	}
	return rq
}

// --- GETB -> GIVB

func (s *session) caseGetBlocks(rng *rand.Rand, i int) {
	head := uint64(len(s.w.blocks) - 1)
	lasts := []uint64{0, 1, 2, head - 1, head, head + 3, head / 2}
	reqs := []uint64{20, 1, 2, 0, 5, 128, 129, 1000, 1 << 62, 19, 21, 3}
	var last, req uint64
	if i < 4 {
		last, req = lasts[i%len(lasts)], []uint64{20, 1000, 3, 1}[i]
	} else {
		last, req = lasts[rng.Intn(len(lasts))], reqs[rng.Intn(len(reqs))]
		if rng.Intn(2) == 0 {
			last = uint64(rng.Intn(int(head) + 1))
		}
	}
	// candidates: after last, at most req, at most the configured response count, up to head
	n := req
	if n > s.proc.BlockCnt {
		n = s.proc.BlockCnt
	}
	var cand []coin.SignedBlock
	if last < head {
		if n > head-last {
			n = head - last
		}
		cand = s.w.blocks[last+1 : last+1+n]
	}
	sizes := make([]uint64, len(cand))
	for j := range cand {
		sizes[j] = blockSize(&cand[j])
	}
	rq := s.prep("GiveBlocks", len(cand), sizes, cand, rng)
	if rq == nil {
		return
	}
	replies, closed, ok := s.ask("GETB", "GIVB", func(int) []byte { return wire.U64Body(last, req) })
	if !ok {
		return
	}
	s.judgeReply("GETB", rq, replies, closed, fmt.Sprintf("last=%d requested=%d head=%d response_count=%d", last, req, head, s.proc.BlockCnt))
}

// --- GETT -> GIVT and ANNT -> GETT

// hashList draws m hashes, a share of them known to the node, in random order
func (s *session) hashList(rng *rand.Rand, m int, knownShare float64) []cipher.SHA256 {
	hs := make([]cipher.SHA256, 0, m)
	perm := rng.Perm(len(s.knownTxns))
	pi := 0
	for len(hs) < m {
		if rng.Float64() < knownShare && pi < len(perm) {
			t := &s.knownTxns[perm[pi]]
			pi++
			hs = append(hs, txnHash(t))
		} else {
			hs = append(hs, randHash(rng))
		}
	}
	return hs
}

func listShape(rng *rand.Rand, i int) (m int, share float64) {
	fixed := []struct {
		m     int
		share float64
	}{{256, 1}, {256, 0}, {40, 0.6}, {1, 1}, {1, 0}, {200, 0.5}, {256, 0.8}}
	if i < len(fixed) {
		return fixed[i].m, fixed[i].share
	}
	ms := []int{2, 3, 7, 30, 100, 180, 255, 256}
	shares := []float64{0, 0.1, 0.3, 0.5, 0.9, 1}
	return ms[rng.Intn(len(ms))], shares[rng.Intn(len(shares))]
}

func (s *session) caseGetTxns(rng *rand.Rand, i int) {
	m, share := listShape(rng, i)
	hs := s.hashList(rng, m, share)
	var cand []coin.Transaction
	var sizes []uint64
	for _, h := range hs {
		if idx, ok := s.known[h]; ok {
			cand = append(cand, s.knownTxns[idx])
			sizes = append(sizes, txnSize(&s.knownTxns[idx]))
		}
	}
	rq := s.prep("GiveTxns", len(cand), sizes, cand, rng)
	if rq == nil {
		return
	}
	replies, closed, ok := s.ask("GETT", "GIVT", func(int) []byte { return wire.HashesBody(hs) })
	if !ok {
		return
	}
	s.judgeReply("GETT", rq, replies, closed, fmt.Sprintf("hashes=%d known=%d", len(hs), len(cand)))
}

func (s *session) caseAnnounce(rng *rand.Rand, i int) {
	m, share := listShape(rng, i)
	hs := s.hashList(rng, m, 1-share)
	var cand []cipher.SHA256
	for _, h := range hs {
		if _, ok := s.known[h]; !ok {
			cand = append(cand, h)
		}
	}
	sizes := make([]uint64, len(cand))
	for j := range sizes {
		sizes[j] = sizeHash
	}
	rq := s.prep("GetTxns", len(cand), sizes, cand, rng)
	if rq == nil {
		return
	}
	replies, closed, ok := s.ask("ANNT", "GETT", func(int) []byte { return wire.HashesBody(hs) })
	if !ok {
		return
	}
	s.judgeReply("ANNT", rq, replies, closed, fmt.Sprintf("hashes=%d unknown=%d", len(hs), len(cand)))
}

// --- GIVT -> ANNT (broadcast to every introduced peer, the sender included)

func (s *session) caseGiveTxns(rng *rand.Rand, i int) {
	remaining := len(s.w.fresh) - s.freshNext
	if remaining <= 0 {
		return
	}
	sizes := []int{3, 150, 1, 40, 256, 9}
	want := sizes[i%len(sizes)]
	if i >= len(sizes) {
		want = 1 + rng.Intn(60)
	}
	var batch []coin.Transaction
	var cand []cipher.SHA256
	var usedFresh int
	makeReq := func(attempt int) []byte {
		// new material on every attempt: what the node did with the first batch before it
		// closed the connection is unknown
		batch, cand = nil, nil
		s.freshNext += usedFresh
		usedFresh = 0
		bytes := uint64(headerSize)
		for len(batch) < want && len(batch) < 256 {
			var t coin.Transaction
			dup := rng.Intn(6) == 0 && len(batch) > 0
			if dup {
				t = s.w.pool[rng.Intn(len(s.w.pool))] // already known: must not be announced again
			} else {
				if s.freshNext+usedFresh >= len(s.w.fresh) {
					break
				}
				t = s.w.fresh[s.freshNext+usedFresh]
			}
			if bytes+txnSize(&t) > s.cfg.inLimit() {
				break
			}
			bytes += txnSize(&t)
			batch = append(batch, t)
			if !dup {
				usedFresh++
				cand = append(cand, txnHash(&t))
			}
		}
		return wire.GiveTxnsBody(batch)
	}
	// the candidate list is only known once the request is built; ask() builds it
	replies, closed, ok := s.ask("GIVT", "ANNT", makeReq)
	if !ok {
		return
	}
	hsizes := make([]uint64, len(cand))
	for j := range hsizes {
		hsizes[j] = sizeHash
	}
	rq := s.prep("AnnounceTxns", len(cand), hsizes, cand, rng)
	if rq == nil {
		return
	}
	s.judgeReply("GIVT", rq, replies, closed, fmt.Sprintf("transactions=%d new=%d", len(batch), len(cand)))
	if !closed {
		for k := 0; k < usedFresh; k++ {
			t := s.w.fresh[s.freshNext+k]
			s.known[txnHash(&t)] = len(s.knownTxns)
			s.knownTxns = append(s.knownTxns, t)
		}
	}
	s.freshNext += usedFresh
}

// --- GETP -> GIVP: a random selection, so the rule is on the count

func (s *session) caseGetPeers(rng *rand.Rand, i int) {
	a := s.attrs("GETP", "GivePeers")
	replies, closed, ok := s.ask("GETP", "GIVP", func(int) []byte { return nil })
	if !ok {
		return
	}
	s.l.evals++
	s.l.counts["node.GivePeers.cases"]++
	cand := s.proc.ReplyCnt
	if cand > len(s.w.peers) {
		cand = len(s.w.peers)
	}
	capped := cand
	if capped > 512 {
		capped = 512
	}
	fit := int((s.L - headerSize) / sizeIPAddr)
	want := capped
	if fit < want {
		want = fit
	}
	a["requested"] = fmt.Sprint(cand)
	a["fitting_items"] = fmt.Sprint(want)
	if len(replies) != 1 {
		a["replies"] = fmt.Sprint(len(replies))
		a["connection_closed_by_node"] = fmt.Sprint(closed)
		if s.viol["GETP"] == 0 {
			s.r.Violation("no-reply-although-items-fit", a, nil)
		}
		s.viol["GETP"]++
		return
	}
	body := replies[0].Body
	if len(body) < 4 {
		s.r.Violation("not-a-prefix-of-request", a, nil)
		return
	}
	k := int(binary.LittleEndian.Uint32(body))
	a["items"] = fmt.Sprint(k)
	a["encoded_len"] = fmt.Sprint(8 + len(body))
	if uint64(8+len(body)) > s.L {
		s.r.Violation("message-exceeds-limit", a, nil)
		return
	}
	if len(body) != 4+k*sizeIPAddr {
		s.r.Violation("not-a-prefix-of-request", a, nil)
		return
	}
	have := map[string]bool{}
	for _, p := range s.w.peers {
		have[p] = true
	}
	seen := map[string]bool{}
	for j := 0; j < k; j++ {
		ip := binary.LittleEndian.Uint32(body[4+6*j:])
		port := binary.LittleEndian.Uint16(body[8+6*j:])
		addr := fmt.Sprintf("%d.%d.%d.%d:%d", byte(ip>>24), byte(ip>>16), byte(ip>>8), byte(ip), port)
		if !have[addr] || seen[addr] {
			a["peer"] = addr
			a["repeated"] = fmt.Sprint(seen[addr])
			s.r.Violation("not-a-prefix-of-request", a, nil) // an item that is not among the candidates, or twice
			return
		}
		seen[addr] = true
	}
	if k != want {
		a["dropped_fitting_items"] = fmt.Sprint(want - k)
		s.r.Violation("not-longest-prefix", a, nil)
		return
	}
	s.l.distinct[fmt.Sprintf("node.GivePeers:%d:%d:%d", cand, s.L, k)] = struct{}{}
	switch {
	case k == cand:
		s.l.counts["node.GivePeers.untruncated"]++
	case k == 512 && fit >= 512:
		s.l.counts["node.GivePeers.capped_by_item_limit"]++
	default:
		s.l.counts["node.GivePeers.truncated_by_size"]++
	}
}

// ---------------------------------------------------------------------------------

func runNodeConfig(r *vf.Run, l *local, cfg nodeCfg, idx int, root string) {
	rng := r.Rand("node-leg", cfg.name)
	dir := filepath.Join(root, cfg.name)
	if err := os.MkdirAll(dir, 0755); err != nil {
		r.Inconclusive("node leg: " + err.Error())
		return
	}
	tag := fmt.Sprintf("c23-%d-%s", r.Seed, cfg.name)
	w, err := buildWorld(rng, cfg, tag, dir)
	if err != nil {
		r.Inconclusive("node leg (" + cfg.name + "): world: " + err.Error())
		return
	}
	data := filepath.Join(dir, "node")
	if err := os.MkdirAll(data, 0700); err != nil {
		r.Inconclusive("node leg: " + err.Error())
		return
	}
	if err := os.Rename(w.dbPath, filepath.Join(data, "data.db")); err == nil {
		err = writePeersFile(filepath.Join(data, "peers.json"), w.peers)
	}
	if err != nil {
		r.Inconclusive("node leg: " + err.Error())
		return
	}
	opts := childOptions{DataDir: data, ChainTag: tag, Volume: nodeVolume, NKeys: 14, NDist: 4, NUnlocked: 2,
		GenesisSig: hex.EncodeToString(w.chain.GenesisSig[:]), MaxTxnSize: cfg.txnLimit(),
		MaxIncomingMsgLen: cfg.maxIn, MaxOutgoingMsgLen: cfg.maxOut, ReplyCount: cfg.replyCount, BlocksResponseCnt: cfg.blocksResp}
	var env []string
	if cfg.maxTxn != 0 {
		env = append(env, fmt.Sprintf("USER_MAX_TXN_SIZE=%d", cfg.maxTxn))
	}
	proc, err := spawnNode(filepath.Join(dir, "child"), opts, env)
	if err != nil {
		r.Inconclusive("node leg (" + cfg.name + "): " + err.Error())
		return
	}
	fams := map[string]*family{}
	for _, f := range families() {
		fams[f.name] = f
	}
	s := &session{r: r, l: l, cfg: cfg, w: w, proc: proc, fams: fams, L: cfg.outLimit(), mirror: uint32(7000 + 1000*idx),
		known: map[cipher.SHA256]int{}, viol: map[string]int{}}
	defer func() {
		if s.pr != nil {
			s.scan()
			s.pr.Close()
		}
		alive := proc.alive()
		proc.stop(60 * time.Second)
		if headline, frame := vf.CrashSignature(proc.stderr()); headline != "" {
			a := s.attrs("any", "any")
			a["headline"], a["frame"] = headline, frame
			r.Violation("node-crash", a, nil)
		} else if !alive && !s.dead {
			r.Inconclusive("node leg (" + cfg.name + "): the node process ended by itself without a crash report")
		}
	}()
	if proc.MaxOut != s.L || proc.MaxIn != cfg.inLimit() {
		s.inconclusive(fmt.Sprintf("the node runs with limits out=%d in=%d, configured were out=%d in=%d", proc.MaxOut, proc.MaxIn, s.L, cfg.inLimit()))
		return
	}
	for i, t := range w.pool {
		s.known[txnHash(&w.pool[i])] = i
		s.knownTxns = append(s.knownTxns, t)
	}
	if !s.connect() {
		return
	}
	// the five request types, interleaved in a seeded order
	type kase struct {
		fam string
		i   int
	}
	var cases []kase
	for _, fam := range []string{"GETB", "GETT", "ANNT", "GIVT", "GETP"} {
		n := cfg.casesPerFamily
		if fam == "GETP" {
			n = (n + 2) / 3
		}
		if fam == "GIVT" {
			n = (n + 1) / 2
		}
		for i := 0; i < n; i++ {
			cases = append(cases, kase{fam, i})
		}
	}
	rng.Shuffle(len(cases), func(a, b int) { cases[a], cases[b] = cases[b], cases[a] })
	for _, c := range cases {
		if s.dead || r.Violations() > 20 {
			break
		}
		crng := r.Rand("node-case", cfg.name, c.fam, c.i)
		switch c.fam {
		case "GETB":
			s.caseGetBlocks(crng, c.i)
		case "GETT":
			s.caseGetTxns(crng, c.i)
		case "ANNT":
			s.caseAnnounce(crng, c.i)
		case "GIVT":
			s.caseGiveTxns(crng, c.i)
		case "GETP":
			s.caseGetPeers(crng, c.i)
		}
	}
	if !s.dead {
		l.counts["node.configs_completed"]++
		if cfg.maxOut != 0 {
			l.counts["node.configs_with_small_outgoing_limit"]++
		} else {
			l.counts["node.configs_with_default_limits"]++
		}
	}
	l.distinct["node-config:"+cfg.name+":"+fmt.Sprint(s.L)] = struct{}{}
}

// nodeLeg runs every configuration (or only the named one: replay) and returns the counters
func nodeLeg(r *vf.Run, only string) []*local {
	root, err := os.MkdirTemp("/dev/shm", "verif-c23-")
	if err != nil {
		root = vf.TempDir("c23")
	}
	defer os.RemoveAll(root)
	cfgs := nodeConfigs(r)
	locals := make([]*local, len(cfgs))
	vf.Parallel(len(cfgs), 4, func(i int) {
		locals[i] = newLocal()
		if only != "" && cfgs[i].name != only {
			return
		}
		runNodeConfig(r, locals[i], cfgs[i], i, root)
	})
	return locals
}

func nodeFloors(r *vf.Run) {
	r.Floor("node.configs_with_default_limits", 1)
	r.Floor("node.configs_with_small_outgoing_limit", int64(nSmallConfigs(r)))
	r.Floor("node.frames_checked", 150)
	for _, f := range []string{"GiveBlocks", "GiveTxns", "GetTxns", "AnnounceTxns", "GivePeers"} {
		r.Floor("node."+f+".cases", 6)
		r.Floor("node."+f+".untruncated", 2)
		r.Floor("node."+f+".truncated_by_size", 1)
	}
	// the class the defaults make possible: more candidate bytes than may be sent, less than may be received
	r.Floor("node.GiveTxns.candidates_between_outgoing_and_incoming_limit", 2)
	r.Floor("node.GiveBlocks.candidates_between_outgoing_and_incoming_limit", 2)
}
