// The "wide" lists of the constructor leg: item lists around and far beyond every message's
// item cap (cap-1, cap, cap+1, 2*cap, 2*cap+1, 3*cap+7, cap + number of skipped entries), and -
// for a constructor that has a notion of skipping requested entries (NewGivePeersMessage skips
// peer addresses that are not IPv4 ip:port strings) - with skip-worthy entries mixed into the
// list in many layouts: leading, trailing, alternating, random at several densities, a block
// straddling the cap, single entries at the cap boundary, all entries. The judge is the one of
// the other legs: the message must be, byte for byte, a prefix of the sendable requested items
// in request order - so never an item that was not requested - of at most cap items, fitting the
// limit, and the longest such prefix.
package main

import (
	"fmt"
	"math/rand"
	"sync"

	"verif/lib/vf"
)

// notAnIPv4Addr returns a peer address string that is not an IPv4 "a.b.c.d:port" string with a
// port in 1..65535, and the name of its class. Known by construction, not by asking the parser.
// Left out on purpose, because the statement and the documentation do not say whether they count
// as convertible: port 0, IPv4-mapped IPv6 literals, octets or ports with leading zeros or signs.
func notAnIPv4Addr(rng *rand.Rand) (string, string) {
	a, b, c, d := 1+rng.Intn(223), rng.Intn(256), rng.Intn(256), rng.Intn(256)
	port := 1 + rng.Intn(65535)
	switch rng.Intn(17) {
	case 0:
		return fmt.Sprintf("[2001:db8:%x::%x]:%d", rng.Intn(65536), 1+rng.Intn(65535), port), "ipv6_literal"
	case 1:
		return fmt.Sprintf("[::1]:%d", port), "ipv6_loopback"
	case 2:
		return fmt.Sprintf("2001:db8::%x:%d", 1+rng.Intn(65535), port), "ipv6_without_brackets"
	case 3:
		return fmt.Sprintf("node%d.example.com:%d", rng.Intn(1000), port), "host_name"
	case 4:
		return fmt.Sprintf("localhost:%d", port), "localhost"
	case 5:
		return "", "empty_string"
	case 6:
		return fmt.Sprintf("%d.%d.%d.%d", a, b, c, d), "missing_port"
	case 7:
		return fmt.Sprintf("%d.%d.%d.%d:", a, b, c, d), "empty_port"
	case 8:
		return fmt.Sprintf("%d.%d.%d.%d:%d", a, b, c, d, 65536+rng.Intn(100000)), "port_above_65535"
	case 9:
		return fmt.Sprintf("%d.%d.%d.%d:%d", a, b, c, d, uint64(1)<<32+uint64(rng.Int63n(1<<40))), "port_above_2^32"
	case 10:
		return fmt.Sprintf("%d.%d.%d.%d:-%d", a, b, c, d, port), "negative_port"
	case 11:
		return fmt.Sprintf("%d.%d.%d.%d:http", a, b, c, d), "port_not_a_number"
	case 12:
		return fmt.Sprintf(":%d", port), "missing_ip"
	case 13:
		return fmt.Sprintf("%d.%d.%d.%d.%d:%d", a, b, c, d, rng.Intn(256), port), "five_octets"
	case 14:
		return fmt.Sprintf("%d.%d.%d.%d:%d", 256+rng.Intn(700), b, c, d, port), "octet_above_255"
	case 15:
		return fmt.Sprintf("%d.%d.%d:%d", a, b, c, port), "three_octets"
	default:
		w := []string{"not an address", "peers.txt", "<nil>", "0x7f000001:6000", "a.b.c.d:e", "::", "...:", "1.2.3.4:6000:7000"}
		return w[rng.Intn(len(w))], "garbage"
	}
}

// layouts of the skip-worthy entries in a list of n entries; pattern(n)[i] = entry i is one the
// constructor must skip. A pattern is a function of n and of draws made once per list, so that the
// "cap + number of skipped entries" length can be found by iteration.
var wideLayouts = []string{"none", "leading", "trailing", "alternating", "sparse", "half", "dense", "block_across_cap", "single_at_cap_boundary", "all"}

func widePattern(layout string, cap int, j int, pseed int64) func(n int) []bool {
	return func(n int) []bool {
		sk := make([]bool, n)
		prng := rand.New(rand.NewSource(pseed))
		for i := range sk {
			u := prng.Float64()
			switch layout {
			case "leading":
				sk[i] = i < j
			case "trailing":
				sk[i] = i >= n-j
			case "alternating":
				sk[i] = i%2 == int(pseed&1)
			case "sparse":
				sk[i] = u < 0.02
			case "half":
				sk[i] = u < 0.5
			case "dense":
				sk[i] = u < 0.9
			case "block_across_cap":
				sk[i] = i >= cap-j && i < cap+j
			case "single_at_cap_boundary":
				sk[i] = i == cap-2+int(pseed%3) // cap-2, cap-1 or cap: last kept slot, last slot, first dropped
			case "all":
				sk[i] = true
			}
		}
		return sk
	}
}

var wideLengths = []string{"cap-1", "cap", "cap+1", "cap+skipped", "2*cap", "2*cap+1", "3*cap+7", "random"}

// wideList: list idx of family f. The first len(wideLayouts)*len(wideLengths) lists of a family
// with skipping are the full product layout x length class, the rest (and all lists of a family
// without skipping, beyond the length classes) draw both.
func wideList(rng *rand.Rand, f *family, l *local, idx int) (*request, string) {
	c := f.cap
	length := wideLengths[idx%len(wideLengths)]
	layout := "none"
	if f.genMixed != nil {
		layout = wideLayouts[(idx/len(wideLengths))%len(wideLayouts)]
		if idx >= len(wideLayouts)*len(wideLengths) {
			layout = wideLayouts[rng.Intn(len(wideLayouts))]
			length = wideLengths[rng.Intn(len(wideLengths))]
		}
	}
	j := []int{1, 2, 7, c / 4, c / 2, c - 1, c, c + 1}[rng.Intn(8)]
	pat := widePattern(layout, c, j, rng.Int63())
	n := 0
	switch length {
	case "cap-1":
		n = c - 1
	case "cap":
		n = c
	case "cap+1":
		n = c + 1
	case "2*cap":
		n = 2 * c
	case "2*cap+1":
		n = 2*c + 1
	case "3*cap+7":
		n = 3*c + 7
	case "random":
		n = c + 1 + rng.Intn(2*c)
	case "cap+skipped":
		// as many entries as it takes to have (about) cap sendable ones
		n = c
		for it := 0; it < 16 && n < 4*c; it++ {
			s := 0
			for _, b := range pat(n) {
				if b {
					s++
				}
			}
			if n-s == c {
				break
			}
			n = c + s
		}
		if n > 4*c {
			n = 4 * c
		}
	}
	desc := layout + "/" + length
	if f.genMixed == nil {
		return f.gen(rng, n, idx%3), desc
	}
	skip := pat(n)
	rq := f.genMixed(rng, l, skip)
	// classes of the list, from the layout alone
	name := "wide." + f.name
	nskip, before, after := 0, 0, 0
	for i, b := range skip {
		if b {
			nskip++
			if i < c {
				before++
			} else {
				after++
			}
		}
	}
	sendable := n - nskip
	l.counts[name+".skipworthy_entries"] += int64(nskip)
	if nskip > 0 {
		l.counts[name+".lists_with_skipworthy_entries"]++
		l.counts[name+".layout."+layout]++
	}
	if nskip > 0 && n > c {
		l.counts[name+".lists_longer_than_cap_with_skipworthy_entries"]++
		if before > 0 && sendable < c {
			l.counts[name+".lists_longer_than_cap_with_fewer_than_cap_sendable"]++
		}
		if before > 0 && sendable >= c {
			l.counts[name+".lists_longer_than_cap_with_cap_or_more_sendable"]++
		}
		if before > 0 && sendable > rq.capLow {
			l.counts[name+".lists_with_sendable_items_behind_the_first_cap_entries"]++
		}
		if after > 0 {
			l.counts[name+".lists_with_skipworthy_entries_behind_the_cap"]++
		}
	}
	if nskip > 0 && skip[0] {
		l.counts[name+".lists_starting_with_a_skipworthy_entry"]++
	}
	if nskip > 0 && skip[n-1] {
		l.counts[name+".lists_ending_with_a_skipworthy_entry"]++
	}
	if nskip == n && n > 0 {
		l.counts[name+".lists_of_only_skipworthy_entries"]++
	}
	return rq, desc
}

// wideLimits: limits at, just below and just above a sample of the cumulative sizes (always the
// ones around the two readings of the item cap and around the whole list), the production
// default and huge values
func wideLimits(rq *request, rng *rand.Rand, sampled int) []uint64 {
	seen := map[uint64]bool{}
	out := []uint64{}
	add := func(v uint64) {
		if v >= headerSize && !seen[v] {
			seen[v] = true
			out = append(out, v)
		}
	}
	kmax := len(rq.cum) - 1
	around := func(k int) {
		if k < 0 || k > kmax {
			return
		}
		for d := uint64(0); d <= 2; d++ {
			add(rq.cum[k] + d)
			add(rq.cum[k] - d)
		}
	}
	for _, k := range []int{0, 1, kmax - 1, kmax, rq.capLow - 1, rq.capLow, rq.capLow + 1} {
		around(k)
	}
	for i := 0; i < sampled; i++ {
		around(rng.Intn(kmax + 1))
	}
	for i := 0; i < sampled; i++ {
		add(headerSize + uint64(rng.Int63n(int64(rq.cum[kmax])+200)))
	}
	for _, v := range []uint64{defaultMax - 1, defaultMax, defaultMax + 1, 1 << 32, 1 << 63, ^uint64(0)} {
		add(v)
	}
	return out
}

// wideRequest rebuilds wide list idx of family f (used by the run and by -replay)
func wideRequest(r *vf.Run, f *family, l *local, idx int) (*request, *rand.Rand, string, bool) {
	rng := r.Rand("wide", f.name, idx)
	rq, desc := wideList(rng, f, l, idx)
	rq.list = fmt.Sprintf("w%d/%s", idx, desc)
	return rq, rng, desc, prepare(r, rq, rng)
}

func wideLeg(r *vf.Run, fams []*family) []*local {
	type job struct {
		fam *family
		idx int
	}
	jobs := []job{}
	for _, f := range fams {
		n := r.Pick(len(wideLengths), 10*len(wideLengths))
		if f.genMixed != nil {
			n = r.Pick(len(wideLayouts)*len(wideLengths)+16, 12*len(wideLayouts)*len(wideLengths))
		}
		for i := 0; i < n; i++ {
			jobs = append(jobs, job{f, i})
		}
	}
	sampled := r.Pick(24, 120)
	var mu sync.Mutex
	locals := []*local{}
	vf.Parallel(len(jobs), workers, func(ji int) {
		j := jobs[ji]
		l := newLocal()
		mu.Lock()
		locals = append(locals, l)
		mu.Unlock()
		rq, rng, _, ok := wideRequest(r, j.fam, l, j.idx)
		if !ok {
			return
		}
		limits := wideLimits(rq, rng, sampled)
		for _, max := range limits {
			check(r, l, "wide.", rq, max)
		}
		l.counts["wide."+j.fam.name+".lists"]++
		if rq.n > j.fam.cap {
			l.counts["wide."+j.fam.name+".lists_longer_than_cap"]++
		}
		if rq.n >= 2*j.fam.cap {
			l.counts["wide."+j.fam.name+".lists_of_twice_the_cap_or_more"]++
		}
		l.counts["wide.pairs"] += int64(len(limits))
	})
	return locals
}

func wideFloors(r *vf.Run, fams []*family) {
	for _, f := range fams {
		name := "wide." + f.name
		r.Floor(name+".lists", int64(len(wideLengths)))
		r.Floor(name+".lists_longer_than_cap", 5)
		r.Floor(name+".lists_of_twice_the_cap_or_more", 3)
		r.Floor(name+".capped_by_item_limit", 20)
		r.Floor(name+".truncated_by_size", 100)
		r.Floor(name+".untruncated", 1)
		if f.genMixed == nil {
			continue
		}
		r.Floor(name+".lists_with_skipworthy_entries", 60)
		r.Floor(name+".skipworthy_entries", 10000)
		r.Floor(name+".lists_longer_than_cap_with_skipworthy_entries", 40)
		r.Floor(name+".lists_longer_than_cap_with_fewer_than_cap_sendable", 8)
		r.Floor(name+".lists_longer_than_cap_with_cap_or_more_sendable", 8)
		r.Floor(name+".lists_with_sendable_items_behind_the_first_cap_entries", 8)
		r.Floor(name+".lists_with_skipworthy_entries_behind_the_cap", 8)
		r.Floor(name+".lists_starting_with_a_skipworthy_entry", 8)
		r.Floor(name+".lists_ending_with_a_skipworthy_entry", 8)
		r.Floor(name+".lists_of_only_skipworthy_entries", 4)
		for _, lay := range wideLayouts[1:] {
			r.Floor(name+".layout."+lay, 4)
		}
		// one of the two readings of the cap must have been observed where they differ
		r.Floor(name+".item_cap_readings_observed", 20)
	}
}
