package main

// The node of the handler leg, run as a child process of this binary (VERIF_CHILD=c23node).
// It wires a real database, visor and daemon together the way skycoin.Coin.Run does (no HTTP
// API: the leg speaks only the peer protocol) and contains no oracle. Differences to lib/node,
// which is why this leg has its own assembly: peer exchange is ENABLED (so that GETP is answered),
// the peer list is preloaded from <datadir>/peers.json, and pex.ReplyCount,
// MaxGetBlocksResponseCount and both message length limits come from the options. All timers
// are an hour, outgoing connections are disabled: the node only ever reacts to its peers.
//
// A transaction size limit below the compiled-in 32768 is configured the way an operator does
// it: environment variable USER_MAX_TXN_SIZE (read by package params at start-up) - the parent
// sets it when it spawns this process; visor and daemon then get the same max block size.

import (
	"bufio"
	"encoding/hex"
	"encoding/json"
	"fmt"
	"io"
	"net"
	"os"
	"os/exec"
	"path/filepath"
	"sync"
	"time"

	"github.com/skycoin/skycoin/src/daemon"
	"github.com/skycoin/skycoin/src/daemon/gnet"
	"github.com/skycoin/skycoin/src/params"
	"github.com/skycoin/skycoin/src/util/logging"
	"github.com/skycoin/skycoin/src/util/useragent"
	"github.com/skycoin/skycoin/src/visor"

	"verif/lib/fix"
)

const childMode = "c23node"

type childOptions struct {
	DataDir    string `json:"data_dir"`
	ChainTag   string `json:"chain_tag"`
	Volume     uint64 `json:"volume"`
	NKeys      int    `json:"n_keys"`
	NDist      int    `json:"n_dist"`
	NUnlocked  int    `json:"n_unlocked"`
	GenesisSig string `json:"genesis_sig"`

	MaxTxnSize        uint32 `json:"max_txn_size"` // must equal params.UserVerifyTxn.MaxTransactionSize in the child (set through the environment)
	MaxIncomingMsgLen int    `json:"max_incoming_msg_len"`
	MaxOutgoingMsgLen int    `json:"max_outgoing_msg_len"`
	ReplyCount        int    `json:"reply_count"`           // 0 = default
	BlocksResponseCnt uint64 `json:"blocks_response_count"` // 0 = default
	Verbose           bool   `json:"verbose"`
}

type childReady struct {
	PeerAddr    string `json:"peer_addr"`
	MaxOut      uint64 `json:"max_out"`
	MaxIn       uint64 `json:"max_in"`
	ReplyCnt    int    `json:"reply_count"`
	BlockCnt    uint64 `json:"blocks_response_count"`
	AnnounceNum int    `json:"announce_num"`
	Err         string `json:"err,omitempty"`
}

func freePort() int {
	l, err := net.Listen("tcp", "127.0.0.1:0")
	if err != nil {
		return 0
	}
	defer l.Close()
	return l.Addr().(*net.TCPAddr).Port
}

func childMain() {
	enc := json.NewEncoder(os.Stdout)
	fail := func(err error) {
		_ = enc.Encode(childReady{Err: err.Error()})
		os.Exit(1)
	}
	var o childOptions
	if len(os.Args) < 2 {
		fail(fmt.Errorf("usage: c23 <options.json> (child mode)"))
	}
	b, err := os.ReadFile(os.Args[len(os.Args)-1])
	if err == nil {
		err = json.Unmarshal(b, &o)
	}
	if err != nil {
		fail(err)
	}
	if !o.Verbose {
		logging.Disable()
	}
	if o.MaxTxnSize != 0 && params.UserVerifyTxn.MaxTransactionSize != o.MaxTxnSize {
		fail(fmt.Errorf("params.UserVerifyTxn.MaxTransactionSize is %d, the options want %d (USER_MAX_TXN_SIZE not set?)", params.UserVerifyTxn.MaxTransactionSize, o.MaxTxnSize))
	}
	chain := fix.NewChain(o.ChainTag, o.Volume, o.NKeys, o.NDist, o.NUnlocked) // MaxBlock = params.UserVerifyTxn.MaxTransactionSize
	sig, err := hex.DecodeString(o.GenesisSig)
	if err != nil || len(sig) != 65 {
		fail(fmt.Errorf("bad genesis signature"))
	}
	copy(chain.GenesisSig[:], sig)

	db, err := visor.OpenDB(filepath.Join(o.DataDir, "data.db"), false)
	if err != nil {
		fail(err)
	}
	v, err := visor.New(chain.Config(false, false), db, nil)
	if err != nil {
		fail(fmt.Errorf("visor.New: %v", err))
	}

	dc := daemon.NewConfig()
	port := freePort()
	dc.Daemon.Address = "127.0.0.1"
	dc.Daemon.Port = port
	dc.Daemon.LocalhostOnly = true
	dc.Daemon.DisableOutgoingConnections = true
	dc.Daemon.DataDirectory = o.DataDir
	dc.Daemon.BlockchainPubkey = chain.Publisher.Pub
	dc.Daemon.UserAgent = useragent.Data{Coin: "skycoin", Version: "0.27.0"}
	dc.Daemon.UnconfirmedVerifyTxn = chain.Unconfirmed
	dc.Daemon.MaxBlockTransactionsSize = chain.MaxBlock
	dc.Daemon.LogPings = false
	dc.Daemon.IPCountsMax = 1000
	dc.Daemon.IntroductionWait = time.Hour
	dc.Daemon.CullInvalidRate = time.Hour
	dc.Daemon.FlushAnnouncedTxnsRate = time.Hour
	dc.Daemon.BlocksRequestRate = time.Hour
	dc.Daemon.BlocksAnnounceRate = time.Hour
	dc.Daemon.UnconfirmedRefreshRate = time.Hour
	dc.Daemon.UnconfirmedRemoveInvalidRate = time.Hour
	dc.Daemon.BlockCreationInterval = 1 << 30
	dc.Daemon.OutgoingRate = time.Hour
	dc.Daemon.OutgoingTrustedRate = time.Hour
	if o.MaxIncomingMsgLen != 0 {
		dc.Daemon.MaxIncomingMessageLength = uint64(o.MaxIncomingMsgLen)
		dc.Pool.MaxIncomingMessageLength = o.MaxIncomingMsgLen
	}
	if o.MaxOutgoingMsgLen != 0 {
		dc.Daemon.MaxOutgoingMessageLength = uint64(o.MaxOutgoingMsgLen)
		dc.Pool.MaxOutgoingMessageLength = o.MaxOutgoingMsgLen
	}
	if o.BlocksResponseCnt != 0 {
		dc.Daemon.MaxGetBlocksResponseCount = o.BlocksResponseCnt
	}
	dc.Pool.IdleLimit = time.Hour
	dc.Pool.PingRate = time.Hour
	dc.Pool.IdleCheckRate = time.Hour
	dc.Pool.ClearStaleRate = time.Hour
	// (gnet's 30 s read/write timeouts cannot be configured through the daemon: the parent never
	// leaves a connection idle and treats a closed connection as "ask again on a new one")
	dc.Pex.DataDirectory = o.DataDir
	dc.Pex.Disabled = false
	dc.Pex.DownloadPeerList = false
	dc.Pex.DisableTrustedPeers = true
	dc.Pex.AllowLocalhost = true
	dc.Pex.DefaultConnections = nil
	dc.Pex.RequestRate = time.Hour
	dc.Pex.CullRate = time.Hour
	dc.Pex.ClearOldRate = time.Hour
	dc.Pex.UpdateBlacklistRate = time.Hour
	if o.ReplyCount != 0 {
		dc.Pex.ReplyCount = o.ReplyCount
	}

	gnet.EraseMessages()
	d, err := daemon.New(dc, v)
	if err != nil {
		db.Close()
		fail(fmt.Errorf("daemon.New: %v", err))
	}
	if err := v.Init(); err != nil {
		db.Close()
		fail(fmt.Errorf("visor.Init: %v", err))
	}
	runErr := make(chan error, 1)
	var wg sync.WaitGroup
	wg.Add(1)
	go func() {
		defer wg.Done()
		if err := d.Run(); err != nil {
			runErr <- err
		}
	}()
	addr := fmt.Sprintf("127.0.0.1:%d", port)
	deadline := time.Now().Add(30 * time.Second)
	for {
		c, err := net.DialTimeout("tcp", addr, time.Second)
		if err == nil {
			c.Close()
			break
		}
		if time.Now().After(deadline) {
			fail(fmt.Errorf("peer port never opened: %v", err))
		}
		time.Sleep(5 * time.Millisecond)
	}
	eff := d.DaemonConfig()
	_ = enc.Encode(childReady{PeerAddr: addr, MaxOut: eff.MaxOutgoingMessageLength, MaxIn: eff.MaxIncomingMessageLength,
		ReplyCnt: dc.Pex.ReplyCount, BlockCnt: eff.MaxGetBlocksResponseCount, AnnounceNum: eff.MaxTxnAnnounceNum})
	done := make(chan struct{})
	go func() {
		_, _ = io.Copy(io.Discard, os.Stdin)
		close(done)
	}()
	select {
	case <-done:
	case err := <-runErr:
		fmt.Fprintln(os.Stderr, "node run error:", err)
	}
	d.Shutdown()
	wg.Wait()
	db.Close()
}

// ---------------------------------------------------------------------------------
// parent side

type childProc struct {
	childReady
	cmd     *exec.Cmd
	stdin   io.WriteCloser
	logPath string
	exited  chan struct{}
}

func spawnNode(workdir string, o childOptions, env []string) (*childProc, error) {
	if err := os.MkdirAll(workdir, 0755); err != nil {
		return nil, err
	}
	ob, _ := json.Marshal(o)
	op := filepath.Join(workdir, "options.json")
	if err := os.WriteFile(op, ob, 0644); err != nil {
		return nil, err
	}
	bin, err := os.Executable()
	if err != nil {
		return nil, err
	}
	logp := filepath.Join(workdir, "node.stderr")
	lf, err := os.Create(logp)
	if err != nil {
		return nil, err
	}
	cmd := exec.Command(bin, op)
	cmd.Env = append(append(os.Environ(), "VERIF_CHILD="+childMode), env...)
	cmd.Stderr = lf
	cmd.Dir = workdir
	stdin, err := cmd.StdinPipe()
	if err != nil {
		return nil, err
	}
	stdout, err := cmd.StdoutPipe()
	if err != nil {
		return nil, err
	}
	if err := cmd.Start(); err != nil {
		return nil, err
	}
	lf.Close()
	p := &childProc{cmd: cmd, stdin: stdin, logPath: logp, exited: make(chan struct{})}
	rd := bufio.NewReader(stdout)
	lineC := make(chan string, 1)
	go func() {
		l, _ := rd.ReadString('\n')
		lineC <- l
		_, _ = io.Copy(io.Discard, rd)
	}()
	go func() {
		_ = cmd.Wait()
		close(p.exited)
	}()
	select {
	case l := <-lineC:
		if err := json.Unmarshal([]byte(l), &p.childReady); err != nil {
			p.kill()
			return nil, fmt.Errorf("node child did not report readiness: %q (stderr: %s)", l, tail(p.stderr(), 400))
		}
		if p.Err != "" {
			p.kill()
			return nil, fmt.Errorf("node child: %s", p.Err)
		}
	case <-time.After(3 * time.Minute):
		p.kill()
		return nil, fmt.Errorf("node child start timed out")
	}
	return p, nil
}

func tail(b []byte, n int) string {
	if len(b) > n {
		b = b[len(b)-n:]
	}
	return string(b)
}

func (p *childProc) alive() bool {
	select {
	case <-p.exited:
		return false
	default:
		return true
	}
}

func (p *childProc) kill() {
	if p.alive() {
		_ = p.cmd.Process.Kill()
		<-p.exited
	}
}

// stop closes stdin (graceful shutdown) and waits
func (p *childProc) stop(wait time.Duration) {
	_ = p.stdin.Close()
	select {
	case <-p.exited:
	case <-time.After(wait):
		p.kill()
	}
}

func (p *childProc) stderr() []byte {
	b, _ := os.ReadFile(p.logPath)
	return b
}
