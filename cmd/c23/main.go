// c23: outgoing peer messages always fit the size limit and carry the longest fitting prefix.
//
// Monitor: the real constructors daemon.NewGiveBlocksMessage, NewGiveTxnsMessage,
// NewGivePeersMessage, NewAnnounceTxnsMessage and NewGetTxnsMessage are called with item
// lists whose cumulative encoded sizes are known, and with limits placed on, just below and
// just above every cumulative boundary. The returned message is encoded with
// gnet.EncodeMessage - the bytes gnet's sendMessage compares with the limit
// (len(EncodeMessage(m)) > max => refused) - and judged:
//
//	(a) len(EncodeMessage(m)) <= max
//	(b) the items are request[:k] for some k (compared on the wire bytes)
//	(c) k is maximal: k == min(len(request), item cap) or the message with k+1 items exceeds max
//
// Sizes are computed from the documented wire format (4 length + 4 id + 4 count + items) and
// cross-checked against the encoder on every list.
package main

import (
	"bytes"
	"encoding/binary"
	"fmt"
	"math/rand"
	"os"
	"strings"
	"sync"

	"github.com/skycoin/skycoin/src/cipher"
	"github.com/skycoin/skycoin/src/coin"
	"github.com/skycoin/skycoin/src/daemon"
	"github.com/skycoin/skycoin/src/daemon/gnet"
	"github.com/skycoin/skycoin/src/daemon/pex"

	"verif/lib/fix"
	"verif/lib/rp"
	"verif/lib/vf"
)

const (
	workers    = 16
	headerSize = 12 // 4 length prefix + 4 message id + 4 item count: the empty message
	defaultMax = 256 * 1024
)

// wire sizes of the items, from the encoder's documented format
const (
	sizeHash      = 32
	sizeIPAddr    = 4 + 2
	sizeTxnOutput = 21 + 8 + 8
	sizeSig       = 65
	sizeTxnFixed  = 4 + 1 + 32 + 4 + 4 + 4      // length, type, inner hash, three slice counts
	sizeBlockHead = 4 + 8 + 8 + 8 + 32*3        // version, time, seq, fee, prev/body/ux hashes
	sizeBlockFix  = sizeBlockHead + 4 + sizeSig // + txn count + signature
)

func txnSize(t *coin.Transaction) uint64 {
	return uint64(sizeTxnFixed + sizeSig*len(t.Sigs) + sizeHash*len(t.In) + sizeTxnOutput*len(t.Out))
}

func blockSize(b *coin.SignedBlock) uint64 {
	n := uint64(sizeBlockFix)
	for i := range b.Body.Transactions {
		n += txnSize(&b.Body.Transactions[i])
	}
	return n
}

// request is one item list of one message family
type request struct {
	fam   *family
	list  string   // "<list index>/<profile>": with the seed, identifies the item list for replay
	n     int      // number of requested entries
	sizes []uint64 // wire size of every requested item that can be sent at all, in request order (len(sizes) == n unless the constructor has to skip entries, see wideleg.go)
	data  interface{}
	// capLow: only for lists with entries the constructor has to skip (otherwise -1): the number
	// of sendable items among the first min(n, cap) requested entries - what a constructor keeps
	// that counts skipped entries against the item cap
	capLow int
	// derived
	cum  []uint64 // cum[k] = encoded length of the message with the first k sendable items, k <= min(len(sizes), cap)
	full []byte   // EncodeMessage of the message with min(len(sizes), cap) items
}

type family struct {
	name string
	cap  int
	gen  func(rng *rand.Rand, n int, profile int) *request
	// genMixed (only for a constructor that has a notion of skipping entries): a list of len(skip)
	// entries in which entry i is one the constructor must skip iff skip[i]
	genMixed func(rng *rand.Rand, l *local, skip []bool) *request
	// build calls the constructor under test and returns the message (as a gnet.Serializer) and its item count
	build func(rq *request, max uint64) (gnet.Serializer, int)
	// literal builds the message with the first k items without the constructor
	literal func(rq *request, k int) gnet.Serializer
}

func randHash(rng *rand.Rand) cipher.SHA256 {
	var h cipher.SHA256
	rng.Read(h[:])
	return h
}

func randTxn(rng *rand.Rand, profile int) coin.Transaction {
	var t coin.Transaction
	var ni, no int
	switch profile {
	case 0: // small
		ni, no = rng.Intn(3), rng.Intn(3)
	case 1: // typical
		ni, no = 1+rng.Intn(8), 1+rng.Intn(4)
	default: // large: up to ~12 KB
		ni, no = rng.Intn(60), rng.Intn(200)
	}
	t.Type = uint8(rng.Intn(2))
	t.InnerHash = randHash(rng)
	for i := 0; i < ni; i++ {
		var s cipher.Sig
		rng.Read(s[:])
		t.Sigs = append(t.Sigs, s)
		t.In = append(t.In, randHash(rng))
	}
	for i := 0; i < no; i++ {
		var o coin.TransactionOutput
		rng.Read(o.Address.Key[:])
		o.Coins, o.Hours = rng.Uint64(), rng.Uint64()
		t.Out = append(t.Out, o)
	}
	t.Length = uint32(txnSize(&t))
	return t
}

func families() []*family {
	fBlocks := &family{name: "GiveBlocks", cap: 128}
	fBlocks.gen = func(rng *rand.Rand, n int, profile int) *request {
		bs := make([]coin.SignedBlock, n)
		rq := &request{fam: fBlocks, n: n, data: bs, capLow: -1}
		for i := range bs {
			b := &bs[i]
			b.Head.Version, b.Head.Time, b.Head.BkSeq, b.Head.Fee = 0, rng.Uint64(), uint64(i), rng.Uint64()
			b.Head.PrevHash, b.Head.BodyHash, b.Head.UxHash = randHash(rng), randHash(rng), randHash(rng)
			rng.Read(b.Sig[:])
			nt := rng.Intn(3)
			if profile == 2 {
				nt = rng.Intn(6)
			}
			for j := 0; j < nt; j++ {
				b.Body.Transactions = append(b.Body.Transactions, randTxn(rng, profile))
			}
			rq.sizes = append(rq.sizes, blockSize(b))
		}
		return rq
	}
	fBlocks.build = func(rq *request, max uint64) (gnet.Serializer, int) {
		m := daemon.NewGiveBlocksMessage(rq.data.([]coin.SignedBlock), max)
		return m, len(m.Blocks)
	}
	fBlocks.literal = func(rq *request, k int) gnet.Serializer {
		return &daemon.GiveBlocksMessage{Blocks: rq.data.([]coin.SignedBlock)[:k]}
	}

	fTxns := &family{name: "GiveTxns", cap: 256}
	fTxns.gen = func(rng *rand.Rand, n int, profile int) *request {
		ts := make([]coin.Transaction, n)
		rq := &request{fam: fTxns, n: n, data: ts, capLow: -1}
		for i := range ts {
			ts[i] = randTxn(rng, profile)
			rq.sizes = append(rq.sizes, txnSize(&ts[i]))
		}
		return rq
	}
	fTxns.build = func(rq *request, max uint64) (gnet.Serializer, int) {
		m := daemon.NewGiveTxnsMessage(rq.data.([]coin.Transaction), max)
		return m, len(m.Transactions)
	}
	fTxns.literal = func(rq *request, k int) gnet.Serializer {
		return &daemon.GiveTxnsMessage{Transactions: rq.data.([]coin.Transaction)[:k]}
	}

	type peersData struct {
		peers []pex.Peer
		addrs []daemon.IPAddr
	}
	fPeers := &family{name: "GivePeers", cap: 512}
	validPeer := func(rng *rand.Rand, d *peersData, i int) {
		ip := rng.Uint32()
		if ip>>24 == 0 {
			ip |= 1 << 24
		}
		port := uint16(1 + rng.Intn(65535))
		d.peers = append(d.peers, pex.Peer{Addr: fmt.Sprintf("%d.%d.%d.%d:%d", byte(ip>>24), byte(ip>>16), byte(ip>>8), byte(ip), port), LastSeen: int64(i)})
		d.addrs = append(d.addrs, daemon.IPAddr{IP: ip, Port: port})
	}
	fPeers.gen = func(rng *rand.Rand, n int, profile int) *request {
		d := &peersData{}
		rq := &request{fam: fPeers, n: n, data: d, capLow: -1}
		for i := 0; i < n; i++ {
			validPeer(rng, d, i)
			rq.sizes = append(rq.sizes, sizeIPAddr)
		}
		return rq
	}
	// d.peers = the requested entries, d.addrs = the addresses of those that are IPv4 ip:port
	// strings, in request order; which entries are not is known by construction (notAnIPv4Addr)
	fPeers.genMixed = func(rng *rand.Rand, l *local, skip []bool) *request {
		d := &peersData{}
		rq := &request{fam: fPeers, n: len(skip), data: d}
		for i, sk := range skip {
			if sk {
				addr, class := notAnIPv4Addr(rng)
				l.counts["wide.GivePeers.skipworthy."+class]++
				d.peers = append(d.peers, pex.Peer{Addr: addr, LastSeen: int64(i)})
				continue
			}
			validPeer(rng, d, i)
			rq.sizes = append(rq.sizes, sizeIPAddr)
			if i < fPeers.cap {
				rq.capLow++
			}
		}
		return rq
	}
	fPeers.build = func(rq *request, max uint64) (gnet.Serializer, int) {
		m := daemon.NewGivePeersMessage(rq.data.(*peersData).peers, max)
		return m, len(m.Peers)
	}
	fPeers.literal = func(rq *request, k int) gnet.Serializer {
		return &daemon.GivePeersMessage{Peers: rq.data.(*peersData).addrs[:k]}
	}

	hashGen := func(f *family) func(rng *rand.Rand, n int, profile int) *request {
		return func(rng *rand.Rand, n int, profile int) *request {
			hs := make([]cipher.SHA256, n)
			rq := &request{fam: f, n: n, data: hs, capLow: -1}
			for i := range hs {
				hs[i] = randHash(rng)
				rq.sizes = append(rq.sizes, sizeHash)
			}
			return rq
		}
	}
	fAnn := &family{name: "AnnounceTxns", cap: 256}
	fAnn.gen = hashGen(fAnn)
	fAnn.build = func(rq *request, max uint64) (gnet.Serializer, int) {
		m := daemon.NewAnnounceTxnsMessage(rq.data.([]cipher.SHA256), max)
		return m, len(m.Transactions)
	}
	fAnn.literal = func(rq *request, k int) gnet.Serializer {
		return &daemon.AnnounceTxnsMessage{Transactions: rq.data.([]cipher.SHA256)[:k]}
	}
	fGet := &family{name: "GetTxns", cap: 256}
	fGet.gen = hashGen(fGet)
	fGet.build = func(rq *request, max uint64) (gnet.Serializer, int) {
		m := daemon.NewGetTxnsMessage(rq.data.([]cipher.SHA256), max)
		return m, len(m.Transactions)
	}
	fGet.literal = func(rq *request, k int) gnet.Serializer {
		return &daemon.GetTxnsMessage{Transactions: rq.data.([]cipher.SHA256)[:k]}
	}
	return []*family{fBlocks, fTxns, fPeers, fAnn, fGet}
}

type local struct {
	counts   map[string]int64
	distinct map[string]struct{}
	evals    int64
}

func newLocal() *local { return &local{counts: map[string]int64{}, distinct: map[string]struct{}{}} }
func (l *local) merge(r *vf.Run) {
	for k, v := range l.counts {
		r.Count(k, v)
	}
	for k := range l.distinct {
		r.Distinct(k)
	}
	r.Eval(l.evals)
}

// prepare computes the cumulative sizes from the wire-format model and cross-checks them
// against the encoder (message built as a literal, no truncation code involved)
func prepare(r *vf.Run, rq *request, rng *rand.Rand) bool {
	kmax := len(rq.sizes)
	if kmax > rq.fam.cap {
		kmax = rq.fam.cap
	}
	rq.cum = make([]uint64, kmax+1)
	rq.cum[0] = headerSize
	for k := 1; k <= kmax; k++ {
		rq.cum[k] = rq.cum[k-1] + rq.sizes[k-1]
	}
	full, err := gnet.EncodeMessage(rq.fam.literal(rq, kmax))
	if err != nil {
		r.Inconclusive(fmt.Sprintf("size model: encoder refused a %s literal with %d items: %v", rq.fam.name, kmax, err))
		return false
	}
	rq.full = full
	if uint64(len(full)) != rq.cum[kmax] {
		r.Inconclusive(fmt.Sprintf("size model: %s with %d items encodes to %d bytes, model says %d", rq.fam.name, kmax, len(full), rq.cum[kmax]))
		return false
	}
	// spot-check prefixes: the wire format is a concatenation of the items
	for _, k := range []int{0, 1, kmax / 2, rng.Intn(kmax + 1)} {
		if k > kmax {
			continue
		}
		enc, err := gnet.EncodeMessage(rq.fam.literal(rq, k))
		if err != nil || uint64(len(enc)) != rq.cum[k] || !bytes.Equal(enc[headerSize:], full[headerSize:rq.cum[k]]) {
			r.Inconclusive(fmt.Sprintf("size model: %s prefix %d of %d does not encode as a prefix of the full message", rq.fam.name, k, kmax))
			return false
		}
	}
	return true
}

func limitsFor(rq *request, rng *rand.Rand, extra int) []uint64 {
	seen := map[uint64]bool{}
	out := []uint64{}
	add := func(v uint64) {
		if v >= headerSize && !seen[v] {
			seen[v] = true
			out = append(out, v)
		}
	}
	for _, c := range rq.cum {
		for d := uint64(0); d <= 5; d++ {
			add(c + d)
			add(c - d) // c >= 12, no wrap
		}
	}
	last := rq.cum[len(rq.cum)-1]
	for i := 0; i < extra; i++ {
		add(headerSize + uint64(rng.Int63n(int64(last)+200)))
	}
	for _, v := range []uint64{headerSize, headerSize + 1, 1024, defaultMax - 1, defaultMax, defaultMax + 1, 1 << 31, 1<<32 - 1, 1 << 32, 1<<63 - 1, 1 << 63, ^uint64(0) - 8, ^uint64(0) - 4, ^uint64(0) - 3, ^uint64(0)} {
		add(v)
	}
	return out
}

func check(r *vf.Run, l *local, prefix string, rq *request, max uint64) {
	f := rq.fam
	attrs := map[string]string{"message": f.name, "max": fmt.Sprint(max), "requested": fmt.Sprint(rq.n), "list": rq.list}
	var m gnet.Serializer
	var k int
	p, msg, frame := vf.Recover(func() { m, k = f.build(rq, max) })
	l.evals++
	if p {
		attrs["frame"], attrs["msg"] = frame, msg
		r.Violation("panic", attrs, nil)
		return
	}
	attrs["items"] = fmt.Sprint(k)
	enc, err := gnet.EncodeMessage(m)
	if err != nil {
		attrs["err"] = err.Error()
		r.Violation("encode-error", attrs, nil)
		return
	}
	judge(r, l, prefix, rq, max, enc, k, attrs)
}

// judge applies (a), (b), (c) to one encoded message enc (the complete frame: length prefix,
// id, item count, items) that is claimed to carry k items of request rq under the limit max.
// The same judgement serves the constructor leg (enc = EncodeMessage of the constructor's
// result) and the handler leg (enc = the frame a running node put on the wire; counter
// names then carry the prefix "node.").
func judge(r *vf.Run, l *local, prefix string, rq *request, max uint64, enc []byte, k int, attrs map[string]string) bool {
	f := rq.fam
	name := prefix + f.name
	kmax := len(rq.cum) - 1
	// boundary classes of the input pair (request, max), from the size model alone:
	// kfit = the longest prefix that fits
	kfit := 0
	for kfit < kmax && rq.cum[kfit+1] <= max {
		kfit++
	}
	if rq.cum[kfit] == max {
		l.counts[name+".exact_fit"]++
	}
	if kfit < kmax && rq.cum[kfit+1]-max == 1 {
		l.counts[name+".next_item_one_byte_over"]++
	}
	if kfit < kmax && rq.cum[kfit+1]-max <= 4 {
		l.counts[name+".next_item_1_to_4_bytes_over"]++
	}
	// (a) fits: the comparison sendMessage applies
	if uint64(len(enc)) > max {
		attrs["encoded_len"] = fmt.Sprint(len(enc))
		attrs["excess_bytes"] = fmt.Sprint(uint64(len(enc)) - max)
		r.Violation("message-exceeds-limit", attrs, nil)
		l.counts[name+".exceeds_limit"]++
		return false
	}
	// (b) prefix of the request
	if k > kmax || uint64(len(enc)) != rq.cum[k] || binary.LittleEndian.Uint32(enc[8:12]) != uint32(k) ||
		binary.LittleEndian.Uint32(enc[0:4]) != uint32(len(enc)-4) || !bytes.Equal(enc[headerSize:], rq.full[headerSize:rq.cum[k]]) {
		attrs["encoded_len"] = fmt.Sprint(len(enc))
		r.Violation("not-a-prefix-of-request", attrs, nil)
		return false
	}
	// (c) longest. Where the constructor has to skip entries the statement does not say whether
	// the item cap counts the requested entries or the items sent: both are accepted (k == capLow
	// is the longest prefix under the first reading)
	if k < kmax && rq.cum[k+1] <= max && !(rq.capLow >= 0 && k == rq.capLow) {
		fit := k
		for fit < kmax && rq.cum[fit+1] <= max {
			fit++
		}
		attrs["fitting_items"] = fmt.Sprint(fit)
		attrs["dropped_fitting_items"] = fmt.Sprint(fit - k)
		r.Violation("not-longest-prefix", attrs, nil)
		return false
	}
	l.distinct[fmt.Sprintf("%s:%d:%d:%d", name, rq.n, rq.cum[len(rq.cum)-1], k)] = struct{}{}
	// classes
	switch {
	case k == len(rq.sizes):
		l.counts[name+".untruncated"]++
	case rq.capLow >= 0 && k == rq.capLow && k < kmax && rq.cum[k+1] <= max:
		l.counts[name+".capped_by_item_limit_counting_skipped_entries"]++
	case k == f.cap && (k == kmax) && rq.n > f.cap && (max >= rq.cum[k]):
		l.counts[name+".capped_by_item_limit"]++
		if rq.capLow >= 0 && rq.capLow < k {
			l.counts[name+".capped_by_item_limit_counting_sent_items"]++
		}
	case k == 0:
		l.counts[name+".truncated_to_zero"]++
	default:
		l.counts[name+".truncated_by_size"]++
	}
	return true
}

// listLength: the first lists of a family have fixed lengths around the item cap, the others a
// random length drawn from the list's own PRNG
func listLength(rng *rand.Rand, f *family, idx int) int {
	fixed := []int{0, 1, 2, 3, f.cap - 1, f.cap, f.cap + 1, 600}
	if idx < len(fixed) {
		return fixed[idx]
	}
	switch rng.Intn(3) {
	case 0:
		return rng.Intn(12)
	case 1:
		return rng.Intn(f.cap + 1)
	default:
		return rng.Intn(601)
	}
}

func main() {
	if vf.ChildMode() == childMode {
		childMain() // the node of the handler leg (nodechild.go)
		return
	}
	fix.Quiet()
	r := vf.Start("C23", "exploration")
	mc := daemon.NewMessagesConfig()
	mc.Register()

	fams := families()
	if p := r.ReplayPath(); p != "" {
		f := rp.Load(p, "C23")
		r.Seed = f.Seed
		if f.Attrs["leg"] == "node" {
			// a handler-leg case: run that node configuration again (worlds and cases are a
			// function of seed and tier)
			r.Tier = f.Tier
			nodeLeg(r, f.Attrs["config"])
			rp.Done("C23", r.Violations())
		}
		var idx, profile int
		if strings.HasPrefix(f.Attrs["list"], "w") {
			// a wide list (wideleg.go): a function of seed, family and index
			if _, err := fmt.Sscanf(f.Attrs["list"], "w%d/", &idx); err != nil {
				fmt.Fprintln(os.Stderr, "replay: bad list attribute:", err)
				os.Exit(3)
			}
			for _, fam := range fams {
				if fam.name != f.Attrs["message"] {
					continue
				}
				rq, _, _, ok := wideRequest(r, fam, newLocal(), idx)
				if !ok || uint64(rq.n) != f.U64("requested") || rq.list != f.Attrs["list"] {
					fmt.Fprintln(os.Stderr, "replay: could not rebuild the item list")
					os.Exit(3)
				}
				check(r, newLocal(), "wide.", rq, f.U64("max"))
			}
			rp.Done("C23", r.Violations())
		}
		if _, err := fmt.Sscanf(f.Attrs["list"], "%d/%d", &idx, &profile); err != nil {
			fmt.Fprintln(os.Stderr, "replay: bad list attribute:", err)
			os.Exit(3)
		}
		for _, fam := range fams {
			if fam.name != f.Attrs["message"] {
				continue
			}
			rng := r.Rand("list", fam.name, idx)
			// the list length is either fixed by the index or the first draws of the list's PRNG;
			// it is recorded in the file, and the draws are repeated to keep the stream aligned
			n := listLength(rng, fam, idx)
			rq := fam.gen(rng, n, profile)
			rq.list = f.Attrs["list"]
			if uint64(n) != f.U64("requested") || !prepare(r, rq, rng) {
				fmt.Fprintln(os.Stderr, "replay: could not rebuild the item list")
				os.Exit(3)
			}
			check(r, newLocal(), "", rq, f.U64("max"))
		}
		rp.Done("C23", r.Violations())
	}
	listsPerFam := r.Pick(32, 600)
	extraLimits := r.Pick(200, 2000)
	type job struct {
		fam     *family
		idx     int
		profile int
	}
	jobs := []job{}
	for _, f := range fams {
		for i := 0; i < listsPerFam; i++ {
			jobs = append(jobs, job{f, i, i % 3})
		}
	}
	// the handler leg (real nodes + wire peer, nodeleg.go) runs beside the constructor leg
	nodeDone := make(chan []*local, 1)
	go func() { nodeDone <- nodeLeg(r, "") }()

	var mu sync.Mutex
	locals := []*local{}
	vf.Parallel(len(jobs), workers, func(ji int) {
		j := jobs[ji]
		l := newLocal()
		mu.Lock()
		locals = append(locals, l)
		mu.Unlock()
		rng := r.Rand("list", j.fam.name, j.idx)
		n := listLength(rng, j.fam, j.idx)
		rq := j.fam.gen(rng, n, j.profile)
		rq.list = fmt.Sprintf("%d/%d", j.idx, j.profile)
		if !prepare(r, rq, rng) {
			return
		}
		limits := limitsFor(rq, rng, extraLimits)
		for _, max := range limits {
			check(r, l, "", rq, max)
		}
		l.counts[j.fam.name+".lists"]++
		l.counts["pairs"] += int64(len(limits))
		l.distinct[fmt.Sprintf("%s:%d:%d:%d", j.fam.name, n, rq.cum[len(rq.cum)-1], len(limits))] = struct{}{}
		if rq.cum[len(rq.cum)-1] > defaultMax {
			l.counts[j.fam.name+".lists_larger_than_default_limit"]++
		}
	})
	for _, l := range locals {
		l.merge(r)
	}
	// lists around and beyond every item cap, with entries the constructor has to skip (wideleg.go)
	for _, l := range wideLeg(r, fams) {
		l.merge(r)
	}
	for _, f := range fams {
		if f.genMixed != nil {
			name := "wide." + f.name
			r.Count(name+".item_cap_readings_observed", r.Get(name+".capped_by_item_limit_counting_skipped_entries")+r.Get(name+".capped_by_item_limit_counting_sent_items"))
		}
	}
	wideFloors(r, fams)
	for _, l := range <-nodeDone {
		if l != nil {
			l.merge(r)
		}
	}
	nodeFloors(r)

	r.Sample(map[string]interface{}{"leg": "node", "config": "default (outgoing 262144, incoming 1048576)", "request": "GETT with 256 hashes of pool transactions, ~450 KB in total",
		"expect": "one GIVT frame of at most 262144 bytes carrying the first k requested transactions, k the largest count that fits"})
	r.Sample(map[string]interface{}{"message": "AnnounceTxns", "requested": 3, "max": 76, "expect": "2 hashes: 12 + 2*32 = 76 bytes fits, 108 does not"})
	r.Sample(map[string]interface{}{"message": "AnnounceTxns", "requested": 3, "max": 75, "expect": "1 hash (44 bytes); 2 hashes need 76"})
	r.Sample(map[string]interface{}{"message": "GivePeers", "requested": 600, "max": 262144, "expect": "512 peers (item cap), 12 + 512*6 bytes"})
	r.Sample(map[string]interface{}{"leg": "wide", "message": "GivePeers", "requested": "1024 entries: 100 IPv6 / host name / malformed addresses, then 924 IPv4 ip:port", "max": 262144,
		"expect": "the first 412 or the first 512 IPv4 entries in request order (the cap counts requested entries or sent items), nothing else - in particular no 0.0.0.0:0"})

	for _, f := range fams {
		r.Floor(f.name+".lists", int64(listsPerFam*9/10))
		r.Floor(f.name+".untruncated", 100)
		r.Floor(f.name+".truncated_by_size", 1000)
		r.Floor(f.name+".truncated_to_zero", 10)
		r.Floor(f.name+".capped_by_item_limit", 10)
		r.Floor(f.name+".exact_fit", 100)
		r.Floor(f.name+".next_item_one_byte_over", 100)
		r.Floor(f.name+".next_item_1_to_4_bytes_over", 400)
	}
	r.Floor("GiveBlocks.lists_larger_than_default_limit", 1)
	r.Floor("GiveTxns.lists_larger_than_default_limit", 1)
	r.Floor("pairs", int64(r.Pick(100000, 5000000)))

	r.Finish("item lists of 0,1,2,3,cap-1,cap,cap+1,600 and random lengths with small/typical/large items; limits at every cumulative encoded size +-0..5 bytes, random limits, the production default 262144 +-1 and huge values up to 2^64-1; a case is distinct by (message type, item list, number of items kept); fit is judged on len(gnet.EncodeMessage(m)) exactly as sendMessage does. Wide lists: for every constructor lists of cap-1, cap, cap+1, 2*cap, 2*cap+1, 3*cap+7, cap+skipped and random lengths beyond the cap, and for NewGivePeersMessage (the constructor that skips entries) every such length with unsendable peer addresses of 17 classes mixed in as leading / trailing / alternating / sparse / half / dense / block across the cap / single at the cap boundary / all; the message must be byte for byte the longest fitting prefix of the sendable requested items in request order, at most cap items. Handler leg: real nodes (default limits 256 KiB out / 1 MiB in, and seeded small outgoing limits at and just above the smallest accepted value) on a harness-built chain and pool answer a raw wire peer's GETB, GETT, ANNT, GIVT and GETP; every frame on the wire is compared with the configured outgoing limit and every reply with the longest fitting prefix of the candidate items (blocks after 'last', known pool transactions in request order, unknown hashes in announcement order, hashes of newly accepted transactions, peer count)",
		"handler leg: gnet refuses an oversized message and closes the connection, so a reply that is missing on two connections in a row although candidate items fit counts as a violation; a connection closed once is retried (counter node.connection_closed_by_node)",
		"handler leg: the peer selection of GIVP is random, so only its count, distinctness and membership in the node's peer list are judged",
		"limits below 12 bytes (the encoded empty message: length prefix, id, item count) are outside the property's quantifier",
		"wide lists: peer entries that are not IPv4 a.b.c.d:port strings (IPv6 literals, host names, empty, missing / empty / overflowing / negative / non-numeric port, missing ip, wrong octets, garbage) can not be sent and must be skipped; the statement does not say whether the item cap counts requested entries or sent items, so both longest prefixes are accepted; port 0, IPv4-mapped IPv6 and leading zeros are not used (convertibility undocumented)",
		"item sizes come from the documented wire format and are cross-checked against the encoder on every list; a disagreement makes the run inconclusive rather than violated")
}
