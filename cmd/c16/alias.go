// C16, input-immutability / aliasing leg.
//
// The statement quantifies over every input, and a caller hands the same seed, serialisation
// buffer or parent key to the package many times. This leg therefore keeps a private copy of
// every input of every bip32/bip39/bip44 entry point that takes a byte slice or a key - byte
// buffers over their whole capacity, key structures with the whole capacity region of each of
// their slices - calls the entry point, requires the inputs bit-identical afterwards, and
// requires that the same call and the dependent calls (deserialise the same bytes again, derive
// another child from the same parent, serialise the parent again) still give the values of the
// reference (lib/refbip). The parent key objects are obtained in every way the package offers:
// deserialised from bytes with and without spare capacity, from text, cloned, derived, neutered.
package main

import (
	"bytes"
	"fmt"
	"math/rand"
	"runtime"
	"strings"

	"github.com/skycoin/skycoin/src/cipher/bip32"
	"github.com/skycoin/skycoin/src/cipher/bip39"
	"github.com/skycoin/skycoin/src/cipher/bip44"

	"verif/lib/refbip"
	"verif/lib/vf"
)

// region is a live byte slice watched over its whole capacity
type region struct {
	name string
	live []byte // full-capacity view of the caller's memory
	ln   int    // length the callee was given
	want []byte // private copy
}

func watch(name string, b []byte) region {
	full := b[:cap(b)]
	return region{name: name, live: full, ln: len(b), want: append([]byte(nil), full...)}
}

func (g region) changed() string {
	if bytes.Equal(g.live, g.want) {
		return ""
	}
	for i := range g.live {
		if g.live[i] != g.want[i] {
			where := "within its length"
			if i >= g.ln {
				where = "in its spare capacity"
			}
			return fmt.Sprintf("%s (len %d cap %d) changed at byte %d %s: now %x, was %x", g.name, g.ln, len(g.live), i, where, g.live, g.want)
		}
	}
	return g.name + " changed"
}

// keyWatch watches one key object: the memory behind each of its slices and the slice headers,
// depth and child number
type keyWatch struct {
	name    string
	regions []region
	hdr     func() string
	hdr0    string
}

func watchKey(name string, slices []*[]byte, sliceNames []string, depth *byte, child func() uint32) *keyWatch {
	w := &keyWatch{name: name}
	for i, s := range slices {
		w.regions = append(w.regions, watch(name+"."+sliceNames[i], *s))
	}
	w.hdr = func() string {
		out := fmt.Sprintf("depth=%d child=%d", *depth, child())
		for i, s := range slices {
			var p *byte
			if cap(*s) > 0 {
				p = &(*s)[:1][0]
			}
			out += fmt.Sprintf(" %s=%p/%d/%d", sliceNames[i], p, len(*s), cap(*s))
		}
		return out
	}
	w.hdr0 = w.hdr()
	return w
}

var keySliceNames = []string{"Version", "ParentFingerprint", "ChainCode", "Key"}

func watchPriv(name string, k *bip32.PrivateKey) *keyWatch {
	return watchKey(name, []*[]byte{&k.Version, &k.ParentFingerprint, &k.ChainCode, &k.Key}, keySliceNames, &k.Depth, k.ChildNumber)
}

func watchPub(name string, k *bip32.PublicKey) *keyWatch {
	return watchKey(name, []*[]byte{&k.Version, &k.ParentFingerprint, &k.ChainCode, &k.Key}, keySliceNames, &k.Depth, k.ChildNumber)
}

func (w *keyWatch) changed() string {
	for _, g := range w.regions {
		if d := g.changed(); d != "" {
			return d
		}
	}
	if h := w.hdr(); h != w.hdr0 {
		return w.name + " structure changed: now " + h + ", was " + w.hdr0
	}
	return ""
}

// inputs is everything a case handed to the package so far
type inputs struct {
	regions []region
	keys    []*keyWatch
}

func (in *inputs) changed() string {
	for _, g := range in.regions {
		if d := g.changed(); d != "" {
			return d
		}
	}
	for _, k := range in.keys {
		if d := k.changed(); d != "" {
			return d
		}
	}
	return ""
}

// spare returns b copied into a buffer with n bytes of spare capacity (filled with a pattern)
func spare(b []byte, n int) []byte {
	backing := make([]byte, len(b)+n)
	copy(backing, b)
	for i := len(b); i < len(backing); i++ {
		backing[i] = 0xA5
	}
	return backing[:len(b):len(backing)]
}

var aliasOrigins = []string{"bytes(spare-capacity)", "bytes(exact-capacity)", "text", "clone-of-deserialized", "derived-from-seed", "neutered-of-deserialized/clone-of-derived"}

type aliasOp struct {
	fn   string
	want []byte // nil: an error is expected
	call func() ([]byte, error)
}

func normalIndex(g *rand.Rand) uint32 {
	switch g.Intn(5) {
	case 0:
		return 0
	case 1:
		return 0x7fffffff
	case 2:
		return uint32(g.Intn(4))
	default:
		return uint32(g.Int63n(1 << 31))
	}
}

func legAlias() {
	n := r.Pick(480, 12000)
	vf.Parallel(n, runtime.NumCPU(), func(i int) { aliasCase(i) })
}

func aliasCase(i int) {
	g := r.Rand("alias", i)
	seed := genSeed(g, i)
	origin := aliasOrigins[i%len(aliasOrigins)]
	cl := "alias:" + origin
	m, err := refbip.Master(seed)
	if err != nil {
		return
	}
	var idx []uint32
	for d, depth := 0, g.Intn(3); d < depth; d++ {
		_, ci := pickIndex(g)
		idx = append(idx, ci)
	}
	wp := m
	if len(idx) > 0 {
		if wp, err = m.Derive(idx); err != nil {
			return
		}
	}
	wpub := wp.Neuter()
	path := refbip.FormatPath(idx)
	in := fmt.Sprintf("seed=%s path=%s origin=%s", hx(seed), path, origin)
	r.Eval(1)
	r.DistinctBytes([]byte("alias" + in))

	all := &inputs{}
	bad := false
	// intact checks every input handed out so far after the call named fn
	intact := func(fn string) bool {
		r.Count("alias.input-checks", 1)
		if d := all.changed(); d != "" {
			kind := "input-modified"
			if strings.HasSuffix(fn, "Clone") {
				kind = "clone-aliases-original" // the harness wrote to the clone only
			}
			viol(kind, fn, cl, in, d)
			bad = true
			return false
		}
		return true
	}

	// ---- entry points that take a seed
	seedBuf := spare(seed, 8+g.Intn(24))
	all.regions = append(all.regions, watch("seed buffer", seedBuf))
	for pass := 0; pass < 2; pass++ {
		var mk *bip32.PrivateKey
		if !guard("bip32.NewMasterKey", cl, in, func() { mk, err = bip32.NewMasterKey(seedBuf) }) {
			return
		}
		if err != nil || !bytes.Equal(mk.Serialize(), m.Serialize82()) {
			viol("key-mismatch", "bip32.NewMasterKey", cl, in, fmt.Sprintf("call %d on the same seed buffer: %v", pass+1, err))
			return
		}
		if !intact("bip32.NewMasterKey") {
			return
		}
		var fk *bip32.PrivateKey
		if !guard("bip32.NewPrivateKeyFromPath", cl, in, func() { fk, err = bip32.NewPrivateKeyFromPath(seedBuf, path) }) {
			return
		}
		if err != nil || !bytes.Equal(fk.Serialize(), wp.Serialize82()) {
			viol("key-mismatch", "bip32.NewPrivateKeyFromPath", cl, in, fmt.Sprintf("call %d on the same seed buffer: %v", pass+1, err))
			return
		}
		if !intact("bip32.NewPrivateKeyFromPath") {
			return
		}
		if pass == 1 {
			// the keys are values of their own: the caller may reuse its seed buffer
			for j := range seedBuf {
				seedBuf[j] ^= 0xff
			}
			if !bytes.Equal(mk.Serialize(), m.Serialize82()) || !bytes.Equal(fk.Serialize(), wp.Serialize82()) {
				viol("result-aliases-input", "bip32.NewMasterKey/NewPrivateKeyFromPath", cl, in, "the key changed when the caller overwrote its seed buffer")
				return
			}
			for j := range seedBuf {
				seedBuf[j] ^= 0xff
			}
			r.Count("alias.seed-entry-points.agree", 1)
		}
	}

	// ---- bip39.NewMnemonic on an entropy buffer with spare capacity
	{
		ent := randBytes(g, entropySizes[g.Intn(5)])
		entBuf := spare(ent, 1+g.Intn(16))
		w := watch("entropy buffer", entBuf)
		want, _ := refbip.MnemonicFromEntropy(ent)
		for pass := 0; pass < 2; pass++ {
			var got string
			if !guard("bip39.NewMnemonic", cl, hx(ent), func() { got, err = bip39.NewMnemonic(entBuf) }) {
				return
			}
			if err != nil || got != want {
				viol("mnemonic-mismatch", "bip39.NewMnemonic", cl, "entropy="+hx(ent), fmt.Sprintf("call %d on the same buffer: got %q (%v) want %q", pass+1, got, err, want))
				return
			}
			r.Count("alias.input-checks", 1)
			if d := w.changed(); d != "" {
				viol("input-modified", "bip39.NewMnemonic", cl, "entropy="+hx(ent), d)
				return
			}
		}
		r.Count("alias.mnemonic.agree", 1)
	}

	// ---- the parent key objects
	var priv *bip32.PrivateKey
	var pub *bip32.PublicKey
	var privBuf, pubBuf []byte // the caller's serialisation buffers (nil if the origin has none)
	deser := func(spareCap int) bool {
		privBuf, pubBuf = spare(wp.Serialize82(), spareCap), spare(wpub.Serialize82(), spareCap)
		all.regions = append(all.regions, watch("xprv buffer", privBuf), watch("xpub buffer", pubBuf))
		ok := guard("bip32.DeserializePrivateKey", cl, in, func() {
			if priv, err = bip32.DeserializePrivateKey(privBuf); err == nil {
				pub, err = bip32.DeserializePublicKey(pubBuf)
			}
		})
		if ok && err != nil {
			viol("rejected-valid", "bip32.Deserialize*Key", cl, in, err.Error())
			ok = false
		}
		return ok && intact("bip32.Deserialize*Key")
	}
	switch i % len(aliasOrigins) {
	case 0:
		if !deser(4 + g.Intn(28)) {
			return
		}
	case 1:
		if !deser(0) {
			return
		}
	case 2:
		if !guard("bip32.DeserializeEncodedPrivateKey", cl, in, func() {
			if priv, err = bip32.DeserializeEncodedPrivateKey(wp.String()); err == nil {
				pub, err = bip32.DeserializeEncodedPublicKey(wpub.String())
			}
		}) {
			return
		}
		if err != nil {
			viol("rejected-valid", "bip32.DeserializeEncoded*Key", cl, in, err.Error())
			return
		}
	case 3:
		if !deser(g.Intn(2) * 16) {
			return
		}
		dp, dq := priv, pub
		all.keys = append(all.keys, watchPriv("deserialized xprv", dp), watchPub("deserialized xpub", dq))
		if !guard("Clone", cl, in, func() {
			c1, c2 := dp.Clone(), dq.Clone()
			priv, pub = &c1, &c2
		}) {
			return
		}
		if !intact("PrivateKey.Clone/PublicKey.Clone") {
			return
		}
	case 4:
		if !guard("bip32.NewPrivateKeyFromPath", cl, in, func() {
			if priv, err = bip32.NewPrivateKeyFromPath(seedBuf, path); err == nil {
				pub = priv.PublicKey()
			}
		}) {
			return
		}
		if err != nil {
			viol("rejected-valid", "bip32.NewPrivateKeyFromPath", cl, in, err.Error())
			return
		}
	default:
		if !deser(8) {
			return
		}
		dp := priv
		all.keys = append(all.keys, watchPriv("deserialized xprv", dp))
		if !guard("PrivateKey.PublicKey", cl, in, func() {
			pub = dp.PublicKey()
			var k *bip32.PrivateKey
			if k, err = bip32.NewPrivateKeyFromPath(seedBuf, path); err == nil {
				c := k.Clone()
				priv = &c
			}
		}) {
			return
		}
		if err != nil {
			viol("rejected-valid", "bip32.NewPrivateKeyFromPath", cl, in, err.Error())
			return
		}
	}
	if d := samePriv(priv, wp); d != "" {
		viol("key-mismatch", "parent xprv", cl, in, d)
		return
	}
	if d := samePub(pub, wpub); d != "" {
		viol("key-mismatch", "parent xpub", cl, in, d)
		return
	}
	all.keys = append(all.keys, watchPriv("parent xprv", priv), watchPub("parent xpub", pub))
	if !intact("accessors of the parent keys") {
		return
	}

	// ---- every operation on the two parents, in a random order, then some of them again
	a, b, c, d := normalIndex(g), normalIndex(g), normalIndex(g), normalIndex(g)
	for b == a {
		b = normalIndex(g)
	}
	h1, h2 := refbip.Hardened+normalIndex(g), refbip.Hardened+normalIndex(g)
	ser := func(k *refbip.Key, e error) []byte {
		if e != nil {
			return nil
		}
		return k.Serialize82()
	}
	wantA := ser(wp.CKDpriv(a))
	wantH := ser(wp.CKDpriv(h1))
	var wantC, wantSub []byte
	if k, e := wp.CKDpriv(c); e == nil {
		wantC = k.Neuter().Serialize82()
	}
	if k, e := wp.CKDpriv(d); e == nil {
		wantSub = ser(k.CKDpriv(h2))
	}
	wantPA := ser(wpub.CKDpub(a))
	wantPB := ser(wpub.CKDpub(b))
	if wantA == nil || wantH == nil || wantC == nil || wantSub == nil || wantPA == nil || wantPB == nil || wp.Depth >= 254 {
		r.Count("alias.reference-invalid-child(skipped)", 1)
		return
	}
	fp, id := wp.Fingerprint(), wp.Identifier()
	privSer := func(k *bip32.PrivateKey, e error) ([]byte, error) {
		if e != nil || k == nil {
			return nil, e
		}
		return k.Serialize(), nil
	}
	pubSer := func(k *bip32.PublicKey, e error) ([]byte, error) {
		if e != nil || k == nil {
			return nil, e
		}
		return k.Serialize(), nil
	}
	ops := []aliasOp{
		{"PrivateKey.Serialize", wp.Serialize82(), func() ([]byte, error) { return priv.Serialize(), nil }},
		{"PrivateKey.String", []byte(wp.String()), func() ([]byte, error) { return []byte(priv.String()), nil }},
		{"PrivateKey.Fingerprint", fp[:], func() ([]byte, error) { return priv.Fingerprint(), nil }},
		{"PrivateKey.Identifier", id[:], func() ([]byte, error) { return priv.Identifier(), nil }},
		{"PrivateKey.PublicKey", wpub.Serialize82(), func() ([]byte, error) { return priv.PublicKey().Serialize(), nil }},
		{"PrivateKey.NewPrivateChildKey(normal)", wantA, func() ([]byte, error) { return privSer(priv.NewPrivateChildKey(a)) }},
		{"PrivateKey.NewPrivateChildKey(hardened)", wantH, func() ([]byte, error) { return privSer(priv.NewPrivateChildKey(h1)) }},
		{"PrivateKey.NewPublicChildKey", wantC, func() ([]byte, error) { return pubSer(priv.NewPublicChildKey(c)) }},
		{"PrivateKey.DeriveSubpath", wantSub, func() ([]byte, error) {
			return privSer(priv.DeriveSubpath([]bip32.PathNode{{ChildNumber: d}, {ChildNumber: h2}}))
		}},
		{"PrivateKey.Clone", wp.Serialize82(), func() ([]byte, error) {
			k := priv.Clone()
			out := k.Serialize()
			// a clone is a copy: writing to it must not reach the original
			for _, s := range [][]byte{k.Key, k.ChainCode, k.ParentFingerprint} {
				for j := range s {
					s[j] ^= 0xff
				}
			}
			return out, nil
		}},
		{"PublicKey.Serialize", wpub.Serialize82(), func() ([]byte, error) { return pub.Serialize(), nil }},
		{"PublicKey.String", []byte(wpub.String()), func() ([]byte, error) { return []byte(pub.String()), nil }},
		{"PublicKey.Fingerprint", fp[:], func() ([]byte, error) { return pub.Fingerprint(), nil }},
		{"PublicKey.Identifier", id[:], func() ([]byte, error) { return pub.Identifier(), nil }},
		{"PublicKey.NewPublicChildKey", wantPA, func() ([]byte, error) { return pubSer(pub.NewPublicChildKey(a)) }},
		{"PublicKey.NewPublicChildKey(second index)", wantPB, func() ([]byte, error) { return pubSer(pub.NewPublicChildKey(b)) }},
		{"PublicKey.NewPublicChildKey(hardened)", nil, func() ([]byte, error) { return pubSer(pub.NewPublicChildKey(h1)) }},
		{"PublicKey.Clone", wpub.Serialize82(), func() ([]byte, error) {
			k := pub.Clone()
			out := k.Serialize()
			for _, s := range [][]byte{k.Key, k.ChainCode, k.ParentFingerprint} {
				for j := range s {
					s[j] ^= 0xff
				}
			}
			return out, nil
		}},
	}
	order := g.Perm(len(ops))
	for k := 0; k < 6; k++ { // the repeated calls
		order = append(order, g.Intn(len(ops)))
	}
	// the commutation on these shared objects: CKDpub(N(parent), a) == N(CKDpriv(parent, a))
	if k, e := wp.CKDpriv(a); e != nil || !bytes.Equal(k.Neuter().Serialize82(), wantPA) {
		r.Inconclusive("reference self-check: public and private derivation disagree for " + in)
		return
	}
	for step, oi := range order {
		op := ops[oi]
		var got []byte
		if !guard(op.fn, cl, in, func() { got, err = op.call() }) {
			return
		}
		rep := ""
		if step >= len(ops) {
			rep = " (repeated call)"
		}
		switch {
		case op.want == nil && err == nil:
			viol("accepted-invalid", op.fn, cl, in, "hardened child derived from a public key"+rep)
			return
		case op.want != nil && err != nil:
			viol("rejected-valid", op.fn, cl, in, err.Error()+rep)
			return
		case op.want != nil && !bytes.Equal(got, op.want):
			viol("key-mismatch", op.fn, cl, in, fmt.Sprintf("step %d%s: got %x want %x", step, rep, got, op.want))
			return
		}
		if !intact(op.fn) {
			return
		}
		// the caller's bytes still are the serialisation they were
		if privBuf != nil {
			var k1 *bip32.PrivateKey
			var k2 *bip32.PublicKey
			var e1, e2 error
			if !guard("bip32.Deserialize*Key", cl, in, func() {
				k1, e1 = bip32.DeserializePrivateKey(privBuf)
				k2, e2 = bip32.DeserializePublicKey(pubBuf)
			}) {
				return
			}
			if e1 != nil || e2 != nil || !bytes.Equal(k1.Serialize(), wp.Serialize82()) || !bytes.Equal(k2.Serialize(), wpub.Serialize82()) {
				viol("repeat-call-mismatch", "bip32.Deserialize*Key after "+op.fn, cl, in, fmt.Sprintf("deserialising the same bytes again: xprv %v, xpub %v", e1, e2))
				return
			}
			r.Count("alias.redeserialize.agree", 1)
		}
		r.Count("alias.ops.agree", 1)
		r.Count("alias.ops.agree:"+op.fn, 1)
		if step >= len(ops) {
			r.Count("alias.ops.repeated.agree", 1)
		}
	}

	// ---- BIP44 objects are keys, too
	if i%3 == 0 && !bad {
		coin, acct := uint32(g.Intn(3))*4000, uint32(g.Intn(3))
		change := int64(g.Intn(2))
		wantCoin, e1 := m.Derive(refbip.BIP44Path(coin, acct, -1, -1)[:2])
		wantAcct, e2 := m.Derive(refbip.BIP44Path(coin, acct, -1, -1))
		wantChain, e3 := m.Derive(refbip.BIP44Path(coin, acct, change, -1))
		if e1 != nil || e2 != nil || e3 != nil {
			return
		}
		in44 := fmt.Sprintf("%s coin=%d account=%d change=%d", in, coin, acct, change)
		var co *bip44.Coin
		var ac *bip44.Account
		for pass := 0; pass < 2; pass++ {
			if !guard("bip44.NewCoin", cl, in44, func() { co, err = bip44.NewCoin(seedBuf, bip44.CoinType(coin)) }) {
				return
			}
			if err != nil || !bytes.Equal(co.Serialize(), wantCoin.Serialize82()) {
				viol("key-mismatch", "bip44.NewCoin", cl, in44, fmt.Sprintf("call %d on the same seed buffer: %v", pass+1, err))
				return
			}
			if !intact("bip44.NewCoin") {
				return
			}
		}
		all.keys = append(all.keys, watchPriv("coin key", co.PrivateKey))
		for pass := 0; pass < 2; pass++ {
			if !guard("Coin.Account", cl, in44, func() { ac, err = co.Account(acct) }) {
				return
			}
			if err != nil || !bytes.Equal(ac.Serialize(), wantAcct.Serialize82()) {
				viol("key-mismatch", "Coin.Account", cl, in44, fmt.Sprintf("call %d on the same coin: %v", pass+1, err))
				return
			}
			if !intact("Coin.Account") {
				return
			}
		}
		all.keys = append(all.keys, watchPriv("account key", ac.PrivateKey))
		for pass := 0; pass < 2; pass++ {
			var ch *bip32.PrivateKey
			fn := "Account.External"
			if !guard(fn, cl, in44, func() {
				if change == 0 {
					ch, err = ac.External()
				} else {
					fn = "Account.Change"
					ch, err = ac.Change()
				}
			}) {
				return
			}
			if err != nil || !bytes.Equal(ch.Serialize(), wantChain.Serialize82()) {
				viol("key-mismatch", fn, cl, in44, fmt.Sprintf("call %d on the same account: %v", pass+1, err))
				return
			}
			if !intact(fn) {
				return
			}
			var cc bip44.Account
			if !guard("Account.Clone", cl, in44, func() { cc = ac.Clone() }) {
				return
			}
			if cc.PrivateKey == nil || !bytes.Equal(cc.Serialize(), wantAcct.Serialize82()) {
				viol("key-mismatch", "Account.Clone", cl, in44, "")
				return
			}
			for _, s := range [][]byte{cc.Key, cc.ChainCode, cc.ParentFingerprint} {
				for j := range s {
					s[j] ^= 0xff
				}
			}
			if !intact("Account.Clone") {
				return
			}
		}
		r.Count("alias.bip44.agree", 1)
	}
	if !bad {
		r.Count("alias.cases.agree", 1)
		r.Count("alias.cases.agree:"+origin, 1)
		if i < 2 {
			r.Sample(map[string]string{"leg": "alias", "origin": origin, "seed": hx(seed), "path": path, "watched_bytes": fmt.Sprint(watchedBytes(all)), "operations": fmt.Sprint(len(order))})
		}
	}
}

func watchedBytes(in *inputs) int {
	n := 0
	for _, g := range in.regions {
		n += len(g.live)
	}
	for _, k := range in.keys {
		for _, g := range k.regions {
			n += len(g.live)
		}
	}
	return n
}

// aliasFloors: coverage floors of the immutability and concurrent legs
func aliasFloors(fl func(k string, quick, thorough int64)) {
	fl("alias.cases.agree", 450, 11500)
	for _, o := range aliasOrigins {
		fl("alias.cases.agree:"+o, 70, 1900)
	}
	fl("alias.input-checks", 15000, 375000)
	fl("alias.ops.agree", 10000, 250000)
	for _, op := range []string{"PrivateKey.Serialize", "PrivateKey.String", "PrivateKey.Fingerprint", "PrivateKey.Identifier", "PrivateKey.PublicKey",
		"PrivateKey.NewPrivateChildKey(normal)", "PrivateKey.NewPrivateChildKey(hardened)", "PrivateKey.NewPublicChildKey", "PrivateKey.DeriveSubpath", "PrivateKey.Clone",
		"PublicKey.Serialize", "PublicKey.String", "PublicKey.Fingerprint", "PublicKey.Identifier", "PublicKey.NewPublicChildKey",
		"PublicKey.NewPublicChildKey(second index)", "PublicKey.NewPublicChildKey(hardened)", "PublicKey.Clone"} {
		fl("alias.ops.agree:"+op, 450, 11500)
	}
	fl("alias.ops.repeated.agree", 2500, 65000)
	fl("alias.redeserialize.agree", 7000, 175000)
	fl("alias.seed-entry-points.agree", 450, 11500)
	fl("alias.mnemonic.agree", 450, 11500)
	fl("alias.bip44.agree", 150, 3750)
	fl("conc.groups.agree", 230, 3950)
	for _, o := range concOrigins {
		fl("conc.groups.agree:"+o, 35, 625)
	}
	fl("conc.goroutines", 4500, 80000)
	for _, op := range []string{"priv.child", "priv.pubchild", "pub.child", "ser", "ident", "mnemonic", "entropy", "seed", "master"} {
		fl("conc.calls.in-process:"+op, 1000, 20000)
	}
	r.Floor("race.children", 4)
	fl("race.groups", 44, 575)
	fl("race.calls:pub.child", 1300, 17000)
	fl("race.calls:priv.child", 1000, 13500)
	fl("race.calls:mnemonic", 800, 10000)
	fl("race.calls:master", 500, 6500)
	fl("race.calls:seed", 80, 1000)
}
