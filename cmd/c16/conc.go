// C16, concurrent leg.
//
// One shared parent key object (obtained by deserialisation, by cloning, from text or by
// derivation) is used by 16 goroutines at once: different normal and hardened private children,
// public children through the private and the public parent, serialisation, fingerprint,
// neutering; mnemonic, entropy, validation, seed and master-key functions run beside them on
// shared input buffers. The expected value of every call is computed beforehand with lib/refbip
// (in this process, sequentially); the goroutines only compare bytes.
//
// The same job list is executed twice: in this process (many groups) and in the `c16race`
// binary (the same package built with -race; fewer groups), whose race-detector reports are read
// back: a report with a frame in src/cipher is a violation.
package main

import (
	"bytes"
	"encoding/hex"
	"encoding/json"
	"fmt"
	"io/ioutil"
	"os"
	"path/filepath"
	"runtime"
	"strings"
	"sync"
	"time"

	"github.com/skycoin/skycoin/src/cipher/bip32"
	"github.com/skycoin/skycoin/src/cipher/bip39"
	"github.com/skycoin/skycoin/src/cipher/bip44"

	"verif/lib/refbip"
	"verif/lib/sched"
	"verif/lib/vf"
)

type concTask struct {
	Op    string `json:"op"`
	Index uint32 `json:"index,omitempty"`
	Arg   string `json:"arg,omitempty"`  // text argument (sentence, path)
	Arg2  string `json:"arg2,omitempty"` // passphrase
	Want  string `json:"want"`           // hex of the expected bytes; "error" if the call must fail
}

type concGroup struct {
	ID      int        `json:"id"`
	Origin  string     `json:"origin"`
	Seed    string     `json:"seed"`
	Path    string     `json:"path"`
	Xprv    string     `json:"xprv"` // reference serialisation of the shared parent (82 bytes, hex)
	Xpub    string     `json:"xpub"`
	XprvB58 string     `json:"xprv_text"`
	XpubB58 string     `json:"xpub_text"`
	Entropy string     `json:"entropy"`
	Rounds  int        `json:"rounds"`
	Tasks   []concTask `json:"tasks"`
}

type concMismatch struct {
	Group  int    `json:"group"`
	Origin string `json:"origin"`
	Op     string `json:"op"`
	Index  uint32 `json:"index"`
	Round  int    `json:"round"`
	Got    string `json:"got"`
	Want   string `json:"want"`
	Input  string `json:"input"`
	Kind   string `json:"kind"`
	Count  int    `json:"count"`
}

type concResult struct {
	Finished   bool             `json:"finished"`
	Groups     int              `json:"groups"`
	Calls      map[string]int64 `json:"calls"`
	Mismatches []concMismatch   `json:"mismatches"`
}

var concOrigins = []string{"deserialized", "deserialized(spare-capacity)", "cloned", "text", "derived", "neutered-of-deserialized"}

func mustHex(s string) []byte {
	b, err := hex.DecodeString(s)
	if err != nil {
		panic(err)
	}
	return b
}

// makeConcGroup builds one group and its expected values from the reference
func makeConcGroup(id int) *concGroup {
	g := r.Rand("conc", id)
	seed := genSeed(g, id)
	m, err := refbip.Master(seed)
	if err != nil {
		return nil
	}
	var idx []uint32
	for d, depth := 0, g.Intn(3); d < depth; d++ {
		_, ci := pickIndex(g)
		idx = append(idx, ci)
	}
	wp := m
	if len(idx) > 0 {
		if wp, err = m.Derive(idx); err != nil {
			return nil
		}
	}
	wpub := wp.Neuter()
	grp := &concGroup{ID: id, Origin: concOrigins[id%len(concOrigins)], Seed: hx(seed), Path: refbip.FormatPath(idx),
		Xprv: hx(wp.Serialize82()), Xpub: hx(wpub.Serialize82()), XprvB58: wp.String(), XpubB58: wpub.String()}
	used := map[uint32]bool{}
	fresh := func(hardened bool) uint32 {
		for {
			ci := normalIndex(g)
			if id%4 == 0 {
				ci = uint32(len(used)) // neighbouring small indices, as a wallet scanning addresses uses them
			}
			if hardened {
				ci += refbip.Hardened
			}
			if !used[ci] {
				used[ci] = true
				return ci
			}
		}
	}
	ok := true
	add := func(op string, ci uint32, k *refbip.Key, e error) {
		if e != nil {
			ok = false
			return
		}
		grp.Tasks = append(grp.Tasks, concTask{Op: op, Index: ci, Want: hx(k.Serialize82())})
	}
	// private children, normal and hardened
	for k := 0; k < 2; k++ {
		ci := fresh(false)
		c, e := wp.CKDpriv(ci)
		add("priv.child", ci, c, e)
	}
	for k := 0; k < 2; k++ {
		ci := fresh(true)
		c, e := wp.CKDpriv(ci)
		add("priv.child", ci, c, e)
	}
	// public child through the private parent
	{
		ci := fresh(false)
		c, e := wp.CKDpriv(ci)
		if e == nil {
			c = c.Neuter()
		}
		add("priv.pubchild", ci, c, e)
	}
	// public children through the public parent: different indices on one shared object
	for k := 0; k < 4; k++ {
		ci := fresh(false)
		c, e := wpub.CKDpub(ci)
		add("pub.child", ci, c, e)
	}
	grp.Tasks = append(grp.Tasks, concTask{Op: "pub.child", Index: fresh(true), Want: "error"})
	fp, ident := wp.Fingerprint(), wp.Identifier()
	grp.Tasks = append(grp.Tasks,
		concTask{Op: "ser", Want: hx(wp.Serialize82()) + hx(wpub.Serialize82()) + hx([]byte(wp.String())) + hx([]byte(wpub.String()))},
		concTask{Op: "ident", Want: hx(wpub.Serialize82()) + hx(fp[:]) + hx(ident[:]) + hx(fp[:]) + hx(ident[:])})
	// bip39 beside the derivations: two goroutines on one shared entropy buffer, one on its own
	ent := randBytes(g, entropySizes[id%5])
	sentence, _ := refbip.MnemonicFromEntropy(ent)
	grp.Entropy = hx(ent)
	grp.Tasks = append(grp.Tasks, concTask{Op: "mnemonic", Want: hx([]byte(sentence))}, concTask{Op: "mnemonic", Index: 1, Want: hx([]byte(sentence))})
	ent2 := randBytes(g, entropySizes[g.Intn(5)])
	sentence2, _ := refbip.MnemonicFromEntropy(ent2)
	grp.Tasks = append(grp.Tasks, concTask{Op: "mnemonic", Index: 2, Arg: hx(ent2), Want: hx([]byte(sentence2))})
	// two more sentences: valid or broken, decided by the reference
	for k := uint32(0); k < 2; k++ {
		_, other := mutateMnemonic(g, randomValidMnemonic(g, []int{12, 15, 18, 21, 24}[g.Intn(5)]), g.Intn(16))
		if oe, oerr := refbip.EntropyFromMnemonic(other); oerr == nil {
			grp.Tasks = append(grp.Tasks, concTask{Op: "entropy", Index: k, Arg: other, Want: hx(oe)})
		} else {
			grp.Tasks = append(grp.Tasks, concTask{Op: "entropy", Index: k, Arg: other, Want: "error"})
		}
	}
	for k, sent := range []string{sentence, sentence2} {
		pass := []string{"", "TREZOR", "correct horse"}[g.Intn(3)]
		if sd, sok := refbip.Seed(sent, pass); sok {
			grp.Tasks = append(grp.Tasks, concTask{Op: "seed", Index: uint32(k), Arg: sent, Arg2: pass, Want: hx(sd)})
		}
	}
	// master key / path / bip44 coin from the shared seed buffer, twice
	for _, coin := range []uint32{8000, uint32(g.Intn(2))} {
		if wc, e := m.Derive(refbip.BIP44Path(coin, 0, -1, -1)[:2]); e == nil {
			grp.Tasks = append(grp.Tasks, concTask{Op: "master", Index: coin, Want: hx(m.Serialize82()) + hx(wp.Serialize82()) + hx(wc.Serialize82())})
		} else {
			ok = false
		}
	}
	if !ok {
		return nil
	}
	return grp
}

// runConcGroup executes one group: all tasks start together on the shared objects
func runConcGroup(grp *concGroup, calls map[string]int64, mu *sync.Mutex) []concMismatch {
	var out []concMismatch
	report := func(mm concMismatch) {
		mm.Group, mm.Origin = grp.ID, grp.Origin
		mm.Input = fmt.Sprintf("seed=%s path=%s origin=%s", grp.Seed, grp.Path, grp.Origin)
		mu.Lock()
		for k := range out {
			if out[k].Op == mm.Op && out[k].Index == mm.Index && out[k].Kind == mm.Kind {
				out[k].Count++
				mu.Unlock()
				return
			}
		}
		mm.Count = 1
		out = append(out, mm)
		mu.Unlock()
	}
	var priv *bip32.PrivateKey
	var pub *bip32.PublicKey
	var err error
	var watched inputs
	seedBuf := spare(mustHex(grp.Seed), 16)
	entBuf := spare(mustHex(grp.Entropy), 8)
	watched.regions = append(watched.regions, watch("seed buffer", seedBuf), watch("entropy buffer", entBuf))
	deser := func(spareCap int) {
		pb, qb := spare(mustHex(grp.Xprv), spareCap), spare(mustHex(grp.Xpub), spareCap)
		watched.regions = append(watched.regions, watch("xprv buffer", pb), watch("xpub buffer", qb))
		if priv, err = bip32.DeserializePrivateKey(pb); err == nil {
			pub, err = bip32.DeserializePublicKey(qb)
		}
	}
	panicked, msg, frame := vf.Recover(func() {
		switch grp.Origin {
		case "deserialized":
			deser(0)
		case "deserialized(spare-capacity)":
			deser(24)
		case "cloned":
			deser(0)
			if err == nil {
				c1, c2 := priv.Clone(), pub.Clone()
				priv, pub = &c1, &c2
			}
		case "text":
			if priv, err = bip32.DeserializeEncodedPrivateKey(grp.XprvB58); err == nil {
				pub, err = bip32.DeserializeEncodedPublicKey(grp.XpubB58)
			}
		case "derived":
			if priv, err = bip32.NewPrivateKeyFromPath(seedBuf, grp.Path); err == nil {
				pub = priv.PublicKey()
			}
		default:
			deser(8)
			if err == nil {
				pub = priv.PublicKey()
			}
		}
	})
	if panicked || err != nil || priv == nil || pub == nil {
		report(concMismatch{Op: "setup", Kind: "setup-failed", Got: fmt.Sprint(err, " ", msg, " ", frame)})
		return out
	}
	if !bytes.Equal(priv.Serialize(), mustHex(grp.Xprv)) || !bytes.Equal(pub.Serialize(), mustHex(grp.Xpub)) {
		report(concMismatch{Op: "setup", Kind: "key-mismatch", Got: hx(priv.Serialize()) + " " + hx(pub.Serialize()), Want: grp.Xprv + " " + grp.Xpub})
		return out
	}
	watched.keys = append(watched.keys, watchPriv("shared xprv", priv), watchPub("shared xpub", pub))

	serPriv := func(k *bip32.PrivateKey, e error) ([]byte, error) {
		if e != nil || k == nil {
			return nil, e
		}
		return k.Serialize(), nil
	}
	serPub := func(k *bip32.PublicKey, e error) ([]byte, error) {
		if e != nil || k == nil {
			return nil, e
		}
		return k.Serialize(), nil
	}
	start := make(chan struct{})
	var wg sync.WaitGroup
	for ti := range grp.Tasks {
		t := grp.Tasks[ti]
		wg.Add(1)
		go func() {
			defer wg.Done()
			rounds := grp.Rounds
			if t.Op == "seed" { // 2048 HMAC iterations per call
				rounds = (rounds + 7) / 8
			}
			var own []byte
			if t.Op == "mnemonic" && t.Arg != "" {
				own = mustHex(t.Arg)
			}
			<-start
			n := int64(0)
			for round := 0; round < rounds; round++ {
				var got []byte
				var e error
				p, pmsg, pframe := vf.Recover(func() {
					switch t.Op {
					case "priv.child":
						got, e = serPriv(priv.NewPrivateChildKey(t.Index))
					case "priv.pubchild":
						got, e = serPub(priv.NewPublicChildKey(t.Index))
					case "pub.child":
						got, e = serPub(pub.NewPublicChildKey(t.Index))
					case "ser":
						got = append(append(append(priv.Serialize(), pub.Serialize()...), priv.String()...), pub.String()...)
					case "ident":
						got = priv.PublicKey().Serialize()
						got = append(append(got, priv.Fingerprint()...), priv.Identifier()...)
						got = append(append(got, pub.Fingerprint()...), pub.Identifier()...)
					case "mnemonic":
						var s string
						eb := entBuf
						if t.Arg != "" {
							eb = own
						}
						if s, e = bip39.NewMnemonic(eb); e == nil {
							var back []byte
							if back, e = bip39.EntropyFromMnemonic(s); e == nil && !bytes.Equal(back, eb) {
								s += " (entropy back: " + hx(back) + ")"
							}
							if e == nil {
								e = bip39.ValidateMnemonic(s)
							}
						}
						got = []byte(s)
					case "entropy":
						got, e = bip39.EntropyFromMnemonic(t.Arg)
						if (bip39.ValidateMnemonic(t.Arg) == nil) != (e == nil) {
							got, e = []byte("ValidateMnemonic and EntropyFromMnemonic disagree"), nil
						}
					case "seed":
						got, e = bip39.NewSeed(t.Arg, t.Arg2)
					case "master":
						var k1, k2 *bip32.PrivateKey
						var co *bip44.Coin
						if k1, e = bip32.NewMasterKey(seedBuf); e != nil {
							return
						}
						if k2, e = bip32.NewPrivateKeyFromPath(seedBuf, grp.Path); e != nil {
							return
						}
						if co, e = bip44.NewCoin(seedBuf, bip44.CoinType(t.Index)); e != nil {
							return
						}
						got = append(append(k1.Serialize(), k2.Serialize()...), co.Serialize()...)
					}
				})
				n++
				switch {
				case p:
					report(concMismatch{Op: t.Op, Index: t.Index, Round: round, Kind: "panic", Got: pmsg + " @ " + pframe, Want: t.Want})
				case t.Want == "error" && e == nil:
					report(concMismatch{Op: t.Op, Index: t.Index, Round: round, Kind: "accepted-invalid", Got: hx(got), Want: t.Want})
				case t.Want != "error" && e != nil:
					report(concMismatch{Op: t.Op, Index: t.Index, Round: round, Kind: "rejected-valid", Got: e.Error(), Want: t.Want})
				case t.Want != "error" && hx(got) != t.Want:
					report(concMismatch{Op: t.Op, Index: t.Index, Round: round, Kind: "concurrent-result-mismatch", Got: hx(got), Want: t.Want})
				}
			}
			mu.Lock()
			calls[t.Op] += n
			mu.Unlock()
		}()
	}
	close(start)
	wg.Wait()
	if d := watched.changed(); d != "" {
		report(concMismatch{Op: "shared inputs", Kind: "input-modified", Got: d})
	}
	return out
}

func concFunc(op string) string {
	switch op {
	case "priv.child":
		return "PrivateKey.NewPrivateChildKey"
	case "priv.pubchild":
		return "PrivateKey.NewPublicChildKey"
	case "pub.child":
		return "PublicKey.NewPublicChildKey"
	case "ser":
		return "Serialize/String"
	case "ident":
		return "PublicKey/Fingerprint/Identifier"
	case "mnemonic":
		return "bip39.NewMnemonic/EntropyFromMnemonic/ValidateMnemonic"
	case "entropy":
		return "bip39.EntropyFromMnemonic/ValidateMnemonic"
	case "seed":
		return "bip39.NewSeed"
	case "master":
		return "bip32.NewMasterKey/NewPrivateKeyFromPath/bip44.NewCoin"
	}
	return op
}

func reportMismatches(where string, mms []concMismatch) {
	for _, mm := range mms {
		r.Count("conc.mismatches."+where, int64(mm.Count))
		g, w := mm.Got, mm.Want
		if len(g) > 400 {
			g = g[:400] + "..."
		}
		if len(w) > 400 {
			w = w[:400] + "..."
		}
		viol(mm.Kind, concFunc(mm.Op), "concurrent("+where+"):"+mm.Origin, mm.Input,
			fmt.Sprintf("group %d index %d round %d (%d calls of this task differ): got %s want %s", mm.Group, mm.Index, mm.Round, mm.Count, g, w))
	}
}

// concChild is the body of the race-instrumented child: it only executes jobs
func concChild() {
	res := concResult{Calls: map[string]int64{}}
	b, err := ioutil.ReadFile(os.Getenv("VERIF_CONC_JOBS"))
	var groups []*concGroup
	if err == nil {
		err = json.Unmarshal(b, &groups)
	}
	if err != nil {
		fmt.Fprintln(os.Stderr, "c16 conc child:", err)
		os.Exit(3)
	}
	var mu sync.Mutex
	for _, grp := range groups {
		res.Mismatches = append(res.Mismatches, runConcGroup(grp, res.Calls, &mu)...)
		res.Groups++
	}
	res.Finished = true
	out, _ := json.Marshal(res)
	_ = ioutil.WriteFile(os.Getenv("VERIF_CONC_OUT"), out, 0644)
}

var cipherPkgs = []string{
	"github.com/skycoin/skycoin/src/cipher",
	"github.com/skycoin/skycoin/src/cipher/bip32",
	"github.com/skycoin/skycoin/src/cipher/bip39",
	"github.com/skycoin/skycoin/src/cipher/bip39/wordlists",
	"github.com/skycoin/skycoin/src/cipher/bip44",
	"github.com/skycoin/skycoin/src/cipher/base58",
	"github.com/skycoin/skycoin/src/cipher/pbkdf2",
	"github.com/skycoin/skycoin/src/cipher/ripemd160",
	"github.com/skycoin/skycoin/src/cipher/secp256k1-go",
	"github.com/skycoin/skycoin/src/cipher/secp256k1-go/secp256k1-go2",
}

func legConcurrent() {
	nHere := r.Pick(240, 4000)
	nRace := r.Pick(48, 600)
	roundsHere, roundsRace := 24, 6
	groups := make([]*concGroup, nHere)
	vf.Parallel(nHere, runtime.NumCPU(), func(i int) { groups[i] = makeConcGroup(i) })

	// in this process
	calls := map[string]int64{}
	var mu sync.Mutex
	for _, grp := range groups {
		if grp == nil {
			r.Count("conc.reference-invalid-child(skipped)", 1)
			continue
		}
		grp.Rounds = roundsHere
		r.Eval(1)
		r.DistinctBytes([]byte("conc" + grp.Xprv + grp.Origin))
		mms := runConcGroup(grp, calls, &mu)
		reportMismatches("in-process", mms)
		if len(mms) == 0 {
			r.Count("conc.groups.agree", 1)
			r.Count("conc.groups.agree:"+grp.Origin, 1)
			r.Count("conc.goroutines", int64(len(grp.Tasks)))
		}
	}
	for op, n := range calls {
		r.Count("conc.calls.in-process:"+op, n)
	}

	// under the race detector
	bin := filepath.Join(os.Getenv("VERIF_BIN"), "c16race")
	if _, err := os.Stat(bin); err != nil {
		r.Inconclusive("race-instrumented binary " + bin + " not found (run through ./check)")
		return
	}
	dir := vf.TempDir("c16")
	defer os.RemoveAll(dir)
	const shards = 4
	var jobs [shards][]*concGroup
	for i := 0; i < nRace && i < len(groups); i++ {
		if groups[i] != nil {
			cp := *groups[i]
			cp.Rounds = roundsRace
			jobs[i%shards] = append(jobs[i%shards], &cp)
		}
	}
	sched.RepoDir = vf.RepoDir()
	type shardOut struct {
		res   concResult
		ok    bool
		child vf.ChildResult
		text  string
	}
	outs := make([]shardOut, shards)
	vf.Parallel(shards, shards, func(s int) {
		d := filepath.Join(dir, fmt.Sprint("s", s))
		_ = os.MkdirAll(d, 0755)
		jb, _ := json.Marshal(jobs[s])
		_ = ioutil.WriteFile(filepath.Join(d, "jobs.json"), jb, 0644)
		env := []string{
			"VERIF_CONC_JOBS=" + filepath.Join(d, "jobs.json"),
			"VERIF_CONC_OUT=" + filepath.Join(d, "result.json"),
			"GORACE=log_path=" + filepath.Join(d, "race") + " halt_on_error=0 exitcode=0",
		}
		o := shardOut{}
		// the timeout is a watchdog: it can only make the run inconclusive
		o.child = vf.RunChild(d, bin, "conc", nil, env, time.Duration(r.Pick(600, 3000))*time.Second)
		if b, err := ioutil.ReadFile(filepath.Join(d, "result.json")); err == nil {
			o.ok = json.Unmarshal(b, &o.res) == nil
		}
		files, _ := filepath.Glob(filepath.Join(d, "race.*"))
		for _, f := range files {
			b, _ := ioutil.ReadFile(f)
			o.text += string(b) + "\n"
		}
		if strings.Contains(string(o.child.Stderr), "WARNING: DATA RACE") {
			o.text += string(o.child.Stderr)
		}
		outs[s] = o
	})
	r.Count("race.reports", 0)
	seen := map[string]bool{}
	for s, o := range outs {
		if o.child.TimedOut {
			r.Inconclusive(fmt.Sprintf("race child %d timed out", s))
			continue
		}
		if head, frame := vf.CrashSignature(o.child.Stderr); head != "" {
			r.Violation("panic", map[string]string{"func": "concurrent derivation", "class": "concurrent(race-build)", "frame": frame, "msg": head},
				map[string]interface{}{"shard": s, "frames": vf.FirstFrames(o.child.Stderr, 6), "exit": o.child.ExitCode})
			continue
		}
		if !o.ok || !o.res.Finished {
			stderr := string(o.child.Stderr)
			if len(stderr) > 600 {
				stderr = stderr[:600]
			}
			r.Inconclusive(fmt.Sprintf("race child %d did not finish (exit %d): %s", s, o.child.ExitCode, stderr))
			continue
		}
		r.Count("race.children", 1)
		r.Count("race.groups", int64(o.res.Groups))
		for op, n := range o.res.Calls {
			r.Count("race.calls:"+op, n)
		}
		reportMismatches("race-build", o.res.Mismatches)
		for _, rep := range sched.ParseRaceReports(o.text, cipherPkgs) {
			r.Count("race.reports", 1)
			inCipher := ""
			for k := 0; k < 2 && inCipher == ""; k++ {
				for _, f := range rep.Stacks[k] {
					if strings.HasPrefix(f.File, sched.RepoDir+"/src/cipher/") || strings.HasPrefix(f.Func, "github.com/skycoin/skycoin/src/cipher") {
						inCipher = strings.TrimPrefix(f.Func, "github.com/skycoin/skycoin/src/cipher/")
						break
					}
				}
			}
			if inCipher == "" {
				r.Count("race.reports.outside-src/cipher", 1)
				if !seen["outside"] {
					seen["outside"] = true
					txt := rep.Text
					if len(txt) > 1500 {
						txt = txt[:1500]
					}
					r.Inconclusive("race report without a frame in src/cipher (harness?): " + txt)
				}
				continue
			}
			r.Count("race.reports.src/cipher", 1)
			if seen[rep.Key] {
				r.Count("race.reports.src/cipher.repeats", 1)
				continue
			}
			seen[rep.Key] = true
			if capped("data-race", inCipher, rep.Pair) {
				continue
			}
			txt := rep.Text
			if len(txt) > 3000 {
				txt = txt[:3000]
			}
			r.Violation("data-race", map[string]string{"func": inCipher, "class": "concurrent(race-build)", "pair": rep.Pair},
				map[string]string{"frame": inCipher, "pair": rep.Pair, "ops": rep.Ops[0] + " / " + rep.Ops[1], "report": txt})
		}
	}
}
