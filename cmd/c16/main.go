// C16 — BIP32/39/44 derivation matches the standards.
//
// Differential monitor against lib/refbip (BIP39 with its own PBKDF2, BIP32 CKDpriv / CKDpub /
// serialisation over lib/refsecp and lib/refb58, BIP44 paths): mnemonics, validation of
// well-formed and malformed sentences, seeds for ASCII and non-ASCII passphrases, master keys,
// derivation chains with boundary indices, the private/public commutation, extended-key
// (de)serialisation incl. every malformed class (an error, never a panic), BIP44 accounts and chains.
package main

import (
	"bytes"
	"crypto/sha256"
	"fmt"
	"io/ioutil"
	"log"
	"math/big"
	"math/rand"
	"runtime"
	"strings"
	"sync"
	"time"

	"github.com/skycoin/skycoin/src/cipher"
	"github.com/skycoin/skycoin/src/cipher/bip32"
	"github.com/skycoin/skycoin/src/cipher/bip39"
	"github.com/skycoin/skycoin/src/cipher/bip44"

	"verif/lib/refb58"
	"verif/lib/refbip"
	"verif/lib/refsecp"
	"verif/lib/vf"
)

var r *vf.Run

func hx(b []byte) string { return vf.Hex(b) }

func randBytes(g *rand.Rand, n int) []byte {
	b := make([]byte, n)
	g.Read(b)
	return b
}

func viol(kind, fn, class, input, detail string) {
	if capped(kind, fn, class) {
		return
	}
	r.Violation(kind, map[string]string{"func": fn, "class": class},
		map[string]string{"func": fn, "class": class, "input": input, "detail": detail})
}

// capped limits the reports per (kind, function, class) to three; repeats are only counted, so
// that the first lines of output show every distinct class of violation
var (
	capMu   sync.Mutex
	capSeen = map[string]int{}
)

func capped(kind, fn, class string) bool {
	key := kind + "/" + fn + "/" + class
	capMu.Lock()
	capSeen[key]++
	n := capSeen[key]
	capMu.Unlock()
	if n > 3 {
		r.Count("violation.repeats:"+key, 1)
		return true
	}
	return false
}

func guard(fn, class, input string, f func()) bool {
	p, msg, frame := vf.Recover(f)
	if !p {
		return true
	}
	if capped("panic", fn, class) {
		return false
	}
	r.Count("panic."+fn+"."+class, 1)
	if len(msg) > 120 {
		msg = msg[:120]
	}
	r.Violation("panic", map[string]string{"func": fn, "class": class, "frame": frame, "msg": msg},
		map[string]string{"func": fn, "class": class, "input": input, "panic": msg, "frame": frame})
	return false
}

// ------------------------------------------------------------------------------------------
// BIP39: generation

var entropySizes = []int{16, 20, 24, 28, 32}

func genEntropy(g *rand.Rand, i int) (string, []byte) {
	n := entropySizes[i%5]
	b := randBytes(g, n)
	switch (i / 5) % 8 {
	case 0:
		for j := range b {
			b[j] = 0
		}
		return "entropy:all-zero", b
	case 1:
		for j := range b {
			b[j] = 0xff
		}
		return "entropy:all-one", b
	case 2:
		// leading zero bytes: the big-integer route must keep the width
		for j := 0; j < 1+g.Intn(n-1); j++ {
			b[j] = 0
		}
		return "entropy:leading-zeros", b
	case 3:
		for j := range b {
			b[j] = 0
		}
		b[n-1] = byte(g.Intn(256))
		return "entropy:only-last-byte", b
	default:
		return "entropy:random", b
	}
}

func legMnemonic() {
	n := r.Pick(4000, 200000)
	vf.Parallel(n, runtime.NumCPU(), func(i int) {
		g := r.Rand("mn", i)
		cl, ent := genEntropy(g, i)
		cl = fmt.Sprintf("%s/%d-bit", cl, len(ent)*8)
		in := "entropy=" + hx(ent)
		r.Eval(1)
		r.DistinctBytes(append([]byte("ent"), ent...))
		want, _ := refbip.MnemonicFromEntropy(ent)
		var got string
		var err error
		if !guard("bip39.NewMnemonic", cl, in, func() { got, err = bip39.NewMnemonic(ent) }) {
			return
		}
		if err != nil || got != want {
			viol("mnemonic-mismatch", "bip39.NewMnemonic", cl, in, fmt.Sprintf("got %q (%v) want %q", got, err, want))
			return
		}
		var back []byte
		if !guard("bip39.EntropyFromMnemonic", cl, want, func() { back, err = bip39.EntropyFromMnemonic(want) }) {
			return
		}
		if err != nil || !bytes.Equal(back, ent) {
			viol("entropy-mismatch", "bip39.EntropyFromMnemonic", cl, want, fmt.Sprintf("got %x (%v) want %x", back, err, ent))
			return
		}
		if guard("bip39.ValidateMnemonic", cl, want, func() { err = bip39.ValidateMnemonic(want) }) && err != nil {
			viol("rejected-valid", "bip39.ValidateMnemonic", cl, want, err.Error())
			return
		}
		r.Count("mnemonic.agree", 1)
		r.Count(fmt.Sprintf("mnemonic.agree:%d-words", len(strings.Split(want, " "))), 1)
		r.Count("mnemonic.agree:"+strings.Split(cl, "/")[0], 1)
		if i < 2 {
			r.Sample(map[string]string{"leg": "mnemonic", "entropy": hx(ent), "mnemonic": want})
		}
	})
	// entropy of a size BIP39 does not allow
	for _, l := range []int{0, 1, 4, 12, 15, 17, 18, 31, 33, 36, 40, 64} {
		var err error
		ent := bytes.Repeat([]byte{0x5a}, l)
		r.Eval(1)
		if guard("bip39.NewMnemonic", "entropy:bad-size", hx(ent), func() { _, err = bip39.NewMnemonic(ent) }) {
			if err == nil {
				viol("accepted-invalid", "bip39.NewMnemonic", "entropy:bad-size", hx(ent), "")
			} else {
				r.Count("mnemonic.bad-entropy-size.refused", 1)
			}
		}
	}
}

// ------------------------------------------------------------------------------------------
// BIP39: validation of arbitrary sentences

func randomValidMnemonic(g *rand.Rand, words int) string {
	ent := randBytes(g, words/3*4)
	m, _ := refbip.MnemonicFromEntropy(ent)
	return m
}

var notWords = []string{"abandonn", "zzzz", "Abandon", "ABANDON", "aban", "zo", "zoo.", "abandon,", "about\x00", "\u00e9cole", "caf\u00e9", "1", "-", "abandon\u200b"}

func mutateMnemonic(g *rand.Rand, m string, i int) (string, string) {
	w := strings.Split(m, " ")
	switch i % 16 {
	case 0:
		return "valid", m
	case 1, 2:
		k := g.Intn(len(w))
		nw := refbip.Words[g.Intn(2048)]
		for nw == w[k] {
			nw = refbip.Words[g.Intn(2048)]
		}
		w[k] = nw
		return "one-word-replaced", strings.Join(w, " ")
	case 3:
		a, b := g.Intn(len(w)), g.Intn(len(w))
		w[a], w[b] = w[b], w[a]
		return "two-words-swapped", strings.Join(w, " ")
	case 4:
		w[g.Intn(len(w))] = notWords[g.Intn(len(notWords))]
		return "word-not-in-list", strings.Join(w, " ")
	case 5:
		drop := 1 + g.Intn(3)
		return "words-dropped", strings.Join(w[:len(w)-drop], " ")
	case 6:
		for k, add := 0, 1+g.Intn(3); k < add; k++ {
			w = append(w, refbip.Words[g.Intn(2048)])
		}
		return "words-appended", strings.Join(w, " ")
	case 7:
		cnt := []int{0, 1, 3, 6, 9, 27, 30, 48}[g.Intn(8)]
		ww := make([]string, cnt)
		for k := range ww {
			ww[k] = refbip.Words[g.Intn(2048)]
		}
		return "word-count-not-allowed", strings.Join(ww, " ")
	case 8:
		pads := []string{" ", "\t", "\n", "\r\n", "\u00a0", "\u3000", "  "}
		pad := pads[g.Intn(len(pads))]
		if g.Intn(2) == 0 {
			return "surrounding-whitespace", pad + m
		}
		return "surrounding-whitespace", m + pad
	case 9:
		seps := []string{"  ", "\t", "\n", "\u00a0", "\u3000", " \t", ",", "-", ""}
		k := 1 + g.Intn(len(w)-1)
		return "bad-separator", strings.Join(w[:k], " ") + seps[g.Intn(len(seps))] + strings.Join(w[k:], " ")
	case 10:
		if g.Intn(2) == 0 {
			return "upper-case", strings.ToUpper(m)
		}
		k := g.Intn(len(w))
		w[k] = strings.ToUpper(w[k][:1]) + w[k][1:]
		return "upper-case", strings.Join(w, " ")
	case 11:
		// every word cut to its unique 4-letter prefix (a common wallet convention, not BIP39 text)
		for k := range w {
			if len(w[k]) > 4 {
				w[k] = w[k][:4]
			}
		}
		return "four-letter-prefixes", strings.Join(w, " ")
	case 12:
		// all words equal
		for k := range w {
			w[k] = w[0]
		}
		return "all-words-equal", strings.Join(w, " ")
	case 13:
		// last word drawn at random: valid with probability 2^-cs
		w[len(w)-1] = refbip.Words[g.Intn(2048)]
		return "last-word-random", strings.Join(w, " ")
	case 14:
		// random words of an allowed count
		for k := range w {
			w[k] = refbip.Words[g.Intn(2048)]
		}
		return "random-words", strings.Join(w, " ")
	default:
		// all words reversed
		for a, b := 0, len(w)-1; a < b; a, b = a+1, b-1 {
			w[a], w[b] = w[b], w[a]
		}
		return "reversed", strings.Join(w, " ")
	}
}

func checkSentence(cl, m string) {
	r.Eval(1)
	r.DistinctBytes(append([]byte("sent"), m...))
	wantEnt, refErr := refbip.EntropyFromMnemonic(m)
	valid := refErr == nil
	in := fmt.Sprintf("%q", m)
	var err error
	agree := true
	if guard("bip39.ValidateMnemonic", "sentence:"+cl, in, func() { err = bip39.ValidateMnemonic(m) }) {
		if valid && err != nil {
			viol("rejected-valid", "bip39.ValidateMnemonic", "sentence:"+cl, in, err.Error())
			agree = false
		} else if !valid && err == nil {
			viol("accepted-invalid", "bip39.ValidateMnemonic", "sentence:"+cl, in, "reference: "+refErr.Error())
			agree = false
		}
	} else {
		agree = false
	}
	var ent []byte
	if guard("bip39.EntropyFromMnemonic", "sentence:"+cl, in, func() { ent, err = bip39.EntropyFromMnemonic(m) }) {
		if valid && (err != nil || !bytes.Equal(ent, wantEnt)) {
			viol("entropy-mismatch", "bip39.EntropyFromMnemonic", "sentence:"+cl, in, fmt.Sprintf("got %x (%v) want %x", ent, err, wantEnt))
			agree = false
		} else if !valid && err == nil {
			viol("accepted-invalid", "bip39.EntropyFromMnemonic", "sentence:"+cl, in, "reference: "+refErr.Error())
			agree = false
		}
	} else {
		agree = false
	}
	if !valid {
		// seed derivation refuses an invalid sentence
		if guard("bip39.NewSeed", "sentence:"+cl, in, func() { _, err = bip39.NewSeed(m, "") }) && err == nil {
			viol("accepted-invalid", "bip39.NewSeed", "sentence:"+cl, in, "reference: "+refErr.Error())
			agree = false
		}
	}
	if agree {
		if valid {
			r.Count("sentence.accepted", 1)
			r.Count("sentence.accepted:"+cl, 1)
		} else {
			r.Count("sentence.rejected", 1)
			r.Count("sentence.rejected:"+cl, 1)
			r.Count("sentence.rejected.reason:"+strings.TrimPrefix(refErr.Error(), "refbip: "), 1)
		}
	}
}

func legSentences() {
	n := r.Pick(32000, 1600000)
	vf.Parallel(n, runtime.NumCPU(), func(i int) {
		g := r.Rand("sent", i)
		words := []int{12, 15, 18, 21, 24}[(i/16)%5]
		m := randomValidMnemonic(g, words)
		cl, s := mutateMnemonic(g, m, i)
		checkSentence(fmt.Sprintf("%s/%d", cl, words), s)
		if i >= 16 && i < 19 {
			r.Sample(map[string]string{"leg": "sentence", "class": cl, "text": fmt.Sprintf("%q", s), "reference_valid": fmt.Sprint(refbip.ValidMnemonic(s))})
		}
	})
	// exhaustive over the last word: exactly 2^(11-cs) of the 2048 candidates are valid
	nEx := r.Pick(10, 200)
	vf.Parallel(nEx, runtime.NumCPU(), func(i int) {
		g := r.Rand("lastword", i)
		words := []int{12, 15, 18, 21, 24}[i%5]
		w := strings.Split(randomValidMnemonic(g, words), " ")
		okCount := 0
		for k := 0; k < 2048; k++ {
			w[len(w)-1] = refbip.Words[k]
			s := strings.Join(w, " ")
			valid := refbip.ValidMnemonic(s)
			var err error
			r.Eval(1)
			if !guard("bip39.ValidateMnemonic", "sentence:last-word-exhaustive", s, func() { err = bip39.ValidateMnemonic(s) }) {
				return
			}
			if valid != (err == nil) {
				kind := "accepted-invalid"
				if valid {
					kind = "rejected-valid"
				}
				viol(kind, "bip39.ValidateMnemonic", fmt.Sprintf("sentence:last-word-exhaustive/%d", words), fmt.Sprintf("%q", s), fmt.Sprint(err))
				return
			}
			if valid {
				okCount++
			}
		}
		cs := words / 3
		if okCount != 1<<uint(11-cs) {
			r.Inconclusive(fmt.Sprintf("reference self-check: %d valid last words for %d words, expected %d", okCount, words, 1<<uint(11-cs)))
			return
		}
		r.Count("sentence.last-word-exhaustive.sets", 1)
		r.Count(fmt.Sprintf("sentence.last-word-exhaustive.sets:%d-words", words), 1)
		r.DistinctBytes([]byte("lw" + strings.Join(w[:len(w)-1], " ")))
	})
}

// ------------------------------------------------------------------------------------------
// BIP39: seed

func genPassphrase(g *rand.Rand, i int) (string, string) {
	pick := func(set []rune, n int) string {
		out := make([]rune, n)
		for k := range out {
			out[k] = set[g.Intn(len(set))]
		}
		return string(out)
	}
	var ascii []rune
	for c := rune(0x20); c <= 0x7e; c++ {
		ascii = append(ascii, c)
	}
	var inert []rune
	for c := rune(0x3b1); c <= 0x3c9; c++ {
		inert = append(inert, c)
	}
	for c := rune(0x430); c <= 0x44f; c++ {
		if c != 0x439 {
			inert = append(inert, c)
		}
	}
	for k := 0; k < 60; k++ {
		inert = append(inert, rune(0x4e00+g.Intn(0x9fa5-0x4e00)))
	}
	for c := rune(0x1f600); c <= 0x1f610; c++ {
		inert = append(inert, c)
	}
	switch i % 8 {
	case 0:
		return "passphrase:empty", ""
	case 1, 2:
		return "passphrase:ascii", pick(ascii, 1+g.Intn(24))
	case 3:
		return "passphrase:ascii-long", pick(ascii, 100+g.Intn(300))
	case 4:
		return "passphrase:TREZOR", "TREZOR"
	case 5, 6:
		return "passphrase:non-ascii(already NFKD)", pick(append(inert, ascii[:40]...), 1+g.Intn(16))
	default:
		// at least one character whose NFKD form differs
		un := refbip.NFKDUnstable()
		s := []rune(pick(append(inert, ascii...), g.Intn(10)))
		pos := g.Intn(len(s) + 1)
		s = append(s[:pos], append([]rune{un[g.Intn(len(un))]}, s[pos:]...)...)
		return "passphrase:non-ascii(needs NFKD)", string(s)
	}
}

func legSeed() {
	n := r.Pick(1600, 60000)
	vf.Parallel(n, runtime.NumCPU(), func(i int) {
		g := r.Rand("seed", i)
		words := []int{12, 15, 18, 21, 24}[(i/8)%5]
		m := randomValidMnemonic(g, words)
		cl, pass := genPassphrase(g, i)
		in := fmt.Sprintf("mnemonic=%q passphrase=%q (hex %x)", m, pass, pass)
		want, ok := refbip.Seed(m, pass)
		if !ok {
			r.Inconclusive("generator produced a passphrase outside the reference's NFKD table: " + in)
			return
		}
		r.Eval(1)
		r.DistinctBytes([]byte("seed" + m + "\x00" + pass))
		var got []byte
		var err error
		if !guard("bip39.NewSeed", cl, in, func() { got, err = bip39.NewSeed(m, pass) }) {
			return
		}
		r.Count("seed.checked:"+cl, 1)
		if err != nil {
			viol("rejected-valid", "bip39.NewSeed", cl, in, err.Error())
			return
		}
		if !bytes.Equal(got, want) {
			viol("seed-mismatch", "bip39.NewSeed", cl, in, "got "+hx(got)+" want "+hx(want))
			return
		}
		r.Count("seed.agree", 1)
		r.Count("seed.agree:"+cl, 1)
		if i == 1 || i == 5 {
			r.Sample(map[string]string{"leg": "seed", "mnemonic": m, "passphrase": pass, "seed": hx(want)})
		}
	})
}

// ------------------------------------------------------------------------------------------
// BIP32: derivation

func pickIndex(g *rand.Rand) (string, uint32) {
	switch g.Intn(12) {
	case 0:
		return "0", 0
	case 1:
		return "1", 1
	case 2:
		return "2^31-1", 0x7fffffff
	case 3:
		return "2^31", 0x80000000
	case 4:
		return "2^31+1", 0x80000001
	case 5:
		return "2^32-1", 0xffffffff
	case 6, 7, 8:
		return "normal", uint32(g.Int63n(1 << 31))
	default:
		return "hardened", 0x80000000 + uint32(g.Int63n(1<<31))
	}
}

// sameKey compares every observable field of a real private key with the reference
func samePriv(k *bip32.PrivateKey, want *refbip.Key) string {
	fp := want.Fingerprint()
	id := want.Identifier()
	switch {
	case !bytes.Equal(k.Key, want.Key):
		return "key " + hx(k.Key) + " want " + hx(want.Key)
	case !bytes.Equal(k.ChainCode, want.ChainCode):
		return "chain code"
	case k.Depth != want.Depth:
		return fmt.Sprintf("depth %d want %d", k.Depth, want.Depth)
	case !bytes.Equal(k.ParentFingerprint, want.ParentFP[:]):
		return "parent fingerprint " + hx(k.ParentFingerprint) + " want " + hx(want.ParentFP[:])
	case k.ChildNumber() != want.Child:
		return fmt.Sprintf("child number %d want %d", k.ChildNumber(), want.Child)
	case !bytes.Equal(k.Version, refbip.VersionPrivate):
		return "version"
	case !bytes.Equal(k.Serialize(), want.Serialize82()):
		return "serialisation " + hx(k.Serialize()) + " want " + hx(want.Serialize82())
	case k.String() != want.String():
		return "text " + k.String() + " want " + want.String()
	case !bytes.Equal(k.Fingerprint(), fp[:]):
		return "fingerprint"
	case !bytes.Equal(k.Identifier(), id[:]):
		return "identifier"
	}
	return ""
}

func samePub(k *bip32.PublicKey, want *refbip.Key) string {
	fp := want.Fingerprint()
	switch {
	case !bytes.Equal(k.Key, want.Key):
		return "key " + hx(k.Key) + " want " + hx(want.Key)
	case !bytes.Equal(k.ChainCode, want.ChainCode):
		return "chain code"
	case k.Depth != want.Depth:
		return fmt.Sprintf("depth %d want %d", k.Depth, want.Depth)
	case !bytes.Equal(k.ParentFingerprint, want.ParentFP[:]):
		return "parent fingerprint"
	case k.ChildNumber() != want.Child:
		return fmt.Sprintf("child number %d want %d", k.ChildNumber(), want.Child)
	case !bytes.Equal(k.Version, refbip.VersionPublic):
		return "version"
	case !bytes.Equal(k.Serialize(), want.Serialize82()):
		return "serialisation"
	case k.String() != want.String():
		return "text " + k.String() + " want " + want.String()
	case !bytes.Equal(k.Fingerprint(), fp[:]):
		return "fingerprint"
	}
	return ""
}

func genSeed(g *rand.Rand, i int) []byte {
	switch i % 6 {
	case 0:
		return randBytes(g, 16)
	case 1:
		return randBytes(g, 64)
	case 2:
		return randBytes(g, 32)
	default:
		return randBytes(g, 16+g.Intn(49))
	}
}

func legChains() {
	n := r.Pick(1500, 60000)
	vf.Parallel(n, runtime.NumCPU(), func(i int) {
		g := r.Rand("chain", i)
		seed := genSeed(g, i)
		in := "seed=" + hx(seed)
		r.Eval(1)
		r.DistinctBytes(append([]byte("chain"), seed...))
		want, err := refbip.Master(seed)
		if err != nil {
			return
		}
		var k *bip32.PrivateKey
		if !guard("bip32.NewMasterKey", "master", in, func() { k, err = bip32.NewMasterKey(seed) }) {
			return
		}
		if err != nil {
			viol("rejected-valid", "bip32.NewMasterKey", "master", in, err.Error())
			return
		}
		if d := samePriv(k, want); d != "" {
			viol("key-mismatch", "bip32.NewMasterKey", "master", in, d)
			return
		}
		r.Count("master.agree", 1)
		r.Count(fmt.Sprintf("master.agree:seed-len-%s", map[bool]string{true: "edge(16|64)", false: "inner"}[len(seed) == 16 || len(seed) == 64]), 1)

		depth := 1 + g.Intn(6)
		var idx []uint32
		for d := 0; d < depth; d++ {
			icl, ci := pickIndex(g)
			idx = append(idx, ci)
			step := in + " path=" + refbip.FormatPath(idx)
			wantChild, rerr := want.CKDpriv(ci)
			if rerr != nil {
				r.Count("chain.reference-invalid-child(skipped)", 1)
				return
			}
			var child *bip32.PrivateKey
			if !guard("PrivateKey.NewPrivateChildKey", "index:"+icl, step, func() { child, err = k.NewPrivateChildKey(ci) }) {
				return
			}
			if err != nil {
				viol("rejected-valid", "PrivateKey.NewPrivateChildKey", "index:"+icl, step, err.Error())
				return
			}
			if dd := samePriv(child, wantChild); dd != "" {
				viol("key-mismatch", "PrivateKey.NewPrivateChildKey", "index:"+icl, step, dd)
				return
			}
			// neutered child
			var cpub *bip32.PublicKey
			if !guard("PrivateKey.PublicKey", "index:"+icl, step, func() { cpub = child.PublicKey() }) {
				return
			}
			wantPub := wantChild.Neuter()
			if dd := samePub(cpub, wantPub); dd != "" {
				viol("key-mismatch", "PrivateKey.PublicKey", "index:"+icl, step, dd)
				return
			}
			// commutation: CKDpub(N(parent), i) == N(CKDpriv(parent, i)) for normal i; an error for hardened i
			ppub := k.PublicKey()
			var viaPub *bip32.PublicKey
			if !guard("PublicKey.NewPublicChildKey", "index:"+icl, step, func() { viaPub, err = ppub.NewPublicChildKey(ci) }) {
				return
			}
			if ci >= refbip.Hardened {
				if err == nil {
					viol("accepted-invalid", "PublicKey.NewPublicChildKey", "index:"+icl, step, "hardened child derived from a public key")
					return
				}
				r.Count("commutation.hardened-refused", 1)
			} else {
				refVia, rerr := want.Neuter().CKDpub(ci)
				if rerr != nil {
					return
				}
				if err != nil {
					viol("rejected-valid", "PublicKey.NewPublicChildKey", "index:"+icl, step, err.Error())
					return
				}
				if dd := samePub(viaPub, refVia); dd != "" {
					viol("key-mismatch", "PublicKey.NewPublicChildKey", "index:"+icl, step, dd)
					return
				}
				if !bytes.Equal(viaPub.Serialize(), cpub.Serialize()) || !bytes.Equal(refVia.Serialize82(), wantPub.Serialize82()) {
					viol("commutation-broken", "PublicKey.NewPublicChildKey", "index:"+icl, step, "public derivation differs from neutered private derivation")
					return
				}
				var viaPriv *bip32.PublicKey
				if guard("PrivateKey.NewPublicChildKey", "index:"+icl, step, func() { viaPriv, err = k.NewPublicChildKey(ci) }) {
					if err != nil || !bytes.Equal(viaPriv.Serialize(), cpub.Serialize()) {
						viol("commutation-broken", "PrivateKey.NewPublicChildKey", "index:"+icl, step, fmt.Sprint(err))
						return
					}
				}
				r.Count("commutation.agree", 1)
			}
			r.Count("derive.agree", 1)
			r.Count("derive.agree:index="+icl, 1)
			k, want = child, wantChild
		}
		r.Count(fmt.Sprintf("chain.agree:depth=%d", depth), 1)

		// the same leaf through the path API
		path := refbip.FormatPath(idx)
		var leaf *bip32.PrivateKey
		if guard("bip32.NewPrivateKeyFromPath", "path", in+" path="+path, func() { leaf, err = bip32.NewPrivateKeyFromPath(seed, path) }) {
			if err != nil || !bytes.Equal(leaf.Serialize(), want.Serialize82()) {
				viol("key-mismatch", "bip32.NewPrivateKeyFromPath", "path", in+" path="+path, fmt.Sprint(err))
				return
			}
			r.Count("path.agree", 1)
		}

		// serialisation round trips
		var back *bip32.PrivateKey
		if guard("bip32.DeserializeEncodedPrivateKey", "valid", want.String(), func() { back, err = bip32.DeserializeEncodedPrivateKey(want.String()) }) {
			if err != nil || samePriv(back, want) != "" {
				viol("roundtrip-mismatch", "bip32.DeserializeEncodedPrivateKey", "valid", want.String(), fmt.Sprint(err))
				return
			}
		}
		wp := want.Neuter()
		var backPub *bip32.PublicKey
		if guard("bip32.DeserializeEncodedPublicKey", "valid", wp.String(), func() { backPub, err = bip32.DeserializeEncodedPublicKey(wp.String()) }) {
			if err != nil || samePub(backPub, wp) != "" {
				viol("roundtrip-mismatch", "bip32.DeserializeEncodedPublicKey", "valid", wp.String(), fmt.Sprint(err))
				return
			}
		}
		if guard("bip32.DeserializePrivateKey", "valid", hx(want.Serialize82()), func() { back, err = bip32.DeserializePrivateKey(want.Serialize82()) }) {
			if err != nil || samePriv(back, want) != "" {
				viol("roundtrip-mismatch", "bip32.DeserializePrivateKey", "valid", hx(want.Serialize82()), fmt.Sprint(err))
				return
			}
		}
		r.Count("serialize.roundtrip.agree", 1)
		if i < 2 {
			r.Sample(map[string]string{"leg": "chain", "seed": hx(seed), "path": path, "xprv": want.String(), "xpub": wp.String()})
		}
	})

	// seeds outside 128..512 bits
	for _, l := range []int{0, 1, 8, 15, 65, 66, 128} {
		seed := bytes.Repeat([]byte{7}, l)
		var err error
		r.Eval(1)
		if guard("bip32.NewMasterKey", "seed:bad-length", hx(seed), func() { _, err = bip32.NewMasterKey(seed) }) {
			if err == nil {
				viol("accepted-invalid", "bip32.NewMasterKey", "seed:bad-length", hx(seed), "")
			} else {
				r.Count("master.bad-seed-length.refused", 1)
			}
		}
	}

	// depth: 255 levels are derivable, the 256th is refused (one byte of depth)
	if seed := []byte("0123456789abcdef"); true {
		k, _ := bip32.NewMasterKey(seed)
		want, _ := refbip.Master(seed)
		okDeep := true
		for d := 0; d < 255 && okDeep; d++ {
			var err error
			var c *bip32.PrivateKey
			ci := uint32(d) | refbip.Hardened // hardened: no point multiplication needed in the reference
			r.Eval(1)
			if !guard("PrivateKey.NewPrivateChildKey", "depth", fmt.Sprint(d), func() { c, err = k.NewPrivateChildKey(ci) }) {
				okDeep = false
				break
			}
			w, rerr := want.CKDpriv(ci)
			if rerr != nil || err != nil || !bytes.Equal(c.Key, w.Key) || c.Depth != w.Depth {
				viol("key-mismatch", "PrivateKey.NewPrivateChildKey", "depth", fmt.Sprint(d), fmt.Sprint(err, rerr))
				okDeep = false
				break
			}
			k, want = c, w
		}
		if okDeep {
			var err error
			if guard("PrivateKey.NewPrivateChildKey", "depth:256", "", func() { _, err = k.NewPrivateChildKey(0) }) {
				if _, rerr := want.CKDpriv(0); rerr == nil || err == nil {
					viol("accepted-invalid", "PrivateKey.NewPrivateChildKey", "depth:256", "", "a child below depth 255 was derived")
				} else {
					r.Count("depth.255-reached-256-refused", 1)
				}
			}
			if guard("PublicKey.NewPublicChildKey", "depth:256", "", func() { _, err = k.PublicKey().NewPublicChildKey(0) }) && err == nil {
				viol("accepted-invalid", "PublicKey.NewPublicChildKey", "depth:256", "", "")
			}
		}
	}
}

// ------------------------------------------------------------------------------------------
// BIP32: malformed serialisations

func tinyOrHugeX(g *rand.Rand) []byte {
	// x >= p: p .. 2^256-1
	span := new(big.Int).Sub(new(big.Int).Lsh(big.NewInt(1), 256), refsecp.P)
	x := new(big.Int).Rand(g, span)
	x.Add(x, refsecp.P)
	return refsecp.To32(x)
}

func offCurveX(g *rand.Rand) []byte {
	for {
		x := new(big.Int).Rand(g, refsecp.P)
		if _, ok := refsecp.LiftX(x, false); !ok {
			return refsecp.To32(x)
		}
	}
}

// tinyYPoint returns a curve point with y < 2^33: x = cuberoot(y^2 - 7), which exists for a third
// of all y because p = 7 mod 9
func tinyYPoint(g *rand.Rand) (x, y *big.Int) {
	e := new(big.Int).Add(refsecp.P, big.NewInt(2))
	e.Div(e, big.NewInt(9))
	for {
		y = new(big.Int).Rand(g, new(big.Int).Lsh(big.NewInt(1), 33))
		y.Add(y, big.NewInt(1))
		a := new(big.Int).Mul(y, y)
		a.Sub(a, big.NewInt(7)).Mod(a, refsecp.P)
		x = new(big.Int).Exp(a, e, refsecp.P)
		if new(big.Int).Exp(x, big.NewInt(3), refsecp.P).Cmp(a) == 0 && refsecp.OnCurve(x, y) {
			return x, y
		}
	}
}

func reseal(b78 []byte) []byte { return append(append([]byte{}, b78...), refb58.Checksum4(b78)...) }

func legMalformed() {
	n := r.Pick(6000, 200000)
	vf.Parallel(n, runtime.NumCPU(), func(i int) {
		g := r.Rand("mal", i)
		// a structurally valid key without any point multiplication: random chain code, depth, etc.
		priv := i%2 == 0
		b := make([]byte, 78)
		depth := byte(g.Intn(6))
		if priv {
			copy(b[:4], refbip.VersionPrivate)
		} else {
			copy(b[:4], refbip.VersionPublic)
		}
		b[4] = depth
		if depth != 0 {
			copy(b[5:9], randBytes(g, 4))
			copy(b[9:13], randBytes(g, 4))
		}
		copy(b[13:45], randBytes(g, 32))
		if priv {
			d := new(big.Int).Rand(g, new(big.Int).Sub(refsecp.N, big.NewInt(1)))
			d.Add(d, big.NewInt(1))
			copy(b[46:78], refsecp.To32(d))
		} else {
			for {
				x := new(big.Int).Rand(g, refsecp.P)
				if _, ok := refsecp.LiftX(x, false); ok {
					b[45] = byte(2 + g.Intn(2))
					copy(b[46:78], refsecp.To32(x))
					break
				}
			}
		}
		cl := "valid"
		full := reseal(b)
		two256m1 := bytes.Repeat([]byte{0xff}, 32)
		switch (i / 2) % 20 {
		case 0:
			// untouched
		case 1:
			full[78+g.Intn(4)] ^= byte(1 << uint(g.Intn(8)))
			cl = "bad-checksum"
		case 2:
			full[g.Intn(78)] ^= byte(1 << uint(g.Intn(8)))
			cl = "body-bitflip-stale-checksum"
		case 3:
			copy(b[:4], randBytes(g, 4))
			full, cl = reseal(b), "version-unknown"
		case 4:
			if priv {
				copy(b[:4], refbip.VersionPublic)
			} else {
				copy(b[:4], refbip.VersionPrivate)
			}
			full, cl = reseal(b), "version-of-other-kind"
		case 5:
			b[4] = 0
			copy(b[5:9], []byte{0, 0, byte(g.Intn(256)), 1})
			copy(b[9:13], []byte{0, 0, 0, 0})
			full, cl = reseal(b), "depth0-with-fingerprint"
		case 6:
			b[4] = 0
			copy(b[5:9], []byte{0, 0, 0, 0})
			copy(b[9:13], []byte{byte(g.Intn(2)) << 7, 0, 0, 1})
			full, cl = reseal(b), "depth0-with-child-number"
		case 7:
			b[4] = 0
			copy(b[5:13], make([]byte, 8))
			full, cl = reseal(b), "valid(depth0)"
		case 8:
			b[4] = 255
			full, cl = reseal(b), "valid(depth255)"
		case 9:
			if priv {
				copy(b[46:78], make([]byte, 32))
				cl = "private-key-zero"
			} else {
				copy(b[45:78], make([]byte, 33))
				cl = "public-key-all-zero"
			}
			full = reseal(b)
		case 10:
			if priv {
				copy(b[46:78], refsecp.To32(refsecp.N))
				cl = "private-key=n"
			} else {
				copy(b[46:78], refsecp.To32(refsecp.P))
				cl = "public-key-x>=p"
			}
			full = reseal(b)
		case 11:
			if priv {
				copy(b[46:78], two256m1)
				cl = "private-key>n"
			} else {
				copy(b[46:78], two256m1)
				cl = "public-key-x>=p"
			}
			full = reseal(b)
		case 12:
			if priv {
				span := new(big.Int).Sub(new(big.Int).Lsh(big.NewInt(1), 256), refsecp.N)
				v := new(big.Int).Rand(g, span)
				copy(b[46:78], refsecp.To32(v.Add(v, refsecp.N)))
				cl = "private-key>n"
			} else {
				copy(b[46:78], tinyOrHugeX(g))
				cl = "public-key-x>=p"
			}
			full = reseal(b)
		case 13:
			if priv {
				b[45] = []byte{1, 2, 3, 4, 0x80, 0xff}[g.Intn(6)]
				cl = "private-key-prefix-nonzero"
			} else {
				b[45] = []byte{0, 1, 4, 5, 6, 7, 0x82, 0xff}[g.Intn(8)]
				cl = "public-key-bad-prefix"
			}
			full = reseal(b)
		case 14:
			if priv {
				copy(b[46:78], refsecp.To32(new(big.Int).Sub(refsecp.N, big.NewInt(1))))
				cl = "valid(private-key=n-1)"
			} else {
				copy(b[46:78], offCurveX(g))
				cl = "public-key-off-curve"
			}
			full = reseal(b)
		case 15:
			full = full[:81]
			cl = "length-81"
		case 16:
			full = append(full, byte(g.Intn(256)))
			cl = "length-83"
		case 17:
			full = append([]byte{}, b...)
			cl = "length-78-no-checksum"
		case 18:
			if priv {
				copy(b[46:78], refsecp.To32(big.NewInt(1)))
				cl = "valid(private-key=1)"
			} else {
				// a valid point whose y is below 2^33 (or within 2^33 of p)
				x, y := tinyYPoint(g)
				b[45] = 2 + byte(y.Bit(0))
				if g.Intn(2) == 0 {
					b[45] ^= 1
				}
				copy(b[46:78], refsecp.To32(x))
				cl = "valid(public-key-with-tiny-y)"
			}
			full = reseal(b)
		default:
			full = randBytes(g, 82)
			cl = "random-82-bytes"
		}
		kind := map[bool]string{true: "xprv", false: "xpub"}[priv]
		in := kind + " " + hx(full)
		r.Eval(1)
		r.DistinctBytes(append([]byte("ser"), full...))
		wantKey, refClass, refErr := refbip.Parse82(full, priv)
		r.Count("deserialize.case:"+kind+":"+cl, 1)

		var err error
		var gotSer []byte
		text := refb58.Encode(full)
		for _, via := range []string{"bytes", "text"} {
			fn := "bip32.Deserialize" + map[bool]string{true: "Private", false: "Public"}[priv] + "Key"
			if via == "text" {
				fn = "bip32.DeserializeEncoded" + map[bool]string{true: "Private", false: "Public"}[priv] + "Key"
				if len(full) == 0 {
					continue
				}
			}
			ok := guard(fn, "serialized:"+cl, in, func() {
				gotSer = nil
				switch {
				case priv && via == "bytes":
					var k *bip32.PrivateKey
					if k, err = bip32.DeserializePrivateKey(full); err == nil {
						gotSer = k.Serialize()
					}
				case priv:
					var k *bip32.PrivateKey
					if k, err = bip32.DeserializeEncodedPrivateKey(text); err == nil {
						gotSer = k.Serialize()
					}
				case via == "bytes":
					var k *bip32.PublicKey
					if k, err = bip32.DeserializePublicKey(full); err == nil {
						gotSer = k.Serialize()
					}
				default:
					var k *bip32.PublicKey
					if k, err = bip32.DeserializeEncodedPublicKey(text); err == nil {
						gotSer = k.Serialize()
					}
				}
			})
			if !ok {
				return
			}
			switch {
			case refErr == nil && err != nil:
				viol("rejected-valid", fn, "serialized:"+cl, in, err.Error())
				return
			case refErr != nil && err == nil:
				viol("accepted-invalid", fn, "serialized:"+cl+"/"+refClass, in, "reference: "+refErr.Error())
				return
			case refErr == nil && !bytes.Equal(gotSer, wantKey.Serialize82()):
				viol("roundtrip-mismatch", fn, "serialized:"+cl, in, "re-serialised "+hx(gotSer))
				return
			}
		}
		if refErr == nil {
			r.Count("deserialize.accepted", 1)
		} else {
			r.Count("deserialize.rejected", 1)
			r.Count("deserialize.rejected:"+refClass, 1)
		}
		// the other entry point must refuse a key of the other kind
		if refErr == nil {
			var e2 error
			if priv {
				if guard("bip32.DeserializePublicKey", "serialized:xprv-to-public-parser", in, func() { _, e2 = bip32.DeserializePublicKey(full) }) && e2 == nil {
					viol("accepted-invalid", "bip32.DeserializePublicKey", "serialized:xprv-to-public-parser", in, "")
				}
			} else {
				if guard("bip32.DeserializePrivateKey", "serialized:xpub-to-private-parser", in, func() { _, e2 = bip32.DeserializePrivateKey(full) }) && e2 == nil {
					viol("accepted-invalid", "bip32.DeserializePrivateKey", "serialized:xpub-to-private-parser", in, "")
				}
			}
			if e2 != nil {
				r.Count("deserialize.rejected:other-kind-parser", 1)
			}
		}
		if i >= 2 && i < 5 {
			r.Sample(map[string]string{"leg": "deserialize", "class": cl, "kind": kind, "bytes": hx(full), "reference": refClass})
		}
	})
	// text that is not base58
	for _, s := range []string{"", " ", "xprv0", "xpub661MyMwAqRbcFtXgS5sYJABqqG9YLmC4Q1Rdap9gSE8NqtwybGhePY2gZ29ESFjqJoCu1Rupje8YtGqsefD265TMg7usUDFdp6W1EGMcetO",
		"xprv9s21ZrQH143K3QTDL4LXw2F7HEK3wJUD2nW2nRk4stbPy6cq3jPPqjiChkVvvNKmPGJxWUtg6LnF5kejMRNNU3TGtRBeJgk33yuGBxrMPHi ", "\u00e9"} {
		var e1, e2 error
		r.Eval(1)
		if guard("bip32.DeserializeEncodedPrivateKey", "text:not-base58", s, func() { _, e1 = bip32.DeserializeEncodedPrivateKey(s); _, e2 = bip32.DeserializeEncodedPublicKey(s) }) {
			if e1 == nil || e2 == nil {
				viol("accepted-invalid", "bip32.DeserializeEncoded*Key", "text:not-base58", s, "")
			} else {
				r.Count("deserialize.rejected:not-base58", 1)
			}
		}
	}
}

// ------------------------------------------------------------------------------------------
// BIP32 paths

func legPaths() {
	bad := []string{"", "n", "M", "m/", "/m", "m//0", "m/m", "m/0/m", "m/0''", "m/'", "m/-1", "m/+1", "m/2147483648", "m/2147483648'", "m/4294967296",
		"m/99999999999999999999", "m/0x10", "m/ 1", "m/1 ", "m/1.0", "m/a", "m/0'/", "0/1", "m\\0", "m/0/\u0661"}
	seed := []byte("0123456789abcdef0123456789abcdef")
	for _, p := range bad {
		var err error
		r.Eval(1)
		r.Distinct("path:" + p)
		if _, rerr := refbip.ParsePath(p); rerr == nil {
			r.Inconclusive("reference accepts a path listed as invalid: " + p)
			continue
		}
		if guard("bip32.ParsePath", "path:invalid", p, func() { _, err = bip32.ParsePath(p) }) {
			if err == nil {
				viol("accepted-invalid", "bip32.ParsePath", "path:invalid", p, "")
				continue
			}
		}
		if guard("bip32.NewPrivateKeyFromPath", "path:invalid", p, func() { _, err = bip32.NewPrivateKeyFromPath(seed, p) }) {
			if err == nil {
				viol("accepted-invalid", "bip32.NewPrivateKeyFromPath", "path:invalid", p, "")
				continue
			}
		}
		r.Count("path.invalid.refused", 1)
	}
	good := []string{"m", "m/0", "m/0'", "m/2147483647", "m/2147483647'", "m/44'/8000'/0'/0/0", "m/0'/1/2'/2/1000000000", "m/1/2/3/4/5/6/7/8"}
	for _, p := range good {
		want, rerr := refbip.ParsePath(p)
		var got *bip32.Path
		var err error
		r.Eval(1)
		r.Distinct("path:" + p)
		if rerr != nil {
			r.Inconclusive("reference rejects a canonical path: " + p)
			continue
		}
		if !guard("bip32.ParsePath", "path:valid", p, func() { got, err = bip32.ParsePath(p) }) {
			continue
		}
		ok := err == nil && len(got.Elements) == len(want)+1 && got.Elements[0].Master
		for j := 0; ok && j < len(want); j++ {
			e := got.Elements[j+1]
			ok = !e.Master && e.ChildNumber == want[j] && e.Hardened() == (want[j] >= refbip.Hardened)
		}
		if !ok {
			viol("path-mismatch", "bip32.ParsePath", "path:valid", p, fmt.Sprint(err))
			continue
		}
		r.Count("path.valid.parsed", 1)
	}
}

// ------------------------------------------------------------------------------------------
// BIP44

func refSkyAddress(pub []byte) cipher.Address {
	h1 := sha256.Sum256(pub)
	h2 := sha256.Sum256(h1[:])
	h := refbip.Ripemd160(h2[:])
	a := cipher.Address{Version: 0}
	copy(a.Key[:], h[:])
	return a
}

func legBIP44() {
	n := r.Pick(600, 24000)
	vf.Parallel(n, runtime.NumCPU(), func(i int) {
		g := r.Rand("b44", i)
		var seed []byte
		if i%3 == 0 {
			seed, _ = refbip.Seed(randomValidMnemonic(g, 12), "")
		} else {
			seed = genSeed(g, i)
		}
		coins := []uint32{0, 1, 8000, 0x7fffffff, uint32(g.Int63n(1 << 31))}
		accts := []uint32{0, 1, 2, 0x7fffffff, uint32(g.Int63n(1 << 31))}
		coin, acct := coins[g.Intn(len(coins))], accts[g.Intn(len(accts))]
		change := int64(g.Intn(2))
		_, index := pickIndex(g)
		in := fmt.Sprintf("seed=%s coin=%d account=%d change=%d index=%d", hx(seed), coin, acct, change, index)
		r.Eval(1)
		r.DistinctBytes([]byte("b44" + in))
		m, err := refbip.Master(seed)
		if err != nil {
			return
		}
		wantCoin, e1 := m.Derive(refbip.BIP44Path(coin, acct, -1, -1)[:2])
		wantAcct, e2 := m.Derive(refbip.BIP44Path(coin, acct, -1, -1))
		wantChain, e3 := m.Derive(refbip.BIP44Path(coin, acct, change, -1))
		wantLeaf, e4 := m.Derive(refbip.BIP44Path(coin, acct, change, int64(index)))
		if e1 != nil || e2 != nil || e3 != nil || e4 != nil {
			return
		}
		var c *bip44.Coin
		if !guard("bip44.NewCoin", "coin", in, func() { c, err = bip44.NewCoin(seed, bip44.CoinType(coin)) }) {
			return
		}
		if err != nil || samePriv(c.PrivateKey, wantCoin) != "" {
			viol("key-mismatch", "bip44.NewCoin", "coin", in, fmt.Sprint(err)+" "+samePrivOrNil(c, wantCoin))
			return
		}
		var a *bip44.Account
		if !guard("Coin.Account", "account", in, func() { a, err = c.Account(acct) }) {
			return
		}
		if err != nil || samePriv(a.PrivateKey, wantAcct) != "" {
			viol("key-mismatch", "Coin.Account", "account", in, fmt.Sprint(err))
			return
		}
		var ch *bip32.PrivateKey
		fn := "Account.External"
		if !guard(fn, "chain", in, func() {
			if change == 0 {
				ch, err = a.External()
			} else {
				fn = "Account.Change"
				ch, err = a.Change()
			}
		}) {
			return
		}
		if err != nil || samePriv(ch, wantChain) != "" {
			viol("key-mismatch", fn, "chain", in, fmt.Sprint(err)+" got "+privStr(ch)+" want "+wantChain.String())
			return
		}
		var leaf *bip32.PrivateKey
		if !guard("PrivateKey.NewPrivateChildKey", "bip44-index", in, func() { leaf, err = ch.NewPrivateChildKey(index) }) {
			return
		}
		if err != nil || samePriv(leaf, wantLeaf) != "" {
			viol("key-mismatch", "PrivateKey.NewPrivateChildKey", "bip44-index", in, fmt.Sprint(err))
			return
		}
		// the skycoin address of the leaf key equals the address of the reference key
		var addr cipher.Address
		if guard("cipher.AddressFromSecKey", "bip44-address", in, func() {
			sk, e := cipher.NewSecKey(leaf.Key)
			if e != nil {
				err = e
				return
			}
			addr, err = cipher.AddressFromSecKey(sk)
		}) {
			if err != nil || addr != refSkyAddress(wantLeaf.PubBytes()) {
				viol("address-mismatch", "cipher.AddressFromSecKey", "bip44-address", in, fmt.Sprint(err))
				return
			}
		}
		// the whole path through the bip32 path API
		p := refbip.FormatPath(refbip.BIP44Path(coin, acct, change, int64(index)))
		var viaPath *bip32.PrivateKey
		if guard("bip32.NewPrivateKeyFromPath", "bip44-path", in+" "+p, func() { viaPath, err = bip32.NewPrivateKeyFromPath(seed, p) }) {
			if err != nil || !bytes.Equal(viaPath.Serialize(), wantLeaf.Serialize82()) {
				viol("key-mismatch", "bip32.NewPrivateKeyFromPath", "bip44-path", in+" "+p, fmt.Sprint(err))
				return
			}
		}
		r.Count("bip44.agree", 1)
		r.Count(fmt.Sprintf("bip44.agree:change=%d", change), 1)
		if coin == 8000 {
			r.Count("bip44.agree:coin=8000(skycoin)", 1)
		}
		if i < 2 {
			ra := refSkyAddress(wantLeaf.PubBytes())
			r.Sample(map[string]string{"leg": "bip44", "seed": hx(seed), "path": p, "xprv": wantLeaf.String(), "address_key": hx(ra.Key[:])})
		}
	})
	// out-of-range arguments
	seed := []byte("0123456789abcdef0123456789abcdef")
	var err error
	r.Eval(1)
	for _, ct := range []uint32{0x80000000, 0x80000001, 0xffffffff} {
		if guard("bip44.NewCoin", "coin:hardened-range", fmt.Sprint(ct), func() { _, err = bip44.NewCoin(seed, bip44.CoinType(ct)) }) {
			if err == nil {
				viol("accepted-invalid", "bip44.NewCoin", "coin:hardened-range", fmt.Sprint(ct), "")
			} else {
				r.Count("bip44.out-of-range.refused", 1)
			}
		}
	}
	c, cerr := bip44.NewCoin(seed, bip44.CoinTypeSkycoin)
	if cerr == nil {
		for _, ac := range []uint32{0x80000000, 0xffffffff} {
			if guard("Coin.Account", "account:hardened-range", fmt.Sprint(ac), func() { _, err = c.Account(ac) }) {
				if err == nil {
					viol("accepted-invalid", "Coin.Account", "account:hardened-range", fmt.Sprint(ac), "")
				} else {
					r.Count("bip44.out-of-range.refused", 1)
				}
			}
		}
	}
	for _, l := range []int{0, 15, 65} {
		s := bytes.Repeat([]byte{1}, l)
		if guard("bip44.NewCoin", "seed:bad-length", hx(s), func() { _, err = bip44.NewCoin(s, bip44.CoinTypeSkycoin) }) {
			if err == nil {
				viol("accepted-invalid", "bip44.NewCoin", "seed:bad-length", hx(s), "")
			} else {
				r.Count("bip44.out-of-range.refused", 1)
			}
		}
	}
}

func samePrivOrNil(c *bip44.Coin, want *refbip.Key) string {
	if c == nil || c.PrivateKey == nil {
		return "(nil)"
	}
	return samePriv(c.PrivateKey, want)
}

func main() {
	log.SetOutput(ioutil.Discard)
	if vf.ChildMode() == "conc" {
		concChild()
		return
	}
	r = vf.Start("C16", "exploration")

	for _, l := range []struct {
		name string
		f    func()
	}{{"mnemonic", legMnemonic}, {"sentences", legSentences}, {"seed", legSeed}, {"chains", legChains}, {"malformed", legMalformed}, {"paths", legPaths}, {"bip44", legBIP44},
		{"alias", legAlias}, {"concurrent", legConcurrent}} {
		t0 := time.Now()
		l.f()
		r.Extra("wall_s."+l.name, time.Since(t0).Seconds())
	}

	fl := func(k string, quick, thorough int64) {
		if r.Quick() {
			r.Floor(k, quick)
		} else {
			r.Floor(k, thorough)
		}
	}
	fl("mnemonic.agree", 3900, 199000)
	for _, w := range []int{12, 15, 18, 21, 24} {
		fl(fmt.Sprintf("mnemonic.agree:%d-words", w), 700, 39000)
	}
	for _, c := range []string{"entropy:all-zero", "entropy:all-one", "entropy:leading-zeros", "entropy:only-last-byte", "entropy:random"} {
		fl("mnemonic.agree:"+c, 400, 20000)
	}
	r.Floor("mnemonic.bad-entropy-size.refused", 12)
	fl("sentence.accepted", 2000, 100000)
	fl("sentence.rejected", 20000, 1000000)
	for _, c := range []string{"one-word-replaced", "two-words-swapped", "word-not-in-list", "words-dropped", "words-appended", "word-count-not-allowed",
		"surrounding-whitespace", "bad-separator", "upper-case", "four-letter-prefixes", "last-word-random", "random-words", "reversed"} {
		for _, w := range []int{12, 15, 18, 21, 24} {
			fl(fmt.Sprintf("sentence.rejected:%s/%d", c, w), 150, 8000)
		}
	}
	for _, w := range []int{12, 15, 18, 21, 24} {
		fl(fmt.Sprintf("sentence.accepted:valid/%d", w), 350, 19000)
	}
	// a replaced word keeps the checksum valid with probability 2^-cs: seen for the short sizes
	fl("sentence.accepted:one-word-replaced/12", 20, 1500)
	fl("sentence.accepted:last-word-random/12", 10, 700)
	for _, c := range []string{"checksum mismatch", "word not in list", "word count must be 12, 15, 18, 21 or 24", "words must be separated by single ASCII spaces, no surrounding whitespace"} {
		fl("sentence.rejected.reason:"+c, 400, 20000)
	}
	fl("sentence.last-word-exhaustive.sets", 10, 200)
	fl("seed.agree", 1100, 43000)
	for _, c := range []string{"passphrase:empty", "passphrase:ascii", "passphrase:ascii-long", "passphrase:TREZOR", "passphrase:non-ascii(already NFKD)"} {
		fl("seed.agree:"+c, 180, 7000)
	}
	// compared (agreement or the listed known finding D31), not necessarily agreeing
	fl("seed.checked:passphrase:non-ascii(needs NFKD)", 180, 7000)
	fl("master.agree", 1450, 59000)
	fl("master.agree:seed-len-edge(16|64)", 400, 19000)
	r.Floor("master.bad-seed-length.refused", 7)
	fl("derive.agree", 4000, 160000)
	for _, c := range []string{"0", "1", "2^31-1", "2^31", "2^31+1", "2^32-1", "normal", "hardened"} {
		fl("derive.agree:index="+c, 250, 10000)
	}
	fl("commutation.agree", 2000, 80000)
	fl("commutation.hardened-refused", 1500, 60000)
	for d := 1; d <= 6; d++ {
		fl(fmt.Sprintf("chain.agree:depth=%d", d), 150, 7000)
	}
	fl("path.agree", 1400, 58000)
	fl("serialize.roundtrip.agree", 1400, 58000)
	r.Floor("depth.255-reached-256-refused", 1)
	fl("deserialize.accepted", 1000, 35000)
	fl("deserialize.rejected", 3500, 120000)
	for _, c := range []string{"xprv:bad-checksum", "xpub:bad-checksum", "xprv:version-unknown", "xpub:version-unknown", "xprv:version-of-other-kind", "xpub:version-of-other-kind",
		"xprv:depth0-with-fingerprint", "xpub:depth0-with-fingerprint", "xprv:depth0-with-child-number", "xpub:depth0-with-child-number",
		"xprv:private-key-zero", "xprv:private-key=n", "xprv:private-key>n", "xprv:private-key-prefix-nonzero",
		"xpub:public-key-all-zero", "xpub:public-key-x>=p", "xpub:public-key-bad-prefix", "xpub:public-key-off-curve",
		"xprv:length-81", "xpub:length-83", "xprv:length-78-no-checksum", "xpub:random-82-bytes", "xpub:valid(public-key-with-tiny-y)", "xpub:valid", "xprv:valid", "xprv:valid(private-key=1)", "xprv:valid(private-key=n-1)"} {
		fl("deserialize.case:"+c, 100, 4000)
	}
	for _, c := range []string{"length", "checksum", "version-unknown", "version-other-kind", "depth0-metadata", "private-prefix", "private-range", "public-point", "other-kind-parser"} {
		fl("deserialize.rejected:"+c, 100, 4000)
	}
	r.Floor("deserialize.rejected:not-base58", 6)
	r.Floor("path.invalid.refused", 25)
	r.Floor("path.valid.parsed", 8)
	fl("bip44.agree", 580, 23500)
	fl("bip44.agree:change=0", 200, 10000)
	fl("bip44.agree:change=1", 200, 10000)
	fl("bip44.agree:coin=8000(skycoin)", 60, 3000)
	r.Floor("bip44.out-of-range.refused", 8)
	aliasFloors(fl)

	r.Finish("cases are generated from (seed, leg, index): entropies of all five sizes (zero, ones, leading zeros, last byte only, random); 16 kinds of sentence built from a valid mnemonic of each length (replaced / swapped / unknown / dropped / appended words, disallowed counts, surrounding or wrong white space incl. NBSP and U+3000, case, prefixes, random last word, random words) plus exhaustive enumeration of the last word; passphrases by class (empty, ASCII, long, already-NFKD non-ASCII, needing NFKD); derivation chains of depth 1..6 over boundary and random indices from seeds of 16..64 bytes with the public/private commutation at every step and a 255-deep chain; 20 kinds of well-formed and malformed 82-byte serialisations for both key kinds through the byte and text parsers; valid and invalid path strings; BIP44 coin/account/chain/index tuples; an immutability leg that hands seeds, entropies, serialisation buffers (with and without spare capacity) and parent key objects of six origins (deserialised, from text, cloned, derived, neutered) to every entry point, compares every watched input byte (whole capacity regions, slice headers) with a private copy after each of 24 shuffled and repeated operations, deserialises the caller's bytes again and requires the reference value from every repeated and dependent call; a concurrent leg in which ~21 goroutines use one shared parent (different normal / hardened / public children, serialisation, identifiers) and shared seed / entropy buffers (mnemonic, entropy, seed, master key, BIP44 coin) at once, every result compared with the value the reference computed beforehand, run in this process and again in a -race build whose data-race reports with a frame in src/cipher are violations; a case is distinct by its input bytes and non-trivial because the reference fixes its expected outcome",
		"the reference normalises passphrases with a 16-entry NFKD table (data from the Unicode Character Database); generators only emit characters whose normal form the table or its inert ranges define",
		"sentence validity follows the rules the bip39 package documents (single ASCII spaces, no surrounding white space, lower-case list words, allowed counts) together with the BIP39 checksum",
		"IL >= n / zero-key children (probability < 2^-127) are skipped, not asserted",
		"a key returned by Deserialize*Key shares memory with the caller's buffer on the unchanged tree (documented behaviour of the package is silent); the immutability leg therefore only requires that the package itself never writes to an input, not that a deserialised key survives the caller overwriting its buffer; for seeds (NewMasterKey, NewPrivateKeyFromPath) and clones independence from the caller's later writes is required",
		"the concurrent leg's verdict never depends on timing: every call has one expected value; interleavings only decide whether an existing defect shows, and the -race build reports conflicting accesses whether or not they corrupt a result",
		"lib/refbip is checked against the published BIP32 (vectors 1 and 5), BIP39 (Trezor) and RIPEMD-160 vectors in its own tests")
}

// privStr prints a private key that may be nil (derivation failed)
func privStr(k *bip32.PrivateKey) string {
	if k == nil {
		return "<nil>"
	}
	return k.String()
}
