// Command c05 decides property C05 on the shared ledger workload (see lib/ledgerrun)
package main

import "verif/lib/ledgerrun"

func main() { ledgerrun.Main("C05") }
