// Leg "node", publisher phase (third context of the soft rules): a publisher-mode node filters its
// pool with Config.CreateBlockVerifyTxn when it creates a block. Lanes are configured so that the
// create-block parameters are stricter than the unconfirmed-pool ones in burn factor, precision
// and/or size; transactions of the node classes (solved against either parameter set, so that
// some lie between the two) are injected through the foreign path into the lane's publisher-mode
// node, blocks are created with an injected clock, and every transaction of every created block
// is judged by the soft-rule model under the CREATE-BLOCK parameters at the head time the node
// used; pool transactions left out are judged as well.
package main

import (
	"fmt"
	"math/rand"

	"github.com/skycoin/skycoin/src/cipher"
	"github.com/skycoin/skycoin/src/coin"
	"github.com/skycoin/skycoin/src/params"

	"verif/lib/ledger"
	"verif/lib/txk"
	"verif/lib/vf"
)

// createParams derives a lane's create-block parameters from its unconfirmed-pool parameters:
// stricter (never laxer) in the dimensions chosen by variant (0 all, 1 burn factor, 2 precision,
// 3 size), within what visor.Config.Verify allows (nothing below the process' user parameters).
// A SMALLER burn factor is the stricter rule.
func createParams(li int, unconf params.VerifyTxn) params.VerifyTxn {
	strict := []params.VerifyTxn{
		{BurnFactor: 3, MaxTransactionSize: 2048, MaxDropletPrecision: 2}, // = user parameters: nothing stricter exists
		{BurnFactor: 5, MaxTransactionSize: 4096, MaxDropletPrecision: 2},
		{BurnFactor: 10, MaxTransactionSize: 2048, MaxDropletPrecision: 3},
		{BurnFactor: 20, MaxTransactionSize: 2048, MaxDropletPrecision: 2},
	}[li%len(laneParams)]
	cp := unconf
	variant := (li / len(laneParams)) % 4
	if variant == 3 && strict.MaxTransactionSize == unconf.MaxTransactionSize {
		variant = 0
	}
	if variant == 0 || variant == 1 {
		cp.BurnFactor = strict.BurnFactor
	}
	if variant == 0 || variant == 2 {
		cp.MaxDropletPrecision = strict.MaxDropletPrecision
	}
	if variant == 0 || variant == 3 {
		cp.MaxTransactionSize = strict.MaxTransactionSize
	}
	return cp
}

// pubClass is a node class solved against (first, second) = (unconfirmed, create-block) or, when
// Swap is set, (create-block, unconfirmed): "fee-exact"/"fee-one-short"/"precision" then sit on the
// create-block boundary, which the laxer unconfirmed parameters still admit. "size-between" has
// its own solver (genSizeBetween)
type pubClass struct {
	Class string
	Swap  bool
}

var pubClasses = []pubClass{
	{"valid", false}, {"fee-between", false}, {"precision-between", false}, {"fee-exact", true}, {"fee-one-short", true},
	{"size-between", false}, {"precision", true}, {"fee-exact", false}, {"fee-one-short", false}, {"fee-zero", false},
	{"precision", false}, {"locked", false}, {"soft-multi", false}, {"valid", true}, {"fee-between", false}, {"precision-between", false},
}

// genSizeBetween builds a transaction whose encoded size is above the create-block limit and within
// the unconfirmed-pool limit (all outputs distinct, whole coins, fee ample for both burn factors)
func genSizeBetween(l *txk.Lane, g *rand.Rand, unconf, create params.VerifyTxn) (coin.Transaction, bool) {
	if unconf.MaxTransactionSize <= create.MaxTransactionSize {
		return coin.Transaction{}, false
	}
	in := pickOwned(l, g, 2, false)
	if in == nil {
		return coin.Transaction{}, false
	}
	head := l.M.HeadTime()
	var coins, hours uint64
	for _, ux := range in {
		coins += ux.Body.Coins
		a, _ := ledger.Accrued(ux, head)
		hours += a.Uint64()
	}
	burnMin := unconf.BurnFactor
	if create.BurnFactor < burnMin {
		burnMin = create.BurnFactor
	}
	ample := hours - reqFee(hours, burnMin)
	n := int(create.MaxTransactionSize)/37 + 1 + g.Intn(3)
	unit := uint64(1000000)
	if uint64(n)*unit >= coins {
		return coin.Transaction{}, false
	}
	dests := l.Keys[4:]
	var outs []coin.TransactionOutput
	var outHours uint64
	for i := 0; i < n-1; i++ {
		h := uint64(i / len(dests)) // (address, hours) pairs are distinct
		outs = append(outs, txk.Out(dests[i%len(dests)].Addr, unit, h))
		outHours += h
	}
	if outHours >= ample {
		return coin.Transaction{}, false
	}
	outs = append(outs, txk.Out(dests[g.Intn(len(dests))].Addr, coins-uint64(n-1)*unit, (ample-outHours)/2+uint64(n)))
	if (ample-outHours)/2+uint64(n) > ample-outHours {
		return coin.Transaction{}, false
	}
	t := l.MakeTxn(in, outs, g)
	if sz := ledger.TxnSize(&t); sz <= uint64(create.MaxTransactionSize) || sz > uint64(unconf.MaxTransactionSize) {
		return coin.Transaction{}, false
	}
	return t, true
}

type pubTxn struct {
	T     coin.Transaction
	Class string
}

func runPublisher(l *txk.Lane, g *rand.Rand, li int) {
	if l.Arb == nil {
		r.Count("node.pub.lane-without-publisher-node", 1)
		return
	}
	unconfVP := l.Chain.Unconfirmed
	createVP := l.Chain.CreateBlock
	locked := l.Chain.LockedAddrs()
	differ := unconfVP != createVP
	if differ {
		r.Count("node.pub.lanes-params-differ", 1)
		if createVP.BurnFactor != unconfVP.BurnFactor {
			r.Count("node.pub.lanes-params-differ.burn", 1)
		}
		if createVP.MaxDropletPrecision != unconfVP.MaxDropletPrecision {
			r.Count("node.pub.lanes-params-differ.precision", 1)
		}
		if createVP.MaxTransactionSize != unconfVP.MaxTransactionSize {
			r.Count("node.pub.lanes-params-differ.size", 1)
		}
	} else {
		r.Count("node.pub.lanes-params-equal", 1)
	}
	pstr := fmt.Sprintf("unconfirmed=%d/%d/%d create=%d/%d/%d", unconfVP.BurnFactor, unconfVP.MaxTransactionSize, unconfVP.MaxDropletPrecision,
		createVP.BurnFactor, createVP.MaxTransactionSize, createVP.MaxDropletPrecision)

	pool := map[cipher.SHA256]*pubTxn{} // what the publisher node's pool holds, by the harness' own hash
	var order []cipher.SHA256
	used := map[cipher.SHA256]bool{} // inputs named by a pool transaction: batches keep inputs disjoint
	rounds := 2
	for round := 0; round < rounds; round++ {
		head := l.M.HeadTime()
		// --- inject a batch through the foreign path
		for ci, pc := range pubClasses {
			if round > 0 && ci%2 == 1 {
				continue // later rounds: half a batch (the pool still holds what was left out before)
			}
			first, second := unconfVP, createVP
			name := pc.Class
			if pc.Swap {
				first, second = createVP, unconfVP
				name += "@create"
			}
			var t coin.Transaction
			ok := false
			for try := 0; try < 8 && !ok; try++ {
				if pc.Class == "size-between" {
					t, ok = genSizeBetween(l, g, unconfVP, createVP)
				} else {
					t, ok = genNode(l, g, pc.Class, first, second)
				}
				if !ok {
					if pc.Class == "size-between" && unconfVP.MaxTransactionSize > createVP.MaxTransactionSize {
						continue // other inputs may carry enough hours
					}
					break
				}
				for _, id := range t.In {
					if used[id] {
						ok = false
					}
				}
				// the class solvers assume inputs of many whole coins; outputs of earlier created blocks
				// may be one-coin outputs: whatever is not hard-valid per the model is not used here
				if ok && len(nonLegacy(l.M.TxnSingleHard(&t))) > 0 {
					ok = false
				}
			}
			if !ok {
				r.Count("node.pub.gen-skipped."+name, 1)
				continue
			}
			if hard := nonLegacy(l.M.TxnSingleHard(&t)); len(hard) > 0 {
				r.Inconclusive(fmt.Sprintf("lane %d: publisher-phase class %s is hard-invalid per model: %v", li, name, hard))
				return
			}
			var err error
			if p, msg, frame := vf.Recover(func() { _, _, err = l.Arb.V.InjectForeignTransaction(t) }); p {
				if !capped("panic/pub-foreign/" + frame) {
					r.Violation("panic", map[string]string{"call": "InjectForeignTransaction", "frame": frame, "msg": msg, "class": name, "node": "publisher"}, hx(ledger.TxnBytes(&t)))
				}
				return
			}
			if err != nil {
				// hard-valid per model yet refused: the classification leg (follower) judges this; here the
				// transaction is simply not in the pool
				r.Count("node.pub.injected.refused", 1)
				continue
			}
			r.Count("node.pub.injected", 1)
			h := ledger.TxnHash(&t)
			pool[h] = &pubTxn{T: t, Class: name}
			order = append(order, h)
			for _, id := range t.In {
				used[id] = true
			}
		}

		// --- expected verdicts at this head, before anything is created
		type exp struct {
			hard         []string
			softU, softC verdict
		}
		exps := map[cipher.SHA256]exp{}
		eligible, eligibleBytes := 0, uint64(0)
		for _, h := range order {
			p, ok := pool[h]
			if !ok {
				continue
			}
			uxIn := coin.UxArray(l.Ins(&p.T))
			e := exp{hard: nonLegacy(l.M.TxnSingleHard(&p.T))}
			e.softU = softModel(&p.T, uxIn, head, unconfVP, locked)
			e.softC = softModel(&p.T, uxIn, head, createVP, locked)
			exps[h] = e
			if len(e.hard) == 0 && len(e.softC.Broken) == 0 {
				eligible++
				eligibleBytes += e.softC.Size
			}
		}

		// --- create a block
		when := l.NextTime(uint64(1 + g.Intn(40000)))
		var sb coin.SignedBlock
		var err error
		if p, msg, frame := vf.Recover(func() { sb, err = l.Arb.V.VerifCreateAndExecuteBlock(when) }); p {
			if !capped("panic/create-block/" + frame) {
				r.Violation("panic", map[string]string{"call": "CreateAndExecuteBlock", "frame": frame, "msg": msg, "params": pstr}, nil)
			}
			return
		}
		r.Eval(1)
		if err != nil {
			if eligible == 0 {
				r.Count("node.pub.no-block.nothing-eligible", 1)
				continue
			}
			if !capped("pub-no-block") {
				r.Violation("soft-valid-left-out-of-created-block", map[string]string{"context": "create-block", "outcome": "no block created", "err": err.Error(),
					"eligible": fmt.Sprint(eligible), "params": pstr}, map[string]interface{}{"head_time": head, "pool": len(pool)})
			}
			return
		}
		r.Count("node.pub.blocks-created", 1)
		if differ {
			r.Count("node.pub.blocks-created.params-differ", 1)
		}
		inBlock := map[cipher.SHA256]bool{}
		for i := range sb.Body.Transactions {
			t := &sb.Body.Transactions[i]
			h := ledger.TxnHash(t)
			inBlock[h] = true
			p, ok := pool[h]
			if !ok {
				r.Inconclusive(fmt.Sprintf("lane %d: created block holds a transaction the harness did not inject", li))
				return
			}
			e := exps[h]
			r.Eval(1)
			r.Count("node.pub.block-txns.judged", 1)
			r.Distinct(fmt.Sprintf("pub:%s:%s:%s:%d:%d", p.Class, join(e.softU.Broken), join(e.softC.Broken), li%len(laneParams), (li/len(laneParams))%4))
			if e.softC.Unstated {
				r.Count("node.pub.unstated", 1)
				continue
			}
			if len(e.softC.Broken) == 0 {
				r.Count("node.pub.block-txns.soft-valid", 1)
				r.Count("node.pub.block-txns.class."+p.Class, 1)
				continue
			}
			underUnconf := "also-invalid"
			if len(e.softU.Broken) == 0 {
				underUnconf = "valid"
			}
			if !capped("pub-in-block/" + join(e.softC.Broken)) {
				r.Violation("soft-invalid-in-created-block", map[string]string{"context": "create-block", "rules": join(e.softC.Broken), "class": p.Class,
					"under_unconfirmed_params": underUnconf, "params": pstr},
					map[string]interface{}{"txn": hx(ledger.TxnBytes(t)), "inputs": l.Ins(t), "head_time": head, "block_time": when,
						"create_block_params": createVP, "unconfirmed_params": unconfVP, "in_hours": fmt.Sprint(e.softC.InHours), "out_hours": fmt.Sprint(e.softC.OutHours),
						"required_create_block": fmt.Sprint(e.softC.Required), "required_unconfirmed": fmt.Sprint(e.softU.Required), "size": e.softC.Size})
			}
		}
		// --- what was left out
		room := eligibleBytes <= uint64(l.Chain.MaxBlock) && eligible <= coin.MaxBlockTransactions
		for _, h := range order {
			p, ok := pool[h]
			if !ok || inBlock[h] {
				continue
			}
			e := exps[h]
			r.Eval(1)
			switch {
			case len(e.hard) > 0:
				r.Count("node.pub.left-out.hard-invalid", 1)
			case e.softC.Unstated || e.softU.Unstated:
				r.Count("node.pub.unstated", 1)
			case len(e.softC.Broken) > 0 && len(e.softU.Broken) == 0:
				r.Count("node.pub.left-out.between", 1)
				for _, b := range e.softC.Broken {
					r.Count("node.pub.left-out.between."+b, 1)
				}
				r.Distinct(fmt.Sprintf("pub-out:%s:%s:%d:%d", p.Class, join(e.softC.Broken), li%len(laneParams), (li/len(laneParams))%4))
			case len(e.softC.Broken) > 0:
				r.Count("node.pub.left-out.soft-invalid-both", 1)
			case room:
				// inputs of pool transactions are disjoint and everything eligible fits one block
				if !capped("pub-left-out/" + p.Class) {
					r.Violation("soft-valid-left-out-of-created-block", map[string]string{"context": "create-block", "outcome": "not in the block", "class": p.Class, "params": pstr},
						map[string]interface{}{"txn": hx(ledger.TxnBytes(&p.T)), "inputs": l.Ins(&p.T), "head_time": head, "create_block_params": createVP,
							"eligible": eligible, "eligible_bytes": eligibleBytes, "block_txns": len(sb.Body.Transactions)})
				}
			default:
				r.Count("node.pub.left-out.no-room", 1)
			}
		}
		if li%len(laneParams) == 1 && li < 2*len(laneParams) && round == 0 {
			r.Sample(map[string]interface{}{"leg": "node.publisher", "params": pstr, "head_time": head, "block_time": when, "pool": len(pool),
				"eligible_under_create_block": eligible, "block_txns": len(sb.Body.Transactions)})
		}
		// --- follow the publisher node's chain with the model
		if cs := nonLegacy(l.M.BlockConds(&sb)); len(cs) > 0 {
			// not a C11 matter (block validity is C01-C04); the model cannot follow, stop here
			r.Count("node.pub.created-block-not-followable", 1)
			return
		}
		l.M.ApplyBlock(sb)
		for h := range inBlock {
			delete(pool, h)
		}
	}
}
