// C11 — fee and soft rules accept exactly the transactions they should; soft failures are
// reported as soft, hard failures as hard.
//
// Leg "fn" (differential): transaction.VerifySingleTxnSoftConstraints against a math/big model
// of the statement over (transaction, input set, head time, verification parameters,
// distribution), boundary-biased: fee zero / exactly required / one short / one over, size equal
// to / one around the limit, every precision, locked and unlocked distribution owners, accrual
// and sum overflows.
//
// Leg "node" (classification): on real nodes (lib/fix) generated transactions whose hard
// validity (lib/ledger.TxnSingleHard) and soft validity (the same model) are known are given to
// InjectForeignTransaction and InjectUserTransaction; the Go type of the error is the observable.
package main

import (
	"encoding/hex"
	"fmt"
	"io/ioutil"
	"log"
	"math/big"
	"math/rand"
	"os"
	"path/filepath"
	"strings"
	"sync"

	"github.com/skycoin/skycoin/src/cipher"
	"github.com/skycoin/skycoin/src/coin"
	"github.com/skycoin/skycoin/src/params"
	"github.com/skycoin/skycoin/src/transaction"

	"verif/lib/fix"
	"verif/lib/ledger"
	"verif/lib/txk"
	"verif/lib/vf"
)

var r *vf.Run

var (
	capMu   sync.Mutex
	capSeen = map[string]int{}
)

func capped(key string) bool {
	capMu.Lock()
	defer capMu.Unlock()
	capSeen[key]++
	if capSeen[key] > 2 {
		r.Count("violation.repeats", 1)
		return true
	}
	return false
}

var (
	max64   = new(big.Int).SetUint64(^uint64(0))
	perHour = big.NewInt(3600000000)
	million = big.NewInt(1000000)
)

func bu(v uint64) *big.Int   { return new(big.Int).SetUint64(v) }
func fits(x *big.Int) bool   { return x.Sign() >= 0 && x.Cmp(max64) <= 0 }
func hx(b []byte) string     { return hex.EncodeToString(b) }
func join(l []string) string { return strings.Join(l, ",") }
func has(l []string, s string) bool {
	for _, x := range l {
		if x == s {
			return true
		}
	}
	return false
}

// ---------------------------------------------------------------------------------
// the model: the statement of C11 over big integers

type verdict struct {
	Broken   []string // soft rules broken (empty = passes)
	Unstated bool     // hours not representable in a way the statement leaves open (see assumptions)
	InHours  *big.Int
	OutHours *big.Int
	Required *big.Int
	Size     uint64
}

// accrued is hours + floor(coins*dt/3.6e9) at time t (no accrual before the output's own time).
// class: "" fine; "product" a 64-bit product of the documented computation overflows;
// "coinsec-sum" only the sum of whole-coin seconds and droplet seconds overflows;
// "final" only the final addition overflows
func accrued(ux coin.UxOut, t uint64) (*big.Int, string) {
	if t < ux.Head.Time {
		return bu(ux.Body.Hours), ""
	}
	dt := bu(t - ux.Head.Time)
	coins := bu(ux.Body.Coins)
	earned := new(big.Int).Mul(coins, dt)
	earned.Div(earned, perHour)
	total := new(big.Int).Add(bu(ux.Body.Hours), earned)
	whole := new(big.Int).Div(coins, million)
	rem := new(big.Int).Mod(coins, million)
	wholeSec := new(big.Int).Mul(whole, dt)
	dropSec := new(big.Int).Mul(rem, dt)
	if !fits(wholeSec) || !fits(dropSec) {
		return total, "product"
	}
	coinSec := new(big.Int).Add(wholeSec, new(big.Int).Div(dropSec, million))
	if !fits(coinSec) {
		return total, "coinsec-sum"
	}
	if !fits(total) {
		return total, "final"
	}
	return total, ""
}

func softModel(t *coin.Transaction, uxIn coin.UxArray, headTime uint64, vp params.VerifyTxn, locked map[cipher.Address]bool) verdict {
	var v verdict
	v.Size = ledger.TxnSize(t)
	if v.Size > uint64(vp.MaxTransactionSize) {
		v.Broken = append(v.Broken, "size")
	}
	in := new(big.Int)
	overflow := ""
	for _, ux := range uxIn {
		a, cls := accrued(ux, headTime)
		if cls != "" && overflow == "" {
			overflow = "accrual-" + cls
		}
		in.Add(in, a)
	}
	out := new(big.Int)
	for _, o := range t.Out {
		out.Add(out, bu(o.Hours))
	}
	v.InHours, v.OutHours = in, out
	if overflow == "" && !fits(in) {
		overflow = "in-sum"
	}
	if overflow == "" && !fits(out) {
		overflow = "out-sum"
	}
	switch {
	case overflow == "accrual-coinsec-sum":
		// the 64-bit hours of this input are not defined by the documented computation's checks
		// (unchecked addition, property C31); nothing is asserted for the fee rule
		v.Unstated = true
		v.Broken = append(v.Broken, "hours-overflow:"+overflow)
	case overflow != "":
		v.Broken = append(v.Broken, "hours-overflow:"+overflow)
	default:
		fee := new(big.Int).Sub(in, out)
		req := new(big.Int).Add(in, bu(uint64(vp.BurnFactor)-1))
		req.Div(req, bu(uint64(vp.BurnFactor)))
		v.Required = req
		switch {
		case fee.Sign() < 0:
			v.Broken = append(v.Broken, "fee-negative")
		case fee.Sign() == 0:
			v.Broken = append(v.Broken, "fee-zero")
		case fee.Cmp(req) < 0:
			v.Broken = append(v.Broken, "fee-insufficient")
		}
	}
	for _, ux := range uxIn {
		if locked[ux.Body.Address] {
			v.Broken = append(v.Broken, "locked")
			break
		}
	}
	div := uint64(1)
	for i := uint8(0); i < 6-vp.MaxDropletPrecision; i++ {
		div *= 10
	}
	for _, o := range t.Out {
		if o.Coins%div != 0 {
			v.Broken = append(v.Broken, "precision")
			break
		}
	}
	return v
}

func errClass(err error) string {
	switch err.(type) {
	case nil:
		return "none"
	case transaction.ErrTxnViolatesHardConstraint:
		return "hard"
	case transaction.ErrTxnViolatesSoftConstraint:
		return "soft"
	case transaction.ErrTxnViolatesUserConstraint:
		return "user"
	}
	return "other"
}

// ---------------------------------------------------------------------------------

func main() {
	fix.Quiet()
	log.SetOutput(ioutil.Discard) // coin.UxOut.CoinHours logs every overflow
	r = vf.Start("C11", "exploration")
	legFn()
	legNode()

	for _, rule := range []string{"size", "fee-zero", "fee-insufficient", "fee-negative", "locked", "precision"} {
		r.Floor("fn.sole."+rule, 100)
		r.Floor("fn.combo."+rule, 100)
	}
	for _, k := range []string{"fn.accepted", "fn.boundary.fee-exact.accepted", "fn.boundary.fee-one-short.rejected", "fn.boundary.fee-one-over.accepted",
		"fn.boundary.size-equal.accepted", "fn.boundary.size-limit-minus-1.rejected", "fn.boundary.size-limit-plus-1.accepted",
		"fn.boundary.precision-exact.accepted", "fn.boundary.precision-one-digit-more.rejected", "fn.unlocked-dist-owner.accepted",
		"fn.overflow.accrual-final.rejected", "fn.overflow.accrual-product.rejected", "fn.overflow.in-sum.rejected", "fn.overflow.out-sum.rejected",
		"fn.head-before-output.cases"} {
		r.Floor(k, 20)
	}
	for _, b := range burnFactors {
		r.Floor(fmt.Sprintf("fn.burn.%d", b), 100)
	}
	for p := 0; p <= 6; p++ {
		r.Floor(fmt.Sprintf("fn.precision.%d", p), 100)
	}
	for _, c := range []string{"valid", "fee-zero", "fee-one-short", "fee-exact", "precision", "locked", "oversize", "soft-multi"} {
		r.Floor("node.class."+c, 5)
	}
	for _, c := range []string{"unknown-input", "coins-created", "coins-destroyed", "hours-created", "wrong-owner", "dup-output", "zero-coin", "bad-length", "out-hours-overflow", "hard+soft"} {
		r.Floor("node.class."+c, 5)
	}
	for _, rule := range []string{"size", "fee-zero", "fee-insufficient", "locked", "precision"} {
		r.Floor("node.sole-soft."+rule, 20) // hard-valid, exactly this one soft rule broken under the pool's parameters
	}
	r.Floor("fn.forged-length.cases", 100)
	r.Floor("node.foreign.admitted-clean", 20)
	r.Floor("node.foreign.admitted-with-soft-error", 20)
	r.Floor("node.foreign.refused-hard", 20)
	r.Floor("node.user.admitted", 20)
	r.Floor("node.user.refused-soft", 20)
	r.Floor("node.user.refused-hard", 20)
	r.Floor("node.params-differ.user-soft-foreign-clean", 5)
	// publisher phase: create-block parameters stricter than the unconfirmed-pool parameters
	r.Floor("node.pub.lanes-params-differ", int64(r.Pick(12, 48)))
	for _, d := range []string{"burn", "precision", "size"} {
		r.Floor("node.pub.lanes-params-differ."+d, int64(r.Pick(4, 16)))
	}
	r.Floor("node.pub.blocks-created.params-differ", int64(r.Pick(12, 48)))
	r.Floor("node.pub.block-txns.judged", int64(r.Pick(60, 240)))
	r.Floor("node.pub.left-out.between", int64(r.Pick(30, 120)))
	for _, b := range []string{"fee-insufficient", "precision", "size"} {
		r.Floor("node.pub.left-out.between."+b, int64(r.Pick(4, 16)))
	}
	r.Extra("cpu_s", txk.CPUSeconds())
	r.Finish("fn: seeded tuples (1-4 inputs, 1-40 outputs, burn factor in {2,3,10,100,2^31,2^32-1}, max size in {1024, size, size-1, size+1, 2^32-1} with size >= 1024, precision 0..6, 0-6 distribution addresses with 0..n unlocked, inputs owned by locked/unlocked/ordinary addresses, head time after/at/before the outputs' times); output hours are solved from the big-integer input hours so that the fee is zero / one short of / exactly / one over the requirement, or hours overflow at a chosen step; accept/reject and the error's Go type are compared with the model. node: per lane a real publisher+follower with its own unconfirmed-pool parameters (user parameters set to burn 3 / size 2048 / precision 2 for the process), 18 classes of transactions (8 soft, 10 hard) solved against the shadow ledger at the current head; at the end of each lane a publisher-mode node whose create-block parameters are stricter than its unconfirmed-pool parameters (burn factor and/or precision and/or size; 12 of 16 lanes) receives batches of the soft classes solved against either parameter set (some lie between the two), creates blocks with an injected clock, and every transaction of every created block is judged by the same model under the create-block parameters at the head time used (transactions left out: between the two sets = expected, valid under the create-block set with room in the block = violation). A case is non-trivial when the set of broken rules, the boundary hit and the parameter triple form a distinct class.",
		"the model states the soft rules as the property does: size <= limit; fee = sum of input hours at head time - sum of output hours > 0 and >= ceil(input hours / burn factor); no input owned by a locked distribution address; every output a multiple of 10^(6-precision)",
		"when input or output hours are not representable in 64 bits (accrual product, final addition, sums) the fee is not computable: expected reject; when only the unchecked intermediate sum of coin-seconds wraps (property C31, D17) nothing is asserted for the fee rule (counted as fn.unstated)",
		"hard validity at node level comes from lib/ledger.TxnSingleHard",
		"a publisher node judges its pool with its create-block parameters at the time of its head block (the new block's own time plays no part); a transaction valid under them is expected in the created block only when no pool transaction shares an input and everything eligible fits into one block",
		"parameters stay within their validated ranges (burn >= 2, size limit >= 1024, precision <= 6, unlocked count <= addresses)",
		"held on the cases generated; not a proof",
	)
}

// ---------------------------------------------------------------------------------
// function level

var burnFactors = []uint32{2, 3, 10, 100, 1 << 31, ^uint32(0)}

type fnCase struct {
	T        coin.Transaction
	Ux       coin.UxArray
	Head     uint64
	VP       params.VerifyTxn
	Dist     params.Distribution
	Locked   map[cipher.Address]bool
	Target   string
	SizeMode string
	Notes    []string
}

// splitHours distributes total over n outputs (sum exact; total must fit 64 bits)
func splitHours(g *rand.Rand, total uint64, n int) []uint64 {
	out := make([]uint64, n)
	rest := total
	for i := 0; i < n-1; i++ {
		var x uint64
		if rest > 0 {
			switch g.Intn(3) {
			case 0:
				x = 0
			case 1:
				if rest == ^uint64(0) {
					x = g.Uint64()
				} else {
					x = uint64(g.Int63()) % (rest + 1)
				}
			default:
				x = rest / uint64(n-i)
			}
		}
		out[i] = x
		rest -= x
	}
	out[n-1] = rest
	return out
}

func genFn(g *rand.Rand) fnCase {
	var c fnCase
	c.VP.BurnFactor = burnFactors[g.Intn(len(burnFactors))]
	c.VP.MaxDropletPrecision = uint8(g.Intn(7))

	// distribution
	nDist := g.Intn(7)
	var distAddrs []cipher.Address
	for i := 0; i < nDist; i++ {
		a := txk.RandAddr(g)
		distAddrs = append(distAddrs, a)
		c.Dist.Addresses = append(c.Dist.Addresses, a.String())
	}
	unlocked := 0
	if nDist > 0 {
		unlocked = g.Intn(nDist + 1)
	}
	c.Dist.InitialUnlockedCount = uint64(unlocked)
	c.Dist.MaxCoinSupply = 100000000000000
	c.Dist.UnlockAddressRate = 5
	c.Dist.UnlockTimeInterval = 31536000
	c.Locked = map[cipher.Address]bool{}
	for i := unlocked; i < nDist; i++ {
		c.Locked[distAddrs[i]] = true
	}

	// what to aim for
	targets := []string{"fee-exact", "fee-one-short", "fee-one-over", "fee-zero", "fee-negative", "fee-ample", "fee-random",
		"fee-exact", "fee-one-short", "fee-ample", "fee-ample",
		"ovf-final", "ovf-product", "ovf-in-sum", "ovf-out-sum", "ovf-coinsec"}
	c.Target = targets[g.Intn(len(targets))]

	nIn := 1 + g.Intn(4)
	c.Head = uint64(1500000000 + g.Intn(100000000))
	for i := 0; i < nIn; i++ {
		var ux coin.UxOut
		ux.Head.BkSeq = uint64(g.Intn(100000))
		switch g.Intn(6) {
		case 0:
			ux.Head.Time = c.Head // no time passed
		case 1:
			ux.Head.Time = c.Head + uint64(1+g.Intn(1000)) // output "newer" than the head: no accrual
			c.Notes = append(c.Notes, "head-before-output")
		default:
			ux.Head.Time = c.Head - uint64(g.Intn(200000000))
		}
		switch g.Intn(4) {
		case 0:
			ux.Body.Coins = uint64(1+g.Intn(1000)) * 1000000
		case 1:
			ux.Body.Coins = uint64(1 + g.Int63n(100000000000000))
		case 2:
			ux.Body.Coins = uint64(1 + g.Intn(999999)) // below one coin
		default:
			ux.Body.Coins = uint64(g.Intn(1000))*1000000 + uint64(g.Intn(1000000)) + 1
		}
		switch g.Intn(4) {
		case 0:
			ux.Body.Hours = 0
		case 1:
			ux.Body.Hours = uint64(g.Intn(100))
		default:
			ux.Body.Hours = uint64(g.Int63n(1 << 40))
		}
		ux.Body.SrcTransaction = txk.RandHash(g)
		ux.Body.Address = txk.RandAddr(g)
		c.Ux = append(c.Ux, ux)
	}
	// owners from the distribution
	if nDist > 0 {
		switch g.Intn(5) {
		case 0: // a locked owner
			if unlocked < nDist {
				c.Ux[g.Intn(nIn)].Body.Address = distAddrs[unlocked+g.Intn(nDist-unlocked)]
			}
		case 1: // an unlocked distribution owner: must not count as locked
			if unlocked > 0 {
				c.Ux[g.Intn(nIn)].Body.Address = distAddrs[g.Intn(unlocked)]
				c.Notes = append(c.Notes, "unlocked-dist-owner")
			}
		}
	}
	// overflow shaping on input 0
	switch c.Target {
	case "ovf-final":
		// products fit, hours + earned does not
		c.Ux[0].Body.Coins = uint64(1+g.Intn(1000)) * 1000000
		c.Ux[0].Head.Time = c.Head - uint64(3600*(1+g.Intn(1000)))
		e, _ := accrued(coin.UxOut{Head: c.Ux[0].Head, Body: coin.UxBody{Coins: c.Ux[0].Body.Coins}}, c.Head)
		c.Ux[0].Body.Hours = ^uint64(0) - e.Uint64() + 1 + uint64(g.Intn(3)) // smallest values that overflow
		if g.Intn(3) == 0 {
			c.Ux[0].Body.Hours = ^uint64(0) - e.Uint64() // exactly 2^64-1: fits
			c.Notes = append(c.Notes, "accrual-exactly-max")
		}
	case "ovf-product":
		c.Ux[0].Body.Coins = uint64(1<<44+g.Intn(1<<20)) * 1000000 // whole coins * seconds overflows
		c.Ux[0].Head.Time = uint64(g.Intn(1000))
		c.Head = 1<<40 + uint64(g.Intn(1<<30))
		for i := range c.Ux {
			if c.Ux[i].Head.Time > c.Head {
				c.Ux[i].Head.Time = c.Head
			}
		}
	case "ovf-coinsec":
		// whole-coin seconds just below 2^64 (whole = floor((2^64-1)/dt)); the droplet seconds push
		// the sum over although both products fit
		dt := (uint64(1)<<21 + uint64(g.Int63n(1<<39))) | 1
		whole := ^uint64(0) / dt
		c.Head = dt + uint64(g.Intn(1000))
		c.Ux[0].Head.Time = c.Head - dt
		c.Ux[0].Body.Coins = whole*1000000 + 999999
		for i := 1; i < len(c.Ux); i++ {
			if c.Ux[i].Head.Time > c.Head {
				c.Ux[i].Head.Time = c.Head
			}
		}
	case "ovf-in-sum":
		if nIn < 2 {
			c.Ux = append(c.Ux, c.Ux[0])
			c.Ux[1].Body.SrcTransaction = txk.RandHash(g)
			nIn = 2
		}
		c.Ux[0].Head.Time, c.Ux[1].Head.Time = c.Head, c.Head
		c.Ux[0].Body.Hours = 1<<63 + uint64(g.Intn(1000))
		c.Ux[1].Body.Hours = 1<<63 - uint64(g.Intn(2)) // sum 2^64-1+... around the edge
	}

	// total input hours within burnFactor-1 of 2^64-1: the rounding-up of the required fee
	// must not wrap there
	if g.Intn(12) == 0 && !strings.HasPrefix(c.Target, "ovf") {
		var rest uint64
		for i := range c.Ux {
			c.Ux[i].Head.Time = c.Head
			if i > 0 {
				c.Ux[i].Body.Hours = uint64(g.Intn(1000))
				rest += c.Ux[i].Body.Hours
			}
		}
		span := uint64(c.VP.BurnFactor)
		if span > 4096 {
			span = 4096
		}
		c.Ux[0].Body.Hours = ^uint64(0) - uint64(g.Intn(int(span))) - rest
		c.Notes = append(c.Notes, "in-hours-at-top-of-range")
	}

	// input hours per model
	in := new(big.Int)
	computable := true
	for _, ux := range c.Ux {
		a, cls := accrued(ux, c.Head)
		if cls != "" {
			computable = false
		}
		in.Add(in, a)
	}
	if !fits(in) {
		computable = false
	}

	// outputs
	nOut := 1 + g.Intn(4)
	c.SizeMode = []string{"1024", "equal", "limit-minus-1", "limit-plus-1", "max", "max", "max"}[g.Intn(7)]
	if c.SizeMode == "equal" || c.SizeMode == "limit-minus-1" || c.SizeMode == "limit-plus-1" {
		nOut = 27 + g.Intn(14) // size above 1024 so that the limit stays in its validated range
	}
	if c.SizeMode == "1024" && g.Intn(2) == 0 {
		nOut = 20 + g.Intn(10) // sizes around 1024: 49+97n+37m
	}
	if c.Target == "ovf-out-sum" && nOut < 2 {
		nOut = 2
	}
	var outTotal uint64
	if computable {
		inU := in.Uint64()
		req := new(big.Int).Add(in, bu(uint64(c.VP.BurnFactor)-1))
		req.Div(req, bu(uint64(c.VP.BurnFactor)))
		rq := req.Uint64()
		fee := uint64(0)
		switch c.Target {
		case "fee-exact":
			fee = rq
		case "fee-one-short":
			if rq > 0 {
				fee = rq - 1
			}
		case "fee-one-over":
			fee = rq + 1
			if fee > inU {
				fee = inU
			}
		case "fee-zero":
			fee = 0
		case "fee-negative":
			fee = 0
		case "fee-random":
			if inU == ^uint64(0) {
				fee = g.Uint64()
			} else if inU > 0 {
				fee = g.Uint64() % (inU + 1)
			}
		default:
			// ample: between the requirement and everything
			fee = rq
			if inU > rq {
				fee = rq + g.Uint64()%(inU-rq+1)
			}
		}
		if fee > inU {
			fee = inU
		}
		outTotal = inU - fee
		if c.Target == "fee-negative" && outTotal < ^uint64(0) {
			outTotal += 1 + uint64(g.Intn(3))
			if outTotal < inU { // wrapped
				outTotal = ^uint64(0)
			}
		}
	} else {
		outTotal = uint64(g.Intn(1000))
	}
	hours := splitHours(g, outTotal, nOut)
	if c.Target == "ovf-out-sum" {
		hours[0] = 1<<63 + uint64(g.Intn(1000))
		hours[1] = 1<<63 + uint64(g.Intn(1000))
	}
	div := uint64(1)
	for i := uint8(0); i < 6-c.VP.MaxDropletPrecision; i++ {
		div *= 10
	}
	precMode := g.Intn(5)
	for i := 0; i < nOut; i++ {
		coins := uint64(1+g.Intn(5000)) * div // respects the precision
		if i == 0 {
			switch precMode {
			case 0: // one digit more than allowed (when a finer digit exists)
				if div > 1 {
					coins = uint64(1+g.Intn(5000))*div + (div/10)*uint64(1+g.Intn(9))
					c.Notes = append(c.Notes, "precision-one-digit-more")
				}
			case 1: // exactly at the allowed precision: last allowed digit non-zero
				coins = uint64(g.Intn(5000))*div*10 + div*uint64(1+g.Intn(9))
				c.Notes = append(c.Notes, "precision-exact")
			case 2:
				coins = uint64(1 + g.Int63n(1000000000000)) // arbitrary droplets
			}
		}
		c.T.Out = append(c.T.Out, txk.Out(txk.RandAddr(g), coins, hours[i]))
	}
	for _, ux := range c.Ux {
		c.T.In = append(c.T.In, ledger.UxID(ux))
	}
	c.T.Sigs = make([]cipher.Sig, len(c.T.In))
	for i := range c.T.Sigs {
		g.Read(c.T.Sigs[i][:])
	}
	txk.Seal(&c.T)
	size := uint32(ledger.TxnSize(&c.T))
	switch c.SizeMode {
	case "1024":
		c.VP.MaxTransactionSize = 1024
	case "equal":
		c.VP.MaxTransactionSize = size
	case "limit-minus-1":
		c.VP.MaxTransactionSize = size - 1
	case "limit-plus-1":
		c.VP.MaxTransactionSize = size + 1
	default:
		c.VP.MaxTransactionSize = ^uint32(0)
	}
	if c.VP.MaxTransactionSize < 1024 {
		c.VP.MaxTransactionSize = 1024
		c.SizeMode = "1024"
	}
	// the header's Length field is data supplied by whoever built the transaction: the size rule
	// speaks about the encoded size, whatever the field claims (hard rules check the field)
	if g.Intn(12) == 0 {
		forged := []uint32{0, 1, 100, size - 1, size + 1, c.VP.MaxTransactionSize, c.VP.MaxTransactionSize + 1, ^uint32(0)}
		c.T.Length = forged[g.Intn(len(forged))]
		if c.T.Length != size {
			c.Notes = append(c.Notes, "forged-length")
		}
	}
	return c
}

func legFn() {
	n := txk.Scaled(r.Pick(100000, 5000000))
	vf.Parallel(n, 16, func(i int) {
		g := r.Rand("fn", i)
		c := genFn(g)
		evalFn(&c, i < 3)
	})
}

func evalFn(c *fnCase, sample bool) {
	r.Eval(1)
	v := softModel(&c.T, c.Ux, c.Head, c.VP, c.Locked)
	var err error
	w := func() map[string]interface{} {
		return map[string]interface{}{
			"txn": hx(ledger.TxnBytes(&c.T)), "inputs": c.Ux, "head_time": c.Head, "params": c.VP,
			"distribution": c.Dist.Addresses, "unlocked": c.Dist.InitialUnlockedCount,
			"model_broken": v.Broken, "in_hours": fmt.Sprint(v.InHours), "out_hours": fmt.Sprint(v.OutHours), "required": fmt.Sprint(v.Required),
			"size": v.Size, "target": c.Target, "size_mode": c.SizeMode, "notes": c.Notes,
		}
	}
	if p, msg, frame := vf.Recover(func() {
		err = transaction.VerifySingleTxnSoftConstraints(c.T, c.Head, c.Ux, c.Dist, c.VP)
	}); p {
		if !capped("panic/" + frame) {
			r.Violation("panic", map[string]string{"call": "VerifySingleTxnSoftConstraints", "frame": frame, "msg": msg}, w())
		}
		return
	}
	cls := errClass(err)
	r.Count(fmt.Sprintf("fn.burn.%d", c.VP.BurnFactor), 1)
	r.Count(fmt.Sprintf("fn.precision.%d", c.VP.MaxDropletPrecision), 1)
	r.Count("fn.sizemode."+c.SizeMode, 1)
	if has(c.Notes, "head-before-output") {
		r.Count("fn.head-before-output.cases", 1)
	}
	if has(c.Notes, "forged-length") {
		r.Count("fn.forged-length.cases", 1)
	}
	r.Distinct(fmt.Sprintf("fn:%s:%s:%s:%d:%d", join(v.Broken), c.Target, c.SizeMode, c.VP.BurnFactor, c.VP.MaxDropletPrecision))
	if sample {
		r.Sample(map[string]interface{}{"leg": "fn", "case": w(), "code_error": fmt.Sprint(err)})
	}
	// error type: whatever is refused here is a soft failure
	if err != nil && cls != "soft" {
		if !capped("fn-class/" + cls) {
			r.Violation("soft-failure-wrong-error-type", map[string]string{"leg": "fn", "err_class": cls, "err": err.Error(), "model": join(v.Broken)}, w())
		}
	}
	if v.Unstated {
		r.Count("fn.unstated.coinsec-sum-wrap", 1)
		if err == nil {
			r.Count("fn.unstated.coinsec-sum-wrap.code-accepts", 1)
		}
		return
	}
	if len(v.Broken) == 0 {
		if err == nil {
			r.Count("fn.accepted", 1)
			boundary(c, &v, "accepted")
		} else if !capped("fn-rej/" + err.Error()) {
			r.Violation("soft-rules-reject-valid", map[string]string{"leg": "fn", "err": err.Error(), "target": c.Target, "size_mode": c.SizeMode}, w())
		}
		return
	}
	if len(v.Broken) == 1 {
		r.Count("fn.sole."+v.Broken[0], 1)
	} else {
		for _, b := range v.Broken {
			r.Count("fn.combo."+b, 1)
		}
	}
	if err != nil {
		r.Count("fn.rejected", 1)
		boundary(c, &v, "rejected")
		for _, b := range v.Broken {
			if strings.HasPrefix(b, "hours-overflow:") {
				r.Count("fn.overflow."+b[15:]+".rejected", 1)
			}
		}
	} else if !capped("fn-acc/" + join(v.Broken)) {
		r.Violation("soft-rules-accept-invalid", map[string]string{"leg": "fn", "rules": join(v.Broken), "target": c.Target, "size_mode": c.SizeMode, "burn": fmt.Sprint(c.VP.BurnFactor), "precision": fmt.Sprint(c.VP.MaxDropletPrecision)}, w())
	}
}

// boundary counts the boundary classes, judged by the model's numbers (not by the generator's intent)
func boundary(c *fnCase, v *verdict, outcome string) {
	if v.Required != nil && fits(v.InHours) && fits(v.OutHours) {
		fee := new(big.Int).Sub(v.InHours, v.OutHours)
		only := len(v.Broken) == 0 || (len(v.Broken) == 1 && strings.HasPrefix(v.Broken[0], "fee-"))
		if only && fee.Sign() > 0 {
			switch new(big.Int).Sub(fee, v.Required).String() {
			case "0":
				r.Count("fn.boundary.fee-exact."+outcome, 1)
			case "-1":
				r.Count("fn.boundary.fee-one-short."+outcome, 1)
			case "1":
				r.Count("fn.boundary.fee-one-over."+outcome, 1)
			}
		}
	}
	soleSize := len(v.Broken) == 0 || (len(v.Broken) == 1 && v.Broken[0] == "size")
	if soleSize {
		switch int64(c.VP.MaxTransactionSize) - int64(v.Size) {
		case 0:
			r.Count("fn.boundary.size-equal."+outcome, 1)
		case -1:
			r.Count("fn.boundary.size-limit-minus-1."+outcome, 1)
		case 1:
			r.Count("fn.boundary.size-limit-plus-1."+outcome, 1)
		}
	}
	solePrec := len(v.Broken) == 0 || (len(v.Broken) == 1 && v.Broken[0] == "precision")
	if solePrec {
		if has(c.Notes, "precision-exact") {
			r.Count("fn.boundary.precision-exact."+outcome, 1)
		}
		if has(c.Notes, "precision-one-digit-more") {
			r.Count("fn.boundary.precision-one-digit-more."+outcome, 1)
		}
	}
	if len(v.Broken) == 0 && has(c.Notes, "unlocked-dist-owner") {
		r.Count("fn.unlocked-dist-owner."+outcome, 1)
	}
	if len(v.Broken) == 0 && has(c.Notes, "accrual-exactly-max") {
		r.Count("fn.boundary.accrual-exactly-max."+outcome, 1)
	}
}

// ---------------------------------------------------------------------------------
// node level

var laneParams = []params.VerifyTxn{
	{BurnFactor: 3, MaxTransactionSize: 2048, MaxDropletPrecision: 2},
	{BurnFactor: 10, MaxTransactionSize: 32768, MaxDropletPrecision: 3},
	{BurnFactor: 100, MaxTransactionSize: 4096, MaxDropletPrecision: 6},
	{BurnFactor: 1 << 31, MaxTransactionSize: 2048, MaxDropletPrecision: 4},
}

var nodeClasses = []string{"valid", "fee-zero", "fee-one-short", "fee-exact", "fee-between", "precision", "precision-between", "locked", "oversize", "soft-multi",
	"unknown-input", "coins-created", "coins-destroyed", "hours-created", "wrong-owner", "dup-output", "zero-coin", "bad-length", "out-hours-overflow", "hard+soft"}

func legNode() {
	// the node's user parameters are process-wide configuration
	params.UserVerifyTxn = params.VerifyTxn{BurnFactor: 3, MaxTransactionSize: 2048, MaxDropletPrecision: 2}
	lanes := r.Pick(16, 64)
	perLane := txk.Scaled(r.Pick(125, 1600))
	root := vf.TempDir("c11")
	defer os.RemoveAll(root)
	vf.Parallel(lanes, 16, func(li int) {
		dir := filepath.Join(root, fmt.Sprint(li))
		_ = os.MkdirAll(dir, 0755)
		defer os.RemoveAll(dir)
		g := r.Rand("lane", li)
		lp := laneParams[li%len(laneParams)]
		l, err := txk.NewLane(fmt.Sprintf("c11-s%d-l%d", r.Seed, li), dir, 100000000000000, 10, 4, 2, func(c *fix.Chain) {
			c.Unconfirmed = lp
			c.CreateBlock = createParams(li, lp) // stricter than (or equal to) the pool's: publisher phase
			c.MaxBlock = 65536
		})
		if err != nil {
			r.Inconclusive(fmt.Sprintf("lane %d setup: %v", li, err))
			return
		}
		defer l.Close()
		if p, msg, frame := vf.Recover(func() { runLane(l, g, li, perLane) }); p {
			r.Inconclusive(fmt.Sprintf("lane %d: harness panic %s at %s", li, msg, frame))
		}
	})
}

func nonLegacy(cs []ledger.Cond) []string {
	var out []string
	for _, c := range cs {
		if c.Prop != "legacy" {
			out = append(out, c.Name)
		}
	}
	return out
}

func runLane(l *txk.Lane, g *rand.Rand, li, perLane int) {
	// fan-out: every key (distribution addresses included: 0,1 unlocked, 2,3 locked) gets outputs
	gen := l.Utxos()
	var outs []coin.TransactionOutput
	var spent uint64
	for i := 0; i < 40; i++ {
		coins := uint64(1000+g.Intn(9000)) * 1000000
		hrs := uint64(1000 + g.Intn(100000))
		outs = append(outs, txk.Out(l.Keys[i%len(l.Keys)].Addr, coins, hrs))
		spent += coins
	}
	outs = append(outs, txk.Out(l.GenKey.Addr, gen[0].Body.Coins-spent, 5000000))
	if err := l.Spread(gen, outs, 3600, g); err != nil {
		r.Inconclusive(fmt.Sprintf("lane %d: %v", li, err))
		return
	}
	userVP := params.UserVerifyTxn
	unconfVP := l.Chain.Unconfirmed
	locked := l.Chain.LockedAddrs()

	for k := 0; k < perLane; k++ {
		if k > 0 && k%25 == 0 {
			// advance the head so that accrued hours change: spend the genesis change output to itself
			ch := l.UtxosOf(l.GenKey.Addr)
			if len(ch) > 0 {
				a, _ := ledger.Accrued(ch[0], l.M.HeadTime())
				_ = l.Spread(ch[:1], []coin.TransactionOutput{txk.Out(l.GenKey.Addr, ch[0].Body.Coins, a.Uint64()/2)}, uint64(1+g.Intn(200000)), g)
			}
		}
		class := nodeClasses[(k+li)%len(nodeClasses)]
		t, ok := genNode(l, g, class, unconfVP, userVP)
		if !ok {
			r.Count("node.gen-skipped."+class, 1)
			continue
		}
		r.Eval(1)
		uxIn := coin.UxArray(l.Ins(&t))
		hard := nonLegacy(l.M.TxnSingleHard(&t))
		known := true
		for _, id := range t.In {
			if _, ok := l.M.Utxo[id]; !ok {
				known = false
			}
		}
		var softU, softF verdict
		if known {
			softF = softModel(&t, uxIn, l.M.HeadTime(), unconfVP, locked)
			softU = softModel(&t, uxIn, l.M.HeadTime(), userVP, locked)
			if len(hard) == 0 {
				// self-check of the two harness models against each other
				if lm := l.M.Soft(&t, ledger.VerifyParams{BurnFactor: unconfVP.BurnFactor, MaxTxnSize: unconfVP.MaxTransactionSize, MaxPrecision: unconfVP.MaxDropletPrecision}); (len(lm) == 0) != (len(softF.Broken) == 0) {
					r.Inconclusive(fmt.Sprintf("harness models disagree on soft validity: %v vs %v", lm, softF.Broken))
				}
			}
		}
		r.Count("node.class."+class, 1)
		if known && len(hard) == 0 && len(softF.Broken) == 1 {
			r.Count("node.sole-soft."+softF.Broken[0], 1) // one soft rule broken and nothing else
		}
		w := map[string]interface{}{"txn": hx(ledger.TxnBytes(&t)), "class": class, "inputs": uxIn, "head_time": l.M.HeadTime(),
			"model_hard": hard, "model_soft_unconfirmed": softF.Broken, "model_soft_user": softU.Broken, "unconfirmed_params": unconfVP, "user_params": userVP}
		r.Distinct(fmt.Sprintf("node:%s:%s:%s:%s:%d", class, join(hard), join(softF.Broken), join(softU.Broken), li%len(laneParams)))
		if li == 0 && k < 2 {
			r.Sample(map[string]interface{}{"leg": "node", "case": w})
		}

		// --- foreign
		var softErr *transaction.ErrTxnViolatesSoftConstraint
		var err error
		if p, msg, frame := vf.Recover(func() { _, softErr, err = l.Fol.V.InjectForeignTransaction(t) }); p {
			if !capped("panic/foreign/" + frame) {
				r.Violation("panic", map[string]string{"call": "InjectForeignTransaction", "frame": frame, "msg": msg, "class": class}, w)
			}
			continue
		}
		judge("foreign", class, hard, softF, err, softErr, w)

		// --- user
		if ledger.NullOutput(&t) {
			continue
		}
		if p, msg, frame := vf.Recover(func() { _, _, _, err = l.Fol.V.InjectUserTransaction(t) }); p {
			if !capped("panic/user/" + frame) {
				r.Violation("panic", map[string]string{"call": "InjectUserTransaction", "frame": frame, "msg": msg, "class": class}, w)
			}
			continue
		}
		judge("user", class, hard, softU, err, nil, w)
		if len(hard) == 0 && len(softU.Broken) > 0 && len(softF.Broken) == 0 && !softU.Unstated {
			r.Count("node.params-differ.user-soft-foreign-clean", 1)
		}
	}
	// last: the publisher-mode node creates blocks from its own pool (its chain leaves the follower's)
	runPublisher(l, g, li)
}

// judge compares the node's answer with the expected classification
func judge(path, class string, hard []string, soft verdict, err error, softErr *transaction.ErrTxnViolatesSoftConstraint, w map[string]interface{}) {
	cls := errClass(err)
	attrs := map[string]string{"path": path, "class": class, "model_hard": join(hard), "model_soft": join(soft.Broken), "err_class": cls, "err": fmt.Sprint(err)}
	if softErr != nil {
		attrs["soft_err"] = softErr.Error()
	}
	switch {
	case len(hard) > 0:
		// hard-invalid: refused with a hard-constraint error by both paths
		switch cls {
		case "hard":
			r.Count("node."+path+".refused-hard", 1)
		case "soft":
			if !capped("hard-as-soft/" + path + "/" + class) {
				r.Violation("hard-failure-reported-as-soft", attrs, w)
			}
		case "none":
			if softErr != nil {
				if !capped("hard-as-soft-admitted/" + path + "/" + class) {
					r.Violation("hard-failure-reported-as-soft", attrs, w)
				}
			} else if !capped("hard-admitted/" + path + "/" + class) {
				r.Violation("hard-invalid-admitted", attrs, w)
			}
		default:
			if !capped("hard-other/" + path + "/" + class) {
				r.Violation("hard-failure-wrong-error-type", attrs, w)
			}
		}
	case soft.Unstated:
		r.Count("node."+path+".unstated", 1)
	case len(soft.Broken) > 0:
		if path == "foreign" {
			// admitted, flagged with a soft error
			switch {
			case cls == "none" && softErr != nil:
				r.Count("node.foreign.admitted-with-soft-error", 1)
			case cls == "none":
				if !capped("soft-missed/" + class) {
					r.Violation("soft-invalid-admitted-without-soft-error", attrs, w)
				}
			case cls == "hard":
				if !capped("soft-as-hard/foreign/" + class) {
					r.Violation("soft-failure-reported-as-hard", attrs, w)
				}
			default:
				if !capped("soft-refused/foreign/" + class) {
					r.Violation("soft-invalid-foreign-refused", attrs, w)
				}
			}
		} else {
			switch cls {
			case "soft":
				r.Count("node.user.refused-soft", 1)
			case "hard":
				if !capped("soft-as-hard/user/" + class) {
					r.Violation("soft-failure-reported-as-hard", attrs, w)
				}
			case "none":
				if !capped("soft-admitted/user/" + class) {
					r.Violation("soft-invalid-admitted-by-user-path", attrs, w)
				}
			default:
				if !capped("soft-other/user/" + class) {
					r.Violation("soft-failure-wrong-error-type", attrs, w)
				}
			}
		}
	default:
		// fully valid
		if cls == "none" && softErr == nil {
			if path == "foreign" {
				r.Count("node.foreign.admitted-clean", 1)
			} else {
				r.Count("node.user.admitted", 1)
			}
		} else if cls == "soft" || softErr != nil {
			if !capped("valid-soft/" + path + "/" + class) {
				r.Violation("valid-reported-soft-invalid", attrs, w)
			}
		} else if cls == "hard" {
			if !capped("valid-hard/" + path + "/" + class) {
				r.Violation("valid-reported-hard-invalid", attrs, w)
			}
		} else if !capped("valid-other/" + path + "/" + class) {
			r.Violation("valid-refused", attrs, w)
		}
	}
}

// pickOwned returns n unspent outputs owned by ordinary (non-distribution, non-genesis) keys
func pickOwned(l *txk.Lane, g *rand.Rand, n int, wantLocked bool) []coin.UxOut {
	locked := l.Chain.LockedAddrs()
	var pool []coin.UxOut
	for _, ux := range l.Utxos() {
		if ux.Body.Address == l.GenKey.Addr {
			continue
		}
		if locked[ux.Body.Address] != wantLocked {
			continue
		}
		pool = append(pool, ux)
	}
	if len(pool) < n {
		return nil
	}
	g.Shuffle(len(pool), func(i, j int) { pool[i], pool[j] = pool[j], pool[i] })
	return pool[:n]
}

func reqFee(in uint64, burn uint32) uint64 {
	q := new(big.Int).Add(bu(in), bu(uint64(burn)-1))
	return q.Div(q, bu(uint64(burn))).Uint64()
}

// genNode solves a transaction of the wanted class against the lane's model
func genNode(l *txk.Lane, g *rand.Rand, class string, unconf, user params.VerifyTxn) (coin.Transaction, bool) {
	nIn := 1 + g.Intn(2)
	in := pickOwned(l, g, nIn, class == "locked")
	if in == nil {
		return coin.Transaction{}, false
	}
	head := l.M.HeadTime()
	var coins, hours uint64
	for _, ux := range in {
		coins += ux.Body.Coins
		a, _ := ledger.Accrued(ux, head)
		hours += a.Uint64()
	}
	dest := func() cipher.Address { return l.Keys[4+g.Intn(len(l.Keys)-4)].Addr }
	// strictest burn / precision of the two parameter sets: satisfies both
	burnMin := unconf.BurnFactor
	if user.BurnFactor < burnMin {
		burnMin = user.BurnFactor
	}
	ample := hours - reqFee(hours, burnMin) // output hours that satisfy both
	mk := func(outs []coin.TransactionOutput) coin.Transaction { return l.MakeTxn(in, outs, g) }
	two := func(c1, c2, h1, h2 uint64) []coin.TransactionOutput {
		return []coin.TransactionOutput{txk.Out(dest(), c1, h1), txk.Out(dest(), c2, h2)}
	}
	unit := uint64(1000000) // whole coins: fine for every precision
	switch class {
	case "valid", "locked":
		return mk(two(coins-unit, unit, ample/2, ample/4)), true
	case "fee-zero":
		return mk(two(coins-unit, unit, hours-hours/3, hours/3)), true
	case "fee-one-short":
		// one short of the unconfirmed-pool requirement
		rq := reqFee(hours, unconf.BurnFactor)
		if rq < 2 {
			return coin.Transaction{}, false
		}
		o := hours - (rq - 1)
		return mk(two(coins-unit, unit, o-o/2, o/2)), true
	case "fee-exact":
		rq := reqFee(hours, unconf.BurnFactor)
		o := hours - rq
		return mk(two(coins-unit, unit, o-o/2, o/2)), true
	case "fee-between":
		// enough for the pool's burn factor, not for the user's (when they differ)
		if unconf.BurnFactor == user.BurnFactor {
			return coin.Transaction{}, false
		}
		o := hours - reqFee(hours, unconf.BurnFactor)
		return mk(two(coins-unit, unit, o-o/2, o/2)), true
	case "precision":
		// finer than the pool allows (impossible at precision 6)
		if unconf.MaxDropletPrecision >= 6 {
			return coin.Transaction{}, false
		}
		return mk(two(coins-unit-1, unit+1, ample/2, ample/4)), true
	case "precision-between":
		// allowed by the pool, too fine for the user parameters
		if unconf.MaxDropletPrecision <= user.MaxDropletPrecision {
			return coin.Transaction{}, false
		}
		d := uint64(1)
		for i := uint8(0); i < 6-unconf.MaxDropletPrecision; i++ {
			d *= 10
		}
		return mk(two(coins-unit-d, unit+d, ample/2, ample/4)), true
	case "oversize":
		// larger than the pool's limit: many outputs of one coin
		n := int(unconf.MaxTransactionSize)/37 + 2
		if uint64(n)*unit >= coins || n > 2000 {
			return coin.Transaction{}, false
		}
		var outs []coin.TransactionOutput
		for i := 0; i < n-1; i++ {
			// (address, hours) pairs all distinct: identical outputs would make the transaction hard-invalid
			_ = dest() // keeps the lane's random stream as it was
			outs = append(outs, txk.Out(l.Keys[4+i%(len(l.Keys)-4)].Addr, unit, uint64(i/(len(l.Keys)-4))))
		}
		var small uint64
		for _, o := range outs {
			small += o.Hours
		}
		last := ample / 2
		if small > ample/2 {
			last = 0 // the model decides what else such a transaction breaks
		}
		outs = append(outs, txk.Out(dest(), coins-uint64(n-1)*unit, last))
		return mk(outs), true
	case "soft-multi":
		if unconf.MaxDropletPrecision >= 6 {
			return mk(two(coins-unit, unit, hours, 0)), true
		}
		return mk(two(coins-unit-1, unit+1, hours, 0)), true
	case "unknown-input":
		t := mk(two(coins-unit, unit, ample/2, ample/4))
		t.In[g.Intn(len(t.In))] = txk.RandHash(g)
		l.Resign(&t, g)
		return t, true
	case "coins-created":
		return mk(two(coins-unit, unit+unit*uint64(1+g.Intn(3)), ample/2, ample/4)), true
	case "coins-destroyed":
		return mk(two(coins-2*unit, unit, ample/2, ample/4)), true
	case "hours-created":
		return mk(two(coins-unit, unit, hours, uint64(1+g.Intn(5)))), true
	case "wrong-owner":
		t := mk(two(coins-unit, unit, ample/2, ample/4))
		j := g.Intn(len(t.In))
		t.Sigs[j] = txk.Sign(l.GenKey, ledger.SigMsg(t.InnerHash, t.In[j]), g)
		return t, true
	case "dup-output":
		a := dest()
		half := (coins / 2 / unit) * unit
		if half*2 != coins {
			// make the two outputs identical and keep the sum right with a third
			return mk([]coin.TransactionOutput{txk.Out(a, unit, 1), txk.Out(a, unit, 1), txk.Out(dest(), coins-2*unit, ample/2)}), true
		}
		return mk([]coin.TransactionOutput{txk.Out(a, half, ample/4), txk.Out(a, half, ample/4)}), true
	case "zero-coin":
		return mk([]coin.TransactionOutput{txk.Out(dest(), coins, ample/2), txk.Out(dest(), 0, 0)}), true
	case "bad-length":
		t := mk(two(coins-unit, unit, ample/2, ample/4))
		t.Length += uint32(1 + g.Intn(3))
		return t, true
	case "out-hours-overflow":
		return mk(two(coins-unit, unit, 1<<63+uint64(g.Intn(100)), 1<<63+uint64(g.Intn(100)))), true
	case "hard+soft":
		// coins created, and fee zero, and too fine
		return mk(two(coins-unit-1, unit+1+unit, hours, 0)), true
	}
	return coin.Transaction{}, false
}
