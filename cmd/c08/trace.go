package main

import (
	"bufio"
	"fmt"
	"os"
	"regexp"
	"strconv"
	"strings"
)

var (
	reLine    = regexp.MustCompile(`^(\d+)\s+(.*)$`)
	reResumed = regexp.MustCompile(`^<\.\.\. (\w+) resumed>(.*)$`)
)

// parseTrace extracts the ordered mutations of the file at path from an strace -f -y -xx log
func parseTrace(logPath, path string) ([]fsEvent, error) {
	f, err := os.Open(logPath)
	if err != nil {
		return nil, err
	}
	defer f.Close()
	sc := bufio.NewScanner(f)
	sc.Buffer(make([]byte, 1<<20), 64<<20)
	pending := map[string]string{} // pid -> unfinished call text
	var out []fsEvent
	// with -xx strace prints the -y path hex-escaped too
	var hx strings.Builder
	hx.WriteString("<")
	for i := 0; i < len(path); i++ {
		fmt.Fprintf(&hx, "\\x%02x", path[i])
	}
	hx.WriteString(">")
	marker := hx.String()
	for sc.Scan() {
		line := sc.Text()
		m := reLine.FindStringSubmatch(line)
		if m == nil {
			continue
		}
		pid, rest := m[1], m[2]
		if strings.HasSuffix(rest, "<unfinished ...>") {
			pending[pid] = strings.TrimSuffix(rest, "<unfinished ...>")
			continue
		}
		if rm := reResumed.FindStringSubmatch(rest); rm != nil {
			rest = pending[pid] + rm[2]
			delete(pending, pid)
		}
		if !strings.Contains(rest, marker) {
			continue
		}
		// only successful calls count
		eq := strings.LastIndex(rest, " = ")
		if eq < 0 {
			continue
		}
		ret := strings.TrimSpace(rest[eq+3:])
		if strings.HasPrefix(ret, "-1") {
			continue
		}
		call := rest[:eq]
		switch {
		case strings.HasPrefix(call, "pwrite64("):
			// pwrite64(3</p>, "\x..", 4096, 8192)
			q1 := strings.Index(call, "\"")
			q2 := strings.LastIndex(call, "\"")
			if q1 < 0 || q2 <= q1 {
				return nil, fmt.Errorf("unparsable pwrite64: %.80s", call)
			}
			data, err := unhex(call[q1+1 : q2])
			if err != nil {
				return nil, err
			}
			tailArgs := strings.Split(strings.Trim(call[q2+1:], " ,)"), ",")
			if len(tailArgs) != 2 {
				return nil, fmt.Errorf("unparsable pwrite64 args: %.80s", call[q2+1:])
			}
			n, _ := strconv.Atoi(strings.TrimSpace(tailArgs[0]))
			off, _ := strconv.ParseInt(strings.TrimSpace(tailArgs[1]), 10, 64)
			written, _ := strconv.Atoi(strings.Fields(ret)[0])
			if n != len(data) {
				return nil, fmt.Errorf("pwrite64 data truncated in trace (%d of %d bytes)", len(data), n)
			}
			out = append(out, fsEvent{Kind: "pwrite", Off: off, Data: data[:written]})
		case strings.HasPrefix(call, "write("):
			return nil, fmt.Errorf("unexpected sequential write to the database file: %.80s", call)
		case strings.HasPrefix(call, "ftruncate("):
			args := strings.Split(strings.Trim(call[strings.Index(call, ">")+1:], " ,)"), ",")
			sz, _ := strconv.ParseInt(strings.TrimSpace(args[len(args)-1]), 10, 64)
			out = append(out, fsEvent{Kind: "truncate", Size: sz})
		case strings.HasPrefix(call, "fdatasync("), strings.HasPrefix(call, "fsync("):
			out = append(out, fsEvent{Kind: "sync"})
		case strings.HasPrefix(call, "fallocate("), strings.HasPrefix(call, "pwritev("):
			return nil, fmt.Errorf("unsupported call on the database file: %.80s", call)
		}
	}
	return out, sc.Err()
}

func unhex(s string) ([]byte, error) {
	out := make([]byte, 0, len(s)/4)
	for i := 0; i < len(s); {
		if s[i] == '\\' && i+3 < len(s) && s[i+1] == 'x' {
			v, err := strconv.ParseUint(s[i+2:i+4], 16, 8)
			if err != nil {
				return nil, err
			}
			out = append(out, byte(v))
			i += 4
			continue
		}
		return nil, fmt.Errorf("unexpected character in -xx string at %d", i)
	}
	return out, nil
}
