// Command c08 decides property C08: the chain database recovers from a crash at any point.
//
// A scripted node life-cycle (database creation, start-up verification, bucket creation, genesis,
// N block acceptances, pool updates) runs in a child under strace; every prefix of the recorded
// writes to data.db (the last write possibly partial) is materialised as a crash state; a fresh
// child restarts on each state exactly like the node does, must finish, pass the node's own
// verification, and after being fed the whole script again must end in the same state as the
// node that never crashed.
package main

import (
	"bytes"
	"crypto/sha256"
	"encoding/hex"
	"encoding/json"
	"fmt"
	"io/ioutil"
	"os"
	"os/exec"
	"path/filepath"
	"runtime"
	"sort"
	"strings"
	"sync"
	"time"

	"github.com/blang/semver"

	"github.com/skycoin/skycoin/src/cipher"
	"github.com/skycoin/skycoin/src/coin"
	"github.com/skycoin/skycoin/src/visor"
	"github.com/skycoin/skycoin/src/visor/dbutil"

	"verif/lib/fix"
	"verif/lib/ledger"
	"verif/lib/vf"
)

// Op is one scripted input to the node
type Op struct {
	Kind  string            `json:"kind"` // block | inject | refresh | remove-invalid
	Block *coin.SignedBlock `json:"block,omitempty"`
	Txn   *coin.Transaction `json:"txn,omitempty"`
}

// Script is what a child needs to rebuild the chain parameters and replay the inputs
type Script struct {
	ChainTag   string `json:"chain_tag"`
	Volume     uint64 `json:"volume"`
	GenesisSig string `json:"genesis_sig"`
	Ops        []Op   `json:"ops"`
}

func (s *Script) chain() *fix.Chain {
	c := fix.NewChain(s.ChainTag, s.Volume, 7, 4, 2)
	b, _ := hex.DecodeString(s.GenesisSig)
	copy(c.GenesisSig[:], b)
	return c
}

var appVersion = semver.MustParse("0.27.0")

var noSync bool

// startup mirrors skycoin.Coin.Run up to visor.Init for a non-publisher node:
// OpenDB -> checkAndUpdateDB (version check, verification when the version is absent or forced,
// optional reset of a corrupt database, version stamp) -> visor.New -> Init
func startup(path string, c *fix.Chain, force, reset bool) (*dbutil.DB, *visor.Visor, string, error) {
	db, err := visor.OpenDB(path, false)
	if err != nil {
		return nil, nil, "open", err
	}
	// restart children do not need durability (their files are thrown away): skip fsync for speed.
	// The recorded run keeps bolt's normal syncing.
	db.DB.NoSync = noSync
	ver, err := visor.GetDBVersion(db)
	if err != nil {
		db.Close()
		return nil, nil, "get-version", err
	}
	if ver != nil && ver.GT(appVersion) {
		db.Close()
		return nil, nil, "version", fmt.Errorf("newer db version")
	}
	if ver == nil || force {
		if reset {
			ndb, err := visor.ResetCorruptDB(db, c.Publisher.Pub, nil)
			if err != nil {
				return nil, nil, "reset-corrupt", err
			}
			db = ndb
		} else if err := visor.CheckDatabase(db, c.Publisher.Pub, nil); err != nil {
			db.Close()
			return nil, nil, "check-database", err
		}
	}
	if err := visor.SetDBVersion(db, appVersion); err != nil {
		db.Close()
		return nil, nil, "set-version", err
	}
	v, err := visor.New(c.Config(false, false), db, nil)
	if err != nil {
		db.Close()
		return nil, nil, "visor-new", err
	}
	if err := v.Init(); err != nil {
		db.Close()
		return nil, nil, "visor-init", err
	}
	return db, v, "", nil
}

// apply feeds the script to the node the way a syncing node receives it: blocks at or below the
// head are skipped, failures of single inputs are ignored
func apply(v *visor.Visor, s *Script) {
	for _, op := range s.Ops {
		switch op.Kind {
		case "block":
			head, err := v.GetHeadBlock()
			if err == nil && head != nil && op.Block.Head.BkSeq <= head.Head.BkSeq {
				continue
			}
			_ = v.ExecuteSignedBlock(*op.Block)
		case "inject":
			_, _, _ = v.InjectForeignTransaction(*op.Txn)
		case "refresh":
			_, _ = v.RefreshUnconfirmed()
		case "remove-invalid":
			_, _ = v.RemoveInvalidUnconfirmed()
		}
	}
	// Every start-up (visor.Init) and the daemon's periodic pass drop pooled transactions that have
	// become hard-invalid; a restarted node has therefore run this pass at least once more than the
	// node that never crashed. Compare both at quiescence after one more pass.
	_, _ = v.RemoveInvalidUnconfirmed()
}

// Summary is the comparable end state of a node
type Summary struct {
	Stage    string            `json:"stage"` // "" if start-up succeeded
	Err      string            `json:"err"`
	HeadSeq  uint64            `json:"head_seq"`
	HeadHash string            `json:"head_hash"`
	Buckets  map[string]string `json:"buckets"`
	Pool     []string          `json:"pool"`
	Unspents int               `json:"unspents"`
	CheckErr string            `json:"check_err"` // the node's own verification after convergence
}

var comparedBuckets = []string{"blocks", "block_sigs", "block_tree", "blockchain_meta", "unspent_pool", "unspent_meta", "transactions", "uxouts", "address_in", "address_txns", "history_meta", "unconfirmed_unspents"}

func summarize(db *dbutil.DB, v *visor.Visor, pub cipher.PubKey) Summary {
	s := Summary{Buckets: map[string]string{}}
	head, err := v.GetHeadBlock()
	if err == nil && head != nil {
		s.HeadSeq = head.Head.BkSeq
		s.HeadHash = ledger.HeaderHash(head.Head).Hex()
	}
	d := fix.DumpDB(db)
	for _, b := range comparedBuckets {
		s.Buckets[b] = d.Digest[b]
	}
	// the address index is compared as sets (the code defines no order inside an address's list)
	k, vals := fix.RawBucket(db, "unspent_pool_addr_index")
	h := sha256.New()
	for i := range k {
		h.Write(k[i])
		var hs []string
		body := vals[i]
		if len(body) >= 4 {
			for j := 4; j+32 <= len(body); j += 32 {
				hs = append(hs, string(body[j:j+32]))
			}
		}
		sort.Strings(hs)
		for _, x := range hs {
			h.Write([]byte(x))
		}
	}
	s.Buckets["unspent_pool_addr_index(set)"] = hex.EncodeToString(h.Sum(nil)[:16])
	pk, _ := fix.RawBucket(db, "unconfirmed_txns")
	for _, x := range pk {
		s.Pool = append(s.Pool, hex.EncodeToString(x))
	}
	sort.Strings(s.Pool)
	uxs, _ := v.GetAllUnspentOutputs()
	s.Unspents = len(uxs)
	if err := visor.CheckDatabase(db, pub, nil); err != nil {
		s.CheckErr = err.Error()
	}
	return s
}

func readScript(p string) *Script {
	b, err := ioutil.ReadFile(p)
	if err != nil {
		fmt.Fprintln(os.Stderr, err)
		os.Exit(2)
	}
	var s Script
	if err := json.Unmarshal(b, &s); err != nil {
		fmt.Fprintln(os.Stderr, err)
		os.Exit(2)
	}
	return &s
}

// childRun: the recorded life-cycle (args: dbpath script)
func childRun() {
	runtime.LockOSThread()
	fix.Quiet()
	s := readScript(os.Args[2])
	c := s.chain()
	db, v, stage, err := startup(os.Args[1], c, false, false)
	if err != nil {
		fmt.Fprintf(os.Stderr, "startup failed at %s: %v\n", stage, err)
		os.Exit(1)
	}
	apply(v, s)
	sum := summarize(db, v, c.Publisher.Pub)
	db.Close()
	_ = json.NewEncoder(os.Stdout).Encode(sum)
}

// childRestart: restart on a crash state (args: dbpath script mode), feed the script, report
func childRestart() {
	fix.Quiet()
	noSync = true
	s := readScript(os.Args[2])
	c := s.chain()
	mode := os.Args[3]
	db, v, stage, err := startup(os.Args[1], c, mode != "normal", mode == "reset-corrupt")
	if err != nil {
		_ = json.NewEncoder(os.Stdout).Encode(Summary{Stage: stage, Err: err.Error()})
		return
	}
	apply(v, s)
	sum := summarize(db, v, c.Publisher.Pub)
	db.Close()
	_ = json.NewEncoder(os.Stdout).Encode(sum)
}

// ---------------------------------------------------------------------------------

// fsEvent is one recorded mutation of data.db
type fsEvent struct {
	Kind string // pwrite | truncate | sync
	Off  int64
	Data []byte
	Size int64
}

func main() {
	switch vf.ChildMode() {
	case "run":
		childRun()
		return
	case "restart":
		childRestart()
		return
	}
	fix.Quiet()
	r := vf.Start("C08", "fault_enumeration")
	nScripts := r.Pick(1, 4)
	nBlocks := r.Pick(4, 12)
	root := vf.TempDir("c08")
	defer os.RemoveAll(root)
	for si := 0; si < nScripts; si++ {
		runScript(r, root, si, nBlocks)
	}
	_ = os.RemoveAll(root) // Finish exits the process; deferred calls would not run
	r.Floor("crash_states", 50)
	r.Floor("states.before_genesis", 1)
	r.Floor("states.inside_commit_partial_page", 1)
	r.Floor("restarts.converged", 50)
	r.Extra("exhaustive", true)
	r.Finish("One scripted node life-cycle per script seed (open, start-up verification, bucket creation, genesis, N blocks, pool injections, refresh, remove-invalid, close) recorded with strace; crash states = every prefix of the recorded pwrite64/ftruncate/fdatasync sequence on data.db, plus cuts of each data write at 0, 1, half and len-1 bytes (ordered-write crash model), each restarted in three modes (normal, forced verification, forced verification with reset of a corrupt database), then fed the whole script again and compared bucket-by-bucket with the never-crashed run. evaluations = restarts; distinct_nontrivial = distinct crash-state file digests. exhaustive over the recorded prefixes of the sampled life-cycles.",
		"ordered-write crash model: file operations reach the disk in the order they were issued; the last one may be partial",
		"the life-cycles themselves are samples (seeded); every prefix of each recorded run is enumerated",
		"a restart that exceeds the watchdog is a violation only with a deadlock witness in the goroutine dump, otherwise inconclusive",
	)
}

// buildScript runs a reference publisher in-process and records the inputs a follower would see
func buildScript(r *vf.Run, root string, si, nBlocks int) *Script {
	rng := r.Rand("script", si)
	tag := fmt.Sprintf("c08-seed%d-s%d", r.Seed, si)
	chain := fix.NewChain(tag, 100000000000000, 7, 4, 2)
	dir := filepath.Join(root, fmt.Sprintf("ref%d", si))
	_ = os.MkdirAll(dir, 0755)
	pub, err := chain.Open(filepath.Join(dir, "pub.db"), true, true)
	if err != nil {
		r.Inconclusive("reference publisher: " + err.Error())
		return nil
	}
	defer pub.Close()
	s := &Script{ChainTag: tag, Volume: chain.Volume, GenesisSig: hex.EncodeToString(chain.GenesisSig[:])}
	when := chain.Timestamp
	for b := 0; b < nBlocks; b++ {
		// one to three transactions into the pool, sometimes a conflicting one
		uxs, _ := pub.V.GetAllUnspentOutputs()
		sort.Slice(uxs, func(i, j int) bool { return uxs[i].Hash().Hex() < uxs[j].Hash().Hex() })
		head := pub.Head()
		nt := 1 + rng.Intn(3)
		used := map[cipher.SHA256]bool{}
		for t := 0; t < nt && len(uxs) > 0; t++ {
			ux := uxs[rng.Intn(len(uxs))]
			if _, ok := chain.KeyFor(ux.Body.Address); !ok {
				continue
			}
			if chain.LockedAddrs()[ux.Body.Address] {
				continue
			}
			conflict := used[ux.Hash()]
			used[ux.Hash()] = true
			hrs, err := ux.CoinHours(head.Head.Time)
			if err != nil {
				continue
			}
			c := ux.Body.Coins
			var outs []fix.Out
			if c >= 2000 && rng.Intn(2) == 0 {
				a := (c / 2000) * 1000
				outs = []fix.Out{{Addr: chain.Keys[rng.Intn(7)].Addr, Coins: a, Hours: hrs / 4}, {Addr: chain.Keys[rng.Intn(7)].Addr, Coins: c - a, Hours: hrs / 8}}
				if outs[0].Addr == outs[1].Addr && outs[0].Coins == outs[1].Coins {
					outs[1].Hours++
				}
			} else {
				outs = []fix.Out{{Addr: chain.Keys[rng.Intn(7)].Addr, Coins: c, Hours: hrs / 2}}
			}
			if conflict {
				outs[0].Hours = outs[0].Hours / 2
			}
			txn := chain.MakeTxn([]coin.UxOut{ux}, outs)
			if _, _, err := pub.V.InjectForeignTransaction(txn); err == nil {
				tc := txn
				s.Ops = append(s.Ops, Op{Kind: "inject", Txn: &tc})
			}
		}
		if rng.Intn(3) == 0 {
			s.Ops = append(s.Ops, Op{Kind: "refresh"})
		}
		when += uint64(60 + rng.Intn(100000))
		sb, err := pub.V.VerifCreateAndExecuteBlock(when)
		if err != nil {
			continue
		}
		bc := sb
		s.Ops = append(s.Ops, Op{Kind: "block", Block: &bc})
		if rng.Intn(2) == 0 {
			s.Ops = append(s.Ops, Op{Kind: "remove-invalid"})
		}
	}
	// a final pooled transaction that stays unconfirmed
	uxs, _ := pub.V.GetAllUnspentOutputs()
	sort.Slice(uxs, func(i, j int) bool { return uxs[i].Hash().Hex() < uxs[j].Hash().Hex() })
	for _, ux := range uxs {
		if _, ok := chain.KeyFor(ux.Body.Address); !ok || chain.LockedAddrs()[ux.Body.Address] {
			continue
		}
		hrs, err := ux.CoinHours(pub.Head().Head.Time)
		if err != nil || hrs < 4 {
			continue
		}
		txn := chain.MakeTxn([]coin.UxOut{ux}, []fix.Out{{Addr: chain.Keys[0].Addr, Coins: ux.Body.Coins, Hours: hrs / 2}})
		tc := txn
		s.Ops = append(s.Ops, Op{Kind: "inject", Txn: &tc})
		break
	}
	return s
}

func runScript(r *vf.Run, root string, si, nBlocks int) {
	s := buildScript(r, root, si, nBlocks)
	if s == nil {
		return
	}
	nb := 0
	for _, op := range s.Ops {
		if op.Kind == "block" {
			nb++
		}
	}
	r.Count("script.ops", int64(len(s.Ops)))
	r.Count("script.blocks", int64(nb))
	sdir := filepath.Join(root, fmt.Sprintf("s%d", si))
	_ = os.MkdirAll(sdir, 0755)
	sp := filepath.Join(sdir, "script.json")
	sb, _ := json.Marshal(s)
	_ = ioutil.WriteFile(sp, sb, 0644)

	// recorded run under strace
	self, _ := os.Executable()
	dbp := filepath.Join(sdir, "rec", "data.db")
	_ = os.MkdirAll(filepath.Dir(dbp), 0755)
	tracep := filepath.Join(sdir, "trace.log")
	cmd := exec.Command("strace", "-f", "-y", "-xx", "-s", "1048576", "-o", tracep, "-e", "trace=pwrite64,ftruncate,fdatasync,fsync,write,pwritev,fallocate", self, dbp, sp)
	cmd.Env = append(os.Environ(), "VERIF_CHILD=run")
	var out, errb bytes.Buffer
	cmd.Stdout, cmd.Stderr = &out, &errb
	if err := cmd.Run(); err != nil {
		r.Inconclusive(fmt.Sprintf("recorded run failed: %v: %s", err, errb.String()))
		return
	}
	var ref Summary
	if err := json.Unmarshal(out.Bytes(), &ref); err != nil {
		r.Inconclusive("recorded run gave no summary: " + out.String())
		return
	}
	if ref.CheckErr != "" || int(ref.HeadSeq) != nb {
		r.Inconclusive(fmt.Sprintf("reference run did not reach the expected head (%d of %d) or fails verification: %s", ref.HeadSeq, nb, ref.CheckErr))
		return
	}
	events, err := parseTrace(tracep, dbp)
	if err != nil {
		r.Inconclusive("trace: " + err.Error())
		return
	}
	_ = os.Remove(tracep)
	nw, nsync := 0, 0
	for _, e := range events {
		if e.Kind == "pwrite" {
			nw++
		}
		if e.Kind == "sync" {
			nsync++
		}
	}
	r.Count("recorded.page_writes", int64(nw))
	r.Count("recorded.syncs", int64(nsync))
	r.Count("recorded.events", int64(len(events)))
	if nw < 10 || nsync < 4 {
		r.Inconclusive(fmt.Sprintf("trace recorded too little (%d writes, %d syncs)", nw, nsync))
		return
	}
	r.Sample(map[string]interface{}{"script": si, "ops": len(s.Ops), "blocks": nb, "events": len(events), "page_writes": nw, "syncs": nsync, "reference_head": ref.HeadSeq})

	// enumerate crash states
	type state struct {
		prefix int // number of complete events applied
		cut    int // -1: none; else bytes of event[prefix] applied
		label  string
	}
	var states []state
	for i := 0; i <= len(events); i++ {
		states = append(states, state{prefix: i, cut: -1})
		if i < len(events) && events[i].Kind == "pwrite" && len(events[i].Data) > 1 {
			n := len(events[i].Data)
			for _, k := range []int{1, n / 2, n - 1} {
				states = append(states, state{prefix: i, cut: k})
			}
		}
	}
	// quick tier: all boundaries, partial cuts on every third write
	if r.Quick() {
		var f []state
		for _, st := range states {
			if st.cut == -1 || st.prefix%3 == 0 {
				f = append(f, st)
			}
		}
		states = f
	}
	modes := []string{"normal", "force-verify", "reset-corrupt"}
	var mu sync.Mutex
	seenFirstBlockSync := false
	_ = seenFirstBlockSync
	vf.Parallel(len(states), 16, func(ix int) {
		st := states[ix]
		wd := filepath.Join(sdir, fmt.Sprintf("st%d", ix))
		_ = os.MkdirAll(wd, 0755)
		defer os.RemoveAll(wd)
		img := materialise(events, st.prefix, st.cut)
		digest := sha256.Sum256(img)
		r.DistinctBytes(digest[:])
		r.Count("crash_states", 1)
		if st.cut >= 0 {
			r.Count("states.inside_commit_partial_page", 1)
		}
		for mi, mode := range modes {
			// quick tier: all three restart modes on every fourth state, one (rotating) elsewhere
			if r.Quick() && ix%4 != 0 && mi != ix%3 {
				continue
			}
			p := filepath.Join(wd, "data.db")
			_ = os.Remove(p)
			if len(img) > 0 || st.prefix > 0 {
				_ = ioutil.WriteFile(p, img, 0600)
			}
			res := vf.RunChild(wd, "", "restart", []string{p, sp, mode}, nil, 120*time.Second)
			r.Eval(1)
			attrs := map[string]string{"script": fmt.Sprint(si), "prefix": fmt.Sprint(st.prefix), "cut": fmt.Sprint(st.cut), "mode": mode, "events": fmt.Sprint(len(events))}
			wit := map[string]interface{}{"script_file_ops": len(s.Ops), "state": st, "mode": mode, "event": describe(events, st.prefix)}
			if res.TimedOut {
				dump := string(res.Stderr)
				if strings.Contains(dump, "WalkChain") && (strings.Contains(dump, "sync.(*WaitGroup).Wait") || strings.Contains(dump, "chan receive")) {
					attrs["witness"] = "goroutine dump shows verification blocked with no runnable worker"
					r.Violation("restart-hang", attrs, map[string]interface{}{"detail": wit, "dump_tail": tail(dump, 3000)})
				} else {
					r.Inconclusive("restart exceeded the watchdog without a deadlock witness: " + fmt.Sprint(attrs))
				}
				continue
			}
			if head, frame := vf.CrashSignature(res.Stderr); head != "" {
				attrs["frame"] = frame
				attrs["headline"] = head
				r.Violation("restart-crash", attrs, map[string]interface{}{"detail": wit, "stderr_tail": tail(string(res.Stderr), 3000)})
				continue
			}
			var sum Summary
			if err := json.Unmarshal(res.Stdout, &sum); err != nil {
				r.Inconclusive("restart child gave no summary: " + tail(string(res.Stderr), 500))
				continue
			}
			if sum.Stage != "" {
				// the node refused to start on this crash state
				mu.Lock()
				r.Count("restarts.refused."+sum.Stage, 1)
				mu.Unlock()
				attrs["stage"] = sum.Stage
				attrs["err"] = sum.Err
				r.Violation("restart-refused", attrs, wit)
				continue
			}
			if sum.HeadSeq == 0 && st.prefix < len(events) {
				r.Count("states.restart_from_genesis_or_before", 1)
			}
			diff := compare(ref, sum)
			if len(diff) > 0 {
				attrs["diff"] = strings.Join(diff, ",")
				r.Violation("not-converged", attrs, map[string]interface{}{"detail": wit, "reference": ref, "observed": sum})
				continue
			}
			r.Count("restarts.converged", 1)
			r.Count("restarts.converged."+mode, 1)
		}
		// classify where the crash fell
		if st.prefix < firstSyncAfterGenesis(events) {
			r.Count("states.before_genesis", 1)
		}
	})
}

func tail(s string, n int) string {
	if len(s) > n {
		return s[len(s)-n:]
	}
	return s
}

func describe(ev []fsEvent, i int) string {
	if i >= len(ev) {
		return "end of run"
	}
	e := ev[i]
	return fmt.Sprintf("%s off=%d len=%d size=%d", e.Kind, e.Off, len(e.Data), e.Size)
}

// firstSyncAfterGenesis: index of the event ending the 8th sync (bolt init = 2 syncs; version
// stamp, bucket creation, index build, genesis follow); a coarse marker used only for a counter
func firstSyncAfterGenesis(ev []fsEvent) int {
	n := 0
	for i, e := range ev {
		if e.Kind == "sync" {
			n++
			if n == 8 {
				return i
			}
		}
	}
	return len(ev)
}

func compare(ref, got Summary) []string {
	var d []string
	if ref.HeadSeq != got.HeadSeq || ref.HeadHash != got.HeadHash {
		d = append(d, fmt.Sprintf("head(%d!=%d)", got.HeadSeq, ref.HeadSeq))
	}
	for k, v := range ref.Buckets {
		if got.Buckets[k] != v {
			d = append(d, k)
		}
	}
	if strings.Join(ref.Pool, ",") != strings.Join(got.Pool, ",") {
		d = append(d, "pool")
	}
	if got.CheckErr != "" {
		d = append(d, "verification:"+got.CheckErr)
	}
	sort.Strings(d)
	return d
}

// materialise applies the first n events (and cut bytes of event n) to an empty file image
func materialise(ev []fsEvent, n, cut int) []byte {
	var img []byte
	applyW := func(off int64, data []byte) {
		end := int(off) + len(data)
		if end > len(img) {
			img = append(img, make([]byte, end-len(img))...)
		}
		copy(img[off:], data)
	}
	for i := 0; i < n && i < len(ev); i++ {
		switch ev[i].Kind {
		case "pwrite":
			applyW(ev[i].Off, ev[i].Data)
		case "truncate":
			if int(ev[i].Size) < len(img) {
				img = img[:ev[i].Size]
			} else {
				img = append(img, make([]byte, int(ev[i].Size)-len(img))...)
			}
		}
	}
	if cut >= 0 && n < len(ev) && ev[n].Kind == "pwrite" {
		applyW(ev[n].Off, ev[n].Data[:cut])
	}
	return img
}
