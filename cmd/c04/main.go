// Command c04 decides property C04 on the shared ledger workload (see lib/ledgerrun)
package main

import "verif/lib/ledgerrun"

func main() { ledgerrun.Main("C04") }
