// C28 — No API request can crash the node or the request handler.
//
// Real nodes (cmd/vnodeapi children, lib/node) run on copies of two prepared data directories
// built in-process through the visor and the wallet service: "main" (a chain of ~30 blocks
// with spent and unspent outputs, a pool with valid, soft-invalid and conflicting
// transactions, wallets of every type, key-value entries) and "genesis" (height 0, pooled
// transactions spending the genesis output). All API sets are on. A grammar-aware generator
// (lib/apifix) produces requests per documented endpoint from typed dictionaries, mutates
// earlier successful requests, and adds syntactically valid junk. Oracle per request: a
// syntactically complete HTTP response arrives (status line, headers, body of the announced
// length; JSON for every 200 answer). A closed connection, an "http: panic serving" line in
// the node's stderr, or a dead process is a violation; the request is on disk before it is
// sent. A request without answer after the watchdog is re-run alone on a fresh idle node and
// only counts if it reproduces against the bound.
//
// A slice of the nodes (conc.go) is driven by K clients at the same time, reading and changing
// the same few wallets, the pool and the key-value storage: same oracle per request; a missing
// answer there is judged by a logical deadlock witness (probes + goroutine dump) instead of the
// single-request reproduction. One of those nodes is a -race build whose data race reports are
// recorded as observations.
//
// Another slice (txshape.go) receives structure-aware malformed transactions on every endpoint that
// takes an encoded transaction: encoded consistently by the harness itself from outputs the node knows
// and its wallets own, with arrays that disagree (signatures vs inputs, repeated inputs, no outputs),
// combined with the wallet id / password / sign_indexes variations. Same oracle per request.
package main

import (
	"encoding/json"
	"fmt"
	"os"
	"path/filepath"
	"regexp"
	"sort"
	"strconv"
	"strings"
	"sync"
	"syscall"
	"time"

	"verif/lib/apifix"
	"verif/lib/node"
	"verif/lib/vf"
	"verif/lib/wire"
)

const (
	watchdog  = 90 * time.Second  // a response missing this long triggers the hang procedure
	hangBound = 120 * time.Second // bound for the single request on a fresh idle node (>= 500x the median request cost)
	slowBound = 60 * time.Second  // bound for the dedicated decimal-exponent probe
)

type harness struct {
	r      *vf.Run
	vnode  string
	tmp    string
	worlds map[string]*apifix.World
	seenMu sync.Mutex
	seen   map[string]int // violation class -> occurrences
	durMu  sync.Mutex
	durs   []time.Duration
	kept   map[string]string // world -> directory under replays/ holding its data directory
	// concurrent leg (conc.go)
	vnodeRace string // the node built with -race ("" = not built)
	maxConc   int64  // maximum number of requests in flight on one node
}

type job struct {
	World string `json:"world"`
	Index int    `json:"index"`
	N     int    `json:"n"`
	CSRF  bool   `json:"csrf"`
	Slow  bool   `json:"slow"` // may run the 1 GiB scrypt path (see apifix.Gen.AllowSlow)
}

type nodeCtx struct {
	job   job
	proc  *node.Proc
	addr  string
	dir   string
	peer  *wire.Peer
	logAt int // stderr offset already scanned
	// state-changing requests this node answered with 200, in order: a violation that depends on the
	// node's state (e.g. on a transaction injected earlier) replays after them
	history []*apifix.Req
}

var mutating = map[string]bool{"/api/v1/injectTransaction": true, "/api/v1/wallet/create": true, "/api/v1/wallet/newAddress": true, "/api/v1/wallet/scan": true,
	"/api/v1/wallet/update": true, "/api/v1/wallet/unload": true, "/api/v1/wallet/encrypt": true, "/api/v1/wallet/decrypt": true, "/api/v2/wallet/recover": true, "/api/v2/data": true}

func (h *harness) spawn(j job, tag string) (*nodeCtx, error) { return h.spawnWith(h.vnode, "", j, tag) }

// spawnWith: crypto != "" overrides the crypto type the wallet service uses for wallets it encrypts itself
func (h *harness) spawnWith(bin, crypto string, j job, tag string) (*nodeCtx, error) {
	dir := filepath.Join(h.tmp, tag)
	if err := os.MkdirAll(dir, 0755); err != nil {
		return nil, err
	}
	w := h.worlds[j.World]
	data := filepath.Join(dir, "data")
	if err := w.CopyTo(data); err != nil {
		return nil, err
	}
	o := w.NodeOptions(data)
	o.DisableCSRF = !j.CSRF
	o.APISets = nil // all
	if crypto != "" {
		o.WalletCrypto = crypto
	}
	var p *node.Proc
	var err error
	for try := 0; try < 3; try++ { // the peer port is probed, then bound: another process may take it in between
		p, err = node.Spawn(bin, dir, o)
		if err == nil {
			break
		}
	}
	if err != nil {
		return nil, err
	}
	n := &nodeCtx{job: j, proc: p, addr: p.APIAddr, dir: dir}
	// one introduced peer, so that the network endpoints have something to show
	if pr, err := wire.Dial(p.PeerAddr); err == nil {
		if pr.Introduce(w.Chain.Publisher.Pub, uint32(1000+j.Index), 20*time.Second) {
			n.peer = pr
		} else {
			pr.Close()
		}
	}
	return n, nil
}

func (n *nodeCtx) stop() {
	if n.peer != nil {
		n.peer.Close()
	}
	n.proc.Stop(30 * time.Second)
}

var rePanicHead = regexp.MustCompile(`http: panic serving ([0-9.:\[\]a-f]+): (.*)`)

type panicRec struct {
	Local string
	Msg   string
	Frame string
	Stack string
}

// panics extracts the "http: panic serving" records from a piece of the node's stderr
func panics(log string) []panicRec {
	var out []panicRec
	idx := rePanicHead.FindAllStringSubmatchIndex(log, -1)
	for i, m := range idx {
		end := len(log)
		if i+1 < len(idx) {
			end = idx[i+1][0]
		}
		block := log[m[0]:end]
		rec := panicRec{Local: log[m[2]:m[3]], Msg: strings.TrimSpace(log[m[4]:m[5]])}
		lines := strings.Split(block, "\n")
		afterPanic := false
		for _, l := range lines {
			t := strings.TrimSpace(l)
			if strings.HasPrefix(t, "panic(") {
				afterPanic = true
				continue
			}
			if afterPanic && strings.HasPrefix(t, "github.com/skycoin/skycoin/") && strings.Contains(t, "(") {
				rec.Frame = strings.TrimPrefix(t[:strings.LastIndex(t, "(")], "github.com/skycoin/skycoin/")
				break
			}
		}
		if rec.Frame == "" {
			for _, l := range lines {
				t := strings.TrimSpace(l)
				if strings.HasPrefix(t, "github.com/skycoin/skycoin/") && strings.Contains(t, "(") {
					rec.Frame = strings.TrimPrefix(t[:strings.LastIndex(t, "(")], "github.com/skycoin/skycoin/")
					break
				}
			}
		}
		if len(lines) > 40 {
			lines = lines[:40]
		}
		rec.Stack = strings.Join(lines, "\n")
		out = append(out, rec)
	}
	return out
}

func routeOf(q *apifix.Req) string {
	p := q.Target
	if i := strings.IndexByte(p, '?'); i >= 0 {
		p = p[:i]
	}
	return p
}

// keepWorld copies a world's data directory next to the replay files (signatures are randomised, so a
// rebuilt world has other transaction ids: a request that names outputs only replays on the original)
func (h *harness) keepWorld(name string) string {
	h.seenMu.Lock()
	defer h.seenMu.Unlock()
	if d, ok := h.kept[name]; ok {
		return d
	}
	dst := filepath.Join(vf.Root(), "replays", fmt.Sprintf("C28-seed%d-world-%s", h.r.Seed, name))
	os.RemoveAll(dst)
	_ = os.MkdirAll(filepath.Dir(dst), 0755)
	if w := h.worlds[name]; w == nil || w.CopyTo(dst) != nil {
		dst = ""
	}
	h.kept[name] = dst
	return dst
}

// report raises a violation once per (kind, route, frame) and counts the rest
func (h *harness) report(kind string, attrs map[string]string, witness interface{}) {
	if m, ok := witness.(map[string]interface{}); ok && h.r.ReplayPath() == "" {
		if j, ok := m["job"].(job); ok && h.worlds[j.World] != nil {
			m["world_dir"] = h.keepWorld(j.World)
			m["node_options"] = h.worlds[j.World].Opts
		}
	}
	key := kind + "|" + attrs["route"] + "|" + attrs["frame"] + "|" + attrs["world"] + "|" + attrs["value_class"]
	if attrs["class"] == "deadlock" { // the same deadlock catches different requests on different nodes
		key = kind + "|deadlock|" + attrs["frame"]
	}
	h.seenMu.Lock()
	h.seen[key]++
	first := h.seen[key] == 1
	h.seenMu.Unlock()
	h.r.Count("observed."+kind, 1)
	if first {
		h.r.Violation(kind, attrs, witness)
	}
}

func (h *harness) fetchToken(n *nodeCtx) string {
	r := apifix.Get(n.addr, "/api/v1/csrf")
	var doc struct {
		Token string `json:"csrf_token"`
	}
	if r.Fail == "" && json.Unmarshal(r.Body, &doc) == nil {
		return doc.Token
	}
	return ""
}

// send performs one request against a node and applies the oracle. It returns the response
// and whether the node is still usable.
func (h *harness) send(n *nodeCtx, q *apifix.Req, origin string) (*apifix.Resp, bool) {
	r := h.r
	route := routeOf(q)
	wit := map[string]interface{}{"job": n.job, "request": q, "origin": origin, "earlier_state_changing_requests": n.history}
	// the request is on disk before it is sent
	if b, err := json.Marshal(wit); err == nil {
		_ = os.WriteFile(filepath.Join(n.dir, "current-request.json"), b, 0644)
	}
	if n.job.CSRF && (q.Method == "POST" || q.Method == "PUT" || q.Method == "DELETE") && q.Header("X-CSRF-Token") == "" {
		if t := h.fetchToken(n); t != "" {
			q.Headers = append(q.Headers, [2]string{"X-CSRF-Token", t})
		}
	}
	resp := apifix.Do(n.addr, q, watchdog)
	r.Eval(1)
	r.Count("requests", 1)
	r.Count("requests.world_"+n.job.World, 1)
	attrs := map[string]string{"route": route, "method": q.Method, "world": n.job.World, "origin": origin}
	if resp.Fail == "" {
		h.durMu.Lock()
		if len(h.durs) < 200000 {
			h.durs = append(h.durs, resp.Dur)
		}
		h.durMu.Unlock()
		r.Count(fmt.Sprintf("status.%d", resp.Status), 1)
		// every documented result is JSON; an endpoint documented without a result may answer with an empty body
		if resp.Status == 200 && q.Method != "HEAD" && len(resp.Body) > 0 && !json.Valid(resp.Body) {
			attrs["frame"] = ""
			body := string(resp.Body)
			if len(body) > 200 {
				body = body[:200]
			}
			wit["response_body"] = body
			h.report("invalid-json-in-200-response", attrs, wit)
		}
		if resp.Status == 200 && q.Method != "GET" && mutating[route] && len(n.history) < 400 {
			n.history = append(n.history, q)
		}
		// a handler panic after the headers were written is only visible in the log
		return resp, true
	}
	// no syntactically complete response
	r.Count("incomplete."+resp.Fail, 1)
	time.Sleep(150 * time.Millisecond) // let the server finish writing its log line
	log := string(n.proc.Stderr())
	if n.logAt > len(log) {
		n.logAt = 0
	}
	recs := panics(log[n.logAt:])
	var mine *panicRec
	for i := range recs {
		if recs[i].Local == resp.Local {
			mine = &recs[i]
		}
	}
	alive := n.proc.Alive()
	wit["failure"] = resp.Fail + " " + resp.Detail
	switch {
	case mine != nil:
		attrs["frame"], attrs["msg"] = mine.Frame, mine.Msg
		wit["stack"] = mine.Stack
		h.report("panic", attrs, wit)
		n.logAt = len(log)
		return resp, alive
	case !alive:
		head, frame := vf.CrashSignature([]byte(log))
		attrs["frame"], attrs["msg"] = frame, head
		tail := log
		if len(tail) > 3000 {
			tail = tail[len(tail)-3000:]
		}
		wit["stderr_tail"] = tail
		h.report("node-died", attrs, wit)
		return resp, false
	case resp.Fail == "timeout":
		h.hang(n, q, attrs, wit)
		return resp, false
	case resp.Fail == "dial":
		r.Inconclusive("could not connect to a live node: " + resp.Detail)
		return resp, false
	default:
		// connection closed / malformed response without a panic record for this connection
		attrs["frame"] = ""
		attrs["failure"] = resp.Fail
		if len(recs) > 0 {
			attrs["frame"], attrs["msg"] = recs[len(recs)-1].Frame, recs[len(recs)-1].Msg
			wit["stack"] = recs[len(recs)-1].Stack
		}
		h.report("connection-closed-without-response", attrs, wit)
		n.logAt = len(log)
		return resp, alive
	}
}

// hang: dump the goroutines of the stuck node, then re-run the single request on a fresh idle
// node against the bound. Only a reproduction is a verdict.
func (h *harness) hang(n *nodeCtx, q *apifix.Req, attrs map[string]string, wit map[string]interface{}) {
	h.r.Count("watchdog_fired", 1)
	n.proc.DumpGoroutines()
	dump := string(n.proc.Stderr())
	if i := strings.LastIndex(dump, "SIGQUIT"); i >= 0 {
		dump = dump[i:]
	}
	frame := servingFrame(dump)
	if len(dump) > 6000 {
		dump = dump[:6000]
	}
	j := n.job
	j.CSRF = false
	fresh, err := h.spawn(j, fmt.Sprintf("hang-%s-%d-%d", j.World, j.Index, time.Now().UnixNano()%1e6))
	if err != nil {
		h.r.Inconclusive("watchdog fired and no fresh node could be started: " + err.Error())
		return
	}
	defer func() { fresh.proc.Kill(); os.RemoveAll(fresh.dir) }()
	resp := apifix.Do(fresh.addr, q, hangBound)
	if resp.Fail == "timeout" {
		attrs["frame"] = frame
		attrs["bound_s"] = fmt.Sprint(int(hangBound.Seconds()))
		wit["goroutine_dump"] = dump
		h.report("hang", attrs, wit)
		return
	}
	h.r.Count("watchdog_not_reproduced", 1)
	h.r.Inconclusive(fmt.Sprintf("watchdog fired for %s %s but the single request answered in %v on a fresh node", q.Method, routeOf(q), resp.Dur))
}

// servingFrame finds the first skycoin frame of a goroutine that serves an HTTP connection
func servingFrame(dump string) string {
	for _, g := range strings.Split(dump, "\n\n") {
		if !strings.Contains(g, "net/http.(*conn).serve") {
			continue
		}
		for _, l := range strings.Split(g, "\n") {
			t := strings.TrimSpace(l)
			if strings.HasPrefix(t, "github.com/skycoin/skycoin/src/") && strings.Contains(t, "(") && !strings.Contains(t, "/util/logging") && !strings.Contains(t, "/util/http") && !strings.Contains(t, "/util/gziphandler") {
				return strings.TrimPrefix(t[:strings.LastIndex(t, "(")], "github.com/skycoin/skycoin/")
			}
		}
	}
	return ""
}

// ---------------------------------------------------------------------------------
// workload

var junkTargets = []string{"/api/v1/nonexistent", "/", "/api/v1/wallet/../health", "/api/v1//health", "/api/v3/x", "/api/v1/health/", "/api/v1/block?seq=%zz", "/api/v1/block?seq=1;seq=2",
	"/api/v1/transaction?txid=%00", "/api/v1/balance?addrs=" + "A%2C", "/api/v1/health?" + "x=1&", "/api/v1/wallet?id=a&id=b", "/api/v2/transactions?page=1&page=2", "/api/v1/blocks?start=5&end=1",
	"/api/v1/blocks?start=0&end=18446744073709551615", "/api/v1/blocks?start=18446744073709551615&end=18446744073709551615", "/api/v1/last_blocks?num=0", "/api/v1/richlist?n=-1",
	"/api/v1/outputs?addrs=&hashes=", "/api/v1/outputs?addrs=x&hashes=y", "/api/v1/uxout", "/api/v1/address_uxouts", "/api/v1/transaction", "/api/v1/rawtx", "/api/v1/block", "/api/v1/blocks"}

func (h *harness) junk(g *apifix.Gen) *apifix.Req {
	r := g.Rng
	ms := []string{"GET", "POST", "PUT", "DELETE", "HEAD", "OPTIONS", "PATCH", "TRACE", "FOO"}
	q := &apifix.Req{Method: ms[r.Intn(len(ms))]}
	switch r.Intn(5) {
	case 0:
		q.Target = junkTargets[r.Intn(len(junkTargets))]
	case 1: // a documented path under an arbitrary method, with a body of the wrong kind
		e := apifix.Endpoints[r.Intn(len(apifix.Endpoints))]
		q.Target = e.Path
		q.Body = []string{"", "{}", "[]", "a=1&b=2", "null", strings.Repeat("x", 70000), "{\"a\":"}[r.Intn(7)]
		q.Headers = append(q.Headers, [2]string{"Content-Type", []string{"application/json", "application/x-www-form-urlencoded", "text/plain", "multipart/form-data"}[r.Intn(4)]})
	case 2: // long query
		q.Method = "GET"
		q.Target = "/api/v1/balance?addrs=" + strings.Repeat("2", 200+r.Intn(60000))
	case 3: // many headers / odd but legal header values
		q.Target = "/api/v1/health"
		q.Method = "GET"
		for i := 0; i < 1+r.Intn(80); i++ {
			q.Headers = append(q.Headers, [2]string{fmt.Sprintf("X-H%d", i), strings.Repeat("v", r.Intn(200))})
		}
		q.Headers = append(q.Headers, [2]string{"Accept-Encoding", "gzip"}, [2]string{"Origin", "null"}, [2]string{"Authorization", "Basic !!!"})
	default: // OPTIONS preflight
		e := apifix.Endpoints[r.Intn(len(apifix.Endpoints))]
		q.Method = "OPTIONS"
		q.Target = e.Path
		q.Headers = append(q.Headers, [2]string{"Origin", "http://evil.example"}, [2]string{"Access-Control-Request-Method", "POST"}, [2]string{"Access-Control-Request-Headers", "X-CSRF-Token, " + strings.Repeat("a,", r.Intn(50))})
	}
	return q
}

func (h *harness) runJob(j job) {
	r := h.r
	tag := fmt.Sprintf("%s-%03d", j.World, j.Index)
	n, err := h.spawn(j, tag)
	if err != nil {
		r.Inconclusive(fmt.Sprintf("node %s: %v", tag, err))
		return
	}
	w := h.worlds[j.World]
	g := apifix.NewGen(w, r.Rand("gen", j.World, j.Index))
	g.AllowSlow = j.Slow
	// weighted endpoint table
	var table []*apifix.EP
	for _, e := range apifix.Endpoints {
		wt := e.Weight
		if wt == 0 {
			wt = 10
		}
		for k := 0; k < wt; k++ {
			table = append(table, e)
		}
	}
	var okReqs []*apifix.Req
	restart := func() bool {
		n.stop()
		h.scanLog(n)
		os.RemoveAll(n.dir)
		n, err = h.spawn(j, tag+fmt.Sprintf("-r%d", r.Get("node_restarts")))
		r.Count("node_restarts", 1)
		if err != nil {
			r.Inconclusive(fmt.Sprintf("node %s restart: %v", tag, err))
			return false
		}
		return true
	}
	// every endpoint's minimal request first (so that each route is reached while the state is fresh)
	var plan []func() (*apifix.Req, string)
	for _, e := range apifix.Endpoints {
		e := e
		plan = append(plan, func() (*apifix.Req, string) { return g.Minimal(e), "minimal" })
	}
	for len(plan) < j.N {
		plan = append(plan, func() (*apifix.Req, string) {
			x := g.Rng.Intn(100)
			switch {
			case x < 4:
				return h.junk(g), "junk"
			case x < 14:
				return g.Minimal(table[g.Rng.Intn(len(table))]), "minimal"
			case x < 38 && len(okReqs) > 0:
				return g.Mutate(okReqs[g.Rng.Intn(len(okReqs))]), "mutation"
			default:
				return g.Generate(table[g.Rng.Intn(len(table))]), "grammar"
			}
		})
	}
	for i := 0; i < j.N && i < len(plan); i++ {
		q, origin := plan[i]()
		resp, usable := h.send(n, q, origin)
		route := routeOf(q)
		if apifix.FindEP(q.Method, route) != nil {
			r.Count("route."+q.Method+" "+route, 1)
			if resp.Fail == "" && resp.Status == 200 {
				r.Count("route200."+q.Method+" "+route, 1)
			}
		}
		r.Count("origin."+origin, 1)
		if resp.Fail == "" {
			if resp.Status == 200 {
				g.Harvest(resp.Body)
				if origin != "mutation" && origin != "junk" && len(okReqs) < 400 && !mutationUnsafe(route) {
					okReqs = append(okReqs, q)
				}
			}
			r.Distinct(fmt.Sprintf("%s %s %d %s", q.Method, route, resp.Status, shape(resp.Body)))
			if i%997 == 0 {
				r.Sample(map[string]interface{}{"world": j.World, "origin": origin, "request": q.Method + " " + trunc(q.Target, 120), "body": trunc(q.Body, 160), "status": resp.Status})
			}
		}
		if !usable {
			if !restart() {
				return
			}
		}
	}
	n.stop()
	h.scanLog(n)
	os.RemoveAll(n.dir)
	r.Count("jobs", 1)
	r.Count("jobs.world_"+j.World, 1)
	if j.CSRF {
		r.Count("jobs.csrf_on", 1)
	}
}

// mutationUnsafe: requests whose numeric parameters are cost-proportional counts are not mutated
// (a flipped digit could ask for millions of addresses; that is load, not a malformed request)
func mutationUnsafe(route string) bool {
	switch route {
	case "/api/v1/wallet/newAddress", "/api/v1/wallet/scan", "/api/v1/wallet/create", "/api/v1/wallet/createTemp", "/api/v1/wallet/encrypt":
		return true
	}
	return false
}

func trunc(s string, n int) string {
	if len(s) > n {
		return s[:n] + "..."
	}
	return s
}

// shape abstracts a response body to its first error words (for the distinct-case count)
func shape(b []byte) string {
	s := string(b)
	if len(s) > 60 {
		s = s[:60]
	}
	return regexp.MustCompile(`[0-9a-f]{8,}|[0-9]+`).ReplaceAllString(s, "#")
}

// scanLog looks for panic records nobody attributed to a request (e.g. a panic after the
// response headers were sent) and for fatal errors
func (h *harness) scanLog(n *nodeCtx) {
	log := string(n.proc.Stderr())
	if n.logAt > len(log) {
		n.logAt = 0
	}
	rest := log[n.logAt:]
	for _, p := range panics(rest) {
		h.report("panic", map[string]string{"route": "(not attributed to a request)", "frame": p.Frame, "msg": p.Msg, "world": n.job.World}, map[string]interface{}{"job": n.job, "stack": p.Stack})
	}
	if head, frame := vf.CrashSignature([]byte(rest)); head != "" && !strings.Contains(rest, "SIGQUIT") && !strings.HasPrefix(head, "goroutine ") {
		h.report("node-died", map[string]string{"route": "(at shutdown or in the background)", "frame": frame, "msg": head, "world": n.job.World}, map[string]interface{}{"job": n.job})
	}
	h.r.Count("server_log_bytes_scanned", int64(len(log)))
}

// ---------------------------------------------------------------------------------
// the dedicated slow-request probe (decimal exponent)

func rssMB(pid int) int {
	b, err := os.ReadFile(fmt.Sprintf("/proc/%d/status", pid))
	if err != nil {
		return 0
	}
	for _, l := range strings.Split(string(b), "\n") {
		if strings.HasPrefix(l, "VmRSS:") {
			f := strings.Fields(l)
			if len(f) >= 2 {
				kb, _ := strconv.Atoi(f[1])
				return kb / 1024
			}
		}
	}
	return 0
}

func (h *harness) slowProbe(done chan struct{}) {
	defer close(done)
	r := h.r
	j := job{World: "main", Index: 900}
	n, err := h.spawn(j, "slowprobe")
	if err != nil {
		r.Inconclusive("slow-request probe node: " + err.Error())
		return
	}
	defer func() { n.proc.Kill(); os.RemoveAll(n.dir) }()
	g := apifix.NewGen(h.worlds["main"], r.Rand("slowprobe"))
	mk := func(coins string) *apifix.Req {
		q := g.Minimal(apifix.FindEP("POST", "/api/v2/transaction"))
		var m map[string]interface{}
		_ = json.Unmarshal([]byte(q.Body), &m)
		m["to"] = []interface{}{map[string]interface{}{"address": h.worlds["main"].Chain.Keys[5].Addr.String(), "coins": coins}}
		b, _ := json.Marshal(m)
		q.Body = string(b)
		return q
	}
	ladder := map[string]string{}
	for _, e := range []string{"1e5000", "1e100000", "1e1000000"} {
		resp := apifix.Do(n.addr, mk(e), slowBound)
		ladder[e] = fmt.Sprintf("%v status=%d %s", resp.Dur.Round(time.Millisecond), resp.Status, resp.Fail)
	}
	r.Extra("decimal_exponent_ladder (POST /api/v2/transaction, to[0].coins)", ladder)
	// the probe proper: a 12-character amount, alone on an idle node, against the bound
	val := "1e2000000000"
	q := mk(val)
	wit := map[string]interface{}{"job": j, "request": q, "origin": "slow-probe"}
	if b, err := json.Marshal(wit); err == nil {
		_ = os.WriteFile(filepath.Join(n.dir, "current-request.json"), b, 0644)
	}
	stopWatch := make(chan struct{})
	peak := 0
	var killed bool
	var wg sync.WaitGroup
	wg.Add(1)
	go func() { // memory guard
		defer wg.Done()
		for {
			select {
			case <-stopWatch:
				return
			case <-time.After(200 * time.Millisecond):
				if m := rssMB(n.proc.PID); m > peak {
					peak = m
				}
				if peak > 3000 {
					killed = true
					_ = syscall.Kill(n.proc.PID, syscall.SIGKILL)
					return
				}
			}
		}
	}()
	resp := apifix.Do(n.addr, q, slowBound)
	close(stopWatch)
	wg.Wait()
	r.Count("slow_probe_runs", 1)
	r.Extra("slow_probe", map[string]interface{}{"value": val, "answered": resp.Fail == "", "wall": resp.Dur.String(), "status": resp.Status, "peak_rss_mb": peak, "killed_by_memory_guard": killed})
	if resp.Fail == "" {
		return // answered within the bound
	}
	attrs := map[string]string{"route": "/api/v2/transaction", "method": "POST", "world": "main", "param": "to.coins", "value_class": "decimal-exponent-2e9", "bound_s": fmt.Sprint(int(slowBound.Seconds())), "peak_rss_mb_over_3000": fmt.Sprint(killed)}
	if !killed {
		n.proc.DumpGoroutines()
		dump := string(n.proc.Stderr())
		if i := strings.LastIndex(dump, "SIGQUIT"); i >= 0 {
			dump = dump[i:]
		}
		attrs["frame"] = servingFrame(dump)
		if len(dump) > 5000 {
			dump = dump[:5000]
		}
		wit["goroutine_dump"] = dump
	}
	h.report("unbounded-request-cost", attrs, wit)
}

// ---------------------------------------------------------------------------------

func main() {
	r := vf.Start("C28", "exploration")
	h := &harness{r: r, worlds: map[string]*apifix.World{}, seen: map[string]int{}, kept: map[string]string{}}
	h.vnode = filepath.Join(os.Getenv("VERIF_BIN"), "vnodeapi")
	if _, err := os.Stat(h.vnode); err != nil {
		fmt.Fprintln(os.Stderr, "vnodeapi binary not found (run through ./check):", err)
		os.Exit(3)
	}
	if p := filepath.Join(os.Getenv("VERIF_BIN"), "vnodeapi-race"); fileExists(p) {
		h.vnodeRace = p
	}
	var rep *replayDoc
	if p := r.ReplayPath(); p != "" {
		rep = loadReplay(p)
		r.Seed = rep.Seed
	}
	h.tmp = vf.TempDir("c28")
	cleanup := func() {
		for _, w := range h.worlds {
			w.Remove()
		}
		os.RemoveAll(h.tmp)
	}
	if rep != nil && rep.Witness.Conc == nil && rep.Witness.WorldDir != "" && rep.Witness.Options != nil {
		if _, err := os.Stat(rep.Witness.WorldDir); err == nil {
			// replay on the data directory kept by the run that found the violation
			h.worlds[rep.Witness.Job.World] = apifix.LoadWorld(rep.Witness.WorldDir, *rep.Witness.Options)
			h.replay(rep)
			os.RemoveAll(h.tmp)
			return
		}
	}
	for _, wc := range []apifix.WorldConfig{
		{Tag: "main", Seed: r.SubSeed("world-main"), Blocks: 30, Wallets: true, Pool: true},
		{Tag: "genesis", Seed: r.SubSeed("world-genesis"), Blocks: 0, Wallets: true, Pool: true},
	} {
		// the data directories are prepared by calling the visor and the wallet service in this process: a
		// change that makes those calls hang must not hang the check (no request was sent: inconclusive)
		type built struct {
			w   *apifix.World
			err error
		}
		bc := make(chan built, 1)
		go func(wc apifix.WorldConfig) { w, err := apifix.BuildWorld(wc); bc <- built{w, err} }(wc)
		var w *apifix.World
		var err error
		select {
		case b := <-bc:
			w, err = b.w, b.err
		case <-time.After(10 * time.Minute):
			err = fmt.Errorf("the in-process visor / wallet calls that prepare the data directory did not return within 10 minutes")
		}
		if err != nil {
			cleanup()
			r.Inconclusive("world " + wc.Tag + ": " + err.Error())
			r.Finish("n/a")
		}
		h.worlds[wc.Tag] = w
	}
	if rep != nil {
		h.replay(rep)
		cleanup()
		return
	}

	onlyConc := os.Getenv("C28_LEGS") == "conc"                                      // development aid: the concurrent leg alone (the floors of the other legs then fail)
	onlyShape := os.Getenv("C28_LEGS") == "shape" || os.Getenv("C28_LEGS") == "none" // development aid: the structure-aware transaction leg alone ("none": only the worlds are built; "noshape": everything but that leg)
	slowDone := make(chan struct{})
	if onlyConc || onlyShape {
		close(slowDone)
	} else {
		go h.slowProbe(slowDone)
	}

	perJob := r.Pick(2500, 8000)
	var jobs []job
	nMain, nGen := r.Pick(9, 36), r.Pick(3, 12)
	for i := 0; i < nMain; i++ {
		jobs = append(jobs, job{World: "main", Index: i, N: perJob, CSRF: i%8 == 7, Slow: !r.Quick() && i == 1})
	}
	for i := 0; i < nGen; i++ {
		jobs = append(jobs, job{World: "genesis", Index: i, N: perJob, CSRF: i%8 == 2})
	}
	// interleave the worlds
	sort.SliceStable(jobs, func(a, b int) bool { return jobs[a].Index < jobs[b].Index })
	// the concurrent leg runs next to the sequential one, on nodes of its own
	var cjobs []concJob
	nConc, perConc, kConc := r.Pick(3, 12), r.Pick(2400, 8000), r.Pick(12, 16)
	for i := 0; i < nConc; i++ {
		cj := concJob{World: "main", Index: 500 + i, N: perConc, K: kConc}
		if i%4 == 2 {
			cj.World = "genesis"
		}
		if i%4 == 1 && h.vnodeRace != "" { // one node in four is the -race build (about 8x slower)
			cj.Race, cj.N, cj.K = true, perConc/6, 8
		}
		cjobs = append(cjobs, cj)
	}
	if onlyShape {
		cjobs = nil
	}
	concDone := make(chan struct{})
	go func() {
		defer close(concDone)
		vf.Parallel(len(cjobs), 3, func(i int) { h.runConc(cjobs[i]) })
	}()
	if onlyConc || onlyShape {
		jobs = nil
	}
	// the structure-aware transaction leg (txshape.go), on nodes of its own as well
	var sjobs []shapeJob
	if legs := os.Getenv("C28_LEGS"); !onlyConc && legs != "noshape" && legs != "none" {
		sjobs = h.shapeJobs()
	}
	shapeDone := make(chan struct{})
	go func() {
		defer close(shapeDone)
		vf.Parallel(len(sjobs), r.Pick(4, 6), func(i int) { h.runShapes(sjobs[i]) })
	}()
	vf.Parallel(len(jobs), r.Pick(12, 14), func(i int) { h.runJob(jobs[i]) })
	<-concDone
	<-shapeDone
	<-slowDone

	// coverage
	total, reached, with200 := 0, 0, 0
	minReq := int64(1 << 62)
	for _, e := range apifix.Endpoints {
		total++
		c := r.Get("route." + e.Key())
		if c > 0 {
			reached++
		}
		if c < minReq {
			minReq = c
		}
		if r.Get("route200."+e.Key()) > 0 {
			with200++
		}
	}
	r.Count("endpoints_in_grammar", int64(total))
	r.Count("endpoints_requested", int64(reached))
	r.Count("endpoints_with_200_answer", int64(with200))
	r.Count("min_requests_per_endpoint", minReq)
	h.durMu.Lock()
	sort.Slice(h.durs, func(a, b int) bool { return h.durs[a] < h.durs[b] })
	if len(h.durs) > 0 {
		r.Extra("request_duration", map[string]string{"median": h.durs[len(h.durs)/2].String(), "p99": h.durs[len(h.durs)*99/100].String(), "max": h.durs[len(h.durs)-1].String()})
	}
	h.durMu.Unlock()
	h.seenMu.Lock()
	r.Extra("violation_classes", h.seen)
	h.seenMu.Unlock()
	r.Count("panics", r.Get("observed.panic"))
	r.Count("conc.max_requests_in_flight_on_one_node", h.maxConc)
	concStats.mu.Lock()
	r.Extra("concurrent_requests_by_route_and_outcome", concStats.m)
	slowest := map[string]string{}
	for k, d := range concStats.slow {
		if d > 2*time.Second {
			slowest[k] = d.Round(time.Millisecond).String()
		}
	}
	r.Extra("concurrent_routes_with_an_answer_slower_than_2s", slowest)
	concStats.mu.Unlock()
	raceMu.Lock()
	if h.vnodeRace != "" {
		r.Extra("data_race_reports_in_product_code (observations of the -race node; not judged by C28)", raceSeen)
		r.Extra("data_race_report_texts", raceText)
	}
	raceMu.Unlock()
	shapeStats.mu.Lock()
	r.Extra("txshape_answers (endpoint, status, answer shape -> count)", shapeStats.answers)
	shapeStats.mu.Unlock()

	r.Floor("requests", int64(r.Pick(25000, 350000)))
	r.Floor("requests.world_genesis", int64(r.Pick(5000, 80000)))
	r.Floor("endpoints_requested", int64(total))
	r.Floor("endpoints_with_200_answer", int64(total-8))
	r.Floor("min_requests_per_endpoint", int64(r.Pick(20, 100)))
	r.Floor("origin.grammar", int64(r.Pick(10000, 150000)))
	r.Floor("origin.mutation", int64(r.Pick(3000, 50000)))
	r.Floor("jobs.csrf_on", 1)
	r.Floor("slow_probe_runs", 1)
	r.Floor("status.200", 5000)
	r.Floor("status.400", 3000)
	// concurrent leg: a run without real overlap of reads and state changes says nothing
	r.Floor("conc.jobs", int64(nConc))
	r.Floor("conc.requests", int64(r.Pick(5000, 60000)))
	r.Floor("conc.state_changing_200", int64(r.Pick(1000, 12000)))
	r.Floor("conc.read_only_200", int64(r.Pick(1500, 18000)))
	r.Floor("conc.read_overlapping_state_change", int64(r.Pick(1500, 25000)))
	r.Floor("conc.max_requests_in_flight_on_one_node", int64(kConc-2))
	// structure-aware transaction leg: the shapes were sent, to all three endpoints, and the world behind them is
	// real (some of the well-formed ones were signed by the addressed wallet, verified and accepted into the pool)
	r.Floor("txshape.jobs", int64(len(sjobs)))
	r.Floor("txshape.requests", int64(r.Pick(3500, 40000)))
	r.Floor("txshape.sign.fewer_sigs_than_inputs", int64(r.Pick(350, 3000)))
	r.Floor("txshape.sign.more_sigs_than_inputs", int64(r.Pick(800, 6000)))
	r.Floor("txshape.sign.no_sigs", int64(r.Pick(150, 1000)))
	r.Floor("txshape.verify.fewer_sigs_than_inputs", int64(r.Pick(100, 800)))
	r.Floor("txshape.inject.fewer_sigs_than_inputs", int64(r.Pick(100, 500)))
	r.Floor("txshape.sign.status_200", int64(r.Pick(15, 60)))
	r.Floor("txshape.sign_200.source_wallet", int64(r.Pick(10, 40)))
	r.Floor("txshape.verify.status_200", 10)
	r.Floor("txshape.inject.status_200", 5)
	r.Floor("txshape.sign_unlocking_an_encrypted_wallet", int64(r.Pick(40, 300)))
	cleanup()
	r.Finish("per node instance: the minimal valid request of every endpoint, then a seeded stream of grammar-generated requests (typed dictionaries per documented parameter: valid / unknown / boundary / malformed), mutations of earlier successful requests and syntactically valid junk; two prepared nodes (30-block chain with pool and wallets; height 0 with a pooled transaction); non-trivial = distinct (method, route, status, answer shape)",
		"decimal exponents in the stream are capped at |e| <= 5000; one dedicated probe per run sends 1e2000000000 alone to an idle node against a 60 s bound with a 3 GiB memory guard",
		"cost-proportional count parameters (wallet newAddress num, scan) only take small or unparsable values, and encrypting an unencrypted wallet (default scrypt N=2^20, ~1 GiB per call) is exercised on one node in the thorough tier only: heavy but legitimate work is not judged",
		"sequential leg: a watchdog (90 s without answer) never decides by itself: the single request must reproduce on a fresh idle node against 120 s",
		"concurrent leg: K clients per node send at the same time, 45% state-changing (wallet update/newAddress/create/encrypt/decrypt/scan/unload, injectTransaction, storage) and 55% reading requests, four fifths of them well formed and addressed to four wallets; a relative watchdog (500 x the node's median latency, at least 20 s) only starts the procedure: a hang is reported on the logical deadlock witness (lock-free probe answered, probe of the stuck component silent, >= 2 requests still outstanding, goroutine dump with >= 2 request-serving goroutines of src/api|visor|wallet|kvstorage|daemon blocked on a lock and none of those components running, runnable or in a syscall); anything else is inconclusive",
		"structure-aware transaction leg: on nodes of their own, every endpoint that takes an encoded transaction (wallet/transaction/sign, transaction/verify, injectTransaction) receives transactions assembled and encoded by the harness (own encoder: exact length prefix, inner hash and array counts; inputs that are unspent and owned by a loaded wallet or a harness key, spent long ago, or unknown; signatures of the real owners where the harness has the key) whose arrays disagree: 0/1/2/3/repeated inputs x 0..n+3 signatures x all null / all present / first / last present, ordinary / no / repeated / zero-coin outputs, correct / wrong header; the signing endpoint combines each with the owning wallet and every meaningful sign_indexes list, needless / missing / wrong passwords, another plain wallet, an encrypted one, one that cannot sign and an unknown id; requests that unlock an encrypted wallet (one key derivation each) are thinned out",
		"encrypt/decrypt in the concurrent leg only name wallets created encrypted with the node's cheap crypto type; data race reports of the -race node are recorded as observations and attached to a violation they coincide with, not judged",
		"JSON well-formedness is required of 200 answers only (README: error bodies may not be JSON)",
		"nodes are assembled by lib/node like skycoin.Coin.Run; MaxLastBlocksCount is 0 there, so /api/v1/last_blocks only answers for num=0")
}

// ---------------------------------------------------------------------------------
// replay

type replayDoc struct {
	Seed    int64 `json:"seed"`
	Witness struct {
		Job      job           `json:"job"`
		Request  *apifix.Req   `json:"request"`
		Conc     *concJob      `json:"conc_job"`
		Earlier  []*apifix.Req `json:"earlier_state_changing_requests"`
		WorldDir string        `json:"world_dir"`
		Options  *node.Options `json:"node_options"`
	} `json:"witness"`
}

func loadReplay(p string) *replayDoc {
	b, err := os.ReadFile(p)
	var d replayDoc
	if err == nil {
		err = json.Unmarshal(b, &d)
	}
	if err != nil || (d.Witness.Request == nil && d.Witness.Conc == nil) {
		fmt.Fprintln(os.Stderr, "replay:", err)
		os.Exit(3)
	}
	return &d
}

func fileExists(p string) bool { _, err := os.Stat(p); return err == nil }

// replayConc: a violation of the concurrent leg depends on the interleaving; the node's whole
// concurrent workload is run again (up to three times)
func (h *harness) replayConc(d *replayDoc) {
	cj := *d.Witness.Conc
	if cj.Race && h.vnodeRace == "" {
		cj.Race = false
	}
	for try := 0; try < 3 && h.r.Violations() == 0; try++ {
		h.runConc(cj)
	}
	ok := h.r.Violations() > 0
	fmt.Printf("REPLAY property=C28 reproduced=%v\n", ok)
	if ok {
		for _, w := range h.worlds {
			w.Remove()
		}
		os.RemoveAll(h.tmp)
		os.Exit(1)
	}
}

func (h *harness) replay(d *replayDoc) {
	if d.Witness.Conc != nil {
		h.replayConc(d)
		return
	}
	j := d.Witness.Job
	if h.worlds[j.World] == nil {
		j.World = "main"
	}
	n, err := h.spawn(j, "replay")
	if err != nil {
		fmt.Fprintln(os.Stderr, "replay:", err)
		os.Exit(3)
	}
	// a token recorded with a request is stale: send fetches a fresh one where the node checks tokens
	strip := func(q *apifix.Req) *apifix.Req {
		hs := q.Headers[:0]
		for _, hd := range q.Headers {
			if !strings.EqualFold(hd[0], "X-CSRF-Token") {
				hs = append(hs, hd)
			}
		}
		q.Headers = hs
		return q
	}
	for _, q := range d.Witness.Earlier {
		if _, usable := h.send(n, strip(q), "replay-prefix"); !usable {
			break
		}
	}
	h.send(n, strip(d.Witness.Request), "replay")
	n.stop()
	h.scanLog(n)
	if h.r.Violations() > 0 || h.r.Get("observed.panic") > 0 || h.r.Get("observed.hang") > 0 || h.r.Get("observed.node-died") > 0 {
		fmt.Println("REPLAY property=C28 reproduced=true")
		for _, w := range h.worlds {
			if strings.HasPrefix(w.Dir, os.TempDir()) {
				w.Remove()
			}
		}
		os.RemoveAll(h.tmp)
		os.Exit(1)
	}
	fmt.Println("REPLAY property=C28 reproduced=false")
}
