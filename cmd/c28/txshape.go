// Structure-aware transaction leg: nodes of their own receive, on every endpoint that takes an encoded
// transaction, transactions the harness assembled and encoded itself (lib/apifix/txshape.go: correct
// length prefix and inner hash, inputs that the node knows and that a loaded wallet owns) whose arrays
// disagree with each other, combined with the wallet id / password / sign_indexes variations of the
// signing endpoint. Same oracle as everywhere in C28 (harness.send).
package main

import (
	"fmt"
	"os"
	"strings"
	"sync"

	"verif/lib/apifix"
)

type shapeJob struct {
	World  string
	Index  int
	Shapes []apifix.TxnShape // this node's share
	First  int               // position of Shapes[0] in the world's list (labels the per-shape PRNG)
	Stride int
}

var shapeStats = struct {
	mu      sync.Mutex
	answers map[string]int
}{answers: map[string]int{}}

func relOf(s *apifix.TxnShape) string {
	switch {
	case s.NSigs == 0:
		return "no_sigs"
	case s.NSigs < s.NIn:
		return "fewer_sigs_than_inputs"
	case s.NSigs > s.NIn:
		return "more_sigs_than_inputs"
	}
	return "as_many_sigs_as_inputs"
}

func (h *harness) runShapes(j shapeJob) {
	r := h.r
	nj := job{World: j.World, Index: j.Index}
	tag := fmt.Sprintf("shape-%s-%03d", j.World, j.Index)
	n, err := h.spawn(nj, tag)
	if err != nil {
		r.Inconclusive(fmt.Sprintf("node %s: %v", tag, err))
		return
	}
	w := h.worlds[j.World]
	restarts := 0
	one := func(s *apifix.TxnShape, q *apifix.Req, kind, label string) bool {
		resp, usable := h.send(n, q, "txshape")
		r.Count("txshape.requests", 1)
		r.Count("txshape."+kind, 1)
		r.Count("txshape."+kind+"."+relOf(s), 1)
		if resp.Fail == "" {
			r.Count(fmt.Sprintf("txshape.%s.status_%d", kind, resp.Status), 1)
			if resp.Status == 200 {
				r.Count("txshape."+kind+"_200.source_"+s.Source, 1)
			}
			r.Distinct(fmt.Sprintf("txshape %s %s %s %d %s", kind, s.Class(), strings.SplitN(label, "/", 2)[0], resp.Status, shape(resp.Body)))
			key := fmt.Sprintf("%s %d %s", kind, resp.Status, shape(resp.Body))
			shapeStats.mu.Lock()
			if len(shapeStats.answers) < 300 || shapeStats.answers[key] > 0 {
				shapeStats.answers[key]++
			}
			shapeStats.mu.Unlock()
		}
		if usable {
			return true
		}
		// the node is gone or stuck: go on with a fresh one
		n.stop()
		h.scanLog(n)
		os.RemoveAll(n.dir)
		restarts++
		r.Count("txshape.node_restarts", 1)
		n, err = h.spawn(nj, fmt.Sprintf("%s-r%d", tag, restarts))
		if err != nil {
			r.Inconclusive(fmt.Sprintf("node %s restart: %v", tag, err))
			return false
		}
		return true
	}
	for k := range j.Shapes {
		s := &j.Shapes[k]
		pos := j.First + k*j.Stride
		rng := r.Rand("txshape-requests", j.World, pos)
		r.Count("txshape.txns", 1)
		r.Count("txshape.txns.source_"+s.Source, 1)
		r.Count("txshape.txns.outs_"+s.Outs, 1)
		r.Count("txshape.txns.header_"+s.Header, 1)
		r.Count("txshape.txns.class."+s.Class(), 1)
		for _, v := range w.SignRequests(s, rng) {
			if v.Costly {
				r.Count("txshape.sign_unlocking_an_encrypted_wallet", 1)
			}
			r.Count("txshape.sign.as."+strings.SplitN(v.Label, "/", 2)[0], 1)
			r.Count("txshape.sign.indexes."+strings.SplitN(v.Label, "/", 2)[1], 1)
			if !one(s, v.Req, "sign", v.Label) {
				return
			}
		}
		vs := s.VerifyRequests()
		if s.Depth == 0 {
			vs = vs[rng.Intn(len(vs)):][:1]
		}
		for _, q := range vs {
			if !one(s, q, "verify", "") {
				return
			}
		}
		if !one(s, s.InjectRequest(), "inject", "") {
			return
		}
		if pos%211 == 0 {
			r.Sample(map[string]interface{}{"world": j.World, "origin": "txshape", "source": s.Source, "wallet": s.Wallet, "class": s.Class(), "outs": s.Outs, "header": s.Header, "encoded_transaction": trunc(s.Hex, 200)})
		}
	}
	n.stop()
	h.scanLog(n)
	os.RemoveAll(n.dir)
	r.Count("txshape.jobs", 1)
}

// shapeJobs splits each world's shape list over its nodes
func (h *harness) shapeJobs() []shapeJob {
	r := h.r
	var out []shapeJob
	for _, wn := range []struct {
		world string
		nodes int
		level int
	}{{"main", r.Pick(2, 8), r.Pick(apifix.ShapesQuick, apifix.ShapesFull)}, {"genesis", r.Pick(1, 2), r.Pick(apifix.ShapesLean, apifix.ShapesQuick)}} {
		w := h.worlds[wn.world]
		if w == nil {
			continue
		}
		all := w.TxnShapes(r.Rand("txshape", wn.world), wn.level)
		for p := 0; p < wn.nodes; p++ {
			sj := shapeJob{World: wn.world, Index: 700 + p, First: p, Stride: wn.nodes}
			for i := p; i < len(all); i += wn.nodes {
				sj.Shapes = append(sj.Shapes, all[i])
			}
			if len(sj.Shapes) > 0 {
				out = append(out, sj)
			}
		}
	}
	return out
}
