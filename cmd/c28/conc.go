// The concurrent leg of C28: K clients per node send requests at the same time, read-only
// wallet / visor / storage endpoints mixed with state-changing ones on a few wallets, so that
// handlers contend for the locks behind them. The per-request oracle is the one of the
// sequential leg. A missing answer is judged by a logical deadlock witness (probes + goroutine
// dump), never by the clock alone and never by re-running the single request (an
// interleaving-dependent deadlock does not reproduce on an idle node).
package main

import (
	"encoding/json"
	"fmt"
	"os"
	"path/filepath"
	"regexp"
	"sort"
	"strings"
	"sync"
	"sync/atomic"
	"time"

	"verif/lib/apifix"
	"verif/lib/vf"
)

const (
	concWatchdogMin    = 20 * time.Second // lower bound of the relative watchdog
	concWatchdogFactor = 500              // watchdog = factor x median latency of the node's completed requests
	concWatchdogCold   = 90 * time.Second // before enough requests completed to know the median
	lockFreeBound      = 10 * time.Second // "promptly" for the lock-free probe
	clientTimeout      = 45 * time.Minute // the monitor, not the client, ends a stuck request
)

type concJob struct {
	World string `json:"world"`
	Index int    `json:"index"`
	N     int    `json:"n"` // requests over all clients
	K     int    `json:"k"` // clients
	Race  bool   `json:"race"`
}

type wEP struct {
	method, path string
	weight       int
}

// the two halves of the mix: requests that only read shared state and requests that change it
var concReaders = []wEP{
	{"GET", "/api/v1/wallet/balance", 24}, {"GET", "/api/v1/wallet", 7}, {"GET", "/api/v1/wallets", 7}, {"GET", "/api/v1/wallet/transactions", 7},
	{"POST", "/api/v1/wallet/transaction", 7}, {"POST", "/api/v2/wallet/transaction/sign", 3}, {"POST", "/api/v1/wallet/seed", 3}, {"GET", "/api/v1/wallets/folderName", 1},
	{"GET", "/api/v1/balance", 4}, {"POST", "/api/v1/balance", 1}, {"GET", "/api/v1/outputs", 4}, {"GET", "/api/v1/pendingTxs", 4}, {"GET", "/api/v1/transactions", 3},
	{"GET", "/api/v2/transactions", 2}, {"GET", "/api/v1/transaction", 1}, {"GET", "/api/v1/uxout", 1}, {"POST", "/api/v2/transaction", 2}, {"POST", "/api/v2/transaction/verify", 2},
	{"GET", "/api/v2/data", 5}, {"GET", "/api/v1/blockchain/metadata", 1}, {"GET", "/api/v1/health", 1}, {"GET", "/api/v1/network/connections", 2}, {"GET", "/api/v1/richlist", 1},
	{"GET", "/api/v1/addresscount", 1}, {"GET", "/api/v1/blocks", 1}, {"GET", "/api/v1/address_uxouts", 1},
}
var concMutators = []wEP{
	{"POST", "/api/v1/wallet/update", 14}, {"POST", "/api/v1/wallet/newAddress", 8}, {"POST", "/api/v1/wallet/create", 5}, {"POST", "/api/v1/wallet/createTemp", 2},
	{"POST", "/api/v1/wallet/encrypt", 4}, {"POST", "/api/v1/wallet/decrypt", 4}, {"POST", "/api/v1/wallet/unload", 1}, {"POST", "/api/v1/wallet/scan", 2},
	{"POST", "/api/v2/wallet/recover", 1}, {"POST", "/api/v1/injectTransaction", 7}, {"POST", "/api/v2/data", 6}, {"DELETE", "/api/v2/data", 3},
	{"POST", "/api/v1/resendUnconfirmedTxns", 1}, {"POST", "/api/v1/network/connection/disconnect", 1},
}

func expand(t []wEP) []*apifix.EP {
	var out []*apifix.EP
	for _, w := range t {
		e := apifix.FindEP(w.method, w.path)
		if e == nil {
			panic("concurrent leg: endpoint not in the grammar: " + w.method + " " + w.path)
		}
		for i := 0; i < w.weight; i++ {
			out = append(out, e)
		}
	}
	return out
}

// changesState: the request may change state other requests read (by route and method)
func changesState(q *apifix.Req) bool {
	route := routeOf(q)
	if route == "/api/v2/data" {
		return q.Method == "POST" || q.Method == "DELETE"
	}
	if q.Method != "POST" {
		return false
	}
	return mutating[route] || route == "/api/v1/wallet/createTemp" || route == "/api/v1/resendUnconfirmedTxns" || route == "/api/v1/network/connection/disconnect"
}

type outReq struct {
	ID     int         `json:"id"`
	Client int         `json:"client"`
	Q      *apifix.Req `json:"request"`
	Origin string      `json:"origin"`
	route  string
	mut    bool
	sent   time.Time
}

type ival struct {
	s, e  time.Duration
	mut   bool
	ok200 bool
}

type concNode struct {
	h  *harness
	j  concJob
	n  *nodeCtx
	t0 time.Time

	mu          sync.Mutex
	outstanding map[int]*outReq
	nextID      int
	durs        []time.Duration
	ivals       []ival
	maxInflight int
	lastDone    time.Time // when the latest request completed
	recent      []string  // the last completed requests (ring)
	attributed  map[string]bool
	deadOnce    bool

	stop    atomic.Bool // no new requests
	aborted atomic.Bool // the monitor ended the node: failures of pending requests are not observations
	done    chan struct{}
}

// byRoute aggregates the concurrent requests by route and outcome (evidence)
type routeStats struct {
	mu   sync.Mutex
	m    map[string]map[string]int
	slow map[string]time.Duration // longest answer per route ("race:" prefix on the -race node)
}

func (s *routeStats) dur(route string, d time.Duration) {
	s.mu.Lock()
	if s.slow == nil {
		s.slow = map[string]time.Duration{}
	}
	if d > s.slow[route] {
		s.slow[route] = d
	}
	s.mu.Unlock()
}

func (s *routeStats) add(route, outcome string) {
	s.mu.Lock()
	if s.m == nil {
		s.m = map[string]map[string]int{}
	}
	if s.m[route] == nil {
		s.m[route] = map[string]int{}
	}
	s.m[route][outcome]++
	s.mu.Unlock()
}

var concStats routeStats

// watchdogs returns the two relative bounds that start the stuck procedure (they never decide):
// stall - no request at all completed on the node for this long while at least two are outstanding;
// age   - a single request is outstanding for this long although others complete.
func (cn *concNode) watchdogs() (stall, age time.Duration) {
	cn.mu.Lock()
	defer cn.mu.Unlock()
	if len(cn.durs) < 40 { // too few answers to know the node's latency
		return concWatchdogCold, 2 * concWatchdogCold
	}
	d := append([]time.Duration(nil), cn.durs...)
	sort.Slice(d, func(a, b int) bool { return d[a] < d[b] })
	med, mx := d[len(d)/2], d[len(d)-1]
	stall = concWatchdogFactor * med
	if stall < concWatchdogMin {
		stall = concWatchdogMin
	}
	age = 4 * concWatchdogFactor * med
	if age < 3*concWatchdogMin {
		age = 3 * concWatchdogMin
	}
	if age < 5*mx { // requests queue behind the component locks: the slowest answer so far scales the bound
		age = 5 * mx
	}
	return
}

func (cn *concNode) witnessBase(o *outReq) map[string]interface{} {
	cn.mu.Lock()
	var others []*outReq
	for _, x := range cn.outstanding {
		if o == nil || x.ID != o.ID {
			others = append(others, x)
		}
	}
	recent := append([]string(nil), cn.recent...)
	cn.mu.Unlock()
	sort.Slice(others, func(a, b int) bool { return others[a].ID < others[b].ID })
	w := map[string]interface{}{"job": cn.n.job, "conc_job": cn.j, "origin": "concurrent", "requests_in_flight_at_the_same_time": others, "requests_completed_just_before": recent}
	if o != nil {
		w["request"], w["origin"] = o.Q, o.Origin
	}
	return w
}

// csend performs one request of a client and applies the per-request oracle
func (cn *concNode) csend(client int, q *apifix.Req, origin string) *apifix.Resp {
	h, r := cn.h, cn.h.r
	o := &outReq{Client: client, Q: q, Origin: origin, route: routeOf(q), mut: changesState(q)}
	cn.mu.Lock()
	cn.nextID++
	o.ID = cn.nextID
	o.sent = time.Now()
	cn.outstanding[o.ID] = o
	if l := len(cn.outstanding); l > cn.maxInflight {
		cn.maxInflight = l
	}
	cn.mu.Unlock()
	// the request is on disk before it is sent
	if b, err := json.Marshal(o); err == nil {
		_ = os.WriteFile(filepath.Join(cn.n.dir, fmt.Sprintf("current-request-client%02d.json", client)), b, 0644)
	}
	resp := apifix.Do(cn.n.addr, q, clientTimeout)
	if cn.aborted.Load() {
		return nil // the monitor took the node down
	}
	end := time.Now()
	outcome := resp.Fail
	if resp.Fail == "" {
		outcome = fmt.Sprint(resp.Status)
	}
	cn.mu.Lock()
	delete(cn.outstanding, o.ID)
	cn.lastDone = end
	if resp.Fail == "" {
		cn.durs = append(cn.durs, resp.Dur)
		cn.ivals = append(cn.ivals, ival{o.sent.Sub(cn.t0), end.Sub(cn.t0), o.mut, resp.Status == 200})
	}
	cn.recent = append(cn.recent, fmt.Sprintf("#%d c%d %s %s %s -> %s", o.ID, client, q.Method, trunc(q.Target, 160), trunc(q.Body, 200), outcome))
	if len(cn.recent) > 40 {
		cn.recent = cn.recent[len(cn.recent)-40:]
	}
	cn.mu.Unlock()
	r.Eval(1)
	r.Count("conc.requests", 1)
	if cn.j.Race {
		r.Count("conc.requests_on_race_build", 1)
	}
	r.Count("conc.origin."+origin, 1)
	concStats.add(q.Method+" "+o.route, outcome)
	if cn.j.Race {
		concStats.dur("race: "+q.Method+" "+o.route, resp.Dur)
	} else {
		concStats.dur(q.Method+" "+o.route, resp.Dur)
	}
	attrs := map[string]string{"route": o.route, "method": q.Method, "world": cn.j.World, "origin": origin, "leg": "concurrent"}
	if resp.Fail == "" {
		h.durMu.Lock()
		if len(h.durs) < 200000 {
			h.durs = append(h.durs, resp.Dur)
		}
		h.durMu.Unlock()
		r.Count(fmt.Sprintf("conc.status.%d", resp.Status), 1)
		if o.mut {
			r.Count("conc.state_changing", 1)
			if resp.Status == 200 {
				r.Count("conc.state_changing_200", 1)
			}
		} else {
			r.Count("conc.read_only", 1)
			if resp.Status == 200 {
				r.Count("conc.read_only_200", 1)
			}
		}
		if resp.Status == 200 && q.Method != "HEAD" && len(resp.Body) > 0 && !json.Valid(resp.Body) {
			wit := cn.witnessBase(o)
			attrs["frame"] = ""
			wit["response_body"] = trunc(string(resp.Body), 200)
			cn.addRaces(wit)
			h.report("invalid-json-in-200-response", attrs, wit)
		}
		r.Distinct(fmt.Sprintf("conc %s %s %d %s", q.Method, o.route, resp.Status, shape(resp.Body)))
		return resp
	}
	// no syntactically complete response
	r.Count("conc.incomplete."+resp.Fail, 1)
	time.Sleep(150 * time.Millisecond) // let the server finish writing its log line
	var mine *panicRec
	find := func() {
		recs := panics(string(cn.n.proc.Stderr()))
		for i := range recs {
			if recs[i].Local == resp.Local {
				mine = &recs[i]
			}
		}
	}
	find()
	for i := 0; mine == nil && cn.n.proc.Alive() && i < 20 && resp.Fail != "timeout"; i++ {
		time.Sleep(50 * time.Millisecond) // a dying process takes a moment to be reaped
		find()
	}
	if cn.aborted.Load() {
		return nil
	}
	wit := cn.witnessBase(o)
	wit["failure"] = resp.Fail + " " + resp.Detail
	switch {
	case mine != nil:
		cn.mu.Lock()
		cn.attributed[mine.Local+"|"+mine.Msg] = true
		cn.mu.Unlock()
		attrs["frame"], attrs["msg"] = mine.Frame, mine.Msg
		wit["stack"] = mine.Stack
		cn.addRaces(wit)
		h.report("panic", attrs, wit)
	case !cn.n.proc.Alive():
		cn.stop.Store(true)
		cn.mu.Lock()
		first := !cn.deadOnce
		cn.deadOnce = true
		cn.mu.Unlock()
		if first {
			log := string(cn.n.proc.Stderr())
			head, frame := vf.CrashSignature([]byte(log))
			attrs["frame"], attrs["msg"] = frame, head
			attrs["route"] = "(concurrent requests)"
			if i := strings.Index(log, head); head != "" && i >= 0 {
				log = log[i:]
			}
			wit["stderr_from_crash"] = trunc(log, 6000)
			cn.addRaces(wit)
			h.report("node-died", attrs, wit)
		}
	case resp.Fail == "dial":
		cn.stop.Store(true)
		r.Inconclusive("concurrent leg: could not connect to a live node: " + resp.Detail)
	case resp.Fail == "timeout":
		// only possible if the monitor itself is stuck
		cn.stop.Store(true)
		r.Inconclusive(fmt.Sprintf("concurrent leg: %s %s had no answer after %v and the monitor gave no verdict", q.Method, o.route, clientTimeout))
	default:
		attrs["frame"], attrs["failure"] = "", resp.Fail
		cn.addRaces(wit)
		h.report("connection-closed-without-response", attrs, wit)
	}
	return resp
}

// ---------------------------------------------------------------------------------
// the deadlock witness

type gor struct {
	ID     string
	State  string   // first word(s) of the bracket, without the duration
	Frames []string // function names, innermost first
	Serve  bool     // serves an HTTP connection
}

// "goroutine 7 [select]:" or, in the SIGQUIT dump of go >= 1.21, "goroutine 7 gp=0xc000006c40 m=nil [select]:"
var reGoHead = regexp.MustCompile(`^goroutine (\d+) (?:[a-z]+=\S+ )*\[([^\]]*)\]:`)

// parseDump splits the goroutine dump the Go runtime writes on SIGQUIT
func parseDump(dump string) []gor {
	var out []gor
	for _, blk := range strings.Split(dump, "\n\n") {
		lines := strings.Split(strings.TrimLeft(blk, "\n"), "\n")
		m := reGoHead.FindStringSubmatch(lines[0])
		if m == nil {
			continue
		}
		st := m[2]
		if i := strings.IndexByte(st, ','); i >= 0 {
			st = st[:i]
		}
		g := gor{ID: m[1], State: strings.TrimSpace(st)}
		for _, l := range lines[1:] {
			if l == "" || l[0] == '\t' || l[0] == ' ' || strings.HasPrefix(l, "created by ") {
				continue
			}
			fn := l
			if i := strings.LastIndex(fn, "("); i > 0 {
				fn = fn[:i]
			}
			g.Frames = append(g.Frames, fn)
			if fn == "net/http.(*conn).serve" {
				g.Serve = true
			}
		}
		out = append(out, g)
	}
	return out
}

var productPkgs = []string{"api", "visor", "wallet", "kvstorage", "daemon"}

// productFrame: a frame of the components behind the API (not logging / http helpers)
func productFrame(fn string) (string, bool) {
	const p = "github.com/skycoin/skycoin/src/"
	if !strings.HasPrefix(fn, p) {
		return "", false
	}
	rest := fn[len(p):]
	for _, k := range productPkgs {
		if strings.HasPrefix(rest, k+".") || strings.HasPrefix(rest, k+"/") {
			return "src/" + rest, true
		}
	}
	return "", false
}

func innermostProduct(g gor) string {
	for _, f := range g.Frames {
		if s, ok := productFrame(f); ok {
			return s
		}
	}
	return ""
}

func lockBlocked(state string) bool {
	for _, p := range []string{"sync.RWMutex.RLock", "sync.RWMutex.Lock", "sync.Mutex.Lock", "semacquire"} {
		if strings.HasPrefix(state, p) {
			return true
		}
	}
	return false
}

type dumpVerdict struct {
	BlockedFrames []string `json:"blocked_frames"`                    // innermost product frames of handler goroutines blocked on a lock
	Components    []string `json:"components"`                        // the receiver types (or packages) of those frames: whose lock it is
	Nested        []string `json:"blocked_inside_the_same_component"` // blocked frame <- outer frame of the same receiver type on the same stack (re-entrant use)
	Blocked       int      `json:"handler_goroutines_blocked_on_a_lock"`
	OtherWaiting  []string `json:"handler_goroutines_waiting_elsewhere"`
	Active        []string `json:"goroutines_of_those_components_able_to_progress"` // running / runnable / in a syscall (or a handler in network IO)
}

// judgeDump: which request-serving goroutines are blocked on locks, and is anybody of the
// product components still able to make progress
func judgeDump(gs []gor) dumpVerdict {
	var v dumpVerdict
	set := map[string]bool{}
	pkgs := map[string]bool{}        // the components on the stacks of the blocked handlers
	pkgOf := func(f string) string { // src/wallet.(*Service).View -> src/wallet
		f = strings.TrimPrefix(f, "src/")
		if i := strings.IndexAny(f, "./"); i > 0 {
			f = f[:i]
		}
		return f
	}
	for _, g := range gs {
		if in := innermostProduct(g); in != "" && g.Serve && lockBlocked(g.State) {
			v.Blocked++
			set[in+" ["+g.State+"]"] = true
			for _, f := range g.Frames {
				if p, ok := productFrame(f); ok {
					pkgs[pkgOf(p)] = true
				}
			}
		}
	}
	for _, g := range gs {
		in := innermostProduct(g)
		if in == "" || (g.Serve && lockBlocked(g.State)) {
			continue
		}
		same := false
		for _, f := range g.Frames {
			if p, ok := productFrame(f); ok && pkgs[pkgOf(p)] {
				same = true
			}
		}
		switch {
		case g.State == "running" || g.State == "runnable" || g.State == "syscall" || (g.Serve && g.State == "IO wait"):
			if same || g.Serve {
				v.Active = append(v.Active, fmt.Sprintf("goroutine %s [%s] %s", g.ID, g.State, in))
			}
		case g.Serve:
			v.OtherWaiting = append(v.OtherWaiting, fmt.Sprintf("goroutine %s [%s] %s", g.ID, g.State, in))
		}
	}
	recv := func(f string) string { // src/wallet.(*Service).View -> src/wallet.(*Service); "" for plain functions
		if i := strings.Index(f, ")."); i > 0 {
			return f[:i+1]
		}
		return ""
	}
	nested := map[string]bool{}
	for _, g := range gs {
		in := innermostProduct(g)
		if in == "" || !g.Serve || !lockBlocked(g.State) || recv(in) == "" {
			continue
		}
		seenInner := false
		for _, f := range g.Frames {
			p, ok := productFrame(f)
			if !ok {
				continue
			}
			if !seenInner {
				seenInner = p == in
				continue
			}
			if recv(p) == recv(in) {
				nested[in+" <- "+p] = true
				break
			}
		}
	}
	for k := range nested {
		v.Nested = append(v.Nested, k)
	}
	sort.Strings(v.Nested)
	comp := map[string]bool{}
	for k := range set {
		v.BlockedFrames = append(v.BlockedFrames, k)
		c := k[:strings.Index(k, " [")]
		if i := strings.LastIndex(c, "."); i > 0 { // strip the method: src/wallet.(*Service).View -> src/wallet.(*Service)
			c = c[:i]
		}
		for strings.HasSuffix(c, ".func1") || strings.HasSuffix(c, ".func2") {
			c = c[:strings.LastIndex(c, ".")]
		}
		comp[c] = true
	}
	for c := range comp {
		v.Components = append(v.Components, c)
	}
	sort.Strings(v.BlockedFrames)
	sort.Strings(v.Components)
	return v
}

type probeRes struct {
	Target   string `json:"target"`
	Answered bool   `json:"answered"`
	Wall     string `json:"wall"`
	Status   int    `json:"status"`
	Bound    string `json:"bound"`
}

func probe(addr string, q *apifix.Req, bound time.Duration) probeRes {
	resp := apifix.Do(addr, q, bound)
	return probeRes{Target: q.Method + " " + trunc(q.Target, 80), Answered: resp.Fail == "", Wall: resp.Dur.Round(time.Millisecond).String(), Status: resp.Status, Bound: bound.String()}
}

type sprobe struct {
	name string
	q    *apifix.Req
}

// subsystem probes: one cheap request per component whose locks a handler may wait for. The
// write probe of the visor injects a transaction that fails verification: the verification runs
// inside the database's write transaction (a stuck writer blocks it), and nothing is stored.
func (cn *concNode) subsystemProbes() []sprobe {
	get := func(t string) *apifix.Req { return &apifix.Req{Method: "GET", Target: t} }
	ps := []sprobe{{"wallet", get("/api/v1/wallets")}, {"storage", get("/api/v2/data?type=client")}, {"visor", get("/api/v1/blockchain/metadata")}, {"daemon", get("/api/v1/network/connections")}}
	enc := cn.h.worlds[cn.j.World].Encoded
	for _, k := range []string{"unknown-input", "bad-signature", "unsigned", "spends-spent", "no-fee"} {
		if enc[k] != "" {
			b, _ := json.Marshal(map[string]interface{}{"rawtx": enc[k], "no_broadcast": true})
			ps = append(ps, sprobe{"visor-write", &apifix.Req{Method: "POST", Target: "/api/v1/injectTransaction", Headers: [][2]string{{"Content-Type", "application/json"}}, Body: string(b)}})
			break
		}
	}
	return ps
}

// probesFor: the components a stuck route depends on
func probesFor(route string) []string {
	switch {
	case strings.Contains(route, "/wallet"):
		return []string{"wallet", "visor", "visor-write"}
	case route == "/api/v2/data":
		return []string{"storage"}
	case strings.Contains(route, "/network/"):
		return []string{"daemon"}
	case route == "/api/v1/injectTransaction" || route == "/api/v1/resendUnconfirmedTxns":
		return []string{"visor", "visor-write", "daemon"}
	}
	return []string{"visor", "visor-write"}
}

// stuckProcedure runs when requests have been outstanding for longer than the watchdog. The
// clock only starts it; the verdict needs the logical witness of a deadlock:
//   - a request that takes no lock is answered promptly (the process runs and is scheduled),
//   - a cheap read on the component the stuck requests use is not answered within the bound,
//   - at least two requests are still outstanding beyond the watchdog,
//   - the goroutine dump shows at least two request-serving goroutines inside the product
//     components blocked on a lock, and no goroutine of those components able to progress.
func (cn *concNode) stuckProcedure(rule string, wd, fired time.Duration) {
	h, r := cn.h, cn.h.r
	cn.stop.Store(true)
	r.Count("conc.watchdog_fired", 1)
	// (b) probes first: SIGQUIT ends the node
	free := probe(cn.n.addr, &apifix.Req{Method: "GET", Target: "/api/v1/version"}, lockFreeBound)
	sps := cn.subsystemProbes()
	res := make([]probeRes, len(sps))
	var wg sync.WaitGroup
	for i, p := range sps {
		wg.Add(1)
		go func(i int, q *apifix.Req) { defer wg.Done(); res[i] = probe(cn.n.addr, q, wd) }(i, p.q)
	}
	wg.Wait()
	now := time.Now()
	cn.mu.Lock()
	var stuck []*outReq
	for _, o := range cn.outstanding {
		if now.Sub(o.sent) > wd {
			stuck = append(stuck, o)
		}
	}
	cn.mu.Unlock()
	sort.Slice(stuck, func(a, b int) bool { return stuck[a].ID < stuck[b].ID })
	routeSet, needs := map[string]bool{}, map[string]bool{}
	for _, o := range stuck {
		routeSet[o.Q.Method+" "+o.route] = true
		for _, p := range probesFor(o.route) {
			needs[p] = true
		}
	}
	var routes []string
	for k := range routeSet {
		routes = append(routes, k)
	}
	sort.Strings(routes)
	subsystemSilent := false
	probes := map[string]probeRes{"lock-free": free}
	for i, p := range sps {
		probes[p.name] = res[i]
		if needs[p.name] && !res[i].Answered {
			subsystemSilent = true
		}
	}
	wit := cn.witnessBase(nil)
	wit["watchdog"] = fmt.Sprintf("%s for %v (stall bound %v)", rule, fired, wd)
	wit["probes"] = probes
	wit["requests_outstanding_beyond_watchdog"] = stuck
	// (a) the dump
	cn.aborted.Store(true)
	alive := cn.n.proc.Alive()
	cn.n.proc.DumpGoroutines()
	dump := string(cn.n.proc.Stderr())
	if i := strings.LastIndex(dump, "SIGQUIT"); i >= 0 {
		dump = dump[i:]
	}
	v := judgeDump(parseDump(dump))
	wit["dump_verdict"] = v
	var keep []string
	for _, blk := range strings.Split(dump, "\n\n") {
		if strings.Contains(blk, "github.com/skycoin/skycoin/src/") && len(keep) < 24 {
			keep = append(keep, trunc(blk, 1800))
		}
	}
	wit["goroutine_dump_product_goroutines"] = keep
	cn.n.proc.Kill()
	r.Extra(fmt.Sprintf("conc_watchdog_node_%s_%d", cn.j.World, cn.j.Index), map[string]interface{}{"watchdog": fmt.Sprintf("%s for %v (stall bound %v)", rule, fired, wd), "probes": probes, "stuck_routes": routes, "dump_verdict": v})
	if alive && free.Answered && subsystemSilent && len(stuck) >= 2 && v.Blocked >= 2 && len(v.Active) == 0 {
		r.Count("conc.deadlock_witnesses", 1)
		attrs := map[string]string{"class": "deadlock", "route": strings.Join(routes, ","), "routes": strings.Join(routes, ","), "blocked_frames": strings.Join(v.BlockedFrames, ","),
			"frame": strings.Join(v.Components, ","), "nested": strings.Join(v.Nested, ","), "world": cn.j.World, "leg": "concurrent", "watchdog_s": fmt.Sprint(int(wd.Seconds()))}
		cn.addRaces(wit)
		h.report("hang", attrs, wit)
		return
	}
	r.Count("conc.watchdog_without_witness", 1)
	r.Inconclusive(fmt.Sprintf("concurrent leg: %d request(s) without answer after %v on node %s-%d (%s) but no deadlock witness: lock-free probe answered=%v, subsystem probe silent=%v, handler goroutines blocked on locks=%d, able to progress=%d",
		len(stuck), wd, cn.j.World, cn.j.Index, strings.Join(routes, ","), free.Answered, subsystemSilent, v.Blocked, len(v.Active)))
}

// monitor watches the outstanding requests of a node
func (cn *concNode) monitor() {
	tick := time.NewTicker(250 * time.Millisecond)
	defer tick.Stop()
	for {
		select {
		case <-cn.done:
			return
		case <-tick.C:
		}
		stall, age := cn.watchdogs()
		now := time.Now()
		fire, wd := false, stall
		cn.mu.Lock()
		older := 0
		for _, o := range cn.outstanding {
			if now.Sub(o.sent) > age {
				fire, wd = true, age
			}
			if now.Sub(o.sent) > stall {
				older++
			}
		}
		if !fire && older >= 2 && now.Sub(cn.lastDone) > stall {
			fire, wd = true, stall
		}
		cn.mu.Unlock()
		if fire && cn.n.proc.Alive() {
			rule := "no request completed"
			if wd == age {
				rule = "one request outstanding"
			}
			cn.stuckProcedure(rule, stall, wd)
			return
		}
	}
}

// ---------------------------------------------------------------------------------
// data race reports of the -race build (observations; C28 is not a race-freedom property)

type raceRec struct {
	Sig   string
	Text  string
	Local bool // both accesses inside skycoin product code
}

func raceReports(log string) []raceRec {
	var out []raceRec
	parts := strings.Split(log, "WARNING: DATA RACE")
	for _, p := range parts[1:] {
		if i := strings.Index(p, "=================="); i >= 0 {
			p = p[:i]
		}
		// sections are separated by blank lines; the first two are the conflicting accesses
		var secs []string
		for _, s := range strings.Split(p, "\n\n") {
			if strings.TrimSpace(s) != "" {
				secs = append(secs, s)
			}
		}
		var tops []string
		for i := 0; i < 2 && i < len(secs); i++ {
			top := ""
			for _, l := range strings.Split(secs[i], "\n") {
				t := strings.TrimSpace(l)
				if strings.HasPrefix(t, "github.com/skycoin/skycoin/src/") && strings.Contains(t, "(") {
					top = strings.TrimPrefix(t[:strings.LastIndex(t, "(")], "github.com/skycoin/skycoin/")
					break
				}
			}
			tops = append(tops, top)
		}
		rec := raceRec{Text: trunc(strings.TrimSpace(p), 3000)}
		if len(tops) == 2 && tops[0] != "" && tops[1] != "" {
			rec.Local = true
			sort.Strings(tops)
		}
		rec.Sig = strings.Join(tops, " <-> ")
		out = append(out, rec)
	}
	return out
}

func (cn *concNode) addRaces(wit map[string]interface{}) {
	if !cn.j.Race {
		return
	}
	var sigs []string
	for _, rr := range raceReports(string(cn.n.proc.Stderr())) {
		if rr.Local {
			sigs = append(sigs, rr.Sig)
		}
	}
	wit["data_race_reports_of_this_node_so_far"] = sigs
}

var raceMu sync.Mutex
var raceSeen = map[string]int{}
var raceText = map[string]string{}

// finalScan: panics nobody attributed to a request, a death in the background, race reports
func (cn *concNode) finalScan() {
	h := cn.h
	log := string(cn.n.proc.Stderr())
	h.r.Count("conc.server_log_bytes_scanned", int64(len(log)))
	for _, p := range panics(log) {
		cn.mu.Lock()
		att := cn.attributed[p.Local+"|"+p.Msg]
		cn.mu.Unlock()
		if !att {
			wit := cn.witnessBase(nil)
			wit["stack"] = p.Stack
			cn.addRaces(wit)
			h.report("panic", map[string]string{"route": "(not attributed to a request)", "frame": p.Frame, "msg": p.Msg, "world": cn.j.World, "leg": "concurrent"}, wit)
		}
	}
	cn.mu.Lock()
	dead := cn.deadOnce
	cn.mu.Unlock()
	if head, frame := vf.CrashSignature([]byte(log)); head != "" && !dead && !strings.Contains(log, "SIGQUIT") && !strings.HasPrefix(head, "goroutine ") {
		wit := cn.witnessBase(nil)
		cn.addRaces(wit)
		h.report("node-died", map[string]string{"route": "(at shutdown or in the background)", "frame": frame, "msg": head, "world": cn.j.World, "leg": "concurrent"}, wit)
	}
	if cn.j.Race {
		for _, rr := range raceReports(log) {
			h.r.Count("conc.race_reports", 1)
			if !rr.Local {
				h.r.Count("conc.race_reports_outside_product_code", 1)
				continue
			}
			h.r.Count("conc.race_reports_in_product_code", 1)
			raceMu.Lock()
			raceSeen[rr.Sig]++
			if raceText[rr.Sig] == "" {
				raceText[rr.Sig] = rr.Text
			}
			raceMu.Unlock()
		}
	}
}

// overlaps counts the read-only requests whose [send, receive] interval overlapped that of a
// state-changing request answered with 200 on the same node
func overlaps(iv []ival) int {
	var muts []ival
	for _, x := range iv {
		if x.mut && x.ok200 {
			muts = append(muts, x)
		}
	}
	sort.Slice(muts, func(a, b int) bool { return muts[a].s < muts[b].s })
	maxEnd := make([]time.Duration, len(muts))
	for i, m := range muts {
		maxEnd[i] = m.e
		if i > 0 && maxEnd[i-1] > m.e {
			maxEnd[i] = maxEnd[i-1]
		}
	}
	n := 0
	for _, x := range iv {
		if x.mut {
			continue
		}
		k := sort.Search(len(muts), func(i int) bool { return muts[i].s >= x.e }) // muts[:k] started before x ended
		if k > 0 && maxEnd[k-1] > x.s {
			n++
		}
	}
	return n
}

// ---------------------------------------------------------------------------------

func (h *harness) runConc(cj concJob) {
	r := h.r
	bin := h.vnode
	if cj.Race {
		bin = h.vnodeRace
	}
	j := job{World: cj.World, Index: cj.Index, N: cj.N}
	tag := fmt.Sprintf("conc-%s-%03d", cj.World, cj.Index)
	crypto := ""
	if cj.Race {
		crypto = "sha256-xor" // scrypt, even with the cheap parameters, takes seconds per call under the race detector
	}
	n, err := h.spawnWith(bin, crypto, j, tag)
	if err != nil {
		r.Inconclusive(fmt.Sprintf("concurrent node %s: %v", tag, err))
		return
	}
	w := h.worlds[cj.World]
	cn := &concNode{h: h, j: cj, n: n, t0: time.Now(), lastDone: time.Now(), outstanding: map[int]*outReq{}, attributed: map[string]bool{}, done: make(chan struct{})}
	readers, mutators := expand(concReaders), expand(concMutators)
	all, enc := w.ContendedWallets()
	if cj.Race {
		// no scrypt on the -race node: plain wallets only, no encrypt / decrypt / seed, grammar requests only off the wallet routes
		var plain []apifix.WalletInfo
		for _, wi := range all {
			if !wi.Encrypted {
				plain = append(plain, wi)
			}
		}
		all, enc = plain, nil
		keep := func(t []*apifix.EP) []*apifix.EP {
			var out []*apifix.EP
			for _, e := range t {
				switch e.Path {
				case "/api/v1/wallet/encrypt", "/api/v1/wallet/decrypt", "/api/v1/wallet/seed", "/api/v2/wallet/recover":
				default:
					out = append(out, e)
				}
			}
			return out
		}
		readers, mutators = keep(readers), keep(mutators)
	}
	var mon sync.WaitGroup
	mon.Add(1)
	go func() { defer mon.Done(); cn.monitor() }()
	// warm-up by one client: the node's latency is known (and with it the relative watchdog) before requests overlap
	wg0 := apifix.NewGen(w, r.Rand("conc-warmup", cj.World, cj.Index))
	for i := 0; i < 60 && !cn.stop.Load(); i++ {
		e := readers[wg0.Rng.Intn(len(readers))]
		var wi *apifix.WalletInfo
		if e.Wallet != "" && len(all) > 0 {
			x := all[wg0.Rng.Intn(len(all))]
			wi = &x
		}
		cn.csend(99, wg0.WellFormedFor(e, wi), "warm-up")
	}
	var wg sync.WaitGroup
	per := cj.N / cj.K
	for c := 0; c < cj.K; c++ {
		wg.Add(1)
		go func(c int) {
			defer wg.Done()
			g := apifix.NewGen(w, r.Rand("conc-client", cj.World, cj.Index, c))
			rng := g.Rng
			for i := 0; i < per && !cn.stop.Load(); i++ {
				var e *apifix.EP
				if rng.Intn(100) < 45 {
					e = mutators[rng.Intn(len(mutators))]
				} else {
					e = readers[rng.Intn(len(readers))]
				}
				var q *apifix.Req
				origin := "contended"
				switch {
				case rng.Intn(100) < 20 && !(cj.Race && strings.Contains(e.Path, "/wallet")) && !(e.Path == "/api/v1/wallet/unload" && rng.Intn(10) != 0):
					// (an unloaded wallet stays away for the rest of the node's life: the contended ones are rarely unloaded)
					q, origin = g.Generate(e), "grammar"
				case e.Wallet == "" || len(all) == 0 || e.Path == "/api/v1/wallet/unload" || e.Path == "/api/v2/wallet/recover":
					q = g.WellFormedFor(e, nil)
				default:
					set := all
					if e.Path == "/api/v1/wallet/encrypt" || e.Path == "/api/v1/wallet/decrypt" || e.Path == "/api/v1/wallet/seed" {
						set = enc // never a wallet created unencrypted (see apifix.Gen.AllowSlow)
					}
					wi := set[rng.Intn(len(set))]
					if wi.Encrypted && e.Path != "/api/v1/wallet/encrypt" && e.Path != "/api/v1/wallet/decrypt" && rng.Intn(4) == 0 {
						wi.Encrypted = false // the wallet may have been decrypted by another client meanwhile
					}
					q = g.WellFormedFor(e, &wi)
				}
				resp := cn.csend(c, q, origin)
				if resp != nil && resp.Fail == "" && resp.Status == 200 {
					g.Harvest(resp.Body)
				}
			}
		}(c)
	}
	wg.Wait()
	close(cn.done)
	mon.Wait()
	if !cn.aborted.Load() {
		n.stop()
	}
	cn.finalScan()
	cn.mu.Lock()
	ov, maxIn := overlaps(cn.ivals), cn.maxInflight
	cn.mu.Unlock()
	r.Count("conc.read_overlapping_state_change", int64(ov))
	cn.mu.Lock()
	d := append([]time.Duration(nil), cn.durs...)
	cn.mu.Unlock()
	sort.Slice(d, func(a, b int) bool { return d[a] < d[b] })
	if len(d) > 0 {
		r.Extra("conc_node_"+tag, map[string]interface{}{"clients": cj.K, "race_build": cj.Race, "requests_answered": len(d), "wall": time.Since(cn.t0).Round(time.Millisecond).String(),
			"latency_median": d[len(d)/2].String(), "latency_p99": d[len(d)*99/100].String(), "latency_max": d[len(d)-1].String(), "max_in_flight": maxIn, "reads_overlapping_a_state_change": ov})
	}
	h.seenMu.Lock()
	if int64(maxIn) > h.maxConc {
		h.maxConc = int64(maxIn)
	}
	h.seenMu.Unlock()
	os.RemoveAll(n.dir)
	r.Count("conc.jobs", 1)
	if cj.Race {
		r.Count("conc.jobs_on_race_build", 1)
	}
	r.Sample(map[string]interface{}{"leg": "concurrent", "node": tag, "clients": cj.K, "race_build": cj.Race, "max_in_flight": maxIn, "reads_overlapping_a_state_change": ov, "last_requests": cn.recent[max(0, len(cn.recent)-3):]})
}
