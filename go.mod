module verif

go 1.23

require (
	github.com/anishathalye/porcupine v1.3.0
	github.com/blang/semver v3.5.1+incompatible
	github.com/boltdb/bolt v1.3.1
	github.com/shopspring/decimal v0.0.0-20180709203117-cd690d0c9e24
	github.com/sirupsen/logrus v1.1.1
	github.com/skycoin/skycoin v0.0.0
	github.com/stretchr/testify v1.2.2
)

require (
	github.com/cenkalti/backoff v1.1.0 // indirect
	github.com/davecgh/go-spew v1.1.1 // indirect
	github.com/mattn/go-colorable v0.0.9 // indirect
	github.com/mattn/go-isatty v0.0.4 // indirect
	github.com/mgutz/ansi v0.0.0-20170206155736-9520e82c474b // indirect
	github.com/pmezard/go-difflib v1.0.0 // indirect
	github.com/rs/cors v1.6.0 // indirect
	github.com/stretchr/objx v0.1.1 // indirect
	golang.org/x/crypto v0.0.0-20181015023909-0c41d7ab0a0e // indirect
	golang.org/x/net v0.0.0-20181023162649-9b4f9f5ad519 // indirect
	golang.org/x/sys v0.0.0-20181023152157-44b849a8bc13 // indirect
)

replace github.com/skycoin/skycoin => /repo
