module verif

go 1.23

require (
	github.com/anishathalye/porcupine v1.3.0
	github.com/skycoin/skycoin v0.0.0
)

replace github.com/skycoin/skycoin => /repo
