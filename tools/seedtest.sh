#!/bin/bash
# tools/seedtest.sh <seeded-id> [tier]  — run the property's check against a seeded breaking change
# (applied in a scratch worktree outside /repo and /verif) and report whether it was detected.
set -u
cd "$(dirname "$(readlink -f "$0")")/.."
id="$1"; tier="${2:-quick}"
meta="seeded/$id/meta.json"
prop=$(python3 -c "import json;print(json.load(open('$meta'))['property'])")
wt="/tmp/st-$id-$$"
git -C /repo worktree add --detach "$wt" HEAD >/dev/null 2>&1 || { echo "worktree failed"; exit 3; }
trap 'git -C /repo worktree remove --force "$wt" >/dev/null 2>&1; rm -rf "bin/alt-$(echo "$wt" | md5sum | cut -c1-10)" "bin/go.$(echo "$wt" | md5sum | cut -c1-10)."*' EXIT
if ! git -C "$wt" apply "$PWD/seeded/$id/patch.diff"; then echo "RESULT $id $prop patch-does-not-apply"; exit 3; fi
out=$(VERIF_REPO="$wt" VERIF_ROOT_EVIDENCE=skip ./check "$prop" --tier "$tier" 2>&1); rc=$?
echo "$out" | grep -E "^VIOLATION|^  kind=|^INCONCLUSIVE|BUILD-FAILED" | head -5
if [ $rc -eq 1 ] && echo "$out" | grep -q "^VIOLATION property=$prop"; then echo "RESULT $id $prop DETECTED"; else echo "RESULT $id $prop MISSED rc=$rc"; fi
