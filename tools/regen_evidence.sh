#!/bin/bash
# tools/regen_evidence.sh [ids...] — run the quick check of every (or the given) property at seed 1 against
# /repo and report exit codes; evidence/<id>.json is rewritten by each run.
cd "$(dirname "$(readlink -f "$0")")/.."
export GOFLAGS=-mod=mod GOPROXY=off GOSUMDB=off GOTOOLCHAIN=local VERIF_SEED=${VERIF_SEED:-1}
ids="$@"; [ -z "$ids" ] && ids=$(seq -f "C%02g" 1 33)
for p in $ids; do
  t0=$(date +%s)
  out=$(./check $p --tier quick 2>&1); rc=$?
  echo "$p rc=$rc wall=$(( $(date +%s) - t0 ))s $(echo "$out" | grep -c '^VIOLATION') violations; $(echo "$out" | grep -E '^INCONCLUSIVE|^KNOWN-FINDING' | cut -c1-160 | tr '\n' ';')"
done
