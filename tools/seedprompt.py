#!/usr/bin/env python3
import json,sys
pid=sys.argv[1]; n=sys.argv[2] if len(sys.argv)>2 else '1'
p=[json.loads(l) for l in open('/verif/properties.jsonl') if json.loads(l)['id']==pid][0]
wt=f"/tmp/seed-{pid}-{n}"
print(f"""You are helping to evaluate a verification effort for the Go project skycoin (a cryptocurrency full node and wallet). Your job is to plant ONE realistic, subtle bug.

Your private working copy is the git worktree {wt} (create it first with: git -C /repo worktree add --detach {wt} HEAD). Work ONLY inside {wt}. Do not read, list or use anything under /verif (it is off limits, so that your change is independent of the existing checks), and do not modify /repo itself. Every shell call needs: export GOFLAGS=-mod=mod GOPROXY=off GOSUMDB=off GOTOOLCHAIN=local (no network). Files guarded by the build tag `verif` are instrumentation hooks: leave them alone and do not rely on them.

The semantic property that your change must break:

  Title: {p['title']}
  Statement: {p['statement']}
  Quantified over: {p['quantifier']['text']}
  Code it is anchored in: {', '.join(p['anchors']['files'])}

Requirements for the change:
1. It edits non-test Go source under {wt}/src so that the property above no longer holds, while the tree still compiles (go build ./... and go vet of the touched packages) and the EXISTING tests of the touched packages and their direct dependants still pass unedited (run them; for src/visor add `-skip TestErrMissingSignatureRecreateDB`, that test hangs on the baseline tree for unrelated reasons; wallet.TestServiceNewAddresses/writable=false and file.TestIsWritable fail on the baseline tree because tests run as root — ignore those two).
2. It must look like a plausible maintenance mistake (refactoring slip, wrong comparison, dropped check, reordered statements, missing lock, early return…), small (a few lines), not a sabotage marker.
3. It must need something specific to manifest — a particular interleaving, a crash or fault at a particular point, a multi-step sequence of operations, an unusual/boundary input, or two cooperating sites that each look fine alone — not something that ordinary use would expose at once.
4. Provide a demonstration: a Go test file (package-internal or external) or small program placed under {wt} (e.g. {wt}/src/<pkg>/seeded_demo_test.go) that FAILS with your change and PASSES without it (verify both by saving your diff to a file and using `git apply -R <file>` / `git apply <file>`; NEVER use `git stash` — the stash is shared between all worktrees of the repository and other people are working in other worktrees). The demonstration is not part of the change.

Deliverables, written to the directory /tmp/seed-out/{pid}-{n}/ (create it):
- patch.diff : `git -C {wt} diff -- src ':!*seeded_demo*'` containing ONLY the breaking change (no demo, no test edits);
- the demonstration file(s) and a file demo.sh with the exact command(s) that run it from the worktree root;
- meta.json : {{"property": "{pid}", "summary": "<one sentence>", "needs": "<what is needed for it to manifest>", "files": [...], "tests_run": "<commands you ran and their result>"}}.
Finally remove your worktree (git -C /repo worktree remove --force {wt}) and reply with a three-line summary. Be economical: do not explore more of the repository than you need.""")
