#!/usr/bin/env python3
"""Regenerates seeded/README.md from seeded/*/meta.json"""
import json,glob,os
rows=[]
for p in sorted(glob.glob('/verif/seeded/*/meta.json')):
    m=json.load(open(p)); sid=os.path.basename(os.path.dirname(p))
    rows.append((sid,m.get('property',''),m.get('summary','').replace('|','/').replace('\n',' '),m.get('needs','').replace('|','/').replace('\n',' '),m.get('detected_by','(not yet run)').replace('|','/')))
out=["# Independently seeded breaking changes","",
"Each directory holds `patch.diff` (the change, applies to /repo HEAD), the demonstration (fails with the change, passes without), `demo.sh` and `meta.json`. Every change was written by a fresh sub-agent that saw only the property text and its own scratch worktree, compiles, and passes the existing tests of the touched packages; each was confirmed with `tools/seedconfirm.sh <id>` (demonstration passes without and fails with the patch, tree builds) and run against the property's quick check with `tools/seedtest.sh <id>` (scratch worktree, `VERIF_REPO`). None is ever committed to /repo.","",
"| id | property | change | needs to manifest | result of the quick check |","|---|---|---|---|---|"]
for r in rows: out.append("| %s | %s | %s | %s | %s |"%r)
missed=[r for r in rows if 'MISSED' in r[4]]
out+=["","%d seeded changes; %d detected by the quick check as committed; %d of those only after the check was strengthened (marked 'initially MISSED')."%(len(rows),sum(1 for r in rows if 'not yet' not in r[4] and 'NOT DETECTED' not in r[4]),len(missed))]
open('/verif/seeded/README.md','w').write('\n'.join(out)+'\n')
print(len(rows),'rows;',len(missed),'initially missed')
