#!/bin/bash
# tools/seedconfirm.sh <Cxx-n> : confirm a seeded change delivered in /tmp/seed-out/<id>/ in a scratch
# worktree (demo passes without and fails with the patch; tree builds), then copy it to /verif/seeded/<id>/
set -u
id="$1"; src="/tmp/seed-out/$id"; wt="/tmp/sc-$id-$$"
export GOFLAGS=-mod=mod GOPROXY=off GOSUMDB=off GOTOOLCHAIN=local
[ -f "$src/patch.diff" ] || { echo "CONFIRM $id no-patch"; exit 3; }
git -C /repo worktree add --detach "$wt" HEAD >/dev/null 2>&1 || exit 3
trap 'git -C /repo worktree remove --force "$wt" >/dev/null 2>&1' EXIT
mkdir -p "$wt/.seeddemo" && cp -r "$src"/. "$wt/.seeddemo/"
# a delivery may mirror the tree (src/...): copy demo files to the same relative paths
[ -d "$src/src" ] && cp -r "$src/src/." "$wt/src/"
# place demo test files where demo.sh / meta.json say they belong (src/<pkg>/seeded_demo*_test.go)
for t in $(grep -ohE 'src/[A-Za-z0-9_/.-]+/seeded_demo[A-Za-z0-9_]*(_test)?\.go' "$src/demo.sh" "$src/meta.json" 2>/dev/null | sort -u); do
  b=$(basename "$t"); [ -f "$src/$b" ] && mkdir -p "$wt/$(dirname "$t")" && cp "$src/$b" "$wt/$t"
done
# last resort: demo.sh names only the package (go test ./src/<pkg>/): put top-level demo tests there
if ! find "$wt/src" -name 'seeded_demo*_test.go' | grep -q .; then
  for d in $(grep -ohE 'go test[^#]*\./src/[A-Za-z0-9_/.-]+' "$src/demo.sh" | grep -oE '\./src/[A-Za-z0-9_/.-]+' | sort -u); do
    for t in "$src"/seeded_demo*_test.go; do [ -f "$t" ] && [ -d "$wt/$d" ] && cp "$t" "$wt/$d/"; done
  done
fi
( cd "$wt" && timeout 900 sh .seeddemo/demo.sh > .seeddemo/without.log 2>&1 ); rc0=$?
git -C "$wt" apply "$src/patch.diff" || { echo "CONFIRM $id patch-does-not-apply"; exit 3; }
( cd "$wt" && go build ./src/... > .seeddemo/build.log 2>&1 ); rcb=$?
( cd "$wt" && timeout 900 sh .seeddemo/demo.sh > .seeddemo/with.log 2>&1 ); rc1=$?
echo "CONFIRM $id demo-without-patch=$rc0 build-with-patch=$rcb demo-with-patch=$rc1"
if [ $rc0 -eq 0 ] && [ $rcb -eq 0 ] && [ $rc1 -ne 0 ]; then
  mkdir -p "/verif/seeded/$id" && cp -r "$src"/. "/verif/seeded/$id/"
  python3 - "$id" <<'P'
import json,sys
p='/verif/seeded/%s/meta.json'%sys.argv[1]; m=json.load(open(p))
m['confirmed']={'demo_without_patch':'pass','demo_with_patch':'fail','build_with_patch':'ok','how':'tools/seedconfirm.sh in a scratch worktree of /repo HEAD'}
json.dump(m,open(p,'w'),indent=1)
P
  echo "CONFIRM $id OK"
else
  tail -5 "$wt/.seeddemo/without.log" "$wt/.seeddemo/with.log" "$wt/.seeddemo/build.log" 2>/dev/null | cut -c1-300
  echo "CONFIRM $id FAILED"
fi
