#!/usr/bin/env python3
"""Regenerates MANIFEST.json from tools/manifest_entries.json (per-property texts) and what exists under cmd/."""
import json, os, sys
root = os.path.dirname(os.path.dirname(os.path.abspath(__file__)))
props = [json.loads(l) for l in open(os.path.join(root, 'properties.jsonl'))]
entries = json.load(open(os.path.join(root, 'tools', 'manifest_entries.json')))
hooks_commits = [l.strip() for l in open(os.path.join(root, 'tools', 'hook_commits.txt')) if l.strip()]
checks, na = [], []
for p in props:
    pid = p['id']
    e = entries.get(pid)
    if e and e.get('claimed') and os.path.isdir(os.path.join(root, 'cmd', pid.lower())):
        c = {
            'property_id': pid,
            'quick_cmd': './check %s --tier quick' % pid,
            'thorough_cmd': './check %s --tier thorough' % pid,
            'evidence_file': 'evidence/%s.json' % pid,
            'replay_cmd_template': './check %s --replay {path}' % pid,
            'engine': e.get('engine', 'vcheck'),
            'level_claimed': {'category': e.get('category', 'exploration'), 'text': e['level_text'], 'design_ref': 'DESIGN.md section 4, ' + pid},
            'level_note': e['level_note'],
            'technique': e['technique'],
        }
        checks.append(c)
    else:
        na.append({'property_id': pid, 'reason': (e or {}).get('na_reason', 'check not built yet (work in progress); not claimed')})
m = {
    'version': 1,
    'setup_cmd': './setup.sh',
    'hooks': {
        'guard': 'verif',
        'enable': 'go build -tags verif (all hook files carry //go:build verif; gnet/strand have //go:build !verif no-op stubs)',
        'baseline_off_cmd': 'cd /repo && GOFLAGS=-mod=mod GOPROXY=off GOSUMDB=off GOTOOLCHAIN=local go test -mod=mod -json -vet=off -count=1 -timeout 25m ./...',
        'source_commits': hooks_commits,
        'add_only': True,
    },
    'engines': [
        {'name': 'vcheck', 'path': 'check', 'serves_properties': [c['property_id'] for c in checks],
         'kind_free_text': 'runtime monitoring: real skycoin code (tag verif) under generated/hostile/stress workloads with reference-model monitors, trace checkers (strace crash-prefix, wire/HTTP logs, porcupine) and invariant hooks; Go race detector for schedule properties'},
    ],
    'checks': checks,
    'not_applicable': na,
    'notes': 'All checks are runtime monitors over executions of the real code; see DESIGN.md. Exit 0 held / 1 violation (VIOLATION line) / 2 inconclusive (coverage floor missed; never expected on the unchanged tree).',
}
json.dump(m, open(os.path.join(root, 'MANIFEST.json'), 'w'), indent=1)
print('checks:', len(checks), 'not_applicable:', len(na))
