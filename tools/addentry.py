#!/usr/bin/env python3
"""tools/addentry.py manifest <Cxx> <category> <<< JSON{level_text, level_note, technique}
   tools/addentry.py finding <<< JSON finding"""
import json,sys
kind=sys.argv[1]
if kind=='manifest':
    p='/verif/tools/manifest_entries.json'; d=json.load(open(p)); e=json.load(sys.stdin)
    e['claimed']=True; e['category']=sys.argv[3]; d[sys.argv[2]]=e; json.dump(d,open(p,'w'),indent=1)
else:
    p='/verif/known_findings.json'; d=json.load(open(p)); f=json.load(sys.stdin)
    d['findings']=[x for x in d['findings'] if x['id']!=f['id']]+[f]; json.dump(d,open(p,'w'),indent=1)
