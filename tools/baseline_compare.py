#!/usr/bin/env python3
"""tools/baseline_compare.py <gotest.json> : compare a `go test -json` run of /repo (hooks off) with the
stable_pass list of /root/.vp/BASELINE.json; prints the stable tests that did not pass."""
import json,sys
b=json.load(open('/root/.vp/BASELINE.json'))
stable=set(b['stable_pass'])
res={}
for l in open(sys.argv[1],errors='replace'):
    l=l.strip()
    if not l.startswith('{'): continue
    try: e=json.loads(l)
    except Exception: continue
    if e.get('Test') and e.get('Action') in ('pass','fail','skip'):
        res[e['Package']+'::'+e['Test']]=e['Action']
passed={k for k,v in res.items() if v=='pass'}
missing=sorted(stable-passed)
print('stable_pass:',len(stable),'passed now:',len(passed),'stable not passing now:',len(missing))
from collections import Counter
c=Counter((m.split('::')[0], res.get(m,'not-run')) for m in missing)
for k,v in sorted(c.items()): print('  ',k,v)
for m in missing[:40]: print('   -',m,res.get(m,'not-run'))

# Many stable subtests carry randomly generated names (sizes, hashes): reduce what is missing to
# top-level tests and report their status and any stable subtest that FAILED now.
tops={}
for m in missing:
    pkg,t=m.split('::',1); tops.setdefault(pkg+'::'+t.split('/')[0],[]).append(m)
print('by top-level test:')
for top,ms in sorted(tops.items()):
    print('  ',top,'top-level:',res.get(top,'not-run'),'stable subtests missing:',len(ms),'of which failed now:',len([m for m in ms if res.get(m)=='fail']))
