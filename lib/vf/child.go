package vf

import (
	"bytes"
	"context"
	"io/ioutil"
	"os"
	"os/exec"
	"path/filepath"
	"regexp"
	"strings"
	"syscall"
	"time"
)

// ChildResult is what a child process left behind
type ChildResult struct {
	ExitCode int
	Signaled bool
	TimedOut bool
	Stdout   []byte
	Stderr   []byte
	Wall     time.Duration
}

// ChildMode returns the value of VERIF_CHILD ("" in the parent)
func ChildMode() string { return os.Getenv("VERIF_CHILD") }

// RunChild runs bin (""= this executable) with VERIF_CHILD=mode. stdout/stderr go to
// files in dir (so that a goroutine dump survives) and are read back. On timeout the child
// gets SIGQUIT (goroutine dump), then SIGKILL.
func RunChild(dir, bin, mode string, args []string, env []string, timeout time.Duration) ChildResult {
	if bin == "" {
		bin, _ = os.Executable()
	}
	outp := filepath.Join(dir, "child.stdout")
	errp := filepath.Join(dir, "child.stderr")
	of, _ := os.Create(outp)
	ef, _ := os.Create(errp)
	defer of.Close()
	defer ef.Close()
	ctx, cancel := context.WithCancel(context.Background())
	defer cancel()
	cmd := exec.CommandContext(ctx, bin, args...)
	cmd.Env = append(os.Environ(), "VERIF_CHILD="+mode)
	cmd.Env = append(cmd.Env, env...)
	cmd.Stdout = of
	cmd.Stderr = ef
	cmd.Dir = dir
	t0 := time.Now()
	res := ChildResult{}
	if err := cmd.Start(); err != nil {
		res.ExitCode = -1
		res.Stderr = []byte(err.Error())
		return res
	}
	done := make(chan error, 1)
	go func() { done <- cmd.Wait() }()
	var err error
	select {
	case err = <-done:
	case <-time.After(timeout):
		res.TimedOut = true
		_ = cmd.Process.Signal(syscall.SIGQUIT)
		select {
		case err = <-done:
		case <-time.After(10 * time.Second):
			_ = cmd.Process.Kill()
			err = <-done
		}
	}
	res.Wall = time.Since(t0)
	if err != nil {
		if ee, ok := err.(*exec.ExitError); ok {
			if ws, ok := ee.Sys().(syscall.WaitStatus); ok {
				res.Signaled = ws.Signaled()
				res.ExitCode = ws.ExitStatus()
			} else {
				res.ExitCode = 1
			}
		} else {
			res.ExitCode = -1
		}
	}
	res.Stdout, _ = ioutil.ReadFile(outp)
	res.Stderr, _ = ioutil.ReadFile(errp)
	return res
}

var crashRe = regexp.MustCompile(`(?m)^(panic: |fatal error: |unexpected fault address|runtime: out of memory|SIGSEGV|goroutine \d+ \[running\]:)`)

// CrashSignature extracts "panic: ..." / "fatal error: ..." and the first product frame
// from a Go process's stderr; "" if the text shows no crash
func CrashSignature(stderr []byte) (headline string, frame string) {
	loc := crashRe.FindIndex(stderr)
	if loc == nil {
		return "", ""
	}
	rest := stderr[loc[0]:]
	line := rest
	if i := bytes.IndexByte(rest, '\n'); i >= 0 {
		line = rest[:i]
	}
	headline = string(line)
	for _, l := range strings.Split(string(rest), "\n") {
		l = strings.TrimSpace(l)
		if strings.HasPrefix(l, "github.com/skycoin/skycoin/") && strings.Contains(l, "(") {
			frame = strings.TrimPrefix(l[:strings.LastIndex(l, "(")], "github.com/skycoin/skycoin/")
			break
		}
	}
	return
}

// FirstFrames returns the first n skycoin frames following a crash headline
func FirstFrames(stderr []byte, n int) []string {
	loc := crashRe.FindIndex(stderr)
	if loc == nil {
		return nil
	}
	out := []string{}
	for _, l := range strings.Split(string(stderr[loc[0]:]), "\n") {
		l = strings.TrimSpace(l)
		if strings.HasPrefix(l, "github.com/skycoin/skycoin/") && strings.Contains(l, "(") {
			out = append(out, strings.TrimPrefix(l[:strings.LastIndex(l, "(")], "github.com/skycoin/skycoin/"))
			if len(out) >= n {
				break
			}
		}
	}
	return out
}

// Recover runs f and converts a panic into (true, message, first skycoin frame)
func Recover(f func()) (panicked bool, msg string, frame string) {
	defer func() {
		if e := recover(); e != nil {
			panicked = true
			msg = sprint(e)
			frame = panicFrame()
		}
	}()
	f()
	return
}
