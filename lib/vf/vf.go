// Package vf is the shared run/evidence/verdict layer of the verification harness.
//
// Every check binary does:
//
//	r := vf.Start("C01", "exploration")
//	... r.Eval(1); r.Distinct("class:x"); r.Count("blocks.accepted", 1); r.Sample(v)
//	... r.Violation("kind", attrs, witness)
//	r.Floor("blocks.accepted", 1)
//	r.Finish("rule text", "assumption", ...)
//
// Finish writes /verif/evidence/<id>.json and exits 0 (held), 1 (violation, after a
// "VIOLATION property=<id> replay=<path>" line on stdout) or 2 (inconclusive).
package vf

import (
	"crypto/sha256"
	"encoding/hex"
	"encoding/json"
	"flag"
	"fmt"
	"io/ioutil"
	"math/rand"
	"os"
	"path/filepath"
	"regexp"
	"sort"
	"strconv"
	"strings"
	"sync"
	"time"
)

// Root is the /verif directory (location of evidence/, replays/, known_findings.json)
func Root() string {
	if v := os.Getenv("VERIF_ROOT"); v != "" {
		return v
	}
	return "/verif"
}

// RepoDir is the skycoin tree under test
func RepoDir() string {
	if v := os.Getenv("VERIF_REPO"); v != "" {
		return v
	}
	return "/repo"
}

// Run collects what one check execution observed
type Run struct {
	Prop  string
	Level string
	Tier  string
	Seed  int64

	start time.Time
	mu    sync.Mutex

	evals      int64
	counts     map[string]int64
	distinct   map[string]struct{}
	samples    []interface{}
	maxSamples int
	floors     []floor
	extra      map[string]interface{}

	violations   int
	maxViolPrint int
	known        map[string]int // finding id -> hits
	findings     []finding
	inconclusive []string
}

type floor struct {
	key string
	min int64
}

type finding struct {
	ID          string            `json:"id"`
	Property    string            `json:"property"`
	Status      string            `json:"status"` // "known" or "fixed"
	Kind        string            `json:"kind"`
	Match       map[string]string `json:"match"` // attr -> regexp (anchored)
	Description string            `json:"description"`
	Commit      string            `json:"commit,omitempty"`
}

var (
	flagTier   = flag.String("tier", "", "quick|thorough (default $VERIF_TIER or quick)")
	flagReplay = flag.String("replay", "", "replay file")
)

// Start parses flags/environment and loads known findings
func Start(prop, level string) *Run {
	if !flag.Parsed() {
		flag.Parse()
	}
	tier := *flagTier
	if tier == "" {
		tier = os.Getenv("VERIF_TIER")
	}
	if tier != "thorough" {
		tier = "quick"
	}
	seed := int64(1)
	if s := os.Getenv("VERIF_SEED"); s != "" {
		if v, err := strconv.ParseInt(s, 10, 64); err == nil {
			seed = v
		}
	}
	r := &Run{
		Prop: prop, Level: level, Tier: tier, Seed: seed,
		start:        time.Now(),
		counts:       map[string]int64{},
		distinct:     map[string]struct{}{},
		extra:        map[string]interface{}{},
		known:        map[string]int{},
		maxSamples:   6,
		maxViolPrint: 10,
	}
	r.loadFindings()
	return r
}

// ReplayPath is the --replay argument ("" if none)
func (r *Run) ReplayPath() string { return *flagReplay }

// Quick reports whether this is the quick tier
func (r *Run) Quick() bool { return r.Tier == "quick" }

// Pick returns q in the quick tier and t in the thorough tier
func (r *Run) Pick(q, t int) int {
	if r.Quick() {
		return q
	}
	return t
}

func (r *Run) loadFindings() {
	b, err := ioutil.ReadFile(filepath.Join(Root(), "known_findings.json"))
	if err != nil {
		return
	}
	var doc struct {
		Findings []finding `json:"findings"`
	}
	if err := json.Unmarshal(b, &doc); err != nil {
		fmt.Fprintf(os.Stderr, "known_findings.json: %v\n", err)
		os.Exit(3)
	}
	for _, f := range doc.Findings {
		if f.Property == r.Prop && f.Status == "known" {
			r.findings = append(r.findings, f)
		}
	}
}

// Eval adds n to the number of cases evaluated
func (r *Run) Eval(n int64) {
	r.mu.Lock()
	r.evals += n
	r.mu.Unlock()
}

// Count adds n to a named counter reported in the evidence
func (r *Run) Count(key string, n int64) {
	r.mu.Lock()
	r.counts[key] += n
	r.mu.Unlock()
}

// Get returns a counter value
func (r *Run) Get(key string) int64 {
	r.mu.Lock()
	defer r.mu.Unlock()
	return r.counts[key]
}

// Evals returns the number of evaluations so far
func (r *Run) Evals() int64 {
	r.mu.Lock()
	defer r.mu.Unlock()
	return r.evals
}

// Counts returns a copy of all counters
func (r *Run) Counts() map[string]int64 {
	r.mu.Lock()
	defer r.mu.Unlock()
	out := make(map[string]int64, len(r.counts))
	for k, v := range r.counts {
		out[k] = v
	}
	return out
}

// Distinct records one distinct non-trivial case key (hashed if long)
func (r *Run) Distinct(key string) {
	if len(key) > 40 {
		h := sha256.Sum256([]byte(key))
		key = hex.EncodeToString(h[:12])
	}
	r.mu.Lock()
	r.distinct[key] = struct{}{}
	r.mu.Unlock()
}

// DistinctBytes records a distinct case identified by bytes
func (r *Run) DistinctBytes(b []byte) {
	h := sha256.Sum256(b)
	r.mu.Lock()
	r.distinct[string(h[:12])] = struct{}{}
	r.mu.Unlock()
}

// Sample keeps up to a handful of concrete cases for the evidence file
func (r *Run) Sample(v interface{}) {
	r.mu.Lock()
	if len(r.samples) < r.maxSamples {
		r.samples = append(r.samples, v)
	}
	r.mu.Unlock()
}

// Extra sets a free-form coverage key
func (r *Run) Extra(key string, v interface{}) {
	r.mu.Lock()
	r.extra[key] = v
	r.mu.Unlock()
}

// Floor registers a coverage floor: counter key must reach min or the run is inconclusive
func (r *Run) Floor(key string, min int64) {
	r.mu.Lock()
	r.floors = append(r.floors, floor{key, min})
	r.mu.Unlock()
}

// Inconclusive records a reason why this run cannot give a verdict
func (r *Run) Inconclusive(why string) {
	r.mu.Lock()
	r.inconclusive = append(r.inconclusive, why)
	r.mu.Unlock()
}

// hardStop is the number of violations after which a run ends at once
const hardStop = 1000

// Violations returns the number of (unlisted) violations so far
func (r *Run) Violations() int {
	r.mu.Lock()
	defer r.mu.Unlock()
	return r.violations
}

// Violation reports a refuting observation. kind and attrs identify its class for the
// known-findings matcher; witness is written to the replay file. Returns true if it
// counted as a new violation (false if it matched a listed known finding).
func (r *Run) Violation(kind string, attrs map[string]string, witness interface{}) bool {
	r.mu.Lock()
	defer r.mu.Unlock()
	for _, f := range r.findings {
		if f.Kind != kind {
			continue
		}
		ok := true
		for k, pat := range f.Match {
			re, err := regexp.Compile("^(?:" + pat + ")$")
			if err != nil || !re.MatchString(attrs[k]) {
				ok = false
				break
			}
		}
		if ok {
			if r.known[f.ID] == 0 {
				fmt.Printf("KNOWN-FINDING: property=%s %s: %s\n", r.Prop, f.ID, f.Description)
			}
			r.known[f.ID]++
			return false
		}
	}
	r.violations++
	if r.violations == 1 {
		// the verdict is already "violated"; the clock below only bounds how long the rest of the
		// workload may still take on a tree whose defect makes later cases pathological
		grace := 180 * time.Second
		if r.Tier == "thorough" {
			grace = 900 * time.Second
		}
		go func() {
			time.Sleep(grace)
			r.Finish(fmt.Sprintf("run stopped %v after its first violation; coverage counters are partial", grace))
		}()
	}
	if r.violations == hardStop {
		// a tree this broken gains nothing from more cases, and some defects make every further
		// case slower or larger: write the evidence and stop (Finish exits with status 1)
		go r.Finish(fmt.Sprintf("run stopped early after %d violations; coverage counters are partial", hardStop))
	}
	if r.violations > r.maxViolPrint {
		return true
	}
	dir := filepath.Join(Root(), "replays")
	_ = os.MkdirAll(dir, 0755)
	path := filepath.Join(dir, fmt.Sprintf("%s-%s-seed%d-%d.json", r.Prop, sanitize(kind), r.Seed, r.violations))
	doc := map[string]interface{}{
		"property": r.Prop, "kind": kind, "attrs": attrs, "seed": r.Seed, "tier": r.Tier, "witness": witness,
	}
	b, err := json.MarshalIndent(doc, "", " ")
	if err != nil {
		b = []byte(fmt.Sprintf("{\"property\":%q,\"kind\":%q,\"witness\":%q}", r.Prop, kind, fmt.Sprintf("%+v", witness)))
	}
	_ = ioutil.WriteFile(path, b, 0644)
	fmt.Printf("VIOLATION property=%s replay=%s\n", r.Prop, path)
	as := []string{}
	for k, v := range attrs {
		if len(v) > 200 {
			v = v[:200] + "..."
		}
		as = append(as, k+"="+v)
	}
	sort.Strings(as)
	fmt.Printf("  kind=%s %s\n", kind, strings.Join(as, " "))
	return true
}

func sanitize(s string) string {
	out := []rune{}
	for _, c := range s {
		if (c >= 'a' && c <= 'z') || (c >= 'A' && c <= 'Z') || (c >= '0' && c <= '9') || c == '-' || c == '_' {
			out = append(out, c)
		} else {
			out = append(out, '_')
		}
	}
	if len(out) > 40 {
		out = out[:40]
	}
	return string(out)
}

// Finish writes the evidence file and exits with the verdict
func (r *Run) Finish(rule string, assumptions ...string) {
	r.mu.Lock()
	for _, f := range r.floors {
		if r.counts[f.key] < f.min {
			r.inconclusive = append(r.inconclusive, fmt.Sprintf("floor %s: observed %d < %d", f.key, r.counts[f.key], f.min))
		}
	}
	cov := map[string]interface{}{}
	for k, v := range r.extra {
		cov[k] = v
	}
	cov["counts"] = r.counts
	cov["evaluations"] = r.evals
	cov["distinct_nontrivial"] = len(r.distinct)
	cov["rule"] = rule
	samples := r.samples
	if len(samples) == 0 {
		samples = []interface{}{"(no sample recorded)"}
	}
	cov["samples"] = samples
	if len(r.known) > 0 {
		cov["known_findings_hit"] = r.known
	}
	if len(r.inconclusive) > 0 {
		cov["inconclusive"] = r.inconclusive
	}
	ev := map[string]interface{}{
		"property_id": r.Prop,
		"tier":        r.Tier,
		"seed":        r.Seed,
		"level":       r.Level,
		"coverage":    cov,
		"assumptions": assumptions,
		"wall_s":      time.Since(r.start).Seconds(),
		"violations":  r.violations,
	}
	if len(r.inconclusive) > 0 {
		ev["verdict"] = "inconclusive"
	} else if r.violations > 0 {
		ev["verdict"] = "violated"
	} else {
		ev["verdict"] = "held on what was observed"
	}
	viol, inc := r.violations, append([]string(nil), r.inconclusive...)
	r.mu.Unlock()

	dir := filepath.Join(Root(), "evidence")
	if os.Getenv("VERIF_REPO") != "" {
		// self-test against a scratch copy of the repository: never overwrite real evidence
		dir = filepath.Join(Root(), "evidence-selftest")
	}
	_ = os.MkdirAll(dir, 0755)
	b, err := json.MarshalIndent(ev, "", " ")
	if err != nil {
		fmt.Fprintf(os.Stderr, "evidence marshal: %v\n", err)
		os.Exit(3)
	}
	if err := ioutil.WriteFile(filepath.Join(dir, r.Prop+".json"), append(b, '\n'), 0644); err != nil {
		fmt.Fprintf(os.Stderr, "evidence write: %v\n", err)
		os.Exit(3)
	}
	keys := make([]string, 0, len(r.counts))
	for k := range r.counts {
		keys = append(keys, k)
	}
	sort.Strings(keys)
	fmt.Printf("%s tier=%s seed=%d evaluations=%d distinct=%d violations=%d wall=%.1fs\n", r.Prop, r.Tier, r.Seed, r.evals, len(r.distinct), viol, time.Since(r.start).Seconds())
	for _, k := range keys {
		fmt.Printf("  %-48s %d\n", k, r.counts[k])
	}
	if viol > 0 {
		os.Exit(1)
	}
	if len(inc) > 0 {
		for _, w := range inc {
			fmt.Printf("INCONCLUSIVE property=%s why=%s\n", r.Prop, w)
		}
		os.Exit(2)
	}
	os.Exit(0)
}

// ---------------------------------------------------------------------------------
// Seeds

func splitmix(x uint64) uint64 {
	x += 0x9e3779b97f4a7c15
	z := x
	z = (z ^ (z >> 30)) * 0xbf58476d1ce4e5b9
	z = (z ^ (z >> 27)) * 0x94d049bb133111eb
	return z ^ (z >> 31)
}

// SubSeed derives an independent seed from (run seed, property, labels...)
func (r *Run) SubSeed(labels ...interface{}) int64 {
	h := sha256.Sum256([]byte(fmt.Sprint(append([]interface{}{r.Seed, r.Prop}, labels...)...)))
	var x uint64
	for i := 0; i < 8; i++ {
		x = x<<8 | uint64(h[i])
	}
	return int64(splitmix(x) >> 1)
}

// Rand returns a PRNG for (run seed, property, labels...)
func (r *Run) Rand(labels ...interface{}) *rand.Rand {
	return rand.New(rand.NewSource(r.SubSeed(labels...)))
}

// TempDir makes a private scratch directory; remove it with os.RemoveAll when done
func TempDir(tag string) string {
	d, err := ioutil.TempDir("", "verif-"+tag+"-")
	if err != nil {
		fmt.Fprintf(os.Stderr, "tempdir: %v\n", err)
		os.Exit(3)
	}
	return d
}

// Hex is a short helper for witnesses
func Hex(b []byte) string { return hex.EncodeToString(b) }

// Parallel runs f(i) for i in [0,n) on up to workers goroutines
func Parallel(n, workers int, f func(i int)) {
	if workers < 1 {
		workers = 1
	}
	var wg sync.WaitGroup
	ch := make(chan int)
	for w := 0; w < workers; w++ {
		wg.Add(1)
		go func() {
			defer wg.Done()
			for i := range ch {
				f(i)
			}
		}()
	}
	for i := 0; i < n; i++ {
		ch <- i
	}
	close(ch)
	wg.Wait()
}
