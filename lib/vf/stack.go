package vf

import (
	"fmt"
	"runtime"
	"strings"
)

func sprint(e interface{}) string { return fmt.Sprint(e) }

// panicFrame returns the innermost skycoin (non-harness) function on the current stack;
// call it from a deferred recover handler
func panicFrame() string {
	pcs := make([]uintptr, 64)
	n := runtime.Callers(3, pcs)
	frames := runtime.CallersFrames(pcs[:n])
	for {
		fr, more := frames.Next()
		if strings.HasPrefix(fr.Function, "github.com/skycoin/skycoin/") {
			return strings.TrimPrefix(fr.Function, "github.com/skycoin/skycoin/")
		}
		if !more {
			break
		}
	}
	return ""
}
