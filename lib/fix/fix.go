// Package fix assembles real skycoin visors (publisher / follower) on bolt files, with
// harness-owned keys, for the ledger-level monitors. It only wires the real code together and
// builds inputs; it contains no oracle.
package fix

import (
	"bytes"
	"crypto/sha256"
	"encoding/hex"
	"fmt"
	"io"
	"log"
	"os"
	"sort"

	"github.com/boltdb/bolt"

	"github.com/skycoin/skycoin/src/cipher"
	"github.com/skycoin/skycoin/src/coin"
	"github.com/skycoin/skycoin/src/params"
	"github.com/skycoin/skycoin/src/util/logging"
	"github.com/skycoin/skycoin/src/visor"
	"github.com/skycoin/skycoin/src/visor/dbutil"
)

// Quiet silences skycoin's loggers (they write to stdout by default)
func Quiet() {
	logging.Disable()
	// the coin package reports overflows through the standard logger
	log.SetOutput(io.Discard)
}

// Key is a harness-owned key pair
type Key struct {
	Pub  cipher.PubKey
	Sec  cipher.SecKey
	Addr cipher.Address
}

// KeyFromSeed derives a key pair deterministically
func KeyFromSeed(seed string) Key {
	p, s := cipher.MustGenerateDeterministicKeyPair([]byte(seed))
	return Key{Pub: p, Sec: s, Addr: cipher.AddressFromPubKey(p)}
}

// Chain holds the parameters of one test network
type Chain struct {
	Publisher   Key
	Genesis     Key // owner of the genesis output
	Volume      uint64
	Timestamp   uint64
	Keys        []Key // harness user keys; the first NDist of them are the distribution addresses
	NDist       int
	NUnlocked   int
	Unconfirmed params.VerifyTxn
	CreateBlock params.VerifyTxn
	MaxBlock    uint32
	GenesisSig  cipher.Sig // filled in by the first publisher node that creates the genesis block
}

// NewChain makes chain parameters. nDist distribution addresses (volume must be divisible by
// nDist) of which nUnlocked are unlocked; keys beyond nDist are ordinary users.
func NewChain(tag string, volume uint64, nKeys, nDist, nUnlocked int) *Chain {
	c := &Chain{
		Publisher:   KeyFromSeed("publisher-" + tag),
		Genesis:     KeyFromSeed("genesis-" + tag),
		Volume:      volume,
		Timestamp:   1426562704,
		NDist:       nDist,
		NUnlocked:   nUnlocked,
		Unconfirmed: params.UserVerifyTxn,
		CreateBlock: params.UserVerifyTxn,
		MaxBlock:    params.UserVerifyTxn.MaxTransactionSize,
	}
	for i := 0; i < nKeys; i++ {
		c.Keys = append(c.Keys, KeyFromSeed(fmt.Sprintf("user-%s-%d", tag, i)))
	}
	return c
}

// Distribution returns the distribution parameters of the chain
func (c *Chain) Distribution() params.Distribution {
	d := params.Distribution{
		MaxCoinSupply:        c.Volume,
		InitialUnlockedCount: uint64(c.NUnlocked),
		UnlockAddressRate:    5,
		UnlockTimeInterval:   60 * 60 * 24 * 365,
	}
	for i := 0; i < c.NDist; i++ {
		d.Addresses = append(d.Addresses, c.Keys[i].Addr.String())
	}
	// the real node validates its distribution at start-up, which also fills the decoded-address
	// cache; without this the first concurrent readers would race on the lazy initialisation
	if err := d.Validate(); err != nil {
		panic(err)
	}
	return d
}

// LockedAddrs returns the locked distribution addresses
func (c *Chain) LockedAddrs() map[cipher.Address]bool {
	m := map[cipher.Address]bool{}
	for i := c.NUnlocked; i < c.NDist; i++ {
		m[c.Keys[i].Addr] = true
	}
	return m
}

// KeyFor returns the harness key owning an address
func (c *Chain) KeyFor(a cipher.Address) (Key, bool) {
	if a == c.Genesis.Addr {
		return c.Genesis, true
	}
	for _, k := range c.Keys {
		if k.Addr == a {
			return k, true
		}
	}
	return Key{}, false
}

// Config builds a visor configuration
func (c *Chain) Config(publisher, arbitrating bool) visor.Config {
	cfg := visor.NewConfig()
	cfg.IsBlockPublisher = publisher
	cfg.Arbitrating = arbitrating
	cfg.BlockchainPubkey = c.Publisher.Pub
	if publisher {
		cfg.BlockchainSeckey = c.Publisher.Sec
	}
	cfg.UnconfirmedVerifyTxn = c.Unconfirmed
	cfg.CreateBlockVerifyTxn = c.CreateBlock
	cfg.MaxBlockTransactionsSize = c.MaxBlock
	cfg.Distribution = c.Distribution()
	cfg.GenesisAddress = c.Genesis.Addr
	cfg.GenesisSignature = c.GenesisSig
	cfg.GenesisTimestamp = c.Timestamp
	cfg.GenesisCoinVolume = c.Volume
	return cfg
}

// Node is one visor on one bolt file
type Node struct {
	V         *visor.Visor
	DB        *dbutil.DB
	Path      string
	Publisher bool
	Chain     *Chain
}

// Open opens (creating if needed) a node on path and runs visor.New + Init
func (c *Chain) Open(path string, publisher, arbitrating bool) (*Node, error) {
	return c.OpenCfg(path, c.Config(publisher, arbitrating))
}

// OpenCfg is Open with an explicit configuration
func (c *Chain) OpenCfg(path string, cfg visor.Config) (*Node, error) {
	db, err := visor.OpenDB(path, false)
	if err != nil {
		return nil, err
	}
	v, err := visor.New(cfg, db, nil)
	if err != nil {
		db.Close()
		return nil, err
	}
	if err := v.Init(); err != nil {
		db.Close()
		return nil, err
	}
	n := &Node{V: v, DB: db, Path: path, Publisher: cfg.IsBlockPublisher, Chain: c}
	if cfg.IsBlockPublisher && c.GenesisSig == (cipher.Sig{}) {
		sb, err := v.GetSignedBlockBySeq(0)
		if err != nil || sb == nil {
			db.Close()
			return nil, fmt.Errorf("no genesis block after init: %v", err)
		}
		c.GenesisSig = sb.Sig
	}
	return n, nil
}

// Close closes the database
func (n *Node) Close() error {
	return n.DB.Close()
}

// Head returns the head block
func (n *Node) Head() coin.SignedBlock {
	b, err := n.V.GetHeadBlock()
	if err != nil || b == nil {
		panic(fmt.Sprintf("fix: no head block: %v", err))
	}
	return *b
}

// SignBlock signs a block with the publisher key (the harness holds it)
func (c *Chain) SignBlock(b coin.Block) coin.SignedBlock {
	return coin.SignedBlock{Block: b, Sig: cipher.MustSignHash(b.HashHeader(), c.Publisher.Sec)}
}

// Out is a requested transaction output
type Out struct {
	Addr  cipher.Address
	Coins uint64
	Hours uint64
}

// MakeTxn builds and signs a transaction spending the given outputs (owners looked up in the
// chain's keys; unknown owners are signed with the genesis key, i.e. wrongly)
func (c *Chain) MakeTxn(in []coin.UxOut, outs []Out) coin.Transaction {
	var t coin.Transaction
	keys := make([]cipher.SecKey, 0, len(in))
	for _, ux := range in {
		if err := t.PushInput(ux.Hash()); err != nil {
			panic(err)
		}
		k, ok := c.KeyFor(ux.Body.Address)
		if !ok {
			k = c.Genesis
		}
		keys = append(keys, k.Sec)
	}
	for _, o := range outs {
		t.Out = append(t.Out, coin.TransactionOutput{Address: o.Addr, Coins: o.Coins, Hours: o.Hours})
	}
	t.SignInputs(keys)
	if err := t.UpdateHeader(); err != nil {
		panic(err)
	}
	return t
}

// Resign recomputes inner hash, signatures (with the owners' keys of `in`) and header of a
// transaction whose In/Out were edited
func (c *Chain) Resign(t *coin.Transaction, in []coin.UxOut) {
	t.Sigs = nil
	t.InnerHash = cipher.SHA256{}
	keys := make([]cipher.SecKey, 0, len(in))
	for _, ux := range in {
		k, ok := c.KeyFor(ux.Body.Address)
		if !ok {
			k = c.Genesis
		}
		keys = append(keys, k.Sec)
	}
	t.SignInputs(keys)
	if err := t.UpdateHeader(); err != nil {
		panic(err)
	}
}

// RawBlock assembles a block on top of prev with the given fields, computing the body hash; no
// validation whatsoever (used by forgers)
func RawBlock(prev coin.BlockHeader, when uint64, uxHash cipher.SHA256, fee uint64, txns coin.Transactions) coin.Block {
	body := coin.BlockBody{Transactions: txns}
	return coin.Block{
		Head: coin.BlockHeader{
			Version:  prev.Version,
			Time:     when,
			BkSeq:    prev.BkSeq + 1,
			Fee:      fee,
			PrevHash: prev.Hash(),
			BodyHash: body.Hash(),
			UxHash:   uxHash,
		},
		Body: body,
	}
}

// ---------------------------------------------------------------------------------
// Whole-database digest ("exactly as they were")

// BucketDump is bucket name -> sorted key/value digest, plus entry counts
type BucketDump struct {
	Digest map[string]string
	Count  map[string]int
}

// Dump hashes every bucket (recursively) of the database
func (n *Node) Dump() BucketDump {
	return DumpDB(n.DB)
}

// DumpDB hashes every bucket of a database
func DumpDB(db *dbutil.DB) BucketDump {
	d := BucketDump{Digest: map[string]string{}, Count: map[string]int{}}
	err := db.View("verif dump", func(tx *dbutil.Tx) error {
		return tx.Tx.ForEach(func(name []byte, b *bolt.Bucket) error {
			dumpBucket(string(name), b, &d)
			return nil
		})
	})
	if err != nil {
		panic(err)
	}
	return d
}

func dumpBucket(name string, b *bolt.Bucket, d *BucketDump) {
	h := sha256.New()
	n := 0
	_ = b.ForEach(func(k, v []byte) error {
		if v == nil {
			if sub := b.Bucket(k); sub != nil {
				dumpBucket(name+"/"+string(k), sub, d)
				return nil
			}
		}
		var l [8]byte
		putLen(l[:], len(k))
		h.Write(l[:])
		h.Write(k)
		putLen(l[:], len(v))
		h.Write(l[:])
		h.Write(v)
		n++
		return nil
	})
	d.Digest[name] = hex.EncodeToString(h.Sum(nil)[:16])
	d.Count[name] = n
}

func putLen(b []byte, n int) {
	for i := 0; i < 8; i++ {
		b[i] = byte(n >> (8 * uint(i)))
	}
}

// Diff lists the buckets whose digest differs
func (d BucketDump) Diff(o BucketDump) []string {
	var out []string
	for k, v := range d.Digest {
		if o.Digest[k] != v {
			out = append(out, k)
		}
	}
	for k := range o.Digest {
		if _, ok := d.Digest[k]; !ok {
			out = append(out, k)
		}
	}
	sort.Strings(out)
	return out
}

// RawBucket returns all key/value pairs of a top-level bucket (copied)
func RawBucket(db *dbutil.DB, name string) (keys, vals [][]byte) {
	_ = db.View("verif raw bucket", func(tx *dbutil.Tx) error {
		b := tx.Tx.Bucket([]byte(name))
		if b == nil {
			return nil
		}
		return b.ForEach(func(k, v []byte) error {
			keys = append(keys, append([]byte(nil), k...))
			vals = append(vals, append([]byte(nil), v...))
			return nil
		})
	})
	return
}

// BucketNames lists the top-level buckets
func BucketNames(db *dbutil.DB) []string {
	var out []string
	_ = db.View("verif bucket names", func(tx *dbutil.Tx) error {
		return tx.Tx.ForEach(func(name []byte, b *bolt.Bucket) error {
			out = append(out, string(name))
			return nil
		})
	})
	sort.Strings(out)
	return out
}

// CopyFile copies a file
func CopyFile(dst, src string) error {
	in, err := os.Open(src)
	if err != nil {
		return err
	}
	defer in.Close()
	out, err := os.Create(dst)
	if err != nil {
		return err
	}
	if _, err := io.Copy(out, in); err != nil {
		out.Close()
		return err
	}
	return out.Close()
}

// SortHashes sorts hashes ascending
func SortHashes(hs []cipher.SHA256) {
	sort.Slice(hs, func(i, j int) bool { return bytes.Compare(hs[i][:], hs[j][:]) < 0 })
}
