package ledger

import (
	"fmt"
	"math/big"
	"sort"

	"github.com/skycoin/skycoin/src/cipher"
	"github.com/skycoin/skycoin/src/coin"
)

// VerifyParams mirrors the tunable soft-rule parameters
type VerifyParams struct {
	BurnFactor   uint32
	MaxTxnSize   uint32
	MaxPrecision uint8
}

// Params are the fixed parameters of a chain
type Params struct {
	Volume      uint64
	Publisher   cipher.PubKey
	Locked      map[cipher.Address]bool
	Unconfirmed VerifyParams
	CreateBlock VerifyParams
	User        VerifyParams
	MaxBlock    uint32
}

// Spend records which transaction / block spent an output
type Spend struct {
	Txn cipher.SHA256
	Seq uint64
}

// PoolEntry is one unconfirmed transaction in the model
type PoolEntry struct {
	Txn   coin.Transaction
	Valid bool // the validity flag as of the last injection/refresh
}

// TxRec is a confirmed transaction in the model's history
type TxRec struct {
	Txn  coin.Transaction
	Seq  uint64
	Time uint64
	In   []coin.UxOut
	Out  []coin.UxOut
}

// Model is the shadow ledger of one node
type Model struct {
	P       Params
	Blocks  []coin.SignedBlock
	Utxo    map[cipher.SHA256]coin.UxOut
	AllOuts map[cipher.SHA256]coin.UxOut // every output ever created
	SpentBy map[cipher.SHA256]Spend
	Txns    map[cipher.SHA256]*TxRec
	TxOrder []cipher.SHA256 // confirmed transactions in chain order
	Pool    map[cipher.SHA256]*PoolEntry
}

// New makes an empty model (no genesis yet)
func New(p Params) *Model {
	return &Model{
		P:       p,
		Utxo:    map[cipher.SHA256]coin.UxOut{},
		AllOuts: map[cipher.SHA256]coin.UxOut{},
		SpentBy: map[cipher.SHA256]Spend{},
		Txns:    map[cipher.SHA256]*TxRec{},
		Pool:    map[cipher.SHA256]*PoolEntry{},
	}
}

// Clone returns an independent copy of the model (transactions and blocks are shared read-only)
func (m *Model) Clone() *Model {
	c := New(m.P)
	c.Blocks = append([]coin.SignedBlock(nil), m.Blocks...)
	for k, v := range m.Utxo {
		c.Utxo[k] = v
	}
	for k, v := range m.AllOuts {
		c.AllOuts[k] = v
	}
	for k, v := range m.SpentBy {
		c.SpentBy[k] = v
	}
	for k, v := range m.Txns {
		c.Txns[k] = v
	}
	c.TxOrder = append([]cipher.SHA256(nil), m.TxOrder...)
	for k, v := range m.Pool {
		e := *v
		c.Pool[k] = &e
	}
	return c
}

// Head returns the head block
func (m *Model) Head() coin.SignedBlock { return m.Blocks[len(m.Blocks)-1] }

// HeadTime is the time of the head block
func (m *Model) HeadTime() uint64 { return m.Head().Head.Time }

// UxChecksum is the XOR of the snapshot hashes of the unspent set
func (m *Model) UxChecksum() cipher.SHA256 {
	var x cipher.SHA256
	for _, ux := range m.Utxo {
		h := SnapshotHash(ux)
		for i := range x {
			x[i] ^= h[i]
		}
	}
	return x
}

// TotalCoins sums the unspent set
func (m *Model) TotalCoins() *big.Int {
	t := new(big.Int)
	for _, ux := range m.Utxo {
		t.Add(t, bigU(ux.Body.Coins))
	}
	return t
}

// ApplyGenesis installs block 0 without checks (the genesis block is configuration)
func (m *Model) ApplyGenesis(b coin.SignedBlock) {
	m.apply(b)
}

func (m *Model) apply(b coin.SignedBlock) {
	for i := range b.Body.Transactions {
		t := b.Body.Transactions[i]
		h := TxnHash(&t)
		rec := &TxRec{Txn: t, Seq: b.Head.BkSeq, Time: b.Head.Time}
		for _, in := range t.In {
			ux := m.Utxo[in]
			rec.In = append(rec.In, ux)
			delete(m.Utxo, in)
			m.SpentBy[in] = Spend{h, b.Head.BkSeq}
		}
		for _, ux := range OutputsOf(&t, b.Head.Time, b.Head.BkSeq) {
			id := UxID(ux)
			m.Utxo[id] = ux
			m.AllOuts[id] = ux
			rec.Out = append(rec.Out, ux)
		}
		m.Txns[h] = rec
		m.TxOrder = append(m.TxOrder, h)
		delete(m.Pool, h)
	}
	m.Blocks = append(m.Blocks, b)
}

// Cond is one violated acceptance condition; Prop is the property that owns it
type Cond struct {
	Prop string
	Name string
	Info string
}

// TxnBlockConds lists the hard conditions txn breaks as a member of the next block, evaluated
// against the unspent set at the current head (other transactions of the block not considered)
func (m *Model) TxnBlockConds(t *coin.Transaction) []Cond {
	return m.txnHard(t, false)
}

// TxnSingleHard lists the hard conditions txn breaks as a single (unconfirmed) transaction
func (m *Model) TxnSingleHard(t *coin.Transaction) []Cond {
	return m.txnHard(t, true)
}

func (m *Model) txnHard(t *coin.Transaction, single bool) []Cond {
	var cs []Cond
	headTime := m.HeadTime()
	for _, w := range WellFormed(t, true) {
		prop := "C09"
		if w == "out-coins-overflow" || w == "zero-coin-output" {
			prop = "C01"
		}
		if w == "dup-input" {
			prop = "C02"
		}
		cs = append(cs, Cond{prop, "wf:" + w, ""})
	}
	outHours := new(big.Int)
	outCoins := new(big.Int)
	for _, o := range t.Out {
		outHours.Add(outHours, bigU(o.Hours))
		outCoins.Add(outCoins, bigU(o.Coins))
	}
	if single && !Fits(outHours) {
		cs = append(cs, Cond{"C03", "out-hours-overflow", outHours.String()})
	}
	var ins []coin.UxOut
	missing := false
	for _, in := range t.In {
		ux, ok := m.Utxo[in]
		if !ok {
			missing = true
			if _, spent := m.SpentBy[in]; spent {
				cs = append(cs, Cond{"C02", "input-spent", in.Hex()})
			} else {
				cs = append(cs, Cond{"C02", "input-unknown", in.Hex()})
			}
			continue
		}
		ins = append(ins, ux)
	}
	if missing {
		return cs
	}
	if len(t.Sigs) == len(t.In) {
		for i, s := range t.Sigs {
			ok, addr, _ := RecoverSig(s, SigMsg(t.InnerHash, t.In[i]))
			if !ok || addr != ins[i].Body.Address {
				cs = append(cs, Cond{"C10", "sig-owner", fmt.Sprint(i)})
				break
			}
		}
	}
	inCoins := new(big.Int)
	inHours := new(big.Int)
	for _, ux := range ins {
		inCoins.Add(inCoins, bigU(ux.Body.Coins))
		a, cls := Accrued(ux, headTime)
		switch cls {
		case AccrualOK:
			inHours.Add(inHours, a)
		default:
			// an input whose accrued hours do not fit counts as zero in a block (documented
			// legacy exception); as a single transaction it is a hard violation
			if single {
				cs = append(cs, Cond{"C03", "in-hours-overflow", UxID(ux).Hex()})
			}
		}
	}
	if !Fits(inCoins) {
		cs = append(cs, Cond{"C01", "in-coins-overflow", inCoins.String()})
	}
	switch inCoins.Cmp(outCoins) {
	case -1:
		cs = append(cs, Cond{"C01", "coins-created", fmt.Sprintf("in=%s out=%s", inCoins, outCoins)})
	case 1:
		cs = append(cs, Cond{"C01", "coins-destroyed", fmt.Sprintf("in=%s out=%s", inCoins, outCoins)})
	}
	if !Fits(inHours) {
		cs = append(cs, Cond{"C03", "in-hours-sum-overflow", inHours.String()})
	} else if inHours.Cmp(outHours) < 0 {
		if !single && !Fits(outHours) {
			// legacy: a block transaction whose output hours sum wraps; recorded, not asserted
			cs = append(cs, Cond{"legacy", "out-hours-wrap", outHours.String()})
		} else {
			cs = append(cs, Cond{"C03", "hours-created", fmt.Sprintf("in=%s out=%s", inHours, outHours)})
		}
	}
	for _, ux := range OutputsOf(t, 0, 1) {
		id := UxID(ux)
		if _, ok := m.AllOuts[id]; ok {
			cs = append(cs, Cond{"C02", "output-id-collision", id.Hex()})
			break
		}
	}
	return cs
}

// BlockConds lists every acceptance condition the block breaks as the next block of this model
func (m *Model) BlockConds(b *coin.SignedBlock) []Cond {
	var cs []Cond
	head := m.Head()
	if !VerifyBlockSig(m.P.Publisher, b.Sig, HeaderHash(b.Head)) {
		cs = append(cs, Cond{"C04", "signature", ""})
	}
	if b.Head.BkSeq != head.Head.BkSeq+1 {
		cs = append(cs, Cond{"C04", "seq", fmt.Sprint(b.Head.BkSeq)})
	}
	if b.Head.Time <= head.Head.Time {
		cs = append(cs, Cond{"C04", "time", fmt.Sprint(b.Head.Time)})
	}
	if b.Head.PrevHash != HeaderHash(head.Head) {
		cs = append(cs, Cond{"C04", "prev-hash", b.Head.PrevHash.Hex()})
	}
	if b.Head.BodyHash != BodyHash(b.Body.Transactions) {
		cs = append(cs, Cond{"C04", "body-hash", ""})
	}
	if b.Head.UxHash != m.UxChecksum() {
		cs = append(cs, Cond{"C04", "ux-hash", ""})
	}
	if HeaderHash(b.Head) == HeaderHash(m.Blocks[0].Head) {
		cs = append(cs, Cond{"C04", "second-genesis", ""})
	}
	if len(b.Body.Transactions) == 0 {
		cs = append(cs, Cond{"C04", "empty-block", ""})
	}
	spent := map[cipher.SHA256]int{}
	created := map[cipher.SHA256]int{}
	for i := range b.Body.Transactions {
		t := &b.Body.Transactions[i]
		for _, c := range m.TxnBlockConds(t) {
			c.Info = fmt.Sprintf("txn %d %s", i, c.Info)
			cs = append(cs, c)
		}
		for _, in := range t.In {
			if j, ok := spent[in]; ok && j != i {
				cs = append(cs, Cond{"C02", "double-spend-in-block", in.Hex()})
			}
			spent[in] = i
		}
		for _, ux := range OutputsOf(t, b.Head.Time, b.Head.BkSeq) {
			id := UxID(ux)
			if j, ok := created[id]; ok && j != i {
				cs = append(cs, Cond{"C02", "output-id-collision-in-block", id.Hex()})
			}
			created[id] = i
		}
	}
	return cs
}

// ApplyBlock appends a block the node accepted
func (m *Model) ApplyBlock(b coin.SignedBlock) { m.apply(b) }

// Soft lists the soft rules txn breaks at the current head under the given parameters;
// all inputs must exist (call only when the hard rules hold)
func (m *Model) Soft(t *coin.Transaction, vp VerifyParams) []string {
	var bad []string
	if TxnSize(t) > uint64(vp.MaxTxnSize) {
		bad = append(bad, "size")
	}
	inHours := new(big.Int)
	overflow := false
	locked := false
	for _, in := range t.In {
		ux, ok := m.Utxo[in]
		if !ok {
			return append(bad, "input-missing")
		}
		a, cls := Accrued(ux, m.HeadTime())
		if cls != AccrualOK {
			overflow = true
		}
		inHours.Add(inHours, a)
		if m.P.Locked[ux.Body.Address] {
			locked = true
		}
	}
	outHours := new(big.Int)
	for _, o := range t.Out {
		outHours.Add(outHours, bigU(o.Hours))
	}
	if overflow || !Fits(inHours) || !Fits(outHours) {
		bad = append(bad, "hours-overflow")
	} else {
		fee := new(big.Int).Sub(inHours, outHours)
		if fee.Sign() < 0 {
			bad = append(bad, "fee-negative")
		} else if fee.Sign() == 0 {
			bad = append(bad, "fee-zero")
		} else {
			// required = ceil(total hours / burn factor), total = fee + output hours = input hours
			req := new(big.Int).Add(inHours, big.NewInt(int64(vp.BurnFactor)-1))
			req.Div(req, big.NewInt(int64(vp.BurnFactor)))
			if fee.Cmp(req) < 0 {
				bad = append(bad, "fee-insufficient")
			}
		}
	}
	if locked {
		bad = append(bad, "locked")
	}
	div := uint64(1)
	for i := uint8(0); i < 6-vp.MaxPrecision; i++ {
		div *= 10
	}
	for _, o := range t.Out {
		if o.Coins%div != 0 {
			bad = append(bad, "precision")
			break
		}
	}
	return bad
}

// Fee returns the transaction's coin-hour fee at the current head (input accrued minus output
// hours) if it is computable in 64 bits
func (m *Model) Fee(t *coin.Transaction) (uint64, bool) {
	inHours := new(big.Int)
	for _, in := range t.In {
		ux, ok := m.Utxo[in]
		if !ok {
			return 0, false
		}
		a, cls := Accrued(ux, m.HeadTime())
		if cls != AccrualOK {
			return 0, false
		}
		inHours.Add(inHours, a)
	}
	outHours := new(big.Int)
	for _, o := range t.Out {
		outHours.Add(outHours, bigU(o.Hours))
	}
	if !Fits(inHours) || !Fits(outHours) || inHours.Cmp(outHours) < 0 {
		return 0, false
	}
	return new(big.Int).Sub(inHours, outHours).Uint64(), true
}

// NullOutput reports whether the transaction pays to the null address (user rule)
func NullOutput(t *coin.Transaction) bool {
	for _, o := range t.Out {
		if o.Address == (cipher.Address{}) {
			return true
		}
	}
	return false
}

// PoolHashes returns the pool's transaction hashes sorted
func (m *Model) PoolHashes() []cipher.SHA256 {
	hs := make([]cipher.SHA256, 0, len(m.Pool))
	for h := range m.Pool {
		hs = append(hs, h)
	}
	sort.Slice(hs, func(i, j int) bool { return string(hs[i][:]) < string(hs[j][:]) })
	return hs
}

// UnspentOf returns the unspent outputs of an address
func (m *Model) UnspentOf(a cipher.Address) []coin.UxOut {
	var out []coin.UxOut
	for _, ux := range m.Utxo {
		if ux.Body.Address == a {
			out = append(out, ux)
		}
	}
	return out
}

// AddrTxns returns the confirmed transactions touching an address (as input owner or output
// receiver) in chain order
func (m *Model) AddrTxns(a cipher.Address) []cipher.SHA256 {
	var out []cipher.SHA256
	for _, h := range m.TxOrder {
		r := m.Txns[h]
		hit := false
		for _, ux := range r.In {
			if ux.Body.Address == a {
				hit = true
			}
		}
		for _, ux := range r.Out {
			if ux.Body.Address == a {
				hit = true
			}
		}
		if hit {
			out = append(out, h)
		}
	}
	return out
}

// AddressCount is the number of distinct addresses holding unspent outputs
func (m *Model) AddressCount() int {
	s := map[cipher.Address]bool{}
	for _, ux := range m.Utxo {
		s[ux.Body.Address] = true
	}
	return len(s)
}

// BigU converts to a big integer
func BigU(v uint64) *big.Int { return bigU(v) }

// TotalBig sums the coins of a list of outputs without wrapping
func TotalBig(uxs []coin.UxOut) *big.Int {
	t := new(big.Int)
	for _, ux := range uxs {
		t.Add(t, bigU(ux.Body.Coins))
	}
	return t
}
