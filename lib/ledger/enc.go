// Package ledger is the shadow ledger: an independent, deliberately naive model of skycoin's
// UTXO ledger rules written from the property statements, using math/big for every sum and
// its own byte layouts for naming things (ids and hashes). It uses the coin package's plain
// data structs but none of its logic.
package ledger

import (
	"crypto/sha256"
	"encoding/binary"

	"github.com/skycoin/skycoin/src/cipher"
	"github.com/skycoin/skycoin/src/coin"
)

func sum(b []byte) cipher.SHA256 { return cipher.SHA256(sha256.Sum256(b)) }

func u32(b []byte, v uint32) []byte {
	var x [4]byte
	binary.LittleEndian.PutUint32(x[:], v)
	return append(b, x[:]...)
}

func u64(b []byte, v uint64) []byte {
	var x [8]byte
	binary.LittleEndian.PutUint64(x[:], v)
	return append(b, x[:]...)
}

func encAddr(b []byte, a cipher.Address) []byte {
	b = append(b, a.Version)
	return append(b, a.Key[:]...)
}

// UxBodyBytes is SrcTransaction(32) Address(1+20) Coins(8) Hours(8)
func UxBodyBytes(ub coin.UxBody) []byte {
	b := make([]byte, 0, 69)
	b = append(b, ub.SrcTransaction[:]...)
	b = encAddr(b, ub.Address)
	b = u64(b, ub.Coins)
	b = u64(b, ub.Hours)
	return b
}

// UxID is the id of an output: SHA256 of its body
func UxID(ux coin.UxOut) cipher.SHA256 { return sum(UxBodyBytes(ux.Body)) }

// SnapshotHash is SHA256(body || time(8) || seq(8))
func SnapshotHash(ux coin.UxOut) cipher.SHA256 {
	b := UxBodyBytes(ux.Body)
	b = u64(b, ux.Head.Time)
	b = u64(b, ux.Head.BkSeq)
	return sum(b)
}

func encIns(b []byte, in []cipher.SHA256) []byte {
	b = u32(b, uint32(len(in)))
	for _, h := range in {
		b = append(b, h[:]...)
	}
	return b
}

func encOuts(b []byte, out []coin.TransactionOutput) []byte {
	b = u32(b, uint32(len(out)))
	for _, o := range out {
		b = encAddr(b, o.Address)
		b = u64(b, o.Coins)
		b = u64(b, o.Hours)
	}
	return b
}

// TxnBytes is Length(4) Type(1) InnerHash(32) Sigs(4+65n) In(4+32n) Out(4+37n)
func TxnBytes(t *coin.Transaction) []byte {
	b := make([]byte, 0, 49+65*len(t.Sigs)+32*len(t.In)+37*len(t.Out))
	b = u32(b, t.Length)
	b = append(b, t.Type)
	b = append(b, t.InnerHash[:]...)
	b = u32(b, uint32(len(t.Sigs)))
	for _, s := range t.Sigs {
		b = append(b, s[:]...)
	}
	b = encIns(b, t.In)
	b = encOuts(b, t.Out)
	return b
}

// TxnHash is SHA256 of the full encoding
func TxnHash(t *coin.Transaction) cipher.SHA256 { return sum(TxnBytes(t)) }

// TxnSize is the encoded size
func TxnSize(t *coin.Transaction) uint64 {
	return uint64(49 + 65*len(t.Sigs) + 32*len(t.In) + 37*len(t.Out))
}

// InnerHash is SHA256(encode(In) || encode(Out))
func InnerHash(t *coin.Transaction) cipher.SHA256 {
	b := encIns(nil, t.In)
	b = encOuts(b, t.Out)
	return sum(b)
}

// HeaderBytes is Version(4) Time(8) BkSeq(8) Fee(8) PrevHash BodyHash UxHash
func HeaderBytes(h coin.BlockHeader) []byte {
	b := make([]byte, 0, 124)
	b = u32(b, h.Version)
	b = u64(b, h.Time)
	b = u64(b, h.BkSeq)
	b = u64(b, h.Fee)
	b = append(b, h.PrevHash[:]...)
	b = append(b, h.BodyHash[:]...)
	b = append(b, h.UxHash[:]...)
	return b
}

// HeaderHash is SHA256 of the header encoding
func HeaderHash(h coin.BlockHeader) cipher.SHA256 { return sum(HeaderBytes(h)) }

func add(a, b cipher.SHA256) cipher.SHA256 {
	x := append(append(make([]byte, 0, 64), a[:]...), b[:]...)
	return sum(x)
}

// Merkle pads to a power of two with zero hashes and folds pairwise
func Merkle(hs []cipher.SHA256) cipher.SHA256 {
	n := 1
	for n < len(hs) {
		n *= 2
	}
	cur := make([]cipher.SHA256, n)
	copy(cur, hs)
	for len(cur) > 1 {
		nxt := make([]cipher.SHA256, len(cur)/2)
		for i := range nxt {
			nxt[i] = add(cur[2*i], cur[2*i+1])
		}
		cur = nxt
	}
	return cur[0]
}

// BodyHash is the merkle root of the transaction hashes
func BodyHash(txns coin.Transactions) cipher.SHA256 {
	hs := make([]cipher.SHA256, len(txns))
	for i := range txns {
		hs[i] = TxnHash(&txns[i])
	}
	return Merkle(hs)
}

// SigMsg is the message signed for input i: SHA256(innerhash || input id)
func SigMsg(inner cipher.SHA256, in cipher.SHA256) cipher.SHA256 { return add(inner, in) }

// OutputsOf returns the outputs a transaction creates when included in a block with the given
// time and sequence. The genesis block's output uses the null source transaction.
func OutputsOf(t *coin.Transaction, blockTime, blockSeq uint64) []coin.UxOut {
	var src cipher.SHA256
	if blockSeq != 0 {
		src = TxnHash(t)
	}
	out := make([]coin.UxOut, len(t.Out))
	for i, o := range t.Out {
		out[i] = coin.UxOut{
			Head: coin.UxHead{Time: blockTime, BkSeq: blockSeq},
			Body: coin.UxBody{SrcTransaction: src, Address: o.Address, Coins: o.Coins, Hours: o.Hours},
		}
	}
	return out
}
