package ledger

import (
	"math/big"
	"sync"

	"github.com/skycoin/skycoin/src/cipher"
	"github.com/skycoin/skycoin/src/coin"

	"verif/lib/refsecp"
)

var (
	max64   = new(big.Int).SetUint64(^uint64(0))
	two64   = new(big.Int).Lsh(big.NewInt(1), 64)
	perHour = big.NewInt(3600000000) // droplet-seconds per coin hour
	million = big.NewInt(1000000)
)

func bigU(v uint64) *big.Int { return new(big.Int).SetUint64(v) }

// Fits reports 0 <= x < 2^64
func Fits(x *big.Int) bool { return x.Sign() >= 0 && x.Cmp(max64) <= 0 }

// AccrualClass says how the 64-bit computation of an output's accrued hours behaves
type AccrualClass int

const (
	// AccrualOK every intermediate and the final sum fit in 64 bits
	AccrualOK AccrualClass = iota
	// AccrualFinalOverflow only the final addition hours+earned overflows (the documented legacy exception)
	AccrualFinalOverflow
	// AccrualIntermediateOverflow an intermediate product/sum of the documented computation overflows
	AccrualIntermediateOverflow
)

// Accrued returns the mathematical accrued hours of ux at time t (hours + floor(coins*dt/3.6e9),
// no accrual if t is before the output's time) and how the documented 64-bit computation
// (whole-coin seconds, droplet seconds, their sum, final sum) behaves
func Accrued(ux coin.UxOut, t uint64) (*big.Int, AccrualClass) {
	if t < ux.Head.Time {
		return bigU(ux.Body.Hours), AccrualOK
	}
	dt := bigU(t - ux.Head.Time)
	coins := bigU(ux.Body.Coins)
	earned := new(big.Int).Mul(coins, dt)
	earned.Div(earned, perHour)
	total := new(big.Int).Add(bigU(ux.Body.Hours), earned)

	whole := new(big.Int).Div(coins, million)
	rem := new(big.Int).Mod(coins, million)
	wholeSec := new(big.Int).Mul(whole, dt)
	dropSec := new(big.Int).Mul(rem, dt)
	coinSec := new(big.Int).Add(wholeSec, new(big.Int).Div(dropSec, million))
	if !Fits(wholeSec) || !Fits(dropSec) || !Fits(coinSec) {
		return total, AccrualIntermediateOverflow
	}
	if !Fits(total) {
		return total, AccrualFinalOverflow
	}
	return total, AccrualOK
}

// ---------------------------------------------------------------------------------
// signatures (reference implementation, cached)

type sigKey struct {
	sig cipher.Sig
	msg cipher.SHA256
}

type sigVal struct {
	ok   bool // canonical (low s, recid<4, r,s in range) and recoverable
	addr cipher.Address
	pub  [33]byte
}

var (
	sigCache   = map[sigKey]sigVal{}
	sigCacheMu sync.Mutex
)

// RecoverSig checks a 65-byte signature the way the property states it: r and s in [1,n-1],
// s <= n/2 (low s), recovery id < 4, and a public key recoverable; returns the key's address
func RecoverSig(sig cipher.Sig, msg cipher.SHA256) (ok bool, addr cipher.Address, pub [33]byte) {
	k := sigKey{sig, msg}
	sigCacheMu.Lock()
	if v, hit := sigCache[k]; hit {
		sigCacheMu.Unlock()
		return v.ok, v.addr, v.pub
	}
	sigCacheMu.Unlock()
	v := sigVal{}
	s, err := refsecp.ParseSig(sig[:])
	if err == nil && s.RecID < 4 && refsecp.ValidScalar(s.R) && refsecp.ValidScalar(s.S) && s.S.Cmp(refsecp.HalfN) <= 0 {
		if q, ok := refsecp.Recover(msg[:], s.R, s.S, s.RecID); ok {
			v.ok = true
			copy(v.pub[:], refsecp.Compress(q))
			v.addr = AddressOfPub(v.pub[:])
		}
	}
	sigCacheMu.Lock()
	if len(sigCache) > 200000 {
		sigCache = map[sigKey]sigVal{}
	}
	sigCache[k] = v
	sigCacheMu.Unlock()
	return v.ok, v.addr, v.pub
}

// AddressOfPub is version 0, key = RIPEMD160(SHA256(SHA256(pubkey)))
func AddressOfPub(pub []byte) cipher.Address {
	h1 := sum(pub)
	h2 := sum(h1[:])
	return cipher.Address{Version: 0, Key: cipher.HashRipemd160(h2[:])}
}

// VerifyBlockSig reports whether sig is a canonical signature by pubkey over the header hash
func VerifyBlockSig(pubkey cipher.PubKey, sig cipher.Sig, headerHash cipher.SHA256) bool {
	ok, _, pub := RecoverSig(sig, headerHash)
	return ok && pub == [33]byte(pubkey)
}

// ---------------------------------------------------------------------------------
// Well-formedness (C09 statement)

// WellFormed lists the well-formedness rules a transaction breaks (empty = well formed)
func WellFormed(t *coin.Transaction, signed bool) []string {
	var bad []string
	if len(t.In) == 0 {
		bad = append(bad, "no-inputs")
	}
	if len(t.Out) == 0 {
		bad = append(bad, "no-outputs")
	}
	if len(t.Sigs) != len(t.In) {
		bad = append(bad, "sig-count")
	}
	if len(t.In) > 65535 || len(t.Out) > 65535 || len(t.Sigs) > 65535 {
		bad = append(bad, "too-many")
	}
	seen := map[cipher.SHA256]bool{}
	for _, in := range t.In {
		if seen[in] {
			bad = append(bad, "dup-input")
			break
		}
		seen[in] = true
	}
	if t.Type != 0 {
		bad = append(bad, "type")
	}
	total := new(big.Int)
	for _, o := range t.Out {
		if o.Coins == 0 {
			bad = append(bad, "zero-coin-output")
			break
		}
	}
	for _, o := range t.Out {
		total.Add(total, bigU(o.Coins))
	}
	if !Fits(total) {
		bad = append(bad, "out-coins-overflow")
	}
	if uint64(t.Length) != TxnSize(t) {
		bad = append(bad, "length")
	}
	type ok struct {
		a cipher.Address
		c uint64
		h uint64
	}
	outs := map[ok]bool{}
	for _, o := range t.Out {
		k := ok{o.Address, o.Coins, o.Hours}
		if outs[k] {
			bad = append(bad, "dup-output")
			break
		}
		outs[k] = true
	}
	if InnerHash(t) != t.InnerHash {
		bad = append(bad, "inner-hash")
	}
	null := 0
	if len(t.Sigs) == len(t.In) {
		for i, s := range t.Sigs {
			if s == (cipher.Sig{}) {
				null++
				if signed {
					bad = append(bad, "null-sig")
					break
				}
				continue
			}
			if ok, _, _ := RecoverSig(s, SigMsg(t.InnerHash, t.In[i])); !ok {
				bad = append(bad, "bad-sig")
				break
			}
		}
		if !signed && null == 0 && len(t.Sigs) > 0 {
			bad = append(bad, "unsigned-needs-null")
		}
	}
	return bad
}
