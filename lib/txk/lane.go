package txk

import (
	"fmt"
	"math/rand"
	"path/filepath"
	"sort"

	"github.com/skycoin/skycoin/src/cipher"
	"github.com/skycoin/skycoin/src/coin"
	"github.com/skycoin/skycoin/src/params"

	"verif/lib/fix"
	"verif/lib/ledger"
)

// Lane is one real publisher/follower pair with the follower's shadow ledger. The harness
// builds and signs blocks itself (it holds the publisher key) and executes them on the
// non-arbitrating follower; the publisher node stays available for block creation legs.
type Lane struct {
	Tag    string
	Dir    string
	Chain  *fix.Chain
	Pub    *fix.Node
	Fol    *fix.Node
	// Arb is a second node in block-publisher (arbitrating) configuration that follows the same
	// chain as Fol: a publisher node also receives blocks from peers and must judge them alike
	Arb    *fix.Node
	M      *ledger.Model // mirrors the follower
	Keys   []Key         // same secrets as Chain.Keys, usable with the reference signer
	GenKey Key
	Now    uint64
}

func vp(p params.VerifyTxn) ledger.VerifyParams {
	return ledger.VerifyParams{BurnFactor: p.BurnFactor, MaxTxnSize: p.MaxTransactionSize, MaxPrecision: p.MaxDropletPrecision}
}

// ModelParams derives the shadow ledger's parameters from the chain configuration
func ModelParams(c *fix.Chain) ledger.Params {
	return ledger.Params{
		Volume:      c.Volume,
		Publisher:   c.Publisher.Pub,
		Locked:      c.LockedAddrs(),
		Unconfirmed: vp(c.Unconfirmed),
		CreateBlock: vp(c.CreateBlock),
		User:        vp(params.UserVerifyTxn),
		MaxBlock:    c.MaxBlock,
	}
}

// NewLane creates the chain (tweak may edit its parameters before the nodes are opened), opens
// publisher and follower under dir and installs the genesis block in the model
func NewLane(tag, dir string, volume uint64, nKeys, nDist, nUnlocked int, tweak func(*fix.Chain)) (*Lane, error) {
	c := fix.NewChain(tag, volume, nKeys, nDist, nUnlocked)
	if tweak != nil {
		tweak(c)
	}
	l := &Lane{Tag: tag, Dir: dir, Chain: c, Now: c.Timestamp}
	pn, err := c.Open(filepath.Join(dir, "pub.db"), true, true)
	if err != nil {
		return nil, fmt.Errorf("open publisher: %v", err)
	}
	l.Pub = pn
	fn, err := c.Open(filepath.Join(dir, "fol.db"), false, false)
	if err != nil {
		pn.Close()
		return nil, fmt.Errorf("open follower: %v", err)
	}
	l.Fol = fn
	if an, err := c.Open(filepath.Join(dir, "arb.db"), true, true); err == nil {
		l.Arb = an
	}
	l.M = ledger.New(ModelParams(c))
	g, err := fn.V.GetSignedBlockBySeq(0)
	if err != nil || g == nil {
		l.Close()
		return nil, fmt.Errorf("genesis missing: %v", err)
	}
	l.M.ApplyGenesis(*g)
	for _, k := range c.Keys {
		l.Keys = append(l.Keys, KeyFromSec(k.Sec))
	}
	l.GenKey = KeyFromSec(c.Genesis.Sec)
	return l, nil
}

// Close closes both nodes
func (l *Lane) Close() {
	if l.Pub != nil {
		l.Pub.Close()
	}
	if l.Fol != nil {
		l.Fol.Close()
	}
	if l.Arb != nil {
		l.Arb.Close()
	}
}

// KeyOf returns the harness key owning an address
func (l *Lane) KeyOf(a cipher.Address) (Key, bool) {
	if a == l.GenKey.Addr {
		return l.GenKey, true
	}
	for _, k := range l.Keys {
		if k.Addr == a {
			return k, true
		}
	}
	return Key{}, false
}

// Ins looks up the unspent outputs a transaction names (zero values for unknown ones)
func (l *Lane) Ins(t *coin.Transaction) []coin.UxOut {
	out := make([]coin.UxOut, len(t.In))
	for i, id := range t.In {
		out[i] = l.M.Utxo[id]
	}
	return out
}

// MakeTxn builds a transaction spending in, signed by the owners with the reference signer
// (unknown owners are signed with the genesis key, i.e. wrongly)
func (l *Lane) MakeTxn(in []coin.UxOut, outs []coin.TransactionOutput, rng *rand.Rand) coin.Transaction {
	var t coin.Transaction
	keys := make([]Key, len(in))
	for i, ux := range in {
		t.In = append(t.In, ledger.UxID(ux))
		k, ok := l.KeyOf(ux.Body.Address)
		if !ok {
			k = l.GenKey
		}
		keys[i] = k
	}
	t.Out = append(t.Out, outs...)
	SignAll(&t, keys, rng)
	return t
}

// Resign re-signs every input of t (after an edit of In/Out) with the owners' keys
func (l *Lane) Resign(t *coin.Transaction, rng *rand.Rand) {
	ins := l.Ins(t)
	keys := make([]Key, len(ins))
	for i, ux := range ins {
		k, ok := l.KeyOf(ux.Body.Address)
		if !ok {
			k = l.GenKey
		}
		keys[i] = k
	}
	SignAll(t, keys, rng)
}

// NextTime advances the lane's clock by gap seconds and returns it
func (l *Lane) NextTime(gap uint64) uint64 {
	if l.Now < l.M.HeadTime() {
		l.Now = l.M.HeadTime()
	}
	l.Now += gap
	return l.Now
}

// RawBlock assembles the next block on the model's head (valid header fields for valid txns)
func (l *Lane) RawBlock(txns coin.Transactions, when uint64) coin.Block {
	head := l.M.Head()
	var fee uint64
	for i := range txns {
		if f, ok := l.M.Fee(&txns[i]); ok {
			fee += f
		}
	}
	return coin.Block{
		Head: coin.BlockHeader{
			Version:  head.Head.Version,
			Time:     when,
			BkSeq:    head.Head.BkSeq + 1,
			Fee:      fee,
			PrevHash: ledger.HeaderHash(head.Head),
			BodyHash: ledger.BodyHash(txns),
			UxHash:   l.M.UxChecksum(),
		},
		Body: coin.BlockBody{Transactions: txns},
	}
}

// SignBlock signs a block with the publisher key using the reference signer
func (l *Lane) SignBlock(b coin.Block, rng *rand.Rand) coin.SignedBlock {
	pk := KeyFromSec(l.Chain.Publisher.Sec)
	return coin.SignedBlock{Block: b, Sig: Sign(pk, ledger.HeaderHash(b.Head), rng)}
}

// Commit executes a block on the follower and, if accepted, applies it to the model
func (l *Lane) Commit(sb coin.SignedBlock) error {
	if err := l.Fol.V.ExecuteSignedBlock(sb); err != nil {
		return err
	}
	if l.Arb != nil {
		if err := l.Arb.V.ExecuteSignedBlock(sb); err != nil {
			// the publisher-mode follower left the chain: stop using it
			l.Arb.Close()
			l.Arb = nil
		}
	}
	l.M.ApplyBlock(sb)
	return nil
}

// Utxos returns the model's unspent outputs in a deterministic order
func (l *Lane) Utxos() []coin.UxOut {
	out := make([]coin.UxOut, 0, len(l.M.Utxo))
	for _, ux := range l.M.Utxo {
		out = append(out, ux)
	}
	sort.Slice(out, func(i, j int) bool {
		a, b := ledger.UxID(out[i]), ledger.UxID(out[j])
		return string(a[:]) < string(b[:])
	})
	return out
}

// UtxosOf returns the unspent outputs owned by an address, deterministic order
func (l *Lane) UtxosOf(a cipher.Address) []coin.UxOut {
	var out []coin.UxOut
	for _, ux := range l.Utxos() {
		if ux.Body.Address == a {
			out = append(out, ux)
		}
	}
	return out
}

// Spread spends the given outputs into one output per entry of outs in a single harness-signed
// block (no fee rules apply inside a block) and commits it
func (l *Lane) Spread(in []coin.UxOut, outs []coin.TransactionOutput, gap uint64, rng *rand.Rand) error {
	t := l.MakeTxn(in, outs, rng)
	sb := l.SignBlock(l.RawBlock(coin.Transactions{t}, l.NextTime(gap)), rng)
	if err := l.Commit(sb); err != nil {
		return fmt.Errorf("spread block refused: %v (model: %v)", err, l.M.BlockConds(&sb))
	}
	return nil
}
