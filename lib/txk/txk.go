// Package txk is the transaction kit shared by cmd/c09, cmd/c10 and cmd/c11: deterministic keys
// and signatures made with the textbook curve (lib/refsecp), signature transforms, transaction
// construction with the harness' own encodings (lib/ledger), and a "lane": one real
// publisher/follower pair on bolt files with its shadow ledger, on which valid blocks are built
// by the harness (it holds the publisher key). It contains no oracle besides what lib/ledger states.
package txk

import (
	"fmt"
	"math/big"
	"math/rand"
	"os"
	"strconv"
	"syscall"

	"github.com/skycoin/skycoin/src/cipher"
	"github.com/skycoin/skycoin/src/coin"

	"verif/lib/ledger"
	"verif/lib/refsecp"
)

// Key is a key pair derived with the reference curve arithmetic
type Key struct {
	D    *big.Int
	Sec  cipher.SecKey
	Pub  cipher.PubKey
	Addr cipher.Address
}

// Scalar draws a uniformly random valid scalar from rng
func Scalar(rng *rand.Rand) *big.Int {
	for {
		var b [32]byte
		rng.Read(b[:])
		k := new(big.Int).SetBytes(b[:])
		if refsecp.ValidScalar(k) {
			return k
		}
	}
}

// KeyFromScalar builds the key pair of secret d
func KeyFromScalar(d *big.Int) Key {
	k := Key{D: new(big.Int).Set(d)}
	copy(k.Sec[:], refsecp.To32(d))
	pub, err := refsecp.PubKey(k.Sec[:])
	if err != nil {
		panic(err)
	}
	copy(k.Pub[:], pub)
	k.Addr = ledger.AddressOfPub(pub)
	return k
}

// NewKey draws a key pair
func NewKey(rng *rand.Rand) Key { return KeyFromScalar(Scalar(rng)) }

// KeyFromSec wraps an existing secret key (e.g. one of lib/fix's harness keys)
func KeyFromSec(sec cipher.SecKey) Key { return KeyFromScalar(new(big.Int).SetBytes(sec[:])) }

// ToSig converts a reference signature to the 65-byte form
func ToSig(s refsecp.Sig) cipher.Sig {
	var out cipher.Sig
	copy(out[:], s.Bytes())
	return out
}

// Sign signs msg with the reference implementation and a nonce drawn from rng (low s, recid 0..3)
func Sign(k Key, msg cipher.SHA256, rng *rand.Rand) cipher.Sig {
	for {
		s, ok := refsecp.Sign(msg[:], k.D, Scalar(rng))
		if ok {
			return ToSig(s)
		}
	}
}

// RandHash draws 32 random bytes (non-null)
func RandHash(rng *rand.Rand) cipher.SHA256 {
	var h cipher.SHA256
	for h == (cipher.SHA256{}) {
		rng.Read(h[:])
	}
	return h
}

// RandAddr draws a random version-0 address
func RandAddr(rng *rand.Rand) cipher.Address {
	var a cipher.Address
	rng.Read(a.Key[:])
	return a
}

// ---------------------------------------------------------------------------------
// signature transforms (all computed with math/big)

// HighS maps s to n-s; with flip the recovery id's parity bit is flipped as well (the
// mathematically valid twin), without it the signature recovers a different key
func HighS(sig cipher.Sig, flip bool) cipher.Sig {
	s, _ := refsecp.ParseSig(sig[:])
	s.S = new(big.Int).Sub(refsecp.N, s.S)
	out := ToSig(s)
	out[64] = sig[64]
	if flip {
		out[64] ^= 1
	}
	return out
}

var two256 = new(big.Int).Lsh(big.NewInt(1), 256)

// RPlusN re-encodes r as r+n when that still fits in 32 bytes
func RPlusN(sig cipher.Sig) (cipher.Sig, bool) {
	s, _ := refsecp.ParseSig(sig[:])
	r := new(big.Int).Add(s.R, refsecp.N)
	if r.Cmp(two256) >= 0 {
		return sig, false
	}
	out := sig
	copy(out[:32], refsecp.To32(r))
	return out, true
}

// SPlusN re-encodes s as s+n when that still fits in 32 bytes
func SPlusN(sig cipher.Sig) (cipher.Sig, bool) {
	s, _ := refsecp.ParseSig(sig[:])
	v := new(big.Int).Add(s.S, refsecp.N)
	if v.Cmp(two256) >= 0 {
		return sig, false
	}
	out := sig
	copy(out[32:64], refsecp.To32(v))
	return out, true
}

// RecID returns sig with the recovery byte replaced
func RecID(sig cipher.Sig, v byte) cipher.Sig {
	out := sig
	out[64] = v
	return out
}

// Canonical reports r,s in [1,n-1], s <= n/2 and recid < 4 (the C10 acceptance form)
func Canonical(sig cipher.Sig) bool {
	s, _ := refsecp.ParseSig(sig[:])
	return s.RecID < 4 && refsecp.ValidScalar(s.R) && refsecp.ValidScalar(s.S) && s.S.Cmp(refsecp.HalfN) <= 0
}

// SigForm names the way a signature leaves the canonical form ("" if canonical)
func SigForm(sig cipher.Sig) string {
	s, _ := refsecp.ParseSig(sig[:])
	switch {
	case !refsecp.ValidScalar(s.R):
		return "r-range"
	case !refsecp.ValidScalar(s.S):
		return "s-range"
	case s.S.Cmp(refsecp.HalfN) > 0 && s.RecID >= 4:
		return "high-s+recid"
	case s.S.Cmp(refsecp.HalfN) > 0:
		if sig[32]&0x80 == 0 {
			return "high-s-below-2^255"
		}
		return "high-s"
	case s.RecID >= 4:
		return "recid>=4"
	}
	return ""
}

// ---------------------------------------------------------------------------------
// transactions

// Clone deep-copies a transaction
func Clone(t coin.Transaction) coin.Transaction {
	c := t
	c.Sigs = append([]cipher.Sig(nil), t.Sigs...)
	c.In = append([]cipher.SHA256(nil), t.In...)
	c.Out = append([]coin.TransactionOutput(nil), t.Out...)
	return c
}

// Seal sets the inner hash and the length field from the harness' own encodings
func Seal(t *coin.Transaction) {
	t.InnerHash = ledger.InnerHash(t)
	t.Length = uint32(ledger.TxnSize(t))
}

// SignAll sets the inner hash, signs every input with the matching key and sets the length
func SignAll(t *coin.Transaction, keys []Key, rng *rand.Rand) {
	if len(keys) != len(t.In) {
		panic(fmt.Sprintf("txk.SignAll: %d keys for %d inputs", len(keys), len(t.In)))
	}
	t.InnerHash = ledger.InnerHash(t)
	t.Sigs = make([]cipher.Sig, len(t.In))
	for i := range t.In {
		t.Sigs[i] = Sign(keys[i], ledger.SigMsg(t.InnerHash, t.In[i]), rng)
	}
	t.Length = uint32(ledger.TxnSize(t))
}

// Out is shorthand for a transaction output
func Out(a cipher.Address, coins, hours uint64) coin.TransactionOutput {
	return coin.TransactionOutput{Address: a, Coins: coins, Hours: hours}
}

// FlipBit returns a copy of b with bit i (0 = most significant bit of byte 0) flipped
func FlipBit(b []byte, i int) []byte {
	out := append([]byte(nil), b...)
	out[i/8] ^= 0x80 >> uint(i%8)
	return out
}

// Scaled multiplies a case count by $VERIF_SCALE (self-test knob for trying breaking changes
// quickly; unset in normal runs, where case lists depend on seed and tier only)
func Scaled(n int) int {
	v := os.Getenv("VERIF_SCALE")
	if v == "" {
		return n
	}
	f, err := strconv.ParseFloat(v, 64)
	if err != nil || f <= 0 {
		return n
	}
	m := int(float64(n) * f)
	if m < 1 {
		m = 1
	}
	return m
}

// CPUSeconds returns user+system CPU time of this process and its waited-for children
func CPUSeconds() float64 {
	var a, b syscall.Rusage
	_ = syscall.Getrusage(syscall.RUSAGE_SELF, &a)
	_ = syscall.Getrusage(syscall.RUSAGE_CHILDREN, &b)
	tv := func(t syscall.Timeval) float64 { return float64(t.Sec) + float64(t.Usec)/1e6 }
	return tv(a.Utime) + tv(a.Stime) + tv(b.Utime) + tv(b.Stime)
}
