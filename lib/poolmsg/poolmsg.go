// Package poolmsg holds the gnet message types used by the pool stress (C32) and the
// framing check (C22 L1), and an independent hand-written wire encoder for them.
//
// The types mirror the shapes of the daemon's messages: an empty message (GetPeers/Ping),
// fixed fields and arrays (Introduction, GetBlocks), a byte slice and a slice of structs with
// `maxlen` (GivePeers, AnnounceTxns). Decode goes through skycoin's encoder like the
// daemon's messages do; what the harness SENDS is built by the Enc*/Frame functions
// below, which do not call skycoin code.
package poolmsg

import (
	"encoding/binary"
	"errors"

	"github.com/skycoin/skycoin/src/cipher/encoder"
	"github.com/skycoin/skycoin/src/daemon/gnet"
	"github.com/skycoin/skycoin/src/util/logging"
)

// Sink receives decoded messages from the handlers (the pool's message state)
type Sink interface {
	OnMessage(connID uint64, addr string, m interface{}) error
}

// Limits of the variable-length fields (the `maxlen` tags below)
const (
	BlobMax = 8192
	ListMax = 64
)

// Ping is an empty message
type Ping struct{}

// Fixed has only fixed-size fields
type Fixed struct {
	A uint64
	B uint32
	C uint16
	D uint8
	H [32]byte
}

// Blob carries a byte slice
type Blob struct {
	Seq  uint32
	Data []byte `enc:",maxlen=8192"`
}

// Item is an element of List (shape of daemon.IPAddr)
type Item struct {
	IP   uint32
	Port uint16
}

// List carries a slice of structs
type List struct {
	Tag   uint8
	Items []Item `enc:",maxlen=64"`
}

// Fail is a message whose handler returns an error
type Fail struct {
	Code uint32
}

// Panc is a message whose Decode panics when X is 0xFF (the dispatcher must recover)
type Panc struct {
	X uint8
}

// ErrHandlerFail is returned by Fail's handler
var ErrHandlerFail = errors.New("poolmsg: handler refused message")

// IDs of the registered messages
const (
	IDPing  = "PING"
	IDFixed = "FIXD"
	IDBlob  = "BLOB"
	IDList  = "LIST"
	IDFail  = "FAIL"
	IDPanc  = "PANC"
)

// Register installs the message types in gnet's global registry (replacing any others)
func Register() {
	gnet.EraseMessages()
	gnet.RegisterMessage(gnet.MessagePrefixFromString(IDPing), Ping{})
	gnet.RegisterMessage(gnet.MessagePrefixFromString(IDFixed), Fixed{})
	gnet.RegisterMessage(gnet.MessagePrefixFromString(IDBlob), Blob{})
	gnet.RegisterMessage(gnet.MessagePrefixFromString(IDList), List{})
	gnet.RegisterMessage(gnet.MessagePrefixFromString(IDFail), Fail{})
	gnet.RegisterMessage(gnet.MessagePrefixFromString(IDPanc), Panc{})
	gnet.VerifyMessages()
}

// QuietLogs silences skycoin's loggers (every log line takes a global mutex, which would
// order otherwise unordered goroutines for the race detector)
func QuietLogs() {
	if lvl, err := logging.LevelFromString("panic"); err == nil {
		logging.SetLevel(lvl)
	}
	logging.Disable()
}

func encodeTo(buf []byte, m interface{}) error {
	b := encoder.Serialize(m)
	if len(buf) < len(b) {
		return errors.New("not enough buffer to encode")
	}
	copy(buf, b)
	return nil
}

func deliver(c *gnet.MessageContext, state interface{}, m interface{}) error {
	if s, ok := state.(Sink); ok && s != nil {
		return s.OnMessage(c.ConnID, c.Addr, m)
	}
	return nil
}

// EncodeSize implements gnet.Serializer
func (m *Ping) EncodeSize() uint64 { return encoder.Size(m) }

// Encode implements gnet.Serializer
func (m *Ping) Encode(buf []byte) error { return encodeTo(buf, m) }

// Decode implements gnet.Serializer
func (m *Ping) Decode(buf []byte) (uint64, error) { return encoder.DeserializeRaw(buf, m) }

// Handle implements gnet.Handler
func (m *Ping) Handle(c *gnet.MessageContext, state interface{}) error { return deliver(c, state, m) }

// EncodeSize implements gnet.Serializer
func (m *Fixed) EncodeSize() uint64 { return encoder.Size(m) }

// Encode implements gnet.Serializer
func (m *Fixed) Encode(buf []byte) error { return encodeTo(buf, m) }

// Decode implements gnet.Serializer
func (m *Fixed) Decode(buf []byte) (uint64, error) { return encoder.DeserializeRaw(buf, m) }

// Handle implements gnet.Handler
func (m *Fixed) Handle(c *gnet.MessageContext, state interface{}) error { return deliver(c, state, m) }

// EncodeSize implements gnet.Serializer
func (m *Blob) EncodeSize() uint64 { return encoder.Size(m) }

// Encode implements gnet.Serializer
func (m *Blob) Encode(buf []byte) error { return encodeTo(buf, m) }

// Decode implements gnet.Serializer
func (m *Blob) Decode(buf []byte) (uint64, error) { return encoder.DeserializeRaw(buf, m) }

// Handle implements gnet.Handler
func (m *Blob) Handle(c *gnet.MessageContext, state interface{}) error { return deliver(c, state, m) }

// EncodeSize implements gnet.Serializer
func (m *List) EncodeSize() uint64 { return encoder.Size(m) }

// Encode implements gnet.Serializer
func (m *List) Encode(buf []byte) error { return encodeTo(buf, m) }

// Decode implements gnet.Serializer
func (m *List) Decode(buf []byte) (uint64, error) { return encoder.DeserializeRaw(buf, m) }

// Handle implements gnet.Handler
func (m *List) Handle(c *gnet.MessageContext, state interface{}) error { return deliver(c, state, m) }

// EncodeSize implements gnet.Serializer
func (m *Fail) EncodeSize() uint64 { return encoder.Size(m) }

// Encode implements gnet.Serializer
func (m *Fail) Encode(buf []byte) error { return encodeTo(buf, m) }

// Decode implements gnet.Serializer
func (m *Fail) Decode(buf []byte) (uint64, error) { return encoder.DeserializeRaw(buf, m) }

// Handle implements gnet.Handler
func (m *Fail) Handle(c *gnet.MessageContext, state interface{}) error {
	if err := deliver(c, state, m); err != nil {
		return err
	}
	return ErrHandlerFail
}

// EncodeSize implements gnet.Serializer
func (m *Panc) EncodeSize() uint64 { return encoder.Size(m) }

// Encode implements gnet.Serializer
func (m *Panc) Encode(buf []byte) error { return encodeTo(buf, m) }

// Decode implements gnet.Serializer
func (m *Panc) Decode(buf []byte) (uint64, error) {
	if len(buf) > 0 && buf[0] == 0xFF {
		panic("poolmsg: Panc decode panic")
	}
	return encoder.DeserializeRaw(buf, m)
}

// Handle implements gnet.Handler
func (m *Panc) Handle(c *gnet.MessageContext, state interface{}) error { return deliver(c, state, m) }

// ---------------------------------------------------------------------------------
// Independent wire encoder (skycoin encoding: little-endian integers, arrays raw, slices
// with a uint32 count; frame = uint32 length of (id+body), 4-byte id, body)

// Frame builds a wire frame with a correct length prefix
func Frame(id string, body []byte) []byte {
	out := make([]byte, 8+len(body))
	binary.LittleEndian.PutUint32(out, uint32(4+len(body)))
	copy(out[4:8], id) // shorter ids are zero padded
	copy(out[8:], body)
	return out
}

// RawFrame builds a frame with an arbitrary claimed length followed by payload
func RawFrame(claimed uint32, payload []byte) []byte {
	out := make([]byte, 4+len(payload))
	binary.LittleEndian.PutUint32(out, claimed)
	copy(out[4:], payload)
	return out
}

// EncFixed is the body of a Fixed message
func EncFixed(m Fixed) []byte {
	b := make([]byte, 0, 47)
	b = le64(b, m.A)
	b = le32(b, m.B)
	b = le16(b, m.C)
	b = append(b, m.D)
	b = append(b, m.H[:]...)
	return b
}

// EncBlob is the body of a Blob message
func EncBlob(m Blob) []byte {
	b := make([]byte, 0, 8+len(m.Data))
	b = le32(b, m.Seq)
	b = le32(b, uint32(len(m.Data)))
	b = append(b, m.Data...)
	return b
}

// EncList is the body of a List message
func EncList(m List) []byte {
	b := make([]byte, 0, 5+6*len(m.Items))
	b = append(b, m.Tag)
	b = le32(b, uint32(len(m.Items)))
	for _, it := range m.Items {
		b = le32(b, it.IP)
		b = le16(b, it.Port)
	}
	return b
}

// EncFail is the body of a Fail message
func EncFail(m Fail) []byte { return le32(nil, m.Code) }

func le16(b []byte, v uint16) []byte { return append(b, byte(v), byte(v>>8)) }
func le32(b []byte, v uint32) []byte {
	return append(b, byte(v), byte(v>>8), byte(v>>16), byte(v>>24))
}
func le64(b []byte, v uint64) []byte {
	return append(le32(b, uint32(v)), byte(v>>32), byte(v>>40), byte(v>>48), byte(v>>56))
}
