// Package wire is a raw TCP peer for the skycoin wire protocol. It frames messages itself
// (4-byte little-endian length of id+body, 4-byte ASCII id, body), so that it can also send
// malformed frames, and it offers a PING/PONG barrier: the daemon processes all peer messages
// through one FIFO event loop, so a PONG answering our PING proves that every message we sent
// before on this connection has been processed.
package wire

import (
	"encoding/binary"
	"errors"
	"fmt"
	"io"
	"net"
	"time"

	"github.com/skycoin/skycoin/src/cipher"
	"github.com/skycoin/skycoin/src/cipher/encoder"
	"github.com/skycoin/skycoin/src/coin"
)

// Msg is one received message
type Msg struct {
	ID   string
	Body []byte
}

// Peer is one TCP connection to a node
type Peer struct {
	C    net.Conn
	Recv []Msg // everything received so far, in order
	EOF  bool
	buf  []byte
}

// Dial connects to a node's peer port
func Dial(addr string) (*Peer, error) {
	c, err := net.DialTimeout("tcp", addr, 5*time.Second)
	if err != nil {
		return nil, err
	}
	if tc, ok := c.(*net.TCPConn); ok {
		_ = tc.SetNoDelay(true)
	}
	return &Peer{C: c}, nil
}

// Close closes the connection
func (p *Peer) Close() { _ = p.C.Close() }

// Frame builds a frame for a message id and body
func Frame(id string, body []byte) []byte {
	b := make([]byte, 8+len(body))
	binary.LittleEndian.PutUint32(b, uint32(4+len(body)))
	copy(b[4:8], id)
	copy(b[8:], body)
	return b
}

// SendRaw writes bytes as they are
func (p *Peer) SendRaw(b []byte) error {
	_ = p.C.SetWriteDeadline(time.Now().Add(20 * time.Second))
	_, err := p.C.Write(b)
	return err
}

// Send frames and sends a message
func (p *Peer) Send(id string, body []byte) error { return p.SendRaw(Frame(id, body)) }

// readSome reads whatever arrives within d and parses complete frames
func (p *Peer) readSome(d time.Duration) error {
	_ = p.C.SetReadDeadline(time.Now().Add(d))
	tmp := make([]byte, 65536)
	n, err := p.C.Read(tmp)
	if n > 0 {
		p.buf = append(p.buf, tmp[:n]...)
		for len(p.buf) >= 4 {
			l := int(binary.LittleEndian.Uint32(p.buf))
			if l < 4 || l > 64<<20 {
				return fmt.Errorf("bad frame length %d from node", l)
			}
			if len(p.buf) < 4+l {
				break
			}
			p.Recv = append(p.Recv, Msg{ID: string(p.buf[4:8]), Body: append([]byte(nil), p.buf[8:4+l]...)})
			p.buf = p.buf[4+l:]
		}
	}
	if err != nil {
		if ne, ok := err.(net.Error); ok && ne.Timeout() {
			return nil
		}
		if err == io.EOF || isReset(err) {
			p.EOF = true
			return nil
		}
		return err
	}
	return nil
}

func isReset(err error) bool {
	var oe *net.OpError
	if errors.As(err, &oe) {
		return true
	}
	return false
}

// WaitFor reads until a message with the given id arrives after index from (returns its index)
// or the connection ends or the (generous, non-deciding) timeout passes
func (p *Peer) WaitFor(id string, from int, timeout time.Duration) (int, bool) {
	deadline := time.Now().Add(timeout)
	for {
		for i := from; i < len(p.Recv); i++ {
			if p.Recv[i].ID == id {
				return i, true
			}
		}
		if p.EOF || time.Now().After(deadline) {
			return -1, false
		}
		if err := p.readSome(200 * time.Millisecond); err != nil {
			return -1, false
		}
	}
}

// Barrier sends PING and waits for the PONG: everything sent before has then been processed.
// ok=false means the connection ended (or the watchdog fired) before the PONG.
func (p *Peer) Barrier(timeout time.Duration) bool {
	from := len(p.Recv)
	if err := p.Send("PING", nil); err != nil {
		return false
	}
	_, ok := p.WaitFor("PONG", from, timeout)
	return ok
}

// WaitClosed reads until the node closes the connection
func (p *Peer) WaitClosed(timeout time.Duration) bool {
	deadline := time.Now().Add(timeout)
	for !p.EOF && time.Now().Before(deadline) {
		if err := p.readSome(200 * time.Millisecond); err != nil {
			return true
		}
	}
	return p.EOF
}

// Drain reads whatever is pending for d
func (p *Peer) Drain(d time.Duration) {
	deadline := time.Now().Add(d)
	for !p.EOF && time.Now().Before(deadline) {
		if err := p.readSome(50 * time.Millisecond); err != nil {
			return
		}
	}
}

// ---------------------------------------------------------------------------------
// Message bodies (documented layouts)

// IntroParams are the fields of an introduction message
type IntroParams struct {
	Mirror          uint32
	ListenPort      uint16
	ProtocolVersion int32
	// Extra, if non-nil, is used verbatim; otherwise it is built from the fields below
	Extra       []byte
	NoExtra     bool
	Pubkey      cipher.PubKey
	BurnFactor  uint32
	MaxTxnSize  uint32
	MaxDecimals uint8
	UserAgent   string
	GenesisHash *cipher.SHA256
}

// IntroExtra builds the documented "extra" field: pubkey(33) burnfactor(4) maxtxnsize(4)
// maxdecimals(1) useragent(4+n) [genesishash(32)]
func IntroExtra(p IntroParams) []byte {
	var b []byte
	b = append(b, p.Pubkey[:]...)
	var x [4]byte
	binary.LittleEndian.PutUint32(x[:], p.BurnFactor)
	b = append(b, x[:]...)
	binary.LittleEndian.PutUint32(x[:], p.MaxTxnSize)
	b = append(b, x[:]...)
	b = append(b, p.MaxDecimals)
	binary.LittleEndian.PutUint32(x[:], uint32(len(p.UserAgent)))
	b = append(b, x[:]...)
	b = append(b, p.UserAgent...)
	if p.GenesisHash != nil {
		b = append(b, p.GenesisHash[:]...)
	}
	return b
}

// IntroBody encodes an introduction message body: mirror(4) port(2) version(4) extra(4+n, omitted
// entirely when empty)
func IntroBody(p IntroParams) []byte {
	b := make([]byte, 10)
	binary.LittleEndian.PutUint32(b[0:], p.Mirror)
	binary.LittleEndian.PutUint16(b[4:], p.ListenPort)
	binary.LittleEndian.PutUint32(b[6:], uint32(p.ProtocolVersion))
	extra := p.Extra
	if extra == nil && !p.NoExtra {
		extra = IntroExtra(p)
	}
	if len(extra) > 0 {
		var x [4]byte
		binary.LittleEndian.PutUint32(x[:], uint32(len(extra)))
		b = append(b, x[:]...)
		b = append(b, extra...)
	}
	return b
}

// DefaultIntro returns valid introduction parameters for a chain with the given public key
func DefaultIntro(pub cipher.PubKey, mirror uint32) IntroParams {
	return IntroParams{
		Mirror: mirror, ListenPort: 6001, ProtocolVersion: 2,
		Pubkey: pub, BurnFactor: 10, MaxTxnSize: 32768, MaxDecimals: 3, UserAgent: "skycoin:0.27.0",
	}
}

// Introduce sends a valid introduction and waits for the node's own INTR
func (p *Peer) Introduce(pub cipher.PubKey, mirror uint32, timeout time.Duration) bool {
	if err := p.Send("INTR", IntroBody(DefaultIntro(pub, mirror))); err != nil {
		return false
	}
	_, ok := p.WaitFor("INTR", 0, timeout)
	return ok
}

// GiveBlocksBody encodes a GIVB body
func GiveBlocksBody(blocks []coin.SignedBlock) []byte {
	type giveBlocks struct {
		Blocks []coin.SignedBlock
	}
	return encoder.Serialize(giveBlocks{blocks})
}

// GiveTxnsBody encodes a GIVT body
func GiveTxnsBody(txns []coin.Transaction) []byte {
	type giveTxns struct {
		Transactions []coin.Transaction
	}
	return encoder.Serialize(giveTxns{txns})
}

// U64Body encodes one or more uint64 fields (GETB: lastblock, requested; ANNB: maxbkseq)
func U64Body(vs ...uint64) []byte {
	b := make([]byte, 8*len(vs))
	for i, v := range vs {
		binary.LittleEndian.PutUint64(b[8*i:], v)
	}
	return b
}

// HashesBody encodes a list of hashes (ANNT / GETT)
func HashesBody(hs []cipher.SHA256) []byte {
	b := make([]byte, 4, 4+32*len(hs))
	binary.LittleEndian.PutUint32(b, uint32(len(hs)))
	for _, h := range hs {
		b = append(b, h[:]...)
	}
	return b
}

// ParseGetBlocks decodes a GETB body
func ParseGetBlocks(b []byte) (last, requested uint64, ok bool) {
	if len(b) != 16 {
		return 0, 0, false
	}
	return binary.LittleEndian.Uint64(b), binary.LittleEndian.Uint64(b[8:]), true
}

// ParseGiveBlocks decodes a GIVB body
func ParseGiveBlocks(b []byte) ([]coin.SignedBlock, error) {
	var m struct {
		Blocks []coin.SignedBlock
	}
	if err := encoder.DeserializeRawExact(b, &m); err != nil {
		return nil, err
	}
	return m.Blocks, nil
}
