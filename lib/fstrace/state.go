package fstrace

import (
	"bytes"
	"crypto/sha256"
	"encoding/hex"
	"fmt"
	"io/ioutil"
	"os"
	"path/filepath"
	"sort"
	"strings"
)

// node is one file (an inode): reachable through names and/or open descriptions.
// data is never modified in place: every change installs a fresh slice, so clones may share it.
type node struct {
	data []byte
	mode os.FileMode
}

type ofd struct {
	n      *node
	pos    int64
	append bool
}

// State is an in-memory image of the directory tree below the root plus the open-file
// descriptions created by the replayed operations
type State struct {
	files map[string]*node       // root-relative name -> file
	dirs  map[string]os.FileMode // root-relative directories ("" = root is implicit)
	opens map[int]*ofd           // Op.Open -> description
	// Notes collects replay inconsistencies (operation succeeded in the trace but is impossible
	// on the modelled state); a non-empty list means the model and the recording disagree.
	Notes []string
}

// Snapshot reads the tree below dir into memory (regular files and directories; anything
// else is an error)
func Snapshot(dir string) (*State, error) {
	s := &State{files: map[string]*node{}, dirs: map[string]os.FileMode{}, opens: map[int]*ofd{}}
	dir = filepath.Clean(dir)
	err := filepath.Walk(dir, func(p string, fi os.FileInfo, err error) error {
		if err != nil {
			return err
		}
		if p == dir {
			return nil
		}
		rel := p[len(dir)+1:]
		switch {
		case fi.IsDir():
			s.dirs[rel] = fi.Mode().Perm()
		case fi.Mode().IsRegular():
			b, err := ioutil.ReadFile(p)
			if err != nil {
				return err
			}
			s.files[rel] = &node{data: b, mode: fi.Mode().Perm()}
		default:
			return fmt.Errorf("snapshot: %s is neither a regular file nor a directory", p)
		}
		return nil
	})
	if err != nil {
		return nil, err
	}
	return s, nil
}

// Clone returns an independent copy (file contents are shared, they are immutable)
func (s *State) Clone() *State {
	c := &State{files: make(map[string]*node, len(s.files)), dirs: make(map[string]os.FileMode, len(s.dirs)), opens: make(map[int]*ofd, len(s.opens))}
	m := map[*node]*node{}
	cp := func(n *node) *node {
		if n == nil {
			return nil
		}
		if x, ok := m[n]; ok {
			return x
		}
		x := &node{data: n.data, mode: n.mode}
		m[n] = x
		return x
	}
	for k, n := range s.files {
		c.files[k] = cp(n)
	}
	for k, v := range s.dirs {
		c.dirs[k] = v
	}
	for k, o := range s.opens {
		c.opens[k] = &ofd{n: cp(o.n), pos: o.pos, append: o.append}
	}
	c.Notes = append([]string(nil), s.Notes...)
	return c
}

// Names lists the files, sorted
func (s *State) Names() []string {
	out := make([]string, 0, len(s.files))
	for k := range s.files {
		out = append(out, k)
	}
	sort.Strings(out)
	return out
}

// Read returns the content of a file
func (s *State) Read(name string) ([]byte, bool) {
	n, ok := s.files[name]
	if !ok {
		return nil, false
	}
	return n.data, true
}

// Digest identifies the visible tree (names, modes, contents, directories)
func (s *State) Digest() string {
	h := sha256.New()
	for _, k := range s.Names() {
		n := s.files[k]
		fmt.Fprintf(h, "F %q %o %d\n", k, n.mode, len(n.data))
		h.Write(n.data)
	}
	ds := make([]string, 0, len(s.dirs))
	for k := range s.dirs {
		ds = append(ds, k)
	}
	sort.Strings(ds)
	for _, k := range ds {
		fmt.Fprintf(h, "D %q\n", k)
	}
	return hex.EncodeToString(h.Sum(nil)[:16])
}

func (s *State) note(f string, a ...interface{}) {
	if len(s.Notes) < 50 {
		s.Notes = append(s.Notes, fmt.Sprintf(f, a...))
	}
}

// Apply replays one operation completely; changed reports whether the visible tree
// (names, contents) is different afterwards
func (s *State) Apply(op Op) (changed bool) { return s.apply(op, -1) }

// ApplyCut replays a data write of which only the first k bytes reached the disk
// (k is clamped to the payload length); other kinds are applied completely
func (s *State) ApplyCut(op Op, k int) (changed bool) { return s.apply(op, k) }

func (s *State) apply(op Op, cut int) bool {
	switch op.Kind {
	case KOpen:
		n, exists := s.files[op.Path]
		changed := false
		switch {
		case exists && op.Trunc:
			if len(n.data) > 0 {
				n.data = nil
				changed = true
			}
		case exists:
			if op.Creat && op.Excl {
				s.note("line %d: O_EXCL open of existing %s succeeded in the trace", op.Line, op.Path)
			}
		case op.Creat:
			n = &node{mode: op.Mode}
			s.files[op.Path] = n
			changed = true
		default:
			if op.Syscall == "(implicit)" {
				n = &node{mode: 0600}
				s.files[op.Path] = n
				s.note("line %d: implicit open of unknown file %s", op.Line, op.Path)
				changed = true
			} else if _, isDir := s.dirs[op.Path]; isDir || op.Path == "" {
				return false // directory opened for reading
			} else {
				s.note("line %d: open of missing %s without O_CREAT succeeded in the trace", op.Line, op.Path)
				return false
			}
		}
		s.opens[op.Open] = &ofd{n: n, append: op.Append}
		return changed

	case KClose:
		delete(s.opens, op.Open)
		return false

	case KSeek:
		if o, ok := s.opens[op.Open]; ok {
			if op.Offset >= 0 {
				o.pos = op.Offset
			} else {
				o.pos += op.Length
			}
		}
		return false

	case KWrite:
		o, ok := s.opens[op.Open]
		if !ok {
			s.note("line %d: write through unknown description #%d (%s)", op.Line, op.Open, op.Path)
			return false
		}
		data := op.Data
		if cut >= 0 && cut < len(data) {
			data = data[:cut]
		}
		pos := op.Offset
		if pos < 0 {
			if o.append {
				pos = int64(len(o.n.data))
			} else {
				pos = o.pos
			}
			o.pos = pos + int64(len(data))
		}
		if len(data) == 0 {
			return false
		}
		end := pos + int64(len(data))
		size := int64(len(o.n.data))
		if end < size {
			end = size
		}
		nd := make([]byte, end)
		copy(nd, o.n.data)
		copy(nd[pos:], data)
		same := bytes.Equal(nd, o.n.data)
		o.n.data = nd
		return !same && s.linked(o.n)

	case KTruncate:
		o, ok := s.opens[op.Open]
		if !ok {
			s.note("line %d: ftruncate through unknown description #%d (%s)", op.Line, op.Open, op.Path)
			return false
		}
		return s.resize(o.n, op.Length)

	case KFallocate:
		o, ok := s.opens[op.Open]
		if !ok {
			s.note("line %d: fallocate through unknown description #%d (%s)", op.Line, op.Open, op.Path)
			return false
		}
		if op.KeepSize || op.Offset+op.Length <= int64(len(o.n.data)) {
			return false
		}
		return s.resize(o.n, op.Offset+op.Length)

	case KRename:
		if n, ok := s.files[op.Path]; ok {
			if op.Path == op.Path2 {
				return false
			}
			s.files[op.Path2] = n // a file of that name is replaced (its node lives on in open descriptions)
			delete(s.files, op.Path)
			return true
		}
		if m, ok := s.dirs[op.Path]; ok {
			delete(s.dirs, op.Path)
			s.dirs[op.Path2] = m
			pre := op.Path + "/"
			for k, n := range s.files {
				if strings.HasPrefix(k, pre) {
					delete(s.files, k)
					s.files[op.Path2+"/"+k[len(pre):]] = n
				}
			}
			for k, v := range s.dirs {
				if strings.HasPrefix(k, pre) {
					delete(s.dirs, k)
					s.dirs[op.Path2+"/"+k[len(pre):]] = v
				}
			}
			return true
		}
		s.note("line %d: rename of missing %s succeeded in the trace", op.Line, op.Path)
		return false

	case KUnlink:
		if _, ok := s.files[op.Path]; !ok {
			s.note("line %d: unlink of missing %s succeeded in the trace", op.Line, op.Path)
			return false
		}
		delete(s.files, op.Path)
		return true

	case KRmdir:
		if _, ok := s.dirs[op.Path]; !ok {
			s.note("line %d: rmdir of missing %s succeeded in the trace", op.Line, op.Path)
			return false
		}
		delete(s.dirs, op.Path)
		return true

	case KMkdir:
		if _, ok := s.dirs[op.Path]; ok {
			s.note("line %d: mkdir of existing %s succeeded in the trace", op.Line, op.Path)
			return false
		}
		s.dirs[op.Path] = op.Mode
		return true
	}
	return false
}

func (s *State) resize(n *node, size int64) bool {
	if size < 0 || size == int64(len(n.data)) {
		return false
	}
	nd := make([]byte, size)
	copy(nd, n.data)
	n.data = nd
	return s.linked(n)
}

// linked reports whether the file still has a name (changes to unlinked files are invisible)
func (s *State) linked(n *node) bool {
	for _, x := range s.files {
		if x == n {
			return true
		}
	}
	return false
}

// Materialise writes the visible tree into dir, which must be empty or absent
func (s *State) Materialise(dir string) error {
	if err := os.MkdirAll(dir, 0700); err != nil {
		return err
	}
	ents, err := ioutil.ReadDir(dir)
	if err != nil {
		return err
	}
	if len(ents) != 0 {
		return fmt.Errorf("materialise: %s is not empty", dir)
	}
	ds := make([]string, 0, len(s.dirs))
	for k := range s.dirs {
		ds = append(ds, k)
	}
	sort.Strings(ds)
	for _, d := range ds {
		if err := os.MkdirAll(filepath.Join(dir, d), 0700); err != nil {
			return err
		}
	}
	for k, n := range s.files {
		p := filepath.Join(dir, k)
		if err := os.MkdirAll(filepath.Dir(p), 0700); err != nil {
			return err
		}
		mode := n.mode
		if mode == 0 {
			mode = 0600
		}
		if err := ioutil.WriteFile(p, n.data, mode); err != nil {
			return err
		}
		if err := os.Chmod(p, mode); err != nil {
			return err
		}
	}
	for _, d := range ds {
		if m := s.dirs[d]; m != 0 {
			_ = os.Chmod(filepath.Join(dir, d), m|0700)
		}
	}
	return nil
}

// DiffDir compares the visible tree with a real directory; "" means identical names and contents
func (s *State) DiffDir(dir string) string {
	o, err := Snapshot(dir)
	if err != nil {
		return "snapshot: " + err.Error()
	}
	return s.Diff(o)
}

// Diff describes the first difference between the visible trees of s and o ("" if none;
// file modes are not compared)
func (s *State) Diff(o *State) string {
	for _, k := range s.Names() {
		n := s.files[k]
		m, ok := o.files[k]
		if !ok {
			return fmt.Sprintf("%s: only in first", k)
		}
		if !bytes.Equal(n.data, m.data) {
			return fmt.Sprintf("%s: contents differ (%d vs %d bytes)", k, len(n.data), len(m.data))
		}
	}
	for _, k := range o.Names() {
		if _, ok := s.files[k]; !ok {
			return fmt.Sprintf("%s: only in second", k)
		}
	}
	for k := range s.dirs {
		if _, ok := o.dirs[k]; !ok {
			return fmt.Sprintf("%s/: only in first", k)
		}
	}
	for k := range o.dirs {
		if _, ok := s.dirs[k]; !ok {
			return fmt.Sprintf("%s/: only in second", k)
		}
	}
	return ""
}

// Crash is one enumerated crash state
type Crash struct {
	After int    // number of operations of the list that were applied completely
	Cut   int    // -1: crash between operations; k >= 0: operation After is a data write of which k bytes were applied
	Op    *Op    // the operation the crash follows (Cut < 0, nil for the initial state) or interrupts (Cut >= 0)
	State *State // private copy for the visitor
	Same  bool   // the visible tree is identical to that of the previously visited state
}

// Label is a short description such as "after#3 open[creat,trunc] a.wlt" or "cut#4@17 write a.wlt +1532"
func (c Crash) Label() string {
	switch {
	case c.Op == nil:
		return "initial"
	case c.Cut >= 0:
		return fmt.Sprintf("cut#%d@%d %s", c.After, c.Cut, c.Op.String())
	}
	return fmt.Sprintf("after#%d %s", c.After, c.Op.String())
}

// StdCuts is the standard set of partial-write lengths for an n-byte payload: 0, 1, n/2, n-1
// (those that are < n), ascending without duplicates
func StdCuts(n int) []int {
	out := []int{}
	for _, k := range []int{0, 1, n / 2, n - 1} {
		if k < 0 || k >= n {
			continue
		}
		dup := false
		for _, x := range out {
			if x == k {
				dup = true
			}
		}
		if !dup {
			out = append(out, k)
		}
	}
	sort.Ints(out)
	return out
}

// Enumerate walks the ordered-write crash states of ops starting from pre (which is not
// modified): the initial state; for every data write the states with only cuts(len) bytes of
// it applied; and the state after every mutating operation. Non-mutating operations (close,
// sync, markers) are replayed but produce no state of their own. visit returns false to stop.
// The last state visited is the one after all operations.
func Enumerate(pre *State, ops []Op, cuts func(n int) []int, visit func(Crash) bool) {
	cur := pre.Clone()
	last := cur.Digest()
	emit := func(c Crash, st *State) bool {
		d := st.Digest()
		c.Same = d == last
		last = d
		c.State = st
		return visit(c)
	}
	if !emit(Crash{After: 0, Cut: -1}, cur.Clone()) {
		return
	}
	for i := range ops {
		op := ops[i]
		if op.Kind == KWrite && cuts != nil {
			for _, k := range cuts(len(op.Data)) {
				if k < 0 || k >= len(op.Data) {
					continue
				}
				st := cur.Clone()
				st.ApplyCut(op, k)
				if !emit(Crash{After: i, Cut: k, Op: &ops[i]}, st) {
					return
				}
			}
		}
		cur.Apply(op)
		if op.Mutating() {
			if !emit(Crash{After: i + 1, Cut: -1, Op: &ops[i]}, cur.Clone()) {
				return
			}
		}
	}
}

// Replay applies all ops to a copy of pre and returns the result
func Replay(pre *State, ops []Op) *State {
	cur := pre.Clone()
	for _, op := range ops {
		cur.Apply(op)
	}
	return cur
}

// Materialise writes into the fresh directory dir the state after the first i operations of
// ops applied to pre; if cut >= 0, operation i (the i+1-th) is additionally applied with its
// data payload cut to cut bytes
func Materialise(pre *State, ops []Op, i, cut int, dir string) error {
	if i < 0 || i > len(ops) {
		return fmt.Errorf("materialise: prefix %d out of range 0..%d", i, len(ops))
	}
	cur := Replay(pre, ops[:i])
	if cut >= 0 {
		if i >= len(ops) {
			return fmt.Errorf("materialise: no operation %d to cut", i)
		}
		if ops[i].Kind != KWrite {
			return fmt.Errorf("materialise: operation %d (%s) is not a data write", i, ops[i].Kind)
		}
		cur.ApplyCut(ops[i], cut)
	}
	return cur.Materialise(dir)
}
