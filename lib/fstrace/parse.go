// Package fstrace turns an strace log of a (thread-locked) child into the ordered list of
// file-system operations it performed below one root directory, and replays prefixes of that
// list onto a snapshot of the directory (ordered-write crash model: operations reach the disk
// in issue order, the last data write may be partial).
//
// Recording (see Command / Args):
//
//	strace -f -y -xx -s 16777216 -o LOG -e trace=openat,write,pwrite64,ftruncate,fallocate,
//	       rename,renameat,renameat2,unlink,unlinkat,fsync,fdatasync,close,mkdir,mkdirat CHILD...
//
// The child calls runtime.LockOSThread() before the operation of interest, so that its system
// calls come from one thread in program order, and may bracket it with Mark("begin") /
// Mark("end") (a failing open of a reserved path that shows up in the log as a marker).
//
// Typical use:
//
//	pre, _ := fstrace.Snapshot(dir)             // before the child runs
//	... run fstrace.Command(log, child, args...) ...
//	tr, _ := fstrace.ParseFile(log, dir)
//	_, ops, _, _ := tr.Split("begin", "end")
//	fstrace.Enumerate(pre, ops, fstrace.StdCuts, func(c fstrace.Crash) bool {
//	    c.State.Materialise(freshDir); ...restart on freshDir...; return true })
//
// Assumptions (violations are reported in Trace.Warnings, never silently ignored): the traced
// tree is one multi-threaded process (one descriptor table); descriptors used on files below
// the root were opened while tracing; sequential write(2) offsets are reconstructed from the
// open (0, or end-of-file with O_APPEND) plus the bytes written through the same descriptor
// (read/lseek/pread64 lines are honoured if they were added to the trace set); hard links,
// mmap stores and dup'ed descriptors are not modelled.
package fstrace

import (
	"bufio"
	"fmt"
	"io"
	"os"
	"os/exec"
	"path/filepath"
	"regexp"
	"strconv"
	"strings"
)

// TraceSet is the syscall list given to strace -e trace=
const TraceSet = "openat,write,pwrite64,ftruncate,fallocate,rename,renameat,renameat2,unlink,unlinkat,fsync,fdatasync,close,mkdir,mkdirat"

// StracePath is the recorder binary
var StracePath = "/usr/bin/strace"

// MaxString is the -s value: longest single write payload that is recorded completely
const MaxString = 16777216

// markPrefix is the reserved path prefix of marker opens
const markPrefix = "/dev/null/VERIF-MARK:"

// Args returns the strace argv (without the traced command) writing to logPath
func Args(logPath string) []string {
	return []string{"-f", "-y", "-xx", "-s", strconv.Itoa(MaxString), "-o", logPath, "-e", "trace=" + TraceSet}
}

// Command builds "strace <Args(logPath)> bin args..."
func Command(logPath, bin string, args ...string) *exec.Cmd {
	a := append(Args(logPath), bin)
	a = append(a, args...)
	return exec.Command(StracePath, a...)
}

// Mark emits a marker into the trace of the calling thread (a failing open; no side effect).
// Call it on the thread locked with runtime.LockOSThread().
func Mark(label string) {
	f, err := os.Open(markPrefix + label)
	if err == nil {
		f.Close()
	}
}

// Kind classifies a recorded operation
type Kind int

// Operation kinds
const (
	KOpen      Kind = iota // openat that succeeded on a file below the root (mutating iff O_CREAT/O_TRUNC take effect)
	KWrite                 // write / pwrite64
	KTruncate              // ftruncate
	KFallocate             // fallocate
	KRename                // rename*, both names below the root
	KUnlink                // unlink / unlinkat(…, 0)
	KRmdir                 // unlinkat(…, AT_REMOVEDIR)
	KMkdir                 // mkdir / mkdirat
	KSync                  // fsync / fdatasync (a durability barrier; not a mutation)
	KClose                 // close
	KMarker                // Mark(label)
	KSeek                  // position bookkeeping from read / lseek lines (only if those were added to the trace set)
)

var kindNames = []string{"open", "write", "truncate", "fallocate", "rename", "unlink", "rmdir", "mkdir", "sync", "close", "marker", "seek"}

func (k Kind) String() string {
	if int(k) < len(kindNames) {
		return kindNames[k]
	}
	return "kind" + strconv.Itoa(int(k))
}

// Op is one successful file-system operation below the root, in log order
type Op struct {
	Index   int    // position in Trace.Ops
	Line    int    // line number in the strace log (1-based; for a resumed call, the line that completes it)
	TID     int    // thread that issued it
	Kind    Kind   //
	Syscall string // e.g. "openat"
	Path    string // root-relative path ("" = the root itself); for descriptor operations the name the file was opened under
	Path2   string // KRename: destination, root-relative
	Open    int    // id (>0) of the open-file description for KOpen and descriptor operations; 0 = none
	FD      int    // descriptor number, -1 if none

	Creat, Trunc, Excl, Append, RDWR bool        // KOpen flags
	Mode                             os.FileMode // KOpen with O_CREAT, KMkdir

	Offset   int64  // KWrite: pwrite64 offset, -1 = at the description's position; KFallocate: offset; KSeek: new position or -1
	Length   int64  // KTruncate: new length; KFallocate: length; KSeek with Offset -1: bytes to advance
	KeepSize bool   // KFallocate with a mode other than 0 (no visible size/content change modelled)
	Data     []byte // KWrite: the bytes actually written (payload cut to the return value)
	Label    string // KMarker
}

// Mutating reports whether the operation can change the directory tree or file contents
// (for KOpen: only if it carries O_CREAT or O_TRUNC; whether it did is decided by State.Apply)
func (o Op) Mutating() bool {
	switch o.Kind {
	case KOpen:
		return o.Creat || o.Trunc
	case KWrite, KTruncate, KFallocate, KRename, KUnlink, KRmdir, KMkdir:
		return true
	}
	return false
}

// String is a short human-readable form, e.g. "open[creat,trunc] a.wlt" or "write a.wlt +1532"
func (o Op) String() string {
	switch o.Kind {
	case KOpen:
		fl := []string{}
		if o.Creat {
			fl = append(fl, "creat")
		}
		if o.Excl {
			fl = append(fl, "excl")
		}
		if o.Trunc {
			fl = append(fl, "trunc")
		}
		if o.Append {
			fl = append(fl, "append")
		}
		return fmt.Sprintf("open[%s] %s", strings.Join(fl, ","), o.Path)
	case KWrite:
		if o.Offset >= 0 {
			return fmt.Sprintf("pwrite %s @%d +%d", o.Path, o.Offset, len(o.Data))
		}
		return fmt.Sprintf("write %s +%d", o.Path, len(o.Data))
	case KTruncate:
		return fmt.Sprintf("ftruncate %s %d", o.Path, o.Length)
	case KFallocate:
		return fmt.Sprintf("fallocate %s @%d +%d", o.Path, o.Offset, o.Length)
	case KRename:
		return fmt.Sprintf("rename %s -> %s", o.Path, o.Path2)
	case KMarker:
		return "marker " + o.Label
	}
	return o.Kind.String() + " " + o.Path
}

// Trace is a parsed log
type Trace struct {
	Root     string      // the directory of interest (symlinks resolved)
	Ops      []Op        // successful operations below Root plus markers, in log order
	Lines    int         // log lines read
	Warnings []string    // things the model cannot represent faithfully (see package comment)
	Exited   map[int]int // tid -> exit status seen ("+++ exited with N +++"); killed-by-signal = 128+?
}

// Mutations returns the operations for which Mutating() holds
func (t *Trace) Mutations() []Op { return FilterMutating(t.Ops) }

// FilterMutating keeps the potentially mutating operations of ops
func FilterMutating(ops []Op) []Op {
	out := []Op{}
	for _, o := range ops {
		if o.Mutating() {
			out = append(out, o)
		}
	}
	return out
}

// Split cuts the operation list at the markers: before = everything ahead of marker `begin`
// (all of it if begin == ""), mid = operations between the two markers (markers excluded),
// after = the rest. ok is false if a requested marker is missing.
func (t *Trace) Split(begin, end string) (before, mid, after []Op, ok bool) {
	bi, ei := -1, len(t.Ops)
	if begin != "" {
		for i, o := range t.Ops {
			if o.Kind == KMarker && o.Label == begin {
				bi = i
				break
			}
		}
		if bi < 0 {
			return nil, nil, nil, false
		}
	}
	if end != "" {
		ei = -1
		for i := bi + 1; i < len(t.Ops); i++ {
			if t.Ops[i].Kind == KMarker && t.Ops[i].Label == end {
				ei = i
				break
			}
		}
		if ei < 0 {
			return nil, nil, nil, false
		}
	}
	if bi >= 0 {
		before = t.Ops[:bi]
	}
	mid = t.Ops[bi+1 : ei]
	if ei < len(t.Ops) {
		after = t.Ops[ei+1:]
	}
	return before, mid, after, true
}

// ParseFile parses an strace log file; root is the directory of interest
func ParseFile(logPath, root string) (*Trace, error) {
	f, err := os.Open(logPath)
	if err != nil {
		return nil, err
	}
	defer f.Close()
	return Parse(f, root)
}

var (
	lineRe    = regexp.MustCompile(`^\s*(?:\[pid\s+)?(\d+)\]?\s+(.*)$`)
	resumedRe = regexp.MustCompile(`^<\.\.\. (\w+) resumed>\s?(.*)$`)
	exitRe    = regexp.MustCompile(`^\+\+\+ (exited with (\d+)|killed by (\w+)).*\+\+\+$`)
	retRe     = regexp.MustCompile(`^(-?\d+|\?)(?:<(.*?)>)?(?:\s+(E[A-Z0-9]+))?`)
)

type fdEntry struct {
	open   int
	path   string // absolute path at open time
	inRoot bool
	rdwr   bool
}

type parser struct {
	t        *Trace
	roots    []string // root spellings (as given, and resolved), no trailing slash
	fds      map[int]*fdEntry
	nextOpen int
	pending  map[int]string // tid -> unfinished call text
	sawSeek  bool
	rdwrSeq  map[int]bool // open ids with O_RDWR and a sequential write
}

// Parse reads an strace log (format of -o FILE, or the [pid N] form of stderr output)
func Parse(r io.Reader, root string) (*Trace, error) {
	abs, err := filepath.Abs(root)
	if err != nil {
		return nil, err
	}
	p := &parser{
		t:       &Trace{Root: abs, Exited: map[int]int{}},
		roots:   []string{filepath.Clean(abs)},
		fds:     map[int]*fdEntry{},
		pending: map[int]string{},
		rdwrSeq: map[int]bool{},
	}
	if res, err := filepath.EvalSymlinks(abs); err == nil && res != abs {
		p.roots = append(p.roots, filepath.Clean(res))
		p.t.Root = res
	}
	br := bufio.NewReaderSize(r, 1<<20)
	for {
		line, err := br.ReadString('\n')
		if len(line) > 0 {
			p.t.Lines++
			if perr := p.line(strings.TrimRight(line, "\r\n")); perr != nil {
				return nil, fmt.Errorf("strace log line %d: %v", p.t.Lines, perr)
			}
		}
		if err == io.EOF {
			break
		}
		if err != nil {
			return nil, err
		}
	}
	for tid, txt := range p.pending {
		if strings.HasPrefix(strings.TrimSpace(txt), "???") {
			// strace could not name the call a thread was in when the process exited (a runtime
			// thread parked in the kernel): a traced file operation is always printed by name
			continue
		}
		if len(txt) > 80 {
			txt = txt[:80]
		}
		p.warn("call never completed (tid %d): %s", tid, txt)
	}
	if !p.sawSeek {
		for id := range p.rdwrSeq {
			p.warn("open #%d is O_RDWR and written sequentially; offsets assume no interleaved read/lseek", id)
		}
	}
	for i := range p.t.Ops {
		p.t.Ops[i].Index = i
	}
	return p.t, nil
}

func (p *parser) warn(f string, a ...interface{}) {
	if len(p.t.Warnings) < 100 {
		p.t.Warnings = append(p.t.Warnings, fmt.Sprintf(f, a...))
	}
}

func (p *parser) line(s string) error {
	m := lineRe.FindStringSubmatch(s)
	if m == nil {
		if strings.TrimSpace(s) == "" {
			return nil
		}
		return fmt.Errorf("unrecognised line %q", clip(s))
	}
	tid, _ := strconv.Atoi(m[1])
	body := m[2]
	if strings.HasPrefix(body, "+++") {
		if e := exitRe.FindStringSubmatch(body); e != nil {
			if e[2] != "" {
				p.t.Exited[tid], _ = strconv.Atoi(e[2])
			} else {
				p.t.Exited[tid] = 128
			}
		}
		return nil
	}
	if strings.HasPrefix(body, "---") {
		return nil // signal delivery
	}
	if strings.HasSuffix(body, "<unfinished ...>") {
		p.pending[tid] = strings.TrimSuffix(body, "<unfinished ...>")
		return nil
	}
	if rm := resumedRe.FindStringSubmatch(body); rm != nil {
		head, ok := p.pending[tid]
		if !ok {
			return nil // call started before we were looking
		}
		delete(p.pending, tid)
		body = head + rm[2]
	}
	return p.call(tid, body)
}

func clip(s string) string {
	if len(s) > 120 {
		return s[:120] + "..."
	}
	return s
}

// call handles one complete "name(args) = ret" text
func (p *parser) call(tid int, body string) error {
	par := strings.IndexByte(body, '(')
	if par <= 0 {
		return fmt.Errorf("no call in %q", clip(body))
	}
	name := body[:par]
	args, rest, err := splitArgs(body[par+1:])
	if err != nil {
		return fmt.Errorf("%s: %v", name, err)
	}
	rest = strings.TrimSpace(rest)
	if !strings.HasPrefix(rest, "=") {
		return fmt.Errorf("%s: no return value in %q", name, clip(rest))
	}
	rm := retRe.FindStringSubmatch(strings.TrimSpace(rest[1:]))
	if rm == nil {
		return fmt.Errorf("%s: bad return value %q", name, clip(rest))
	}
	if rm[1] == "?" {
		return nil // process died inside the call
	}
	ret, _ := strconv.ParseInt(rm[1], 10, 64)
	retPath := ""
	if rm[2] != "" {
		retPath, _ = unescape(rm[2])
	}
	failed := ret < 0

	op := Op{Line: p.t.Lines, TID: tid, Syscall: name, FD: -1, Offset: -1}
	switch name {
	case "openat", "open":
		var dir, path, flags, mode string
		if name == "openat" {
			if len(args) < 3 {
				return fmt.Errorf("openat: %d args", len(args))
			}
			dir, path, flags = args[0], args[1], args[2]
			if len(args) > 3 {
				mode = args[3]
			}
		} else {
			if len(args) < 2 {
				return fmt.Errorf("open: %d args", len(args))
			}
			dir, path, flags = "", args[0], args[1]
			if len(args) > 2 {
				mode = args[2]
			}
		}
		ps, trunc, err := unquote(path)
		if err != nil {
			return err
		}
		if trunc {
			return fmt.Errorf("path truncated by strace")
		}
		if strings.HasPrefix(ps, markPrefix) {
			op.Kind, op.Label = KMarker, strings.TrimPrefix(ps, markPrefix)
			p.t.Ops = append(p.t.Ops, op)
			return nil
		}
		if failed {
			return nil
		}
		full := p.join(dir, ps)
		if retPath != "" {
			full = strings.TrimSuffix(retPath, " (deleted)")
		}
		fd := int(ret)
		p.nextOpen++
		e := &fdEntry{open: p.nextOpen, path: full}
		fl := map[string]bool{}
		for _, f := range strings.Split(flags, "|") {
			fl[f] = true
		}
		e.rdwr = fl["O_RDWR"] && !fl["O_APPEND"]
		rel, in := p.rel(full)
		e.inRoot = in
		p.fds[fd] = e
		if !in {
			return nil
		}
		op.Kind, op.Path, op.Open, op.FD = KOpen, rel, e.open, fd
		op.Creat, op.Trunc, op.Excl, op.Append, op.RDWR = fl["O_CREAT"], fl["O_TRUNC"], fl["O_EXCL"], fl["O_APPEND"], e.rdwr
		if fl["O_TMPFILE"] || fl["O_DIRECTORY|O_TMPFILE"] {
			p.warn("line %d: O_TMPFILE open below the root is not modelled", p.t.Lines)
		}
		if op.Creat && mode != "" {
			if v, err := strconv.ParseUint(mode, 8, 32); err == nil {
				op.Mode = os.FileMode(v)
			}
		}
		p.t.Ops = append(p.t.Ops, op)

	case "close":
		if failed || len(args) < 1 {
			return nil
		}
		fd, _ := fdArg(args[0])
		if e, ok := p.fds[fd]; ok {
			if e.inRoot {
				rel, _ := p.rel(e.path)
				op.Kind, op.Path, op.Open, op.FD = KClose, rel, e.open, fd
				p.t.Ops = append(p.t.Ops, op)
			}
			delete(p.fds, fd)
		}

	case "write", "pwrite64":
		if failed || len(args) < 3 {
			return nil
		}
		e, fd := p.entry(args[0])
		if e == nil || !e.inRoot {
			return nil
		}
		data, trunc, err := unquote(args[1])
		if err != nil {
			return err
		}
		if trunc {
			return fmt.Errorf("%s payload longer than -s %d: trace unusable", name, MaxString)
		}
		if int64(len(data)) < ret {
			return fmt.Errorf("%s payload has %d bytes but %d were written", name, len(data), ret)
		}
		rel, _ := p.rel(e.path)
		op.Kind, op.Path, op.Open, op.FD = KWrite, rel, e.open, fd
		op.Data = []byte(data[:ret])
		if name == "pwrite64" {
			if len(args) < 4 {
				return fmt.Errorf("pwrite64: %d args", len(args))
			}
			op.Offset, err = strconv.ParseInt(args[3], 10, 64)
			if err != nil {
				return fmt.Errorf("pwrite64 offset %q", args[3])
			}
		} else if e.rdwr {
			p.rdwrSeq[e.open] = true
		}
		if ret == 0 {
			return nil
		}
		p.t.Ops = append(p.t.Ops, op)

	case "read", "pread64", "lseek":
		// optional extras: only position bookkeeping
		p.sawSeek = true
		if failed || len(args) < 1 {
			return nil
		}
		e, fd := p.entry(args[0])
		if e == nil || !e.inRoot || name == "pread64" {
			return nil
		}
		rel, _ := p.rel(e.path)
		op.Kind, op.Path, op.Open, op.FD = KSeek, rel, e.open, fd
		if name == "read" {
			op.Length = ret // advance
			op.Offset = -1
		} else {
			op.Offset = ret // absolute
		}
		p.t.Ops = append(p.t.Ops, op)

	case "ftruncate":
		if failed || len(args) < 2 {
			return nil
		}
		e, fd := p.entry(args[0])
		if e == nil || !e.inRoot {
			return nil
		}
		rel, _ := p.rel(e.path)
		op.Kind, op.Path, op.Open, op.FD = KTruncate, rel, e.open, fd
		op.Length, err = strconv.ParseInt(args[1], 10, 64)
		if err != nil {
			return fmt.Errorf("ftruncate length %q", args[1])
		}
		p.t.Ops = append(p.t.Ops, op)

	case "fallocate":
		if failed || len(args) < 4 {
			return nil
		}
		e, fd := p.entry(args[0])
		if e == nil || !e.inRoot {
			return nil
		}
		rel, _ := p.rel(e.path)
		op.Kind, op.Path, op.Open, op.FD = KFallocate, rel, e.open, fd
		if args[1] != "0" {
			op.KeepSize = true
			if strings.Contains(args[1], "PUNCH_HOLE") || strings.Contains(args[1], "ZERO_RANGE") || strings.Contains(args[1], "COLLAPSE") || strings.Contains(args[1], "INSERT") {
				p.warn("line %d: fallocate mode %s is not modelled", p.t.Lines, args[1])
			}
		}
		op.Offset, _ = strconv.ParseInt(args[2], 10, 64)
		op.Length, _ = strconv.ParseInt(args[3], 10, 64)
		p.t.Ops = append(p.t.Ops, op)

	case "fsync", "fdatasync":
		if failed || len(args) < 1 {
			return nil
		}
		e, fd := p.entry(args[0])
		if e == nil || !e.inRoot {
			return nil
		}
		rel, _ := p.rel(e.path)
		op.Kind, op.Path, op.Open, op.FD = KSync, rel, e.open, fd
		p.t.Ops = append(p.t.Ops, op)

	case "rename", "renameat", "renameat2":
		if failed {
			return nil
		}
		var d1, p1, d2, p2 string
		if name == "rename" {
			if len(args) < 2 {
				return fmt.Errorf("rename: %d args", len(args))
			}
			p1, p2 = args[0], args[1]
		} else {
			if len(args) < 4 {
				return fmt.Errorf("%s: %d args", name, len(args))
			}
			d1, p1, d2, p2 = args[0], args[1], args[2], args[3]
			if name == "renameat2" && len(args) > 4 && args[4] != "0" {
				p.warn("line %d: renameat2 flags %s are not modelled", p.t.Lines, args[4])
			}
		}
		s1, t1, err := unquote(p1)
		if err != nil {
			return err
		}
		s2, t2, err := unquote(p2)
		if err != nil {
			return err
		}
		if t1 || t2 {
			return fmt.Errorf("path truncated by strace")
		}
		r1, in1 := p.rel(p.join(d1, s1))
		r2, in2 := p.rel(p.join(d2, s2))
		switch {
		case in1 && in2:
			op.Kind, op.Path, op.Path2 = KRename, r1, r2
		case in1:
			p.warn("line %d: %s renamed out of the root (treated as unlink)", p.t.Lines, r1)
			op.Kind, op.Path = KUnlink, r1
		case in2:
			p.warn("line %d: a file from outside the root was renamed to %s: content unknown, NOT applied", p.t.Lines, r2)
			return nil
		default:
			return nil
		}
		// descriptors keep following the file
		p.t.Ops = append(p.t.Ops, op)

	case "unlink", "unlinkat":
		if failed {
			return nil
		}
		var d, pa, fl string
		if name == "unlink" {
			if len(args) < 1 {
				return fmt.Errorf("unlink: no args")
			}
			pa = args[0]
		} else {
			if len(args) < 3 {
				return fmt.Errorf("unlinkat: %d args", len(args))
			}
			d, pa, fl = args[0], args[1], args[2]
		}
		s, tr, err := unquote(pa)
		if err != nil {
			return err
		}
		if tr {
			return fmt.Errorf("path truncated by strace")
		}
		rel, in := p.rel(p.join(d, s))
		if !in {
			return nil
		}
		op.Kind, op.Path = KUnlink, rel
		if strings.Contains(fl, "AT_REMOVEDIR") {
			op.Kind = KRmdir
		}
		p.t.Ops = append(p.t.Ops, op)

	case "mkdir", "mkdirat":
		if failed {
			return nil
		}
		var d, pa, mode string
		if name == "mkdir" {
			if len(args) < 2 {
				return fmt.Errorf("mkdir: %d args", len(args))
			}
			pa, mode = args[0], args[1]
		} else {
			if len(args) < 3 {
				return fmt.Errorf("mkdirat: %d args", len(args))
			}
			d, pa, mode = args[0], args[1], args[2]
		}
		s, tr, err := unquote(pa)
		if err != nil {
			return err
		}
		if tr {
			return fmt.Errorf("path truncated by strace")
		}
		rel, in := p.rel(p.join(d, s))
		if !in {
			return nil
		}
		op.Kind, op.Path = KMkdir, rel
		if v, err := strconv.ParseUint(mode, 8, 32); err == nil {
			op.Mode = os.FileMode(v)
		}
		p.t.Ops = append(p.t.Ops, op)
	}
	return nil
}

// entry resolves a descriptor argument "5<path>" to its table entry; a descriptor that was not
// opened under tracing gets an implicit entry from the -y annotation (with a warning if it
// points below the root)
func (p *parser) entry(arg string) (*fdEntry, int) {
	fd, ann := fdArg(arg)
	if fd < 0 {
		return nil, fd
	}
	if e, ok := p.fds[fd]; ok {
		return e, fd
	}
	if ann == "" || !strings.HasPrefix(ann, "/") {
		return nil, fd
	}
	ann = strings.TrimSuffix(ann, " (deleted)")
	p.nextOpen++
	e := &fdEntry{open: p.nextOpen, path: ann}
	_, e.inRoot = p.rel(ann)
	p.fds[fd] = e
	if e.inRoot {
		p.warn("line %d: descriptor %d on %s was not opened under tracing; position unknown (assumed 0)", p.t.Lines, fd, ann)
		rel, _ := p.rel(ann)
		p.t.Ops = append(p.t.Ops, Op{Line: p.t.Lines, Kind: KOpen, Syscall: "(implicit)", Path: rel, Open: e.open, FD: fd, Offset: -1})
	}
	return e, fd
}

// fdArg splits "5<\x2f...>" into (5, "/...")
func fdArg(a string) (int, string) {
	a = strings.TrimSpace(a)
	ann := ""
	if i := strings.IndexByte(a, '<'); i >= 0 && strings.HasSuffix(a, ">") {
		ann, _ = unescape(a[i+1 : len(a)-1])
		a = a[:i]
	}
	if a == "AT_FDCWD" {
		return -100, ann
	}
	fd, err := strconv.Atoi(a)
	if err != nil {
		return -1, ann
	}
	return fd, ann
}

// join resolves a path argument against its directory descriptor argument
func (p *parser) join(dirArg, path string) string {
	if strings.HasPrefix(path, "/") {
		return filepath.Clean(path)
	}
	fd, ann := fdArg(dirArg)
	if fd >= 0 {
		if e, ok := p.fds[fd]; ok {
			return filepath.Join(e.path, path)
		}
	}
	if ann != "" {
		return filepath.Join(ann, path)
	}
	return path // unknown base: cannot be below the root
}

// rel maps an absolute path to a root-relative one
func (p *parser) rel(abs string) (string, bool) {
	abs = filepath.Clean(abs)
	for _, r := range p.roots {
		if abs == r {
			return "", true
		}
		if strings.HasPrefix(abs, r+"/") {
			return abs[len(r)+1:], true
		}
	}
	return "", false
}

// splitArgs splits "a, "str", {x, y}, 3<p>) = 0" at top-level commas up to the closing
// parenthesis; returns the arguments and the text after ")"
func splitArgs(s string) (args []string, rest string, err error) {
	depth := 0
	inStr := false
	inAngle := false
	start := 0
	for i := 0; i < len(s); i++ {
		c := s[i]
		if inStr {
			if c == '\\' {
				i++
			} else if c == '"' {
				inStr = false
			}
			continue
		}
		if inAngle {
			// -y annotation; with -xx its bytes are hex escaped, so '>' ends it
			if c == '\\' {
				i++
			} else if c == '>' {
				inAngle = false
			}
			continue
		}
		switch c {
		case '"':
			inStr = true
		case '<':
			// annotation only directly after a descriptor number or AT_FDCWD
			if i > 0 && (isDigit(s[i-1]) || s[i-1] == 'D') {
				inAngle = true
			}
		case '(', '{', '[':
			depth++
		case '}', ']':
			depth--
		case ')':
			if depth == 0 {
				a := strings.TrimSpace(s[start:i])
				if a != "" || len(args) > 0 {
					args = append(args, a)
				}
				return args, s[i+1:], nil
			}
			depth--
		case ',':
			if depth == 0 {
				args = append(args, strings.TrimSpace(s[start:i]))
				start = i + 1
			}
		}
	}
	return nil, "", fmt.Errorf("unterminated argument list in %q", clip(s))
}

func isDigit(c byte) bool { return c >= '0' && c <= '9' }

// unquote decodes a C-style quoted strace string; truncated reports a trailing "..."
func unquote(a string) (val string, truncated bool, err error) {
	a = strings.TrimSpace(a)
	if a == "NULL" {
		return "", false, nil
	}
	if strings.HasSuffix(a, "...") {
		truncated = true
		a = strings.TrimSuffix(a, "...")
	}
	if len(a) < 2 || a[0] != '"' || a[len(a)-1] != '"' {
		return "", false, fmt.Errorf("not a quoted string: %q", clip(a))
	}
	val, err = unescape(a[1 : len(a)-1])
	return val, truncated, err
}

// unescape decodes \xHH, octal and the usual C escapes
func unescape(s string) (string, error) {
	if strings.IndexByte(s, '\\') < 0 {
		return s, nil
	}
	out := make([]byte, 0, len(s)/4+8)
	for i := 0; i < len(s); i++ {
		c := s[i]
		if c != '\\' {
			out = append(out, c)
			continue
		}
		i++
		if i >= len(s) {
			return "", fmt.Errorf("dangling backslash")
		}
		switch s[i] {
		case 'x':
			if i+2 >= len(s) {
				return "", fmt.Errorf("short \\x escape")
			}
			h, ok1 := unhex(s[i+1])
			l, ok2 := unhex(s[i+2])
			if !ok1 || !ok2 {
				return "", fmt.Errorf("bad \\x escape")
			}
			out = append(out, h<<4|l)
			i += 2
		case 'n':
			out = append(out, '\n')
		case 't':
			out = append(out, '\t')
		case 'r':
			out = append(out, '\r')
		case 'v':
			out = append(out, '\v')
		case 'f':
			out = append(out, '\f')
		case 'a':
			out = append(out, 7)
		case 'b':
			out = append(out, 8)
		case 'e':
			out = append(out, 27)
		case '"', '\\', '\'', '>', '<':
			out = append(out, s[i])
		default:
			if s[i] >= '0' && s[i] <= '7' {
				v := 0
				n := 0
				for n < 3 && i < len(s) && s[i] >= '0' && s[i] <= '7' {
					v = v*8 + int(s[i]-'0')
					i++
					n++
				}
				i--
				out = append(out, byte(v))
			} else {
				return "", fmt.Errorf("unknown escape \\%c", s[i])
			}
		}
	}
	return string(out), nil
}

func unhex(c byte) (byte, bool) {
	switch {
	case c >= '0' && c <= '9':
		return c - '0', true
	case c >= 'a' && c <= 'f':
		return c - 'a' + 10, true
	case c >= 'A' && c <= 'F':
		return c - 'A' + 10, true
	}
	return 0, false
}
