package fstrace

import (
	"fmt"
	"io/ioutil"
	"os"
	"path/filepath"
	"strings"
	"testing"
)

func hx(s string) string {
	var b strings.Builder
	for i := 0; i < len(s); i++ {
		fmt.Fprintf(&b, "\\x%02x", s[i])
	}
	return b.String()
}

// a log in the format strace 6.1 produces with -f -y -xx -o
func sampleLog(root string) string {
	cwd := "AT_FDCWD<" + hx("/somewhere") + ">"
	f := func(n string) string { return hx(root + "/" + n) }
	l := []string{
		`7051  openat(` + cwd + `, "` + hx("/sys/kernel/mm/x") + `", O_RDONLY) = 3<` + hx("/sys/kernel/mm/x") + `>`,
		`7051  close(3<` + hx("/sys/kernel/mm/x") + `>) = 0`,
		`7051  openat(` + cwd + `, "` + hx(markPrefix+"begin") + `", O_RDONLY|O_CLOEXEC) = -1 ENOTDIR (Not a directory)`,
		`7051  openat(` + cwd + `, "` + f("a b,c>.txt") + `", O_WRONLY|O_CREAT|O_TRUNC|O_CLOEXEC, 0600) = 5<` + f("a b,c>.txt") + `>`,
		`7052  write(2</dev/pts/0>, "` + hx("noise") + `", 5) = 5`,
		`7051  write(5<` + f("a b,c>.txt") + `>, "` + hx("hello \"w\"\n\x00\xff") + `", 12 <unfinished ...>`,
		`7052  --- SIGURG {si_signo=SIGURG, si_code=SI_TKILL, si_pid=7051, si_uid=0} ---`,
		`7051  <... write resumed>) = 12`,
		`7051  close(5<` + f("a b,c>.txt") + `>) = 0`,
		`7051  openat(` + cwd + `, "` + f("a b,c>.txt") + `", O_RDWR|O_APPEND|O_CLOEXEC) = 5<` + f("a b,c>.txt") + `>`,
		`7051  write(5<` + f("a b,c>.txt") + `>, "` + hx("xyz") + `", 3) = 3`,
		`7051  ftruncate(5<` + f("a b,c>.txt") + `>, 5) = 0`,
		`7051  fsync(5<` + f("a b,c>.txt") + `>) = 0`,
		`7051  renameat(` + cwd + `, "` + f("a b,c>.txt") + `", ` + cwd + `, "` + f("b.txt") + `") = 0`,
		`7051  write(5<` + f("b.txt") + `>, "` + hx("XYZ") + `", 3) = 2`,
		`7051  pwrite64(5<` + f("b.txt") + `>, "` + hx("Q") + `", 1, 9) = 1`,
		`7051  close(5<` + f("b.txt") + `>) = 0`,
		`7051  mkdirat(` + cwd + `, "` + f("sub") + `", 0700) = 0`,
		`7051  unlinkat(` + cwd + `, "` + f("sub") + `", 0) = -1 EISDIR (Is a directory)`,
		`7051  unlinkat(` + cwd + `, "` + f("sub") + `", AT_REMOVEDIR) = 0`,
		`7051  unlinkat(` + cwd + `, "` + f("old.txt") + `", 0) = 0`,
		`7051  openat(` + cwd + `, "` + hx(markPrefix+"end") + `", O_RDONLY|O_CLOEXEC) = -1 ENOTDIR (Not a directory)`,
		`7052  +++ exited with 0 +++`,
		`7051  +++ exited with 0 +++`,
	}
	return strings.Join(l, "\n") + "\n"
}

func TestParseAndReplay(t *testing.T) {
	root, err := ioutil.TempDir("", "fstrace-test-")
	if err != nil {
		t.Fatal(err)
	}
	defer os.RemoveAll(root)
	root, _ = filepath.EvalSymlinks(root)
	pre := filepath.Join(root, "pre")
	os.MkdirAll(pre, 0700)
	ioutil.WriteFile(filepath.Join(pre, "old.txt"), []byte("old"), 0600)
	st, err := Snapshot(pre)
	if err != nil {
		t.Fatal(err)
	}
	tr, err := Parse(strings.NewReader(sampleLog(pre)), pre)
	if err != nil {
		t.Fatal(err)
	}
	if len(tr.Warnings) != 0 {
		t.Fatalf("warnings: %v", tr.Warnings)
	}
	before, mid, after, ok := tr.Split("begin", "end")
	if !ok || len(before) != 0 || len(after) != 0 {
		t.Fatalf("split: %v %d %d", ok, len(before), len(after))
	}
	want := []string{
		"open[creat,trunc] a b,c>.txt", "write a b,c>.txt +12", "close a b,c>.txt",
		"open[append] a b,c>.txt", "write a b,c>.txt +3", "ftruncate a b,c>.txt 5", "sync a b,c>.txt",
		"rename a b,c>.txt -> b.txt", "write a b,c>.txt +2", "pwrite a b,c>.txt @9 +1", "close a b,c>.txt",
		"mkdir sub", "rmdir sub", "unlink old.txt",
	}
	if len(mid) != len(want) {
		for _, o := range mid {
			t.Log(o.String())
		}
		t.Fatalf("got %d ops, want %d", len(mid), len(want))
	}
	for i, o := range mid {
		if o.String() != want[i] {
			t.Errorf("op %d: %q want %q", i, o.String(), want[i])
		}
	}
	if string(mid[1].Data) != "hello \"w\"\n\x00\xff" {
		t.Errorf("payload %q", mid[1].Data)
	}
	fin := Replay(st, mid)
	if len(fin.Notes) != 0 {
		t.Fatalf("notes: %v", fin.Notes)
	}
	b, ok := fin.Read("b.txt")
	// "hello" (truncated to 5) + append "XY" + pwrite Q at 9 with zero fill
	if !ok || string(b) != "helloXY\x00\x00Q" {
		t.Fatalf("b.txt = %q %v", b, ok)
	}
	if _, ok := fin.Read("old.txt"); ok {
		t.Fatal("old.txt still there")
	}
	// crash states
	n, cuts := 0, 0
	var labels []string
	Enumerate(st, mid, StdCuts, func(c Crash) bool {
		n++
		if c.Cut >= 0 {
			cuts++
		}
		labels = append(labels, c.Label())
		return true
	})
	// initial + 10 mutating ops (2 opens with creat/trunc? only the first; writes 4; ftruncate; rename; mkdir; rmdir; unlink)
	if cuts != 4+3+2+1 {
		t.Errorf("cuts=%d labels=%v", cuts, labels)
	}
	if n != 1+10+cuts {
		t.Errorf("states=%d labels=%v", n, labels)
	}
	// materialise: after open+full write, third op cut
	d := filepath.Join(root, "m1")
	if err := Materialise(st, mid, 1, 5, d); err != nil {
		t.Fatal(err)
	}
	got, _ := ioutil.ReadFile(filepath.Join(d, "a b,c>.txt"))
	if string(got) != "hello" {
		t.Fatalf("cut state %q", got)
	}
	if x, _ := ioutil.ReadFile(filepath.Join(d, "old.txt")); string(x) != "old" {
		t.Fatalf("old.txt %q", x)
	}
	d2 := filepath.Join(root, "m2")
	if err := Materialise(st, mid, len(mid), -1, d2); err != nil {
		t.Fatal(err)
	}
	if diff := fin.DiffDir(d2); diff != "" {
		t.Fatal(diff)
	}
	if err := Materialise(st, mid, 0, 3, d2); err == nil {
		t.Fatal("expected error: non-empty dir / not a write")
	}
}

func TestTruncatedPayloadIsAnError(t *testing.T) {
	log := `1 openat(AT_FDCWD</x>, "/r/f", O_WRONLY|O_CREAT, 0600) = 3</r/f>` + "\n" + `1 write(3</r/f>, "\x61\x62"..., 100) = 100` + "\n"
	if _, err := Parse(strings.NewReader(log), "/r"); err == nil {
		t.Fatal("expected an error for a truncated payload")
	}
}
