// Package refsecp is a deliberately naive, textbook implementation of secp256k1 over
// math/big (affine coordinates, double-and-add). It shares no code with the
// implementation under test and is used as the reference oracle.
package refsecp

import (
	"crypto/sha256"
	"errors"
	"math/big"
)

var (
	// P is the field prime
	P, _ = new(big.Int).SetString("FFFFFFFFFFFFFFFFFFFFFFFFFFFFFFFFFFFFFFFFFFFFFFFFFFFFFFFEFFFFFC2F", 16)
	// N is the group order
	N, _ = new(big.Int).SetString("FFFFFFFFFFFFFFFFFFFFFFFFFFFFFFFEBAAEDCE6AF48A03BBFD25E8CD0364141", 16)
	// Gx, Gy is the generator
	Gx, _ = new(big.Int).SetString("79BE667EF9DCBBAC55A06295CE870B07029BFCDB2DCE28D959F2815B16F81798", 16)
	Gy, _ = new(big.Int).SetString("483ADA7726A3C4655DA4FBFC0E1108A8FD17B448A68554199C47D08FFB10D4B8", 16)
	// HalfN is floor(N/2)
	HalfN = new(big.Int).Rsh(N, 1)

	zero  = big.NewInt(0)
	one   = big.NewInt(1)
	two   = big.NewInt(2)
	three = big.NewInt(3)
	seven = big.NewInt(7)
)

// Point is an affine point; Inf marks the point at infinity
type Point struct {
	X, Y *big.Int
	Inf  bool
}

// G returns the generator
func G() Point { return Point{new(big.Int).Set(Gx), new(big.Int).Set(Gy), false} }

func mod(a, m *big.Int) *big.Int {
	r := new(big.Int).Mod(a, m)
	return r
}

// OnCurve reports y^2 = x^3 + 7 (mod p), with 0 <= x,y < p
func OnCurve(x, y *big.Int) bool {
	if x.Sign() < 0 || y.Sign() < 0 || x.Cmp(P) >= 0 || y.Cmp(P) >= 0 {
		return false
	}
	l := mod(new(big.Int).Mul(y, y), P)
	r := new(big.Int).Mul(x, x)
	r.Mul(r, x)
	r.Add(r, seven)
	r = mod(r, P)
	return l.Cmp(r) == 0
}

// Add is the group law
func Add(a, b Point) Point {
	if a.Inf {
		return b
	}
	if b.Inf {
		return a
	}
	if a.X.Cmp(b.X) == 0 {
		if mod(new(big.Int).Add(a.Y, b.Y), P).Sign() == 0 {
			return Point{Inf: true}
		}
		return Double(a)
	}
	// lambda = (by-ay)/(bx-ax)
	num := mod(new(big.Int).Sub(b.Y, a.Y), P)
	den := mod(new(big.Int).Sub(b.X, a.X), P)
	l := mod(new(big.Int).Mul(num, new(big.Int).ModInverse(den, P)), P)
	x := new(big.Int).Mul(l, l)
	x.Sub(x, a.X)
	x.Sub(x, b.X)
	x = mod(x, P)
	y := new(big.Int).Sub(a.X, x)
	y.Mul(y, l)
	y.Sub(y, a.Y)
	y = mod(y, P)
	return Point{x, y, false}
}

// Double doubles a point
func Double(a Point) Point {
	if a.Inf || a.Y.Sign() == 0 {
		return Point{Inf: true}
	}
	num := new(big.Int).Mul(a.X, a.X)
	num.Mul(num, three)
	num = mod(num, P)
	den := mod(new(big.Int).Mul(two, a.Y), P)
	l := mod(new(big.Int).Mul(num, new(big.Int).ModInverse(den, P)), P)
	x := new(big.Int).Mul(l, l)
	x.Sub(x, new(big.Int).Mul(two, a.X))
	x = mod(x, P)
	y := new(big.Int).Sub(a.X, x)
	y.Mul(y, l)
	y.Sub(y, a.Y)
	y = mod(y, P)
	return Point{x, y, false}
}

// Neg negates a point
func Neg(a Point) Point {
	if a.Inf {
		return a
	}
	return Point{new(big.Int).Set(a.X), mod(new(big.Int).Neg(a.Y), P), false}
}

// Mul is double-and-add scalar multiplication (k any non-negative integer)
func Mul(k *big.Int, p Point) Point {
	r := Point{Inf: true}
	q := p
	for i := 0; i < k.BitLen(); i++ {
		if k.Bit(i) == 1 {
			r = Add(r, q)
		}
		q = Double(q)
	}
	return r
}

// ValidScalar reports 1 <= k < n
func ValidScalar(k *big.Int) bool {
	return k.Sign() > 0 && k.Cmp(N) < 0
}

// Compress serialises to the 33-byte SEC1 compressed form
func Compress(p Point) []byte {
	out := make([]byte, 33)
	if p.Inf {
		return out
	}
	out[0] = 2 + byte(p.Y.Bit(0))
	xb := p.X.Bytes()
	copy(out[33-len(xb):], xb)
	return out
}

// sqrtModP returns a square root of a mod p (p = 3 mod 4) or nil
func sqrtModP(a *big.Int) *big.Int {
	e := new(big.Int).Add(P, one)
	e.Rsh(e, 2)
	r := new(big.Int).Exp(a, e, P)
	if mod(new(big.Int).Mul(r, r), P).Cmp(mod(a, P)) != 0 {
		return nil
	}
	return r
}

// LiftX returns the point with the given x and y parity, if x < p and on the curve
func LiftX(x *big.Int, odd bool) (Point, bool) {
	if x.Sign() < 0 || x.Cmp(P) >= 0 {
		return Point{}, false
	}
	r := new(big.Int).Mul(x, x)
	r.Mul(r, x)
	r.Add(r, seven)
	r = mod(r, P)
	y := sqrtModP(r)
	if y == nil {
		return Point{}, false
	}
	if (y.Bit(0) == 1) != odd {
		y = mod(new(big.Int).Neg(y), P)
	}
	return Point{new(big.Int).Set(x), y, false}, true
}

// Decompress parses a 33-byte compressed public key with all range checks
func Decompress(b []byte) (Point, error) {
	if len(b) != 33 {
		return Point{}, errors.New("length")
	}
	if b[0] != 2 && b[0] != 3 {
		return Point{}, errors.New("prefix")
	}
	x := new(big.Int).SetBytes(b[1:])
	p, ok := LiftX(x, b[0] == 3)
	if !ok {
		return Point{}, errors.New("not on curve or x>=p")
	}
	return p, nil
}

// PubKey returns k*G compressed, or an error if k is not a valid scalar
func PubKey(seckey []byte) ([]byte, error) {
	if len(seckey) != 32 {
		return nil, errors.New("length")
	}
	k := new(big.Int).SetBytes(seckey)
	if !ValidScalar(k) {
		return nil, errors.New("scalar out of range")
	}
	return Compress(Mul(k, G())), nil
}

// Sig is an ECDSA signature with recovery id
type Sig struct {
	R, S  *big.Int
	RecID int
}

// ParseSig splits a 65-byte r||s||recid signature
func ParseSig(b []byte) (Sig, error) {
	if len(b) != 65 {
		return Sig{}, errors.New("length")
	}
	return Sig{new(big.Int).SetBytes(b[:32]), new(big.Int).SetBytes(b[32:64]), int(b[64])}, nil
}

// Bytes serialises r||s||recid (r, s must be < 2^256)
func (s Sig) Bytes() []byte {
	out := make([]byte, 65)
	rb, sb := s.R.Bytes(), s.S.Bytes()
	copy(out[32-len(rb):32], rb)
	copy(out[64-len(sb):64], sb)
	out[64] = byte(s.RecID)
	return out
}

// Sign makes an ECDSA signature with the given nonce; the result is normalised to low s
// with the recovery id adjusted. ok=false if the nonce gives r=0 or s=0
func Sign(msg []byte, seckey *big.Int, nonce *big.Int) (Sig, bool) {
	if !ValidScalar(nonce) || !ValidScalar(seckey) {
		return Sig{}, false
	}
	R := Mul(nonce, G())
	r := mod(R.X, N)
	if r.Sign() == 0 {
		return Sig{}, false
	}
	z := new(big.Int).SetBytes(msg)
	s := new(big.Int).Mul(r, seckey)
	s.Add(s, z)
	s.Mul(s, new(big.Int).ModInverse(nonce, N))
	s = mod(s, N)
	if s.Sign() == 0 {
		return Sig{}, false
	}
	recid := int(R.Y.Bit(0))
	if R.X.Cmp(N) >= 0 {
		recid |= 2
	}
	if s.Cmp(HalfN) > 0 {
		s = new(big.Int).Sub(N, s)
		recid ^= 1
	}
	return Sig{r, s, recid}, true
}

// Verify is textbook ECDSA verification (no low-s rule): 1<=r,s<n and x(u1 G + u2 Q) mod n == r
func Verify(msg []byte, r, s *big.Int, q Point) bool {
	if !ValidScalar(r) || !ValidScalar(s) || q.Inf {
		return false
	}
	z := new(big.Int).SetBytes(msg)
	w := new(big.Int).ModInverse(s, N)
	u1 := mod(new(big.Int).Mul(z, w), N)
	u2 := mod(new(big.Int).Mul(r, w), N)
	pt := Add(Mul(u1, G()), Mul(u2, q))
	if pt.Inf {
		return false
	}
	return mod(pt.X, N).Cmp(r) == 0
}

// Recover is SEC1 4.1.6 public key recovery. recid bit0 = parity of R.y, bit1 = r overflowed n
func Recover(msg []byte, r, s *big.Int, recid int) (Point, bool) {
	if !ValidScalar(r) || !ValidScalar(s) || recid < 0 || recid > 3 {
		return Point{}, false
	}
	x := new(big.Int).Set(r)
	if recid&2 != 0 {
		x.Add(x, N)
	}
	R, ok := LiftX(x, recid&1 == 1)
	if !ok {
		return Point{}, false
	}
	z := new(big.Int).SetBytes(msg)
	rinv := new(big.Int).ModInverse(r, N)
	// Q = r^-1 (s R - z G)
	sR := Mul(s, R)
	zG := Mul(mod(z, N), G())
	q := Mul(rinv, Add(sR, Neg(zG)))
	if q.Inf {
		return Point{}, false
	}
	return q, true
}

// ECDH returns SHA256(compressed(k*Q)) as skycoin defines its shared secret
func ECDH(pub []byte, sec []byte) ([]byte, error) {
	q, err := Decompress(pub)
	if err != nil {
		return nil, err
	}
	k := new(big.Int).SetBytes(sec)
	if len(sec) != 32 || !ValidScalar(k) {
		return nil, errors.New("scalar")
	}
	p := Mul(k, q)
	if p.Inf {
		return nil, errors.New("infinity")
	}
	h := sha256.Sum256(Compress(p))
	return h[:], nil
}

// To32 left-pads a big integer to 32 bytes
func To32(x *big.Int) []byte {
	out := make([]byte, 32)
	b := x.Bytes()
	copy(out[32-len(b):], b)
	return out
}
