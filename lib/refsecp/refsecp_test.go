package refsecp

import (
	"bytes"
	"math/big"
	"testing"

	"github.com/skycoin/skycoin/src/cipher"
)

func TestAgainstCipher(t *testing.T) {
	for i := 0; i < 20; i++ {
		pk, sk := cipher.GenerateKeyPair()
		ref, err := PubKey(sk[:])
		if err != nil || !bytes.Equal(ref, pk[:]) {
			t.Fatalf("pubkey mismatch %x %x", ref, pk[:])
		}
		h := cipher.SumSHA256([]byte{byte(i)})
		sig := cipher.MustSignHash(h, sk)
		s, _ := ParseSig(sig[:])
		q, _ := Decompress(pk[:])
		if !Verify(h[:], s.R, s.S, q) {
			t.Fatal("verify")
		}
		rq, ok := Recover(h[:], s.R, s.S, s.RecID)
		if !ok || !bytes.Equal(Compress(rq), pk[:]) {
			t.Fatal("recover")
		}
		rs, ok := Sign(h[:], new(big.Int).SetBytes(sk[:]), big.NewInt(int64(12345+i)))
		if !ok {
			t.Fatal("sign")
		}
		var cs cipher.Sig
		copy(cs[:], rs.Bytes())
		if err := cipher.VerifyPubKeySignedHash(pk, cs, h); err != nil {
			t.Fatal(err)
		}
		pk2, sk2 := cipher.GenerateKeyPair()
		e1, _ := ECDH(pk2[:], sk[:])
		e2, err := cipher.ECDH(pk2, sk)
		if err != nil || !bytes.Equal(e1, e2) {
			t.Fatalf("ecdh %x %x", e1, e2)
		}
		_ = sk2
	}
}
