package apifix

import (
	"fmt"
	"os"
	"path/filepath"
	"regexp"
	"sort"
	"strings"
)

// DocRoute is one endpoint as the documentation (src/api/README.md) describes it
type DocRoute struct {
	Path    string
	Methods map[string][]string // method -> API sets; ["any"] = always enabled; nil = the block names no API sets
	JSONCT  bool                // the block carries "Content-Type: application/json"
	Heading string
}

// SetsKnown reports whether the documentation names the API sets for the method
func (d *DocRoute) SetsKnown(method string) bool { return d.Methods[method] != nil }

var (
	reHeading = regexp.MustCompile(`^#{2,5}\s+(.*)$`)
	reSets    = regexp.MustCompile("^API sets:\\s*(.*)$")
	reURI     = regexp.MustCompile(`^URI:\s*(\S+)`)
	reMethod  = regexp.MustCompile(`^Method:\s*(.*)$`)
	reCT      = regexp.MustCompile(`^Content-Type:\s*application/json`)
)

// ParseDocs reads the regular "API sets:" / "URI:" / "Method:" blocks of the README. An
// "API sets:" line applies to the URI blocks that follow it under the same heading.
func ParseDocs(readme string) ([]*DocRoute, error) {
	b, err := os.ReadFile(readme)
	if err != nil {
		return nil, err
	}
	byPath := map[string]*DocRoute{}
	var order []string
	var heading string
	var sets []string
	inFence := false
	var uri string
	var methods []string
	ct := false
	flush := func() {
		if uri != "" && len(methods) > 0 {
			d := byPath[uri]
			if d == nil {
				d = &DocRoute{Path: uri, Methods: map[string][]string{}, Heading: heading}
				byPath[uri] = d
				order = append(order, uri)
			}
			for _, m := range methods {
				d.Methods[m] = sets
			}
			if ct {
				d.JSONCT = true
			}
		}
		uri, methods, ct = "", nil, false
	}
	for _, line := range strings.Split(string(b), "\n") {
		line = strings.TrimRight(line, " \r\t")
		if strings.HasPrefix(line, "```") {
			if inFence {
				flush()
			}
			inFence = !inFence
			continue
		}
		if !inFence {
			if m := reHeading.FindStringSubmatch(line); m != nil {
				heading = m[1]
				sets = nil
				continue
			}
			if m := reSets.FindStringSubmatch(line); m != nil {
				sets = []string{}
				for _, s := range strings.Split(m[1], ",") {
					s = strings.Trim(strings.TrimSpace(s), "`")
					if s != "" {
						sets = append(sets, s)
					}
				}
				if len(sets) == 0 {
					return nil, fmt.Errorf("README: empty API sets line under %q", heading)
				}
			}
			continue
		}
		if m := reURI.FindStringSubmatch(line); m != nil {
			uri = m[1]
		} else if m := reMethod.FindStringSubmatch(line); m != nil {
			for _, s := range strings.Split(m[1], ",") {
				s = strings.ToUpper(strings.TrimSpace(s))
				if s != "" {
					methods = append(methods, s)
				}
			}
		} else if reCT.MatchString(line) {
			ct = true
		}
	}
	var out []*DocRoute
	for _, p := range order {
		out = append(out, byPath[p])
	}
	if len(out) < 20 {
		return nil, fmt.Errorf("README: only %d route blocks found", len(out))
	}
	return out, nil
}

var reReg = regexp.MustCompile(`(webHandlerV1|webHandlerV2|csrfHandlerV1)\(\s*"([^"]*)"\s*,`)
var reRegRaw = regexp.MustCompile(`webHandler\(\s*apiVersion[12]\s*,\s*"([^"]*)"\s*,`)

// ScanRegistered lists the paths registered in newServerMux by a syntactic scan of http.go
func ScanRegistered(httpGo string) ([]string, error) {
	b, err := os.ReadFile(httpGo)
	if err != nil {
		return nil, err
	}
	src := string(b)
	i := strings.Index(src, "func newServerMux(")
	if i < 0 {
		return nil, fmt.Errorf("newServerMux not found in %s", httpGo)
	}
	src = src[i:]
	if j := strings.Index(src, "\n}\n"); j > 0 {
		src = src[:j]
	}
	seen := map[string]bool{}
	for _, m := range reReg.FindAllStringSubmatch(src, -1) {
		prefix := "/api/v1"
		if m[1] == "webHandlerV2" {
			prefix = "/api/v2"
		}
		seen[prefix+m[2]] = true
	}
	for _, m := range reRegRaw.FindAllStringSubmatch(src, -1) {
		seen[m[1]] = true
	}
	var out []string
	for p := range seen {
		out = append(out, p)
	}
	sort.Strings(out)
	if len(out) < 20 {
		return nil, fmt.Errorf("only %d registrations found in newServerMux", len(out))
	}
	return out, nil
}

// RepoFile joins a path under the skycoin tree under test
func RepoFile(repo string, rel string) string { return filepath.Join(repo, rel) }
