package apifix

import (
	"encoding/hex"
	"encoding/json"
	"fmt"
	"math/rand"
	"net/url"
	"regexp"
	"sort"
	"strings"
	"sync"

	"github.com/skycoin/skycoin/src/cipher"
	"github.com/skycoin/skycoin/src/cipher/bip39"

	"verif/lib/ledger"
)

// WalletPassword is the password of every encrypted wallet of a world, and the one used by
// well-formed encrypt requests
const WalletPassword = "pw"

// F is one documented parameter of an endpoint
type F struct {
	Name string
	Kind string // dictionary
	Req  bool   // part of the minimal valid request
}

// EP is one (path, method) with its documented parameters
type EP struct {
	Path   string
	Method string
	In     string // "query", "form", "json"
	Fields []F
	Wallet string // wallet the minimal request addresses ("" = none)
	Weight int    // relative frequency in the generated workload (0 = 10)
	Undoc  bool   // registered but not in the README
}

// Key is "METHOD path"
func (e *EP) Key() string { return e.Method + " " + e.Path }

func f(name, kind string) F  { return F{name, kind, false} }
func rq(name, kind string) F { return F{name, kind, true} }

var createTxnFields = []F{rq("hours_selection", "hours_selection"), rq("to", "to"), f("change_address", "addr"), f("ignore_unconfirmed", "jbool")}

// Endpoints is the request grammar: parameters as documented in README.md (and, for the two
// undocumented routes, in the handler comments)
var Endpoints = []*EP{
	{Path: "/api/v1/csrf", Method: "GET"},
	{Path: "/api/v1/version", Method: "GET"},
	{Path: "/api/v1/health", Method: "GET"},
	{Path: "/api/v1/balance", Method: "GET", In: "query", Fields: []F{rq("addrs", "addrs")}},
	{Path: "/api/v1/balance", Method: "POST", In: "form", Fields: []F{rq("addrs", "addrs")}},
	{Path: "/api/v1/outputs", Method: "GET", In: "query", Fields: []F{rq("addrs", "addrs"), f("hashes", "hashes")}},
	{Path: "/api/v1/outputs", Method: "POST", In: "form", Fields: []F{f("addrs", "addrs"), rq("hashes", "hashes")}},
	{Path: "/api/v2/address/verify", Method: "POST", In: "json", Fields: []F{rq("address", "addr")}},
	{Path: "/api/v1/wallet", Method: "GET", In: "query", Fields: []F{rq("id", "walletid")}, Wallet: "det-plain.wlt"},
	{Path: "/api/v1/wallet/transactions", Method: "GET", In: "query", Fields: []F{rq("id", "walletid"), f("verbose", "bool")}, Wallet: "det-plain.wlt"},
	{Path: "/api/v1/wallets", Method: "GET"},
	{Path: "/api/v1/wallets/folderName", Method: "GET"},
	{Path: "/api/v1/wallet/newSeed", Method: "GET", In: "query", Fields: []F{f("entropy", "entropy")}},
	{Path: "/api/v2/wallet/seed/verify", Method: "POST", In: "json", Fields: []F{rq("seed", "seed")}},
	{Path: "/api/v1/wallet/create", Method: "POST", In: "form", Weight: 8, Fields: []F{rq("seed", "newseed"), f("seed-passphrase", "text"), rq("type", "wtype"), f("bip44-coin", "uint"),
		f("xpub", "xpub"), rq("label", "text"), f("scan", "smalluint"), f("encrypt", "bool"), f("password", "password"), f("private-keys", "seckeys")}},
	{Path: "/api/v1/wallet/createTemp", Method: "POST", In: "form", Weight: 8, Undoc: true, Fields: []F{rq("seed", "newseed"), rq("type", "wtype"), f("bip44-coin", "uint"),
		f("xpub", "xpub"), rq("label", "text"), f("scan", "smalluint"), f("private-keys", "seckeys")}},
	{Path: "/api/v1/wallet/newAddress", Method: "POST", In: "form", Fields: []F{rq("id", "walletid"), rq("num", "smalluint"), f("password", "password"), f("private-keys", "seckeys")}, Wallet: "det-plain.wlt"},
	{Path: "/api/v1/wallet/scan", Method: "POST", In: "form", Fields: []F{rq("id", "walletid"), f("num", "smalluint"), f("password", "password")}, Wallet: "det-plain.wlt"},
	{Path: "/api/v1/wallet/update", Method: "POST", In: "form", Fields: []F{rq("id", "walletid"), rq("label", "text")}, Wallet: "det-plain.wlt"},
	{Path: "/api/v1/wallet/balance", Method: "GET", In: "query", Fields: []F{rq("id", "walletid")}, Wallet: "det-plain.wlt"},
	{Path: "/api/v1/wallet/transaction", Method: "POST", In: "json", Weight: 30, Fields: append([]F{rq("wallet_id", "walletid"), f("password", "password"), f("addresses", "jaddrs"), f("unspents", "jhashes"), f("unsigned", "jbool")}, createTxnFields...), Wallet: "det-plain.wlt"},
	{Path: "/api/v2/wallet/transaction/sign", Method: "POST", In: "json", Weight: 20, Fields: []F{rq("wallet_id", "walletid"), f("password", "password"), rq("encoded_transaction", "enctxn"), f("sign_indexes", "jindexes")}, Wallet: "det-plain.wlt"},
	{Path: "/api/v1/wallet/unload", Method: "POST", In: "form", Weight: 1, Fields: []F{rq("id", "walletid")}, Wallet: "det-text.wlt"},
	{Path: "/api/v1/wallet/encrypt", Method: "POST", In: "form", Weight: 3, Fields: []F{rq("id", "walletid"), rq("password", "password")}, Wallet: "det-enc.wlt"},
	{Path: "/api/v1/wallet/decrypt", Method: "POST", In: "form", Weight: 3, Fields: []F{rq("id", "walletid"), rq("password", "password")}, Wallet: "bip44-enc.wlt"},
	{Path: "/api/v1/wallet/seed", Method: "POST", In: "form", Fields: []F{rq("id", "walletid"), rq("password", "password")}, Wallet: "det-enc.wlt"},
	{Path: "/api/v2/wallet/recover", Method: "POST", In: "json", Weight: 4, Fields: []F{rq("id", "walletid"), rq("seed", "seed"), f("seed_passphrase", "text"), f("password", "password")}, Wallet: "det-enc3.wlt"},
	{Path: "/api/v2/data", Method: "GET", In: "query", Fields: []F{rq("type", "kvtype"), f("key", "kvkey")}},
	{Path: "/api/v2/data", Method: "POST", In: "json", Fields: []F{rq("type", "kvtype"), rq("key", "kvkey"), rq("val", "text")}},
	{Path: "/api/v2/data", Method: "DELETE", In: "query", Weight: 3, Fields: []F{rq("type", "kvtype"), rq("key", "kvkey")}},
	{Path: "/api/v1/pendingTxs", Method: "GET", In: "query", Fields: []F{f("verbose", "bool")}},
	{Path: "/api/v2/transaction", Method: "POST", In: "json", Weight: 30, Fields: append([]F{rq("addresses", "jaddrs"), f("unspents", "jhashes")}, createTxnFields...)},
	{Path: "/api/v1/transaction", Method: "GET", In: "query", Weight: 20, Fields: []F{rq("txid", "txid"), f("verbose", "bool"), f("encoded", "bool")}},
	{Path: "/api/v1/rawtx", Method: "GET", In: "query", Fields: []F{rq("txid", "txid")}},
	{Path: "/api/v1/injectTransaction", Method: "POST", In: "json", Weight: 20, Fields: []F{rq("rawtx", "enctxn"), rq("no_broadcast", "jbool")}},
	{Path: "/api/v1/transactions", Method: "GET", In: "query", Weight: 20, Fields: []F{f("addrs", "addrs"), f("confirmed", "bool"), f("verbose", "bool")}},
	{Path: "/api/v1/transactions", Method: "POST", In: "form", Fields: []F{f("addrs", "addrs"), f("confirmed", "bool"), f("verbose", "bool")}},
	{Path: "/api/v1/transactions/num", Method: "GET", Undoc: true},
	{Path: "/api/v2/transactions", Method: "GET", In: "query", Weight: 30, Fields: []F{f("addrs", "addrs"), f("confirmed", "bool"), f("verbose", "bool"), f("page", "uint"), f("limit", "smalluint"), f("sort", "sort")}},
	{Path: "/api/v1/resendUnconfirmedTxns", Method: "POST", Weight: 3},
	{Path: "/api/v2/transaction/verify", Method: "POST", In: "json", Weight: 40, Fields: []F{rq("encoded_transaction", "enctxn"), f("unsigned", "jbool")}},
	{Path: "/api/v1/blockchain/metadata", Method: "GET"},
	{Path: "/api/v1/blockchain/progress", Method: "GET"},
	{Path: "/api/v1/block", Method: "GET", In: "query", Weight: 20, Fields: []F{rq("seq", "seq"), f("hash", "blockhash"), f("verbose", "bool")}},
	{Path: "/api/v1/blocks", Method: "GET", In: "query", Weight: 20, Fields: []F{rq("start", "seq"), rq("end", "seq"), f("seqs", "seqs"), f("verbose", "bool")}},
	{Path: "/api/v1/blocks", Method: "POST", In: "form", Fields: []F{f("start", "seq"), f("end", "seq"), rq("seqs", "seqs"), f("verbose", "bool")}},
	{Path: "/api/v1/last_blocks", Method: "GET", In: "query", Fields: []F{rq("num", "smalluint"), f("verbose", "bool")}},
	{Path: "/api/v1/uxout", Method: "GET", In: "query", Weight: 20, Fields: []F{rq("uxid", "hash")}},
	{Path: "/api/v1/address_uxouts", Method: "GET", In: "query", Fields: []F{rq("address", "addr")}},
	{Path: "/api/v1/coinSupply", Method: "GET"},
	{Path: "/api/v1/richlist", Method: "GET", In: "query", Fields: []F{f("n", "int"), f("include-distribution", "bool")}},
	{Path: "/api/v1/addresscount", Method: "GET"},
	{Path: "/api/v1/network/connection", Method: "GET", In: "query", Fields: []F{rq("addr", "ipport")}},
	{Path: "/api/v1/network/connections", Method: "GET", In: "query", Fields: []F{f("states", "states"), f("direction", "direction")}},
	{Path: "/api/v1/network/defaultConnections", Method: "GET"},
	{Path: "/api/v1/network/connections/trust", Method: "GET"},
	{Path: "/api/v1/network/connections/exchange", Method: "GET"},
	{Path: "/api/v1/network/connection/disconnect", Method: "POST", In: "form", Fields: []F{rq("id", "smalluint")}},
}

// FindEP returns the grammar entry for (method, path)
func FindEP(method, path string) *EP {
	for _, e := range Endpoints {
		if e.Method == method && e.Path == path {
			return e
		}
	}
	return nil
}

// EPsForPath lists the grammar entries of a path
func EPsForPath(path string) []*EP {
	var out []*EP
	for _, e := range Endpoints {
		if e.Path == path {
			out = append(out, e)
		}
	}
	return out
}

// Gen produces requests for one world
type Gen struct {
	W      *World
	Rng    *rand.Rand
	MaxExp int // cap for decimal exponents (0 = 5000)
	// AllowSlow lets generated requests encrypt plain wallets. Encrypting a wallet that was created
	// unencrypted uses the default scrypt parameters (N=2^20: ~1 GiB and seconds per call, under the
	// wallet service lock), and every later password operation on that wallet costs the same.
	AllowSlow bool

	addrs     []string // addresses with history
	spendAddr string   // an unlocked harness address holding an output no pooled transaction spends
	uxLive    []string
	uxSpent   []string
	txids     []string
	blockHash []string
	head      uint64
	counter   int

	mu      sync.Mutex
	dynTxns []string // encoded transactions harvested from responses
	dynIDs  []string // wallet ids harvested from responses
}

// NewGen prepares the dictionaries of a world
func NewGen(w *World, rng *rand.Rand) *Gen {
	g := &Gen{W: w, Rng: rng, MaxExp: 5000}
	seen := map[string]bool{}
	add := func(a cipher.Address) {
		if s := a.String(); !seen[s] {
			seen[s] = true
			g.addrs = append(g.addrs, s)
		}
	}
	for _, k := range w.Chain.Keys {
		add(k.Addr)
	}
	add(w.Chain.Genesis.Addr)
	for _, a := range w.walletAddrs() {
		add(a)
	}
	ids := func(m map[cipher.SHA256]bool) []string {
		var out []string
		for h := range m {
			out = append(out, h.Hex())
		}
		sort.Strings(out)
		return out
	}
	live, spent := map[cipher.SHA256]bool{}, map[cipher.SHA256]bool{}
	for id := range w.Model.Utxo {
		live[id] = true
	}
	for id := range w.Model.SpentBy {
		spent[id] = true
	}
	g.uxLive, g.uxSpent = ids(live), ids(spent)
	for _, h := range w.Model.TxOrder {
		g.txids = append(g.txids, h.Hex())
	}
	g.txids = append(g.txids, w.PoolTx...)
	for _, b := range w.Model.Blocks {
		g.blockHash = append(g.blockHash, ledger.HeaderHash(b.Head).Hex())
	}
	g.head = w.Model.Head().Head.BkSeq
	if sp := w.spendable(); len(sp) > 0 {
		g.spendAddr = sp[0].Body.Address.String()
	} else {
		g.spendAddr = w.Chain.Keys[0].Addr.String()
	}
	return g
}

var reEnc = regexp.MustCompile(`"encoded_transaction":\s*"([0-9a-f]{100,})"`)
var reFile = regexp.MustCompile(`"filename":\s*"([^"]{1,80})"`)

// Harvest feeds values of a successful response back into the dictionaries
func (g *Gen) Harvest(body []byte) {
	g.mu.Lock()
	defer g.mu.Unlock()
	for _, m := range reEnc.FindAllSubmatch(body, 4) {
		if len(g.dynTxns) < 200 {
			g.dynTxns = append(g.dynTxns, string(m[1]))
		}
	}
	for _, m := range reFile.FindAllSubmatch(body, 4) {
		if len(g.dynIDs) < 50 {
			g.dynIDs = append(g.dynIDs, string(m[1]))
		}
	}
}

func (g *Gen) pick(xs []string) string {
	if len(xs) == 0 {
		return ""
	}
	return xs[g.Rng.Intn(len(xs))]
}

func (g *Gen) wallet(id string) *WalletInfo {
	for i := range g.W.Wallets {
		if g.W.Wallets[i].ID == id {
			return &g.W.Wallets[i]
		}
	}
	return nil
}

func (g *Gen) freshMnemonic() string {
	g.counter++
	b := make([]byte, 16)
	g.Rng.Read(b)
	m, err := bip39.NewMnemonic(b)
	if err != nil {
		panic(err)
	}
	return m
}

func randHex(rng *rand.Rand, n int) string {
	b := make([]byte, n)
	rng.Read(b)
	return hex.EncodeToString(b)
}

func (g *Gen) unknownAddr() string {
	p, _ := cipher.MustGenerateDeterministicKeyPair([]byte(randHex(g.Rng, 8)))
	return cipher.AddressFromPubKey(p).String()
}

// valid returns a well-formed typical value of a kind (w = wallet context, may be nil)
func (g *Gen) valid(kind string, w *WalletInfo) interface{} {
	switch kind {
	case "addr":
		return g.pick(g.addrs)
	case "addrs":
		n := 1 + g.Rng.Intn(3)
		var xs []string
		for i := 0; i < n; i++ {
			xs = append(xs, g.pick(g.addrs))
		}
		return strings.Join(xs, ",")
	case "jaddrs":
		return []interface{}{g.spendAddr}
	case "hash":
		if g.Rng.Intn(3) == 0 && len(g.uxSpent) > 0 {
			return g.pick(g.uxSpent)
		}
		return g.pick(g.uxLive)
	case "hashes":
		return g.pick(g.uxLive) + "," + g.pick(g.uxLive)
	case "jhashes":
		return []interface{}{g.pick(g.uxLive)}
	case "txid":
		return g.pick(g.txids)
	case "blockhash":
		return g.pick(g.blockHash)
	case "seq":
		return fmt.Sprint(g.Rng.Intn(int(g.head) + 1))
	case "seqs":
		return fmt.Sprintf("%d,%d", g.Rng.Intn(int(g.head)+1), g.Rng.Intn(int(g.head)+1))
	case "uint", "smalluint", "int":
		return fmt.Sprint(1 + g.Rng.Intn(5))
	case "entropy":
		return []string{"128", "256"}[g.Rng.Intn(2)]
	case "bool":
		return []string{"true", "false", "1", "0"}[g.Rng.Intn(4)]
	case "jbool":
		return g.Rng.Intn(2) == 0
	case "walletid":
		if w != nil {
			return w.ID
		}
		return g.W.Wallets[g.Rng.Intn(len(g.W.Wallets))].ID
	case "password":
		return WalletPassword
	case "text":
		return "label " + randHex(g.Rng, 3)
	case "seed":
		if w != nil && w.Seed != "" {
			return w.Seed
		}
		return g.freshMnemonic()
	case "newseed":
		return g.freshMnemonic()
	case "wtype":
		return "deterministic"
	case "xpub":
		for _, wi := range g.W.Wallets {
			if wi.XPub != "" {
				return wi.XPub
			}
		}
		return ""
	case "seckeys":
		return g.pick(g.W.UnusedSK)
	case "decimal":
		return []string{"1", "0.5", "2.001", "10"}[g.Rng.Intn(4)]
	case "share":
		return []string{"0.5", "0", "1", "0.25"}[g.Rng.Intn(4)]
	case "hours":
		return fmt.Sprint(g.Rng.Intn(3))
	case "enctxn":
		return g.encoded()
	case "jindexes":
		return []interface{}{0}
	case "kvtype":
		return []string{"txid", "client"}[g.Rng.Intn(2)]
	case "kvkey":
		return []string{"k2", "theme", "uni", "newkey"}[g.Rng.Intn(4)]
	case "sort":
		return []string{"asc", "desc"}[g.Rng.Intn(2)]
	case "ipport":
		return "127.0.0.1:6000"
	case "states":
		return []string{"pending", "connected", "introduced", "connected,introduced"}[g.Rng.Intn(4)]
	case "direction":
		return []string{"incoming", "outgoing"}[g.Rng.Intn(2)]
	case "hours_selection":
		if g.Rng.Intn(2) == 0 {
			return map[string]interface{}{"type": "auto", "mode": "share", "share_factor": g.valid("share", nil)}
		}
		return map[string]interface{}{"type": "manual"}
	case "to":
		n := 1 + g.Rng.Intn(2)
		var out []interface{}
		for i := 0; i < n; i++ {
			out = append(out, map[string]interface{}{"address": g.pick(g.addrs), "coins": g.valid("decimal", nil), "hours": g.valid("hours", nil)})
		}
		return out
	}
	return "x"
}

func (g *Gen) encoded() string {
	kinds := make([]string, 0, len(g.W.Encoded))
	for k := range g.W.Encoded {
		kinds = append(kinds, k)
	}
	sort.Strings(kinds)
	g.mu.Lock()
	nd := len(g.dynTxns)
	var d string
	if nd > 0 {
		d = g.dynTxns[g.Rng.Intn(nd)]
	}
	g.mu.Unlock()
	if nd > 0 && g.Rng.Intn(4) == 0 {
		return d
	}
	return g.W.Encoded[g.pick(kinds)]
}

var bigNums = []string{"0", "1", "2", "2147483647", "2147483648", "4294967295", "4294967296", "9223372036854775807", "9223372036854775808",
	"18446744073709551615", "18446744073709551616", "-1", "-0", "+1", "1e3", "1.5", "0x10", " 1", "1 ", "", "abc", "0000000000000000000000000000000000000001",
	"99999999999999999999999999999999999999999", "-9223372036854775808", "-9223372036854775809", "٣", "1_000", "NaN", "1844674407370955162", "1844674407370955163"}

var pathTricks = []string{"", "nope.wlt", "../det-plain.wlt", "../../etc/passwd", "/etc/passwd", "a/b.wlt", "./det-plain.wlt", "det-plain.wlt/", "det-plain.wlt\x00.txt", "%2e%2e%2fx.wlt",
	"det-plain.wlt.bak", ".wlt", "..", ".", "DET-PLAIN.WLT", " det-plain.wlt", "det-plain", "wallets/det-plain.wlt", "é世.wlt", "data.db", "../data.db", "con", "x.wlt?y=1", "a\nb.wlt", "a\\b.wlt"}

// Decimals lists decimal strings in the notations the decimal parser accepts, exponents capped
func (g *Gen) decimals() []string {
	e := g.MaxExp
	return []string{"0", "1", "0.001", "0.0001", "0.000001", "0.0000001", "1e3", "1E3", "1e-3", "1e+3", "-1", "-0.001", "", ".", "1.", ".5", "+1", "NaN", "Inf", "-Inf", "1e", "e1", "1e1e1", "1,5",
		"9223372036854.775807", "9223372036854.775808", "18446744073709.551615", "18446744073709.551616", "100000000", "99999999999999999999999999999", "0x1p3", " 1", "1 ",
		fmt.Sprintf("1e%d", e), fmt.Sprintf("1e-%d", e), fmt.Sprintf("9.99e%d", e/2), fmt.Sprintf("0.%s1", strings.Repeat("0", 300)), strings.Repeat("9", 400),
		strings.Repeat("9", 200) + "." + strings.Repeat("9", 200), "1e18", "1e19", "1e12", "1e13", "0e0", "0e" + fmt.Sprint(e), "00000.5", "1.0000000", "1.000000000000000000000"}
}

// any returns a value of the kind that may be valid, boundary or malformed
func (g *Gen) any(kind string, w *WalletInfo) interface{} {
	if g.Rng.Intn(100) < 45 {
		return g.valid(kind, w)
	}
	r := g.Rng
	badHash := func(list []string) string {
		h := g.pick(list)
		if h == "" {
			h = randHex(r, 32)
		}
		switch r.Intn(9) {
		case 0:
			return randHex(r, 32) // unknown
		case 1:
			return h[:len(h)-2] // short
		case 2:
			return h + "00"
		case 3:
			return ""
		case 4:
			return strings.ToUpper(h)
		case 5:
			return "zz" + h[2:]
		case 6:
			return strings.Repeat("0", 64)
		case 7:
			return h[:31]
		default:
			return " " + h
		}
	}
	badAddr := func() string {
		a := g.pick(g.addrs)
		switch r.Intn(11) {
		case 0:
			return g.unknownAddr()
		case 1:
			c := byte('2')
			if a[len(a)-1] == '2' {
				c = '3'
			}
			return a[:len(a)-1] + string(c) // bad checksum
		case 2:
			return ""
		case 3:
			return a[:10]
		case 4:
			return a + a
		case 5:
			return "1A1zP1eP5QGefi2DMPTfTL5SLmv7DivfNa"
		case 6:
			return "0OIl" + a[4:]
		case 7:
			return " " + a + " "
		case 8:
			return strings.Repeat("2", 500)
		case 9:
			return cipher.Address{}.String()
		default:
			return "é世界"
		}
	}
	switch kind {
	case "addr":
		return badAddr()
	case "addrs":
		n := r.Intn(6)
		var xs []string
		for i := 0; i < n; i++ {
			if r.Intn(2) == 0 {
				xs = append(xs, g.pick(g.addrs))
			} else {
				xs = append(xs, badAddr())
			}
		}
		if r.Intn(20) == 0 {
			for i := 0; i < 300; i++ {
				xs = append(xs, g.pick(g.addrs))
			}
		}
		sep := []string{",", ",", ", ", ",,", " ", "\n"}[r.Intn(6)]
		return strings.Join(xs, sep)
	case "jaddrs":
		n := r.Intn(4)
		out := []interface{}{}
		for i := 0; i < n; i++ {
			if r.Intn(2) == 0 {
				out = append(out, g.pick(g.addrs))
			} else {
				out = append(out, badAddr())
			}
		}
		return out
	case "hash":
		if r.Intn(3) == 0 {
			return g.pick(g.uxSpent)
		}
		return badHash(g.uxLive)
	case "hashes":
		n := r.Intn(5)
		var xs []string
		for i := 0; i < n; i++ {
			if r.Intn(2) == 0 {
				xs = append(xs, g.pick(append(g.uxLive, g.uxSpent...)))
			} else {
				xs = append(xs, badHash(g.uxLive))
			}
		}
		return strings.Join(xs, ",")
	case "jhashes":
		n := r.Intn(4)
		out := []interface{}{}
		for i := 0; i < n; i++ {
			switch r.Intn(3) {
			case 0:
				out = append(out, g.pick(g.uxLive))
			case 1:
				out = append(out, g.pick(g.uxSpent))
			default:
				out = append(out, badHash(g.uxLive))
			}
		}
		return out
	case "txid":
		return badHash(g.txids)
	case "blockhash":
		return badHash(g.blockHash)
	case "smalluint":
		// counts whose cost is proportional to the value: small, or not a number at all
		return []string{"0", "1", "2", "3", "5", "12", "20", "-1", "", "abc", "1.5", "+1", " 1", "1e1", "0x10", "٣", "00002", "1,2"}[r.Intn(18)]
	case "seq", "uint", "int", "entropy", "hours":
		if r.Intn(4) == 0 {
			return fmt.Sprint(int(g.head) + r.Intn(3) - 1)
		}
		return bigNums[r.Intn(len(bigNums))]
	case "seqs":
		n := r.Intn(6)
		var xs []string
		for i := 0; i < n; i++ {
			if r.Intn(2) == 0 {
				xs = append(xs, fmt.Sprint(r.Intn(int(g.head)+3)))
			} else {
				xs = append(xs, bigNums[r.Intn(len(bigNums))])
			}
		}
		if r.Intn(20) == 0 {
			for i := 0; i < 2000; i++ {
				xs = append(xs, fmt.Sprint(i%int(g.head+1)))
			}
		}
		return strings.Join(xs, ",")
	case "bool":
		return []string{"true", "false", "1", "0", "t", "f", "TRUE", "True", "yes", "no", "", "2", "null", "-1", "truee"}[r.Intn(15)]
	case "jbool":
		return []interface{}{true, false, "true", 1, 0, nil, "yes", []interface{}{}}[r.Intn(8)]
	case "walletid":
		g.mu.Lock()
		dyn := append([]string(nil), g.dynIDs...)
		g.mu.Unlock()
		if len(dyn) > 0 && r.Intn(3) == 0 {
			return dyn[r.Intn(len(dyn))]
		}
		if r.Intn(3) == 0 {
			return g.W.Wallets[r.Intn(len(g.W.Wallets))].ID
		}
		return pathTricks[r.Intn(len(pathTricks))]
	case "password":
		return []string{"", "wrong", WalletPassword + " ", strings.Repeat("p", 5000), "é世", "pw\x00", WalletPassword}[r.Intn(7)]
	case "text":
		return []string{"", "x", strings.Repeat("L", 10000), "é世界", "a\x00b", "<script>", "%00%ff", "\"quoted\"", "{}"}[r.Intn(9)]
	case "seed", "newseed":
		m := g.freshMnemonic()
		ws := strings.Fields(m)
		switch r.Intn(10) {
		case 0:
			return ""
		case 1:
			return strings.Join(ws[:11], " ") // wrong word count
		case 2:
			ws[0], ws[1] = ws[1], ws[0] // checksum very likely wrong
			return strings.Join(ws, " ")
		case 3:
			return strings.Join(ws, "  ")
		case 4:
			return "not a mnemonic at all"
		case 5:
			return strings.Repeat("abandon ", 5000)
		case 6:
			if len(g.W.Wallets) > 0 {
				return g.W.Wallets[r.Intn(len(g.W.Wallets))].Seed
			}
			return m
		case 7:
			return randHex(r, 32)
		case 8:
			return strings.ToUpper(m)
		default:
			return "é世界 " + m
		}
	case "wtype":
		return []string{"deterministic", "bip44", "xpub", "collection", "", "unknown", "Deterministic", "bip44 "}[r.Intn(8)]
	case "xpub":
		good, _ := g.valid("xpub", nil).(string)
		p := make([]byte, 33)
		switch r.Intn(9) {
		case 0: // x = p (not a field element)
			p[0] = 2
			copy(p[1:], mustHex("fffffffffffffffffffffffffffffffffffffffffffffffffffffffefffffc2f"))
			return XPubWithKey(p)
		case 1: // x = 2^256-1
			p[0] = 3
			for i := 1; i < 33; i++ {
				p[i] = 0xff
			}
			return XPubWithKey(p)
		case 2: // x = p+1... x mod p = 1, which is on the curve
			p[0] = 2
			copy(p[1:], mustHex("fffffffffffffffffffffffffffffffffffffffffffffffffffffffefffffc30"))
			return XPubWithKey(p)
		case 3: // x without a point on the curve (x = 5)
			p[0] = 2
			p[32] = 5
			return XPubWithKey(p)
		case 4: // bad prefix byte
			p[0] = 4
			p[32] = 1
			return XPubWithKey(p)
		case 5: // all zero
			return XPubWithKey(p)
		case 6:
			if len(good) > 10 {
				return good[:len(good)-3]
			}
			return "xpub"
		case 7:
			return "xprv9s21ZrQH143K3QTDL4LXw2F7HEK3wJUD2nW2nRk4stbPy6cq3jPPqjiChkVvvNKmPGJxWUtg6LnF5kejMRNNU3TGtRBeJgk33yuGBxrMPHi"
		default:
			return ""
		}
	case "seckeys":
		switch r.Intn(7) {
		case 0:
			return ""
		case 1:
			return strings.Repeat("0", 64)
		case 2:
			return "fffffffffffffffffffffffffffffffebaaedce6af48a03bbfd25e8cd0364141" // n
		case 3:
			return strings.Repeat("f", 64)
		case 4:
			return g.pick(g.W.UnusedSK) + "," + g.pick(g.W.UnusedSK)
		case 5:
			return randHex(r, 31)
		default:
			return g.pick(g.W.UnusedSK) + ",zz"
		}
	case "decimal", "share":
		d := g.decimals()
		return d[r.Intn(len(d))]
	case "enctxn":
		return g.mutateTxn(g.encoded())
	case "jindexes":
		return []interface{}{[]interface{}{}, []interface{}{0, 0}, []interface{}{-1}, []interface{}{1 << 31}, []interface{}{json.Number("18446744073709551616")}, []interface{}{1.5}, []interface{}{"0"}, nil, "0"}[r.Intn(9)]
	case "kvtype":
		return []string{"txid", "client", "", "unknown", "TXID", "../txid"}[r.Intn(6)]
	case "kvkey":
		return []string{"", "k2", "nokey", strings.Repeat("k", 5000), "é", "a\x00b", "../x"}[r.Intn(7)]
	case "sort":
		return []string{"asc", "desc", "ASC", " desc ", "", "up", "asc,desc"}[r.Intn(7)]
	case "ipport":
		return []string{"127.0.0.1:6000", "", "127.0.0.1", "999.1.1.1:1", "[::1]:6000", "127.0.0.1:99999", "localhost:6000", "127.0.0.1:-1", ":"}[r.Intn(9)]
	case "states":
		return []string{"pending", "bogus", "", "connected,,introduced", "CONNECTED", strings.Repeat("pending,", 500)}[r.Intn(6)]
	case "direction":
		return []string{"incoming", "outgoing", "", "both", "INCOMING"}[r.Intn(5)]
	case "hours_selection":
		switch r.Intn(8) {
		case 0:
			return map[string]interface{}{"type": "auto", "mode": "share", "share_factor": g.any("share", nil)}
		case 1:
			return map[string]interface{}{"type": "auto", "mode": "share"}
		case 2:
			return map[string]interface{}{"type": "auto"}
		case 3:
			return map[string]interface{}{"type": "manual", "share_factor": g.any("share", nil)}
		case 4:
			return map[string]interface{}{"type": ""}
		case 5:
			return map[string]interface{}{"type": "auto", "mode": "share", "share_factor": 0.5}
		case 6:
			return "manual"
		default:
			return map[string]interface{}{}
		}
	case "to":
		n := r.Intn(4)
		out := []interface{}{}
		for i := 0; i < n; i++ {
			e := map[string]interface{}{}
			if r.Intn(8) != 0 {
				e["address"] = g.any("addr", nil)
			}
			if r.Intn(8) != 0 {
				e["coins"] = g.any("decimal", nil)
			}
			if r.Intn(2) == 0 {
				e["hours"] = g.any("hours", nil)
			}
			out = append(out, e)
		}
		if n > 0 && r.Intn(6) == 0 {
			out = append(out, out[0]) // duplicate output
		}
		return out
	}
	return g.valid(kind, w)
}

func mustHex(s string) []byte {
	b, err := hex.DecodeString(s)
	if err != nil {
		panic(err)
	}
	return b
}

// mutateTxn damages an encoded transaction: truncation, extension, byte flips, length fields
func (g *Gen) mutateTxn(h string) string {
	r := g.Rng
	b, err := hex.DecodeString(h)
	if err != nil || len(b) < 40 {
		return h
	}
	switch r.Intn(12) {
	case 0:
		return h
	case 1:
		return hex.EncodeToString(b[:r.Intn(len(b))])
	case 2:
		return h + randHex(r, 1+r.Intn(8))
	case 3:
		for k := 0; k < 1+r.Intn(3); k++ {
			b[r.Intn(len(b))] ^= 1 << uint(r.Intn(8))
		}
	case 4: // length prefix of the transaction
		b[r.Intn(4)] = byte(r.Intn(256))
	case 5: // type byte
		b[4] = byte(r.Intn(256))
	case 6: // signature count (offset 37)
		b[37+r.Intn(4)] = byte(r.Intn(256))
	case 7: // any 4-byte window set to 0xffffffff
		i := r.Intn(len(b) - 4)
		copy(b[i:], []byte{0xff, 0xff, 0xff, 0xff})
	case 8: // any 8-byte window (coins/hours live near the end)
		i := len(b) - 16 + r.Intn(9)
		copy(b[i:], []byte{0xff, 0xff, 0xff, 0xff, 0xff, 0xff, 0xff, 0x7f}[:8])
	case 9:
		return h[:len(h)-1] // odd number of hex digits
	case 10:
		return strings.ToUpper(h)
	default:
		return ""
	}
	return hex.EncodeToString(b)
}

// render turns (endpoint, values) into a request; values in field order
func render(e *EP, names []string, vals []interface{}) *Req {
	q := &Req{Method: e.Method, Target: e.Path}
	switch e.In {
	case "json":
		m := map[string]interface{}{}
		for i, n := range names {
			m[n] = vals[i]
		}
		b, err := json.Marshal(m)
		if err != nil {
			b = []byte("{}")
		}
		q.Headers = append(q.Headers, [2]string{"Content-Type", "application/json"})
		q.Body = string(b)
	case "form", "query":
		var parts []string
		for i, n := range names {
			parts = append(parts, url.QueryEscape(n)+"="+url.QueryEscape(fmt.Sprint(vals[i])))
		}
		s := strings.Join(parts, "&")
		if e.In == "form" {
			q.Headers = append(q.Headers, [2]string{"Content-Type", "application/x-www-form-urlencoded"})
			q.Body = s
		} else if s != "" {
			q.Target += "?" + s
		}
	default:
		if e.Method == "POST" && strings.HasPrefix(e.Path, "/api/v2/") {
			q.Headers = append(q.Headers, [2]string{"Content-Type", "application/json"})
		}
	}
	return q
}

// Minimal builds the minimal valid request of an endpoint: required parameters only, typical
// values, the designated wallet with its password where the wallet is encrypted
func (g *Gen) Minimal(e *EP) *Req {
	var w *WalletInfo
	if e.Wallet != "" {
		w = g.wallet(e.Wallet)
	}
	var names []string
	var vals []interface{}
	for _, fd := range e.Fields {
		need := fd.Req
		if fd.Name == "password" && w != nil && w.Encrypted && e.Path != "/api/v2/wallet/recover" {
			need = true
		}
		if !need {
			continue
		}
		v := g.valid(fd.Kind, w)
		switch {
		case e.Path == "/api/v2/transaction" && fd.Name == "hours_selection", e.Path == "/api/v1/wallet/transaction" && fd.Name == "hours_selection":
			v = map[string]interface{}{"type": "auto", "mode": "share", "share_factor": "0.5"}
		case fd.Name == "to":
			v = []interface{}{map[string]interface{}{"address": g.W.Chain.Keys[5].Addr.String(), "coins": "1"}}
		case fd.Name == "no_broadcast":
			v = true
		case fd.Kind == "enctxn":
			v = g.W.Encoded["valid"]
			if v == "" {
				v = g.W.Encoded["pooled"]
			}
		case fd.Kind == "kvkey":
			v = "k2"
		case fd.Kind == "kvtype":
			v = "txid"
		}
		names = append(names, fd.Name)
		vals = append(vals, v)
	}
	if e.Path == "/api/v2/transaction" {
		// spend from an address whose outputs no pooled transaction uses
		names = append(names, "ignore_unconfirmed")
		vals = append(vals, true)
	}
	return render(e, names, vals)
}

// Generate builds a grammar-aware request: documented parameters with values from the typed
// dictionaries; sometimes parameters are dropped, duplicated or unknown ones added; JSON
// values sometimes get the wrong type
func (g *Gen) Generate(e *EP) *Req {
	r := g.Rng
	var w *WalletInfo
	if e.Wallet != "" || strings.Contains(e.Path, "/wallet") {
		if r.Intn(10) < 7 && len(g.W.Wallets) > 0 {
			w = &g.W.Wallets[r.Intn(len(g.W.Wallets))]
		}
	}
	var names []string
	var vals []interface{}
	wellFormed := r.Intn(4) == 0 // a quarter of the requests are entirely well formed
	for _, fd := range e.Fields {
		if !fd.Req && r.Intn(3) != 0 {
			continue
		}
		if fd.Req && !wellFormed && r.Intn(12) == 0 {
			continue // missing required field
		}
		var v interface{}
		if wellFormed || r.Intn(3) != 0 {
			v = g.valid(fd.Kind, w)
			if fd.Name == "password" && w != nil && !w.Encrypted && r.Intn(4) != 0 && e.Path != "/api/v1/wallet/encrypt" {
				continue
			}
		} else {
			v = g.any(fd.Kind, w)
		}
		if e.In == "json" && !wellFormed && r.Intn(15) == 0 {
			v = wrongType(r, v)
		}
		names = append(names, fd.Name)
		vals = append(vals, v)
		if !wellFormed && r.Intn(40) == 0 { // duplicated parameter
			names = append(names, fd.Name)
			vals = append(vals, g.any(fd.Kind, w))
		}
	}
	if !wellFormed && r.Intn(25) == 0 {
		names = append(names, "unknown_param")
		vals = append(vals, "1")
	}
	if (e.Path == "/api/v1/wallet/create" || e.Path == "/api/v1/wallet/createTemp") && r.Intn(3) != 0 {
		names, vals = g.walletCreateScenario(e, wellFormed)
	}
	if !g.AllowSlow {
		g.guardSlow(e, names, vals)
	}
	q := render(e, names, vals)
	if e.In == "json" && !wellFormed && r.Intn(25) == 0 {
		q.Body = weirdJSON(r, q.Body)
	}
	if !wellFormed && r.Intn(60) == 0 && e.In == "form" {
		q.Headers = [][2]string{{"Content-Type", "multipart/form-data; boundary=xyz"}}
	}
	if r.Intn(50) == 0 {
		q.Headers = append(q.Headers, [2]string{"Accept-Encoding", "gzip"})
	}
	return q
}

// walletCreateScenario builds a coherent wallet-create request: a wallet type together with the
// parameters that type reads (seed / seed passphrase and coin / xpub / private keys), each valid or
// from the hostile dictionary
func (g *Gen) walletCreateScenario(e *EP, wellFormed bool) ([]string, []interface{}) {
	r := g.Rng
	v := func(kind string) interface{} {
		if wellFormed || r.Intn(2) == 0 {
			return g.valid(kind, nil)
		}
		return g.any(kind, nil)
	}
	typ := []string{"deterministic", "bip44", "xpub", "collection"}[r.Intn(4)]
	names := []string{"type", "label"}
	vals := []interface{}{typ, v("text")}
	switch typ {
	case "deterministic":
		names, vals = append(names, "seed"), append(vals, v("newseed"))
	case "bip44":
		names, vals = append(names, "seed"), append(vals, v("newseed"))
		if r.Intn(2) == 0 {
			names, vals = append(names, "seed-passphrase"), append(vals, v("text"))
		}
		if r.Intn(2) == 0 {
			names, vals = append(names, "bip44-coin"), append(vals, v("uint"))
		}
	case "xpub":
		x := g.any("xpub", nil)
		for x == g.valid("xpub", nil) && !wellFormed { // the valid key is already a wallet: prefer the crafted ones
			x = g.any("xpub", nil)
		}
		if wellFormed {
			x = g.valid("xpub", nil)
		}
		names, vals = append(names, "xpub"), append(vals, x)
	case "collection":
		names, vals = append(names, "private-keys"), append(vals, v("seckeys"))
	}
	if r.Intn(3) == 0 {
		names, vals = append(names, "scan"), append(vals, v("smalluint"))
	}
	if e.Path == "/api/v1/wallet/create" && r.Intn(4) == 0 {
		names, vals = append(names, "encrypt", "password"), append(vals, "true", WalletPassword)
	}
	return names, vals
}

// SlowGuardWallet is the wallet that stays encrypted with the cheap scrypt parameters for a whole run
const SlowGuardWallet = "det-enc.wlt"

// guardSlow keeps the workload away from the 1 GiB scrypt path (see AllowSlow): encrypt requests only
// name SlowGuardWallet (already encrypted: the handler refuses) or ids that are not wallets, and
// decrypt/recover requests never carry the right password for SlowGuardWallet
func (g *Gen) guardSlow(e *EP, names []string, vals []interface{}) {
	isWallet := func(id string) bool {
		if g.wallet(id) != nil {
			return true
		}
		g.mu.Lock()
		defer g.mu.Unlock()
		for _, d := range g.dynIDs {
			if d == id {
				return true
			}
		}
		return false
	}
	switch e.Path {
	case "/api/v1/wallet/encrypt":
		for i, n := range names {
			if n == "id" {
				if id, ok := vals[i].(string); ok && id != SlowGuardWallet && isWallet(id) {
					vals[i] = SlowGuardWallet
				}
			}
		}
	case "/api/v1/wallet/decrypt", "/api/v2/wallet/recover":
		hit := false
		for i, n := range names {
			if n == "id" && fmt.Sprint(vals[i]) == SlowGuardWallet {
				hit = true
			}
		}
		if hit {
			for i, n := range names {
				if n == "password" || n == "seed" {
					vals[i] = "not-the-secret"
				}
			}
		}
	}
}

func wrongType(r *rand.Rand, v interface{}) interface{} {
	switch r.Intn(9) {
	case 0:
		return nil
	case 1:
		return 12345
	case 2:
		return -1.5e300
	case 3:
		return true
	case 4:
		return []interface{}{v}
	case 5:
		return map[string]interface{}{"x": v}
	case 6:
		return fmt.Sprint(v)
	case 7:
		return json.Number("1e400")
	default:
		return []interface{}{}
	}
}

func weirdJSON(r *rand.Rand, body string) string {
	switch r.Intn(10) {
	case 0:
		return ""
	case 1:
		return "null"
	case 2:
		return "[]"
	case 3:
		return strings.Repeat("[", 20000) + strings.Repeat("]", 20000)
	case 4:
		return strings.Repeat(`{"a":`, 5000) + "1" + strings.Repeat("}", 5000)
	case 5:
		if len(body) > 2 {
			return body[:len(body)/2]
		}
		return "{"
	case 6:
		return body + body
	case 7:
		return `{"to":[` + strings.Repeat(`{"address":"x","coins":"1"},`, 20000) + `{}]}`
	case 8:
		return "\xff\xfe" + body
	default:
		return `"` + strings.Repeat("a", 100000) + `"`
	}
}

// Mutate derives a request from an earlier (successful) one by string-level damage
func (g *Gen) Mutate(q *Req) *Req {
	r := g.Rng
	m := *q
	m.Headers = append([][2]string(nil), q.Headers...)
	mut := func(s string) string {
		if s == "" {
			return s
		}
		b := []byte(s)
		switch r.Intn(8) {
		case 0:
			b[r.Intn(len(b))] ^= 1 << uint(r.Intn(7))
		case 1:
			i := r.Intn(len(b))
			b = append(b[:i], b[i+1:]...)
		case 2:
			i := r.Intn(len(b))
			b = append(b[:i], append([]byte{b[i]}, b[i:]...)...)
		case 3:
			b = b[:r.Intn(len(b))]
		case 4: // replace a run of digits by a boundary number
			loc := regexp.MustCompile(`[0-9]+`).FindAllIndex(b, -1)
			if len(loc) > 0 {
				l := loc[r.Intn(len(loc))]
				b = append(append(append([]byte{}, b[:l[0]]...), []byte(bigNums[r.Intn(len(bigNums))])...), b[l[1]:]...)
			}
		case 5: // swap two characters
			i, j := r.Intn(len(b)), r.Intn(len(b))
			b[i], b[j] = b[j], b[i]
		case 6: // replace a quoted string / value by a dictionary value
			loc := regexp.MustCompile(`[A-Za-z0-9]{20,}`).FindAllIndex(b, -1)
			if len(loc) > 0 {
				l := loc[r.Intn(len(loc))]
				kinds := []string{"addr", "hash", "txid", "walletid", "decimal"}
				v := fmt.Sprint(g.any(kinds[r.Intn(len(kinds))], nil))
				if q.Body == "" || !strings.HasPrefix(q.Body, "{") {
					v = url.QueryEscape(v)
				} else {
					jb, _ := json.Marshal(v)
					v = strings.Trim(string(jb), `"`)
				}
				b = append(append(append([]byte{}, b[:l[0]]...), []byte(v)...), b[l[1]:]...)
			}
		default:
			i := r.Intn(len(b))
			b = append(b[:i], append([]byte("%00"), b[i:]...)...)
		}
		return string(b)
	}
	if m.Body != "" && r.Intn(4) != 0 {
		m.Body = mut(m.Body)
	} else if i := strings.IndexByte(m.Target, '?'); i >= 0 {
		qs := mut(m.Target[i+1:])
		// keep the request line syntactically valid: no spaces or control bytes
		qs = strings.Map(func(c rune) rune {
			if c <= ' ' || c == 0x7f || c > 0x7e {
				return '+'
			}
			return c
		}, qs)
		m.Target = m.Target[:i+1] + qs
	} else if m.Body != "" {
		m.Body = mut(m.Body)
	}
	return &m
}
