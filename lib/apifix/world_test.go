package apifix

import (
	"os"
	"testing"

	"verif/lib/node"
)

func TestWorld(t *testing.T) {
	w, err := BuildWorld(WorldConfig{Tag: "t", Seed: 1, Blocks: 30, Wallets: true, Pool: true})
	if err != nil {
		t.Fatal(err)
	}
	defer w.Remove()
	t.Logf("blocks=%d txns=%d utxo=%d pool=%d wallets=%d encoded=%d", len(w.Model.Blocks), len(w.Model.TxOrder), len(w.Model.Utxo), len(w.Model.Pool), len(w.Wallets), len(w.Encoded))
	for k := range w.Encoded {
		t.Log("encoded:", k)
	}
	dst := w.Dir + "-copy"
	if err := w.CopyTo(dst); err != nil {
		t.Fatal(err)
	}
	defer os.RemoveAll(dst)
	n, err := node.Start(w.NodeOptions(dst))
	if err != nil {
		t.Fatal(err)
	}
	defer n.Stop()
	for _, p := range []string{"/api/v1/blockchain/metadata", "/api/v1/wallets", "/api/v1/pendingTxs", "/api/v2/data?type=txid"} {
		r := Get(n.APIAddr, p)
		if r.Fail != "" || r.Status != 200 {
			t.Fatalf("%s: %s %d %s", p, r.Fail, r.Status, r.Body)
		}
		b := r.Body
		if len(b) > 300 {
			b = b[:300]
		}
		t.Logf("%s -> %s", p, b)
	}
	docs, err := ParseDocs("/repo/src/api/README.md")
	if err != nil {
		t.Fatal(err)
	}
	regs, err := ScanRegistered("/repo/src/api/http.go")
	if err != nil {
		t.Fatal(err)
	}
	t.Logf("documented routes %d, registered %d", len(docs), len(regs))
	known := map[string]bool{}
	for _, d := range docs {
		known[d.Path] = true
		t.Logf("doc %s %v json=%v", d.Path, d.Methods, d.JSONCT)
	}
	for _, p := range regs {
		if !known[p] {
			t.Logf("registered but undocumented: %s", p)
		}
	}
}
