package apifix

import (
	"math/rand"
	"os"
	"testing"
	"time"

	"verif/lib/node"
)

func TestMinimal(t *testing.T) {
	w, err := BuildWorld(WorldConfig{Tag: "b", Seed: 1, Blocks: 12, Wallets: true, Pool: true})
	if err != nil {
		t.Fatal(err)
	}
	defer w.Remove()
	dst := w.Dir + "-copy"
	w.CopyTo(dst)
	defer os.RemoveAll(dst)
	o := w.NodeOptions(dst)
	o.DisableNetworking = true
	n, err := node.Start(o)
	if err != nil {
		t.Fatal(err)
	}
	defer n.Stop()
	g := NewGen(w, rand.New(rand.NewSource(1)))
	for _, e := range append(append([]*EP{}, Endpoints...), FindEP("POST", "/api/v2/wallet/recover"), FindEP("GET", "/api/v1/wallets")) {
		q := g.Minimal(e)
		r := Do(n.APIAddr, q, 60*time.Second)
		b := string(r.Body)
		if len(b) > 150 {
			b = b[:150]
		}
		if r.Status != 200 || e.Path == "/api/v2/wallet/recover" {
			t.Logf("%s -> %d %s %v\n   req: %s %s", e.Key(), r.Status, r.Fail, b, q.Target, q.Body)
		}
	}
}
