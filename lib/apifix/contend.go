package apifix

// Well-formed requests addressed to a wallet chosen by the caller (cmd/c28's concurrent leg lets a
// few wallets be read and changed by many clients at once).

// WellFormedFor builds a request for endpoint e that passes the handler's parameter checks and
// so reaches the component behind it: the required parameters with typical valid values, each
// optional parameter in a third of the cases. wlt (may be nil: the endpoint's designated wallet)
// is the wallet every wallet parameter names; its Encrypted field says whether a password is
// sent along. Unlike Minimal the encoded transactions, key-value keys and flags vary.
func (g *Gen) WellFormedFor(e *EP, wlt *WalletInfo) *Req {
	r := g.Rng
	w := wlt
	if w == nil && e.Wallet != "" {
		w = g.wallet(e.Wallet)
	}
	if e.Path == "/api/v1/wallet/create" || e.Path == "/api/v1/wallet/createTemp" {
		names, vals := g.walletCreateScenario(e, true)
		return render(e, names, vals)
	}
	var names []string
	var vals []interface{}
	for _, fd := range e.Fields {
		need := fd.Req
		if fd.Name == "password" {
			need = fd.Req || (w != nil && w.Encrypted && e.Path != "/api/v2/wallet/recover")
		} else if !need && fd.Kind != "seckeys" && fd.Kind != "xpub" && fd.Name != "unspents" && fd.Name != "addresses" && fd.Name != "change_address" && fd.Name != "hashes" && fd.Name != "seqs" && fd.Name != "hash" {
			need = r.Intn(3) == 0
		}
		if !need {
			continue
		}
		v := g.valid(fd.Kind, w)
		switch {
		case fd.Name == "hours_selection":
			v = map[string]interface{}{"type": "auto", "mode": "share", "share_factor": "0.5"}
		case fd.Name == "to":
			v = []interface{}{map[string]interface{}{"address": g.W.Chain.Keys[5].Addr.String(), "coins": "1"}}
		case fd.Name == "no_broadcast":
			v = true
		case fd.Name == "unsigned" && e.Path == "/api/v1/wallet/transaction":
			v = r.Intn(2) == 0
		case fd.Name == "num" || fd.Name == "scan":
			v = "1"
		}
		names = append(names, fd.Name)
		vals = append(vals, v)
	}
	if e.Path == "/api/v2/transaction" {
		names = append(names, "ignore_unconfirmed")
		vals = append(vals, true)
	}
	return render(e, names, vals)
}

// ContendedWallets returns the wallets the concurrent leg concentrates on: all and the subset
// that was created encrypted (with the node's configured, cheap crypto type, which a
// decrypt/encrypt cycle keeps: see Gen.AllowSlow for why plain wallets are never encrypted)
func (w *World) ContendedWallets() (all []WalletInfo, createdEncrypted []WalletInfo) {
	for _, id := range []string{"det-plain.wlt", "bip44-plain.wlt", "det-enc3.wlt", "bip44-enc.wlt"} {
		for _, wi := range w.Wallets {
			if wi.ID == id {
				all = append(all, wi)
				if wi.Encrypted {
					createdEncrypted = append(createdEncrypted, wi)
				}
			}
		}
	}
	return
}
