package apifix

// Structure-aware encoded transactions. The byte-level dictionary (World.Encoded, Gen.mutateTxn)
// holds transactions that are valid, unsigned, or damaged at random; a damaged one almost never
// survives decoding and the header checks. The shapes built here are re-encoded consistently by
// the harness's own encoder (lib/ledger: TxnBytes / InnerHash / TxnSize — correct length prefix,
// correct inner hash, exact array counts) from outputs the prepared node really knows (unspent and
// owned by a loaded wallet, unspent and owned by a harness key, spent long ago, never seen), and
// only the RELATION between the arrays is off: fewer or more signatures than inputs (all null,
// all present, mixed), no inputs but signatures, a repeated input, no outputs, repeated outputs.
// Every shape is a transaction a client library with a bug could produce and post.

import (
	"encoding/hex"
	"encoding/json"
	"fmt"
	"math/rand"
	"sort"

	"github.com/skycoin/skycoin/src/cipher"
	"github.com/skycoin/skycoin/src/coin"

	"verif/lib/ledger"
)

// TxnShape is one structure-aware transaction together with what the harness knows about it
type TxnShape struct {
	Source  string `json:"source"`           // who owns the inputs: "wallet", "harness", "harness+wallet", "spent", "unknown", "genesis"
	Wallet  string `json:"wallet,omitempty"` // the wallet owning the wallet inputs ("" = none)
	In      string `json:"in"`               // "0", "1", "2", "dup", "3"
	NIn     int    `json:"n_in"`
	NSigs   int    `json:"n_sigs"`
	SigKind string `json:"sig_kind"` // "none", "null", "full", "first", "last" (which signatures are not null)
	Outs    string `json:"outs"`     // "normal", "none", "dup", "zero-coin"
	Header  string `json:"header"`   // "ok", "bad-inner-hash", "bad-length", "type-1"
	Depth   int    `json:"depth"`    // how many sign-request variations the shape is combined with (see SignRequests)
	Hex     string `json:"hex"`
}

// Class is the array-relation class of the shape (for counters)
func (s *TxnShape) Class() string {
	rel := "sigs=in"
	switch {
	case s.NSigs == 0:
		rel = "sigs=0"
	case s.NSigs < s.NIn:
		rel = "sigs<in"
	case s.NSigs > s.NIn:
		rel = "sigs>in"
	}
	return fmt.Sprintf("in-%s.%s.%s", s.In, rel, s.SigKind)
}

// secKeys maps addresses to secret keys the harness can reconstruct: its own keys, the wallets made
// from a plain seed, the collection wallet's keys
func (w *World) secKeys() map[cipher.Address]cipher.SecKey {
	m := map[cipher.Address]cipher.SecKey{}
	for _, k := range w.Chain.Keys {
		m[k.Addr] = k.Sec
	}
	m[w.Chain.Genesis.Addr] = w.Chain.Genesis.Sec
	owned := map[string]bool{}
	for _, wi := range w.Wallets {
		for _, a := range wi.Addrs {
			owned[a] = true
		}
	}
	add := func(s cipher.SecKey) {
		p, err := cipher.PubKeyFromSecKey(s)
		if err != nil {
			return
		}
		a := cipher.AddressFromPubKey(p)
		if owned[a.String()] {
			m[a] = s
		}
	}
	for _, wi := range w.Wallets {
		if wi.Type == "deterministic" && wi.Seed != "" {
			if _, ks, err := cipher.GenerateDeterministicKeyPairsSeed([]byte(wi.Seed), len(wi.Addrs)); err == nil {
				for _, s := range ks {
					add(s)
				}
			}
		}
	}
	for i := 0; i < 3; i++ {
		_, s := cipher.MustGenerateDeterministicKeyPair([]byte(fmt.Sprintf("collection-%s-%d", w.Opts.ChainTag, i)))
		add(s)
	}
	return m
}

// shapeSigner signs with the owner's key where the harness has it; the many shapes over the same
// inputs and outputs share their signatures
type shapeSigner struct {
	keys map[cipher.Address]cipher.SecKey
	done map[[2]cipher.SHA256]cipher.Sig
}

func (k *shapeSigner) sign(msg cipher.SHA256, owner cipher.Address) (cipher.Sig, bool) {
	sk, ok := k.keys[owner]
	if !ok {
		return cipher.Sig{}, false
	}
	id := [2]cipher.SHA256{msg, cipher.SumSHA256(owner.Bytes())}
	if sig, ok := k.done[id]; ok {
		return sig, true
	}
	sig, err := cipher.SignHash(msg, sk)
	if err != nil {
		return cipher.Sig{}, false
	}
	k.done[id] = sig
	return sig, true
}

func sortUx(xs []coin.UxOut) {
	sort.Slice(xs, func(i, j int) bool {
		a, b := ledger.UxID(xs[i]), ledger.UxID(xs[j])
		return string(a[:]) < string(b[:])
	})
}

// walletUnspent lists the unspent outputs of a wallet's addresses that no pooled transaction spends
func (w *World) walletUnspent(wi *WalletInfo) []coin.UxOut {
	mine := map[string]bool{}
	for _, a := range wi.Addrs {
		mine[a] = true
	}
	var out []coin.UxOut
	for id, ux := range w.Model.Utxo {
		if !w.used[id] && mine[ux.Body.Address.String()] {
			out = append(out, ux)
		}
	}
	sortUx(out)
	return out
}

type inputSet struct {
	source, wallet string
	ux             []coin.UxOut // three outputs (the hash of an unknown one is its made-up body's hash)
}

func unknownUx(tag string, i int, to cipher.Address) coin.UxOut {
	return coin.UxOut{Body: coin.UxBody{SrcTransaction: cipher.SumSHA256([]byte(fmt.Sprintf("no such transaction %s %d", tag, i))), Address: to, Coins: 2e6, Hours: 100}}
}

// inputSets: per wallet its own unspent outputs (topped up with harness outputs where it owns fewer
// than three), harness outputs, a harness output followed by wallet outputs, spent outputs, unknown ones
func (w *World) inputSets() []inputSet {
	var sets []inputSet
	harness := w.spendable()
	fill := func(xs []coin.UxOut) []coin.UxOut {
		xs = append([]coin.UxOut(nil), xs...)
		for i := 0; len(xs) < 3 && i < len(harness); i++ {
			xs = append(xs, harness[len(harness)-1-i])
		}
		for i := 0; len(xs) < 3; i++ {
			xs = append(xs, unknownUx("fill", i, w.Chain.Keys[0].Addr))
		}
		return xs[:3]
	}
	var firstPlain []coin.UxOut
	firstPlainID := ""
	for i := range w.Wallets {
		wi := &w.Wallets[i]
		own := w.walletUnspent(wi)
		if len(own) == 0 {
			continue
		}
		if firstPlain == nil && !wi.Encrypted && wi.Type == "deterministic" {
			firstPlain, firstPlainID = own, wi.ID
		}
		sets = append(sets, inputSet{"wallet", wi.ID, fill(own)})
	}
	if len(harness) > 0 {
		sets = append(sets, inputSet{"harness", "", fill(harness)})
		if firstPlain != nil {
			sets = append(sets, inputSet{"harness+wallet", firstPlainID, fill(append([]coin.UxOut{harness[0]}, firstPlain...))})
		}
	}
	var spent []coin.UxOut
	for id := range w.Model.SpentBy {
		spent = append(spent, w.Model.AllOuts[id])
	}
	sortUx(spent)
	if len(spent) > 0 {
		sets = append(sets, inputSet{"spent", "", fill(spent)})
	}
	if len(harness) == 0 { // height 0: the genesis output (pooled transactions spend it) is all there is
		var g []coin.UxOut
		for _, ux := range w.Model.Utxo {
			g = append(g, ux)
		}
		sortUx(g)
		if len(g) > 0 {
			sets = append(sets, inputSet{"genesis", "", fill(g[:1])})
		}
	}
	sets = append(sets, inputSet{"unknown", "", []coin.UxOut{unknownUx("all", 0, w.Chain.Keys[0].Addr), unknownUx("all", 1, w.Chain.Keys[1].Addr), unknownUx("all", 2, w.Chain.Keys[0].Addr)}})
	if firstPlain != nil {
		sets = append(sets, inputSet{"unknown", firstPlainID, fill([]coin.UxOut{unknownUx("lead", 0, w.Chain.Keys[0].Addr), firstPlain[0]})})
	}
	return sets
}

type arrayShape struct {
	in      string
	idx     []int // positions in the input set
	nSigs   int
	sigKind string
}

// arrayShapes enumerates the relations between the input array and the signature array
func arrayShapes() []arrayShape {
	var out []arrayShape
	ins := []struct {
		name string
		idx  []int
		sigs []int
	}{
		{"0", nil, []int{0, 1, 2}},
		{"1", []int{0}, []int{0, 1, 2}},
		{"2", []int{0, 1}, []int{0, 1, 2, 3, 5}},
		{"dup", []int{0, 0}, []int{0, 1, 2, 3}},
		{"3", []int{0, 1, 2}, []int{0, 1, 2, 3, 4}},
	}
	for _, in := range ins {
		for _, ns := range in.sigs {
			kinds := []string{"none"}
			switch {
			case ns == 1:
				kinds = []string{"null", "full"}
			case ns > 1:
				kinds = []string{"null", "full", "first", "last"}
			}
			for _, k := range kinds {
				out = append(out, arrayShape{in.name, in.idx, ns, k})
			}
		}
	}
	return out
}

// buildShape assembles and encodes one transaction. The header is computed here, not by the node's code.
func (w *World) buildShape(set inputSet, as arrayShape, outs, header string, keys *shapeSigner, rng *rand.Rand) TxnShape {
	var t coin.Transaction
	var uxs []coin.UxOut
	seen := map[cipher.SHA256]bool{}
	var coins, hours uint64
	for _, i := range as.idx {
		ux := set.ux[i]
		id := ledger.UxID(ux)
		t.In = append(t.In, id)
		uxs = append(uxs, ux)
		if !seen[id] {
			seen[id] = true
			coins += ux.Body.Coins
			if h, _ := ledger.Accrued(ux, w.headTime); h.IsUint64() && h.Uint64() < 1<<62 {
				hours += h.Uint64()
			}
		}
	}
	if coins == 0 {
		coins = 2e6
	}
	dest := w.Chain.Keys[5].Addr
	switch outs {
	case "normal":
		if coins >= 2e6 {
			t.Out = append(t.Out, coin.TransactionOutput{Address: dest, Coins: 1e6, Hours: hours / 4},
				coin.TransactionOutput{Address: w.Chain.Keys[6].Addr, Coins: coins - 1e6, Hours: hours / 8})
		} else {
			t.Out = append(t.Out, coin.TransactionOutput{Address: dest, Coins: coins, Hours: hours / 4})
		}
	case "none":
	case "dup":
		o := coin.TransactionOutput{Address: dest, Coins: coins / 2 / 1e6 * 1e6, Hours: hours / 8}
		if o.Coins == 0 {
			o.Coins = 1e6
		}
		t.Out = append(t.Out, o, o)
	case "zero-coin":
		t.Out = append(t.Out, coin.TransactionOutput{Address: dest, Coins: coins, Hours: hours / 4}, coin.TransactionOutput{Address: w.Chain.Keys[6].Addr, Coins: 0, Hours: 1})
	}
	t.InnerHash = ledger.InnerHash(&t)
	present := func(i int) bool {
		switch as.sigKind {
		case "full":
			return true
		case "first":
			return i == 0
		case "last":
			return i == as.nSigs-1
		}
		return false
	}
	t.Sigs = make([]cipher.Sig, as.nSigs)
	for i := range t.Sigs {
		if !present(i) {
			continue
		}
		if i < len(uxs) {
			if sig, ok := keys.sign(ledger.SigMsg(t.InnerHash, t.In[i]), uxs[i].Body.Address); ok {
				t.Sigs[i] = sig
				continue
			}
		}
		rng.Read(t.Sigs[i][:]) // nobody's signature
		t.Sigs[i][64] &= 3
		if t.Sigs[i] == (cipher.Sig{}) {
			t.Sigs[i][0] = 1
		}
	}
	t.Length = uint32(ledger.TxnSize(&t))
	switch header {
	case "bad-inner-hash":
		t.InnerHash[rng.Intn(32)] ^= 0x10
	case "bad-length":
		t.Length += uint32(1 + rng.Intn(3))
	case "type-1":
		t.Type = 1
	}
	return TxnShape{Source: set.source, Wallet: set.wallet, In: as.in, NIn: len(t.In), NSigs: as.nSigs, SigKind: as.sigKind, Outs: outs, Header: header,
		Hex: hex.EncodeToString(ledger.TxnBytes(&t))}
}

// Levels of TxnShapes
const (
	ShapesLean  = 0 // every array relation on every input set, ordinary outputs, correct header, few sign variations
	ShapesQuick = 1 // plus, on the first wallet's set: every sign variation, the output-array variants and some header variants
	ShapesFull  = 2 // everything on every set
)

// TxnShapes builds the structure-aware transaction list of a world: every array relation for every
// input set with ordinary outputs and a correct header; the output-array variants and the header
// variants on the first wallet's set (ShapesFull: on every set). Below ShapesFull the wallet sets are
// those of the first plain wallet, of the first encrypted wallet (every request that unlocks an
// encrypted wallet pays a key derivation) and of one more wallet drawn from rng.
// Depth says how many wallet / password / index variations SignRequests combines the shape with.
func (w *World) TxnShapes(rng *rand.Rand, level int) []TxnShape {
	keys := &shapeSigner{keys: w.secKeys(), done: map[[2]cipher.SHA256]cipher.Sig{}}
	sets := w.inputSets()
	shapes := arrayShapes()
	var out []TxnShape
	variant := 0 // the set that also gets the output-array and header variants
	for i, s := range sets {
		if s.source == "wallet" {
			variant = i
			break
		}
	}
	full := level >= ShapesFull
	if !full { // thin out the wallet sets
		var rest []int
		enc := false
		for i, s := range sets {
			if s.source != "wallet" || i == variant {
				continue
			}
			if wi := w.walletByID(s.wallet); wi != nil && wi.Encrypted && !enc {
				enc = true
				continue
			}
			rest = append(rest, i)
		}
		if len(rest) > 1 {
			keep := rest[rng.Intn(len(rest))]
			var thin []inputSet
			for i, s := range sets {
				drop := false
				for _, x := range rest {
					if x == i && x != keep {
						drop = true
					}
				}
				if !drop {
					thin = append(thin, s)
				}
			}
			sets = thin // the variant set is the first wallet set: its position is unchanged
		}
	}
	add := func(depth int, s inputSet, as arrayShape, outs, header string) {
		t := w.buildShape(s, as, outs, header, keys, rng)
		t.Depth = depth
		out = append(out, t)
	}
	for i, s := range sets {
		depth := 0
		if full {
			depth = 1
		}
		if i == variant && level >= ShapesQuick {
			depth++
		}
		for _, as := range shapes {
			add(depth, s, as, "normal", "ok")
		}
		if level < ShapesQuick || (!full && i != variant) {
			continue
		}
		depth = 0
		if full {
			depth = 1
		}
		for _, o := range []string{"none", "dup", "zero-coin"} {
			for _, as := range shapes {
				add(depth, s, as, o, "ok")
			}
		}
		for _, hd := range []string{"bad-inner-hash", "bad-length", "type-1"} {
			for _, as := range shapes {
				if !full && len(as.idx) != 1 && len(as.idx) != 2 {
					continue
				}
				if as.sigKind == "null" || (as.sigKind == "full" && as.nSigs == len(as.idx)) {
					add(depth, s, as, "normal", hd)
				}
			}
		}
	}
	return out
}

func (w *World) walletByID(id string) *WalletInfo {
	for i := range w.Wallets {
		if w.Wallets[i].ID == id {
			return &w.Wallets[i]
		}
	}
	return nil
}

func jsonReq(path string, m map[string]interface{}) *Req {
	b, err := json.Marshal(m)
	if err != nil {
		b = []byte("{}")
	}
	return &Req{Method: "POST", Target: path, Headers: [][2]string{{"Content-Type", "application/json"}}, Body: string(b)}
}

// SignVariant is one (wallet, password, sign_indexes) combination for POST /api/v2/wallet/transaction/sign
type SignVariant struct {
	Label  string
	Costly bool // unlocks (or tries to unlock) an encrypted wallet: one key derivation
	Req    *Req
}

// SignRequests combines a shape with the wallet id / password / sign_indexes variations: the owning
// wallet (or the first plain one) properly addressed, with the index lists that are meaningful for the
// shape's array lengths (none, empty, first, last input, all inputs, last signature, one past the
// signatures, one past the inputs, all but the first); the same wallet with a needless, missing or
// wrong password; another wallet that can sign, an encrypted one with and without its password, one
// that cannot sign at all, an unknown id.
// Shape depth 0: the proper wallet without an index list and with one drawn list, one other case drawn;
// depth 1: the proper wallet with every index list, every other case with one drawn list;
// depth 2: the whole product. Requests that pay a key derivation are thinned out below depth 2: the
// proper (encrypted) wallet gets one index list, another case is kept one time in eight.
func (w *World) SignRequests(s *TxnShape, rng *rand.Rand) []SignVariant {
	const path = "/api/v2/wallet/transaction/sign"
	find := func(pred func(*WalletInfo) bool) *WalletInfo {
		for i := range w.Wallets {
			if pred(&w.Wallets[i]) {
				return &w.Wallets[i]
			}
		}
		return nil
	}
	owner := w.walletByID(s.Wallet)
	if owner == nil {
		owner = find(func(wi *WalletInfo) bool { return !wi.Encrypted && wi.Type == "deterministic" })
	}
	if owner == nil {
		return nil
	}
	type idx struct {
		label string
		v     interface{}
		set   bool
	}
	seq := func(n int) []interface{} {
		o := []interface{}{}
		for i := 0; i < n; i++ {
			o = append(o, i)
		}
		return o
	}
	idxs := []idx{{"absent", nil, false}, {"empty", []interface{}{}, true}, {"first", []interface{}{0}, true}}
	seenIdx := map[string]bool{"[0]": true, "[]": true}
	addIdx := func(label string, v []interface{}) {
		b, _ := json.Marshal(v)
		if !seenIdx[string(b)] {
			seenIdx[string(b)] = true
			idxs = append(idxs, idx{label, v, true})
		}
	}
	if s.NIn > 0 {
		addIdx("last-input", []interface{}{s.NIn - 1})
		addIdx("all-inputs", seq(s.NIn))
	}
	if s.NSigs > 0 {
		addIdx("last-sig", []interface{}{s.NSigs - 1})
	}
	addIdx("one-past-sigs", []interface{}{s.NSigs})
	addIdx("one-past-inputs", []interface{}{s.NIn})
	if s.NIn > 1 {
		addIdx("all-but-first", seq(s.NIn)[1:])
	}
	type wcase struct {
		label string
		wi    *WalletInfo
		id    string
		pw    string // "" = no password field
	}
	costly := func(c wcase) bool { return c.wi != nil && c.wi.Encrypted && c.pw != "" }
	proper := wcase{"owner", owner, owner.ID, ""}
	if owner.Encrypted {
		proper.pw = owner.Password
	}
	var others []wcase
	if owner.Encrypted {
		others = append(others, wcase{"owner-no-password", owner, owner.ID, ""})
	} else {
		others = append(others, wcase{"owner-needless-password", owner, owner.ID, WalletPassword})
	}
	others = append(others, wcase{"owner-wrong-password", owner, owner.ID, "wrong"})
	if o := find(func(wi *WalletInfo) bool { return wi.ID != owner.ID && !wi.Encrypted && wi.Type != "xpub" }); o != nil {
		others = append(others, wcase{"other-plain", o, o.ID, ""})
	}
	if o := find(func(wi *WalletInfo) bool { return wi.ID != owner.ID && wi.Encrypted }); o != nil {
		others = append(others, wcase{"other-encrypted", o, o.ID, o.Password}, wcase{"other-encrypted-no-password", o, o.ID, ""})
	}
	if o := find(func(wi *WalletInfo) bool { return wi.ID != owner.ID && wi.Type == "xpub" }); o != nil {
		others = append(others, wcase{"cannot-sign", o, o.ID, ""})
	}
	others = append(others, wcase{"unknown-wallet", nil, "nope.wlt", ""})
	mk := func(c wcase, ix idx) SignVariant {
		m := map[string]interface{}{"wallet_id": c.id, "encoded_transaction": s.Hex}
		if c.pw != "" {
			m["password"] = c.pw
		}
		if ix.set {
			m["sign_indexes"] = ix.v
		}
		return SignVariant{c.label + "/" + ix.label, costly(c), jsonReq(path, m)}
	}
	draw := func() idx { return idxs[rng.Intn(len(idxs))] }
	var out []SignVariant
	switch {
	case costly(proper) && s.Depth < 2:
		if rng.Intn(2) == 0 {
			out = append(out, mk(proper, idxs[0]))
		} else {
			out = append(out, mk(proper, draw()))
		}
	case s.Depth == 0:
		out = append(out, mk(proper, idxs[0]), mk(proper, idxs[1+rng.Intn(len(idxs)-1)]))
	default:
		for _, ix := range idxs {
			out = append(out, mk(proper, ix))
		}
	}
	switch s.Depth {
	case 0:
		c := others[rng.Intn(len(others))]
		if costly(c) && rng.Intn(8) != 0 {
			c = others[len(others)-1-rng.Intn(2)] // unknown wallet / the wallet that cannot sign
		}
		out = append(out, mk(c, draw()))
	case 1:
		for _, c := range others {
			if costly(c) && rng.Intn(8) != 0 {
				continue
			}
			out = append(out, mk(c, draw()))
		}
	default:
		for _, c := range others {
			for _, ix := range idxs {
				out = append(out, mk(c, ix))
			}
		}
	}
	return out
}

// VerifyRequests: POST /api/v2/transaction/verify with unsigned true, false and absent
func (s *TxnShape) VerifyRequests() []*Req {
	const path = "/api/v2/transaction/verify"
	return []*Req{
		jsonReq(path, map[string]interface{}{"encoded_transaction": s.Hex, "unsigned": true}),
		jsonReq(path, map[string]interface{}{"encoded_transaction": s.Hex, "unsigned": false}),
		jsonReq(path, map[string]interface{}{"encoded_transaction": s.Hex}),
	}
}

// InjectRequest: POST /api/v1/injectTransaction (not broadcast)
func (s *TxnShape) InjectRequest() *Req {
	return jsonReq("/api/v1/injectTransaction", map[string]interface{}{"rawtx": s.Hex, "no_broadcast": true})
}
