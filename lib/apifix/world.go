package apifix

import (
	"crypto/sha256"
	"encoding/hex"
	"fmt"
	"math/rand"
	"os"
	"os/exec"
	"sort"

	"github.com/skycoin/skycoin/src/cipher"
	"github.com/skycoin/skycoin/src/cipher/base58"
	"github.com/skycoin/skycoin/src/cipher/bip39"
	"github.com/skycoin/skycoin/src/cipher/bip44"
	"github.com/skycoin/skycoin/src/coin"
	"github.com/skycoin/skycoin/src/kvstorage"
	"github.com/skycoin/skycoin/src/params"
	"github.com/skycoin/skycoin/src/wallet"
	_ "github.com/skycoin/skycoin/src/wallet/bip44wallet"   // register wallet types
	_ "github.com/skycoin/skycoin/src/wallet/collection"    //
	_ "github.com/skycoin/skycoin/src/wallet/deterministic" //
	_ "github.com/skycoin/skycoin/src/wallet/xpubwallet"    //

	"verif/lib/fix"
	"verif/lib/ledger"
	"verif/lib/node"
)

// WalletInfo describes one wallet of the prepared node
type WalletInfo struct {
	ID             string   `json:"id"`
	Type           string   `json:"type"`
	Encrypted      bool     `json:"encrypted"`
	Password       string   `json:"password,omitempty"`
	Seed           string   `json:"seed,omitempty"`
	SeedPassphrase string   `json:"seed_passphrase,omitempty"`
	XPub           string   `json:"xpub,omitempty"`
	Addrs          []string `json:"addrs"`
}

// World is a prepared data directory plus everything the harness knows about it (the
// harness built the history itself and recorded it in its own shadow ledger)
type World struct {
	Dir      string       // template data directory (copy it per node)
	Opts     node.Options // options to start a node on a copy (DataDir to be filled in)
	Chain    *fix.Chain
	Model    *ledger.Model
	Wallets  []WalletInfo
	KV       map[string]map[string]string // storage type -> key -> value
	Encoded  map[string]string            // kind -> hex encoded transaction
	PoolTx   []string                     // pooled transaction ids in injection order
	UnusedSK []string                     // secret keys (hex) not used anywhere
	headTime uint64
	rng      *rand.Rand
	used     map[cipher.SHA256]bool // outputs spent by pooled transactions
}

// WorldConfig sizes a world
type WorldConfig struct {
	Tag     string
	Seed    int64
	Blocks  int  // number of blocks after genesis
	Wallets bool // create the wallet set
	Pool    bool // leave transactions in the pool
}

func modelParams(c *fix.Chain) ledger.Params {
	vp := func(p params.VerifyTxn) ledger.VerifyParams {
		return ledger.VerifyParams{BurnFactor: p.BurnFactor, MaxTxnSize: p.MaxTransactionSize, MaxPrecision: p.MaxDropletPrecision}
	}
	return ledger.Params{
		Volume: c.Volume, Publisher: c.Publisher.Pub, Locked: c.LockedAddrs(),
		Unconfirmed: vp(c.Unconfirmed), CreateBlock: vp(c.CreateBlock), User: vp(params.UserVerifyTxn), MaxBlock: c.MaxBlock,
	}
}

func detMnemonic(tag string, bytes int) string {
	h := sha256.Sum256([]byte("mnemonic-" + tag))
	m, err := bip39.NewMnemonic(h[:bytes])
	if err != nil {
		panic(err)
	}
	return m
}

// BuildWorld runs an in-process publisher node on a fresh directory, builds the history
// through the visor (blocks at harness-chosen times), the pool, wallets and key-value
// entries, then stops the node. Only one in-process node may run at a time.
func BuildWorld(cfg WorldConfig) (*World, error) {
	dir, err := os.MkdirTemp("", "verif-world-"+cfg.Tag+"-")
	if err != nil {
		return nil, err
	}
	opts := node.Options{
		DataDir: dir, ChainTag: fmt.Sprintf("api-%s-%d", cfg.Tag, cfg.Seed), Volume: 100e12,
		NKeys: 7, NDist: 4, NUnlocked: 2, Publisher: true, Arbitrating: true, DisableCSRF: true,
	}
	n, err := node.Start(opts)
	if err != nil {
		os.RemoveAll(dir)
		return nil, fmt.Errorf("world node: %v", err)
	}
	w := &World{Dir: dir, Opts: opts, Chain: n.Chain, KV: map[string]map[string]string{}, Encoded: map[string]string{},
		rng: rand.New(rand.NewSource(cfg.Seed)), used: map[cipher.SHA256]bool{}}
	w.Opts.GenesisSig = hex.EncodeToString(n.Chain.GenesisSig[:])
	err = w.build(n, cfg)
	n.Stop()
	if err != nil {
		os.RemoveAll(dir)
		return nil, err
	}
	return w, nil
}

// LoadWorld wraps a data directory kept from an earlier run (replays): only Dir, Opts and Chain are
// set, which is what starting a node on a copy needs
func LoadWorld(dir string, opts node.Options) *World {
	o := opts
	return &World{Dir: dir, Opts: opts, Chain: o.Chain(), KV: map[string]map[string]string{}, Encoded: map[string]string{}}
}

// Remove deletes the template directory
func (w *World) Remove() { os.RemoveAll(w.Dir) }

// CopyTo copies the template directory to dst (which must not exist)
func (w *World) CopyTo(dst string) error {
	out, err := exec.Command("cp", "-a", w.Dir, dst).CombinedOutput()
	if err != nil {
		return fmt.Errorf("cp: %v %s", err, out)
	}
	return nil
}

// NodeOptions returns options for a node on dataDir (a copy of the template)
func (w *World) NodeOptions(dataDir string) node.Options {
	o := w.Opts
	o.DataDir = dataDir
	return o
}

func (w *World) walletAddrs() []cipher.Address {
	var out []cipher.Address
	for _, wi := range w.Wallets {
		for _, a := range wi.Addrs {
			out = append(out, cipher.MustDecodeBase58Address(a))
		}
	}
	return out
}

func (w *World) build(n *node.Node, cfg WorldConfig) error {
	g, err := n.Visor.GetSignedBlockBySeq(0)
	if err != nil || g == nil {
		return fmt.Errorf("no genesis block: %v", err)
	}
	w.Model = ledger.New(modelParams(w.Chain))
	w.Model.ApplyGenesis(*g)
	w.headTime = g.Head.Time

	if cfg.Wallets {
		if err := w.makeWallets(n); err != nil {
			return err
		}
	}
	for i := 0; i < 4; i++ {
		_, s := cipher.MustGenerateDeterministicKeyPair([]byte(fmt.Sprintf("unused-%s-%d", cfg.Tag, i)))
		w.UnusedSK = append(w.UnusedSK, s.Hex())
	}

	// block 1: the genesis output goes to the harness keys and the wallet addresses
	if cfg.Blocks > 0 {
		gux := w.spendable()
		if len(gux) != 1 {
			return fmt.Errorf("expected one spendable genesis output, have %d", len(gux))
		}
		dests := []cipher.Address{}
		for _, k := range w.Chain.Keys {
			dests = append(dests, k.Addr, k.Addr) // two outputs each (different amounts)
		}
		dests = append(dests, w.walletAddrs()...)
		t, err := w.mkTxn(gux, dests, 2)
		if err != nil {
			return err
		}
		if err := w.block(n, []coin.Transaction{t}); err != nil {
			return fmt.Errorf("block 1: %v", err)
		}
	}
	for b := 2; b <= cfg.Blocks; b++ {
		sp := w.spendable()
		w.rng.Shuffle(len(sp), func(i, j int) { sp[i], sp[j] = sp[j], sp[i] })
		nt := 1 + w.rng.Intn(3)
		var txns []coin.Transaction
		idx := 0
		for k := 0; k < nt && idx < len(sp); k++ {
			ni := 1
			if w.rng.Intn(5) == 0 {
				ni = 2
			}
			if idx+ni > len(sp) {
				ni = len(sp) - idx
			}
			in := sp[idx : idx+ni]
			idx += ni
			// the first destination is an unlocked harness key, so that spendable outputs never run out
			unlocked := []int{0, 1, 4, 5, 6}
			dests := []cipher.Address{w.Chain.Keys[unlocked[w.rng.Intn(len(unlocked))]].Addr}
			nd := 1 + w.rng.Intn(3)
			all := append(w.walletAddrs(), w.keyAddrs()...)
			off := w.rng.Intn(len(all))
			for d := 1; d < nd; d++ {
				dests = append(dests, all[(off+d*3)%len(all)])
			}
			t, err := w.mkTxn(in, dests, 2)
			if err != nil {
				continue
			}
			txns = append(txns, t)
		}
		if len(txns) == 0 {
			return fmt.Errorf("block %d: nothing spendable", b)
		}
		if err := w.block(n, txns); err != nil {
			return fmt.Errorf("block %d: %v", b, err)
		}
	}

	if err := w.makeEncoded(n, cfg); err != nil {
		return err
	}

	// key-value entries
	kv := map[kvstorage.Type]map[string]string{
		kvstorage.TypeTxIDNotes: {"note-" + w.Model.TxOrder[0].Hex()[:8]: "first transaction", "k2": "v2", "uni": "é世界"},
		kvstorage.TypeGeneral:   {"theme": "dark", "empty": ""},
	}
	for ty, m := range kv {
		w.KV[string(ty)] = map[string]string{}
		for k, v := range m {
			if err := n.KV.AddStorageValue(ty, k, v); err != nil {
				return fmt.Errorf("kv add: %v", err)
			}
			w.KV[string(ty)][k] = v
		}
	}
	return nil
}

func (w *World) keyAddrs() []cipher.Address {
	var out []cipher.Address
	for _, k := range w.Chain.Keys {
		out = append(out, k.Addr)
	}
	return out
}

// spendable lists the unspent outputs owned by an unlocked harness key (or the genesis key)
// that no pooled transaction spends, in a deterministic order
func (w *World) spendable() []coin.UxOut {
	locked := w.Chain.LockedAddrs()
	var out []coin.UxOut
	for id, ux := range w.Model.Utxo {
		if w.used[id] || locked[ux.Body.Address] {
			continue
		}
		if _, ok := w.Chain.KeyFor(ux.Body.Address); !ok {
			continue
		}
		if ux.Body.Coins < 4e6 {
			continue
		}
		out = append(out, ux)
	}
	sort.Slice(out, func(i, j int) bool {
		a, b := ledger.UxID(out[i]), ledger.UxID(out[j])
		return string(a[:]) < string(b[:])
	})
	return out
}

// mkTxn spends `in` completely to dests (whole coins, different amounts); the outputs get
// 1/burnDiv of the inputs' hours in total
func (w *World) mkTxn(in []coin.UxOut, dests []cipher.Address, burnDiv uint64) (coin.Transaction, error) {
	var coins, hours uint64
	for _, ux := range in {
		coins += ux.Body.Coins
		h, _ := ledger.Accrued(ux, w.headTime)
		if !h.IsUint64() {
			return coin.Transaction{}, fmt.Errorf("hours overflow")
		}
		hours += h.Uint64()
	}
	nd := uint64(len(dests))
	whole := coins / 1e6
	if whole < nd*(nd+1)/2+nd {
		dests = dests[:1]
		nd = 1
	}
	var outs []fix.Out
	// amounts 1x, 2x, 3x ... of a unit, remainder to the first
	unit := whole / (nd * (nd + 1) / 2)
	var given uint64
	for i := uint64(0); i < nd; i++ {
		c := unit * (i + 1) * 1e6
		outs = append(outs, fix.Out{Addr: dests[i], Coins: c})
		given += c
	}
	outs[0].Coins += coins - given
	outH := uint64(0)
	if burnDiv > 0 {
		outH = hours / burnDiv
	} else {
		outH = hours
	}
	per := outH / nd
	for i := range outs {
		outs[i].Hours = per + uint64(i) // distinct, so no two outputs are identical
		if per == 0 {
			outs[i].Hours = 0
		}
	}
	// identical (address, coins, hours) triples are not allowed: addresses may repeat with
	// different amounts only
	return w.Chain.MakeTxn(in, outs), nil
}

func (w *World) block(n *node.Node, txns []coin.Transaction) error {
	for i := range txns {
		if _, _, _, err := n.Visor.InjectUserTransaction(txns[i]); err != nil {
			return fmt.Errorf("inject: %v", err)
		}
	}
	when := w.headTime + 40000 + uint64(w.rng.Intn(40000))
	sb, err := n.Visor.VerifCreateAndExecuteBlock(when)
	if err != nil {
		return fmt.Errorf("create block: %v", err)
	}
	if len(sb.Body.Transactions) != len(txns) {
		return fmt.Errorf("block holds %d of %d injected transactions", len(sb.Body.Transactions), len(txns))
	}
	w.Model.ApplyBlock(sb)
	w.headTime = sb.Head.Time
	return nil
}

func encTxn(t coin.Transaction) string {
	b, err := t.Serialize()
	if err != nil {
		panic(err)
	}
	return hex.EncodeToString(b)
}

// makeEncoded prepares the transaction dictionary and fills the pool
func (w *World) makeEncoded(n *node.Node, cfg WorldConfig) error {
	sp := w.spendable()
	if len(sp) < 1 {
		return fmt.Errorf("nothing spendable for the pool")
	}
	keys := w.keyAddrs()
	take := func() []coin.UxOut {
		if len(sp) == 0 {
			return nil
		}
		ux := sp[0]
		sp = sp[1:]
		return []coin.UxOut{ux}
	}
	if cfg.Pool {
		// P1 valid, P2 conflicting with P1 (foreign), P3 soft-invalid (no fee, foreign)
		a := take()
		p1, err := w.mkTxn(a, []cipher.Address{keys[4], keys[5]}, 2)
		if err != nil {
			return err
		}
		if _, _, _, err := n.Visor.InjectUserTransaction(p1); err != nil {
			return fmt.Errorf("pool valid: %v", err)
		}
		w.notePool(p1, true)
		w.Encoded["pooled"] = encTxn(p1)
		p2, _ := w.mkTxn(a, []cipher.Address{keys[6]}, 3)
		if _, _, err := n.Visor.InjectForeignTransaction(p2); err != nil {
			return fmt.Errorf("pool conflicting: %v", err)
		}
		w.notePool(p2, true)
		w.Encoded["pooled-conflicting"] = encTxn(p2)
		p4, _ := w.mkTxn(a, []cipher.Address{keys[0], keys[1], keys[2]}, 4)
		w.Encoded["spends-pooled"] = encTxn(p4)
		if b := take(); b != nil {
			p3, _ := w.mkTxn(b, []cipher.Address{keys[5]}, 0)
			if _, _, err := n.Visor.InjectForeignTransaction(p3); err != nil {
				return fmt.Errorf("pool soft-invalid: %v", err)
			}
			w.notePool(p3, false)
			w.Encoded["pooled-soft-invalid"] = encTxn(p3)
		}
		// a pooled payment to every wallet's first address
		if wa := w.walletAddrs(); len(wa) > 0 {
			if c := take(); c != nil {
				p5, err := w.mkTxn(c, wa, 2)
				if err == nil {
					if _, _, _, err := n.Visor.InjectUserTransaction(p5); err != nil {
						return fmt.Errorf("pool wallet payment: %v", err)
					}
					w.notePool(p5, true)
				}
			}
		}
	}
	if c := take(); c != nil {
		v, _ := w.mkTxn(c, []cipher.Address{keys[3], keys[4]}, 2)
		w.Encoded["valid"] = encTxn(v)
		u := v
		u.Sigs = make([]cipher.Sig, len(v.Sigs))
		_ = u.UpdateHeader()
		w.Encoded["unsigned"] = encTxn(u)
		z, _ := w.mkTxn(c, []cipher.Address{keys[3]}, 0)
		w.Encoded["no-fee"] = encTxn(z)
		bad := v
		bad.Sigs = append([]cipher.Sig(nil), v.Sigs...)
		bad.Sigs[0][7] ^= 0x40
		_ = bad.UpdateHeader()
		w.Encoded["bad-signature"] = encTxn(bad)
	}
	// a transaction nobody has seen that spends outputs which are already spent
	var spent []coin.UxOut
	for id := range w.Model.SpentBy {
		ux := w.Model.AllOuts[id]
		if _, ok := w.Chain.KeyFor(ux.Body.Address); ok {
			spent = append(spent, ux)
		}
	}
	sort.Slice(spent, func(i, j int) bool {
		a, b := ledger.UxID(spent[i]), ledger.UxID(spent[j])
		return string(a[:]) < string(b[:])
	})
	if len(spent) > 0 {
		s, err := w.mkTxn(spent[:1], []cipher.Address{keys[1], keys[2]}, 2)
		if err == nil {
			w.Encoded["spends-spent"] = encTxn(s)
		}
		if len(spent) > 1 {
			s2, err := w.mkTxn(spent[len(spent)-2:], []cipher.Address{keys[0]}, 2)
			if err == nil {
				w.Encoded["spends-spent-2"] = encTxn(s2)
			}
		}
	}
	// a confirmed transaction, as it is in the chain
	if len(w.Model.TxOrder) > 1 {
		w.Encoded["confirmed"] = encTxn(w.Model.Txns[w.Model.TxOrder[len(w.Model.TxOrder)-1]].Txn)
		w.Encoded["confirmed-first"] = encTxn(w.Model.Txns[w.Model.TxOrder[1]].Txn)
	}
	w.Encoded["genesis"] = encTxn(w.Model.Txns[w.Model.TxOrder[0]].Txn)
	// spends an output that never existed
	{
		var t coin.Transaction
		_ = t.PushInput(cipher.SumSHA256([]byte("no such output")))
		t.Out = append(t.Out, coin.TransactionOutput{Address: keys[0], Coins: 1e6, Hours: 1})
		t.SignInputs([]cipher.SecKey{w.Chain.Keys[0].Sec})
		_ = t.UpdateHeader()
		w.Encoded["unknown-input"] = encTxn(t)
	}
	// spends a locked distribution address
	for _, ux := range w.Model.Utxo {
		if w.Chain.LockedAddrs()[ux.Body.Address] {
			l, err := w.mkTxn([]coin.UxOut{ux}, []cipher.Address{keys[0]}, 2)
			if err == nil {
				w.Encoded["locked-input"] = encTxn(l)
			}
			break
		}
	}
	return nil
}

func (w *World) notePool(t coin.Transaction, valid bool) {
	h := ledger.TxnHash(&t)
	w.Model.Pool[h] = &ledger.PoolEntry{Txn: t, Valid: valid}
	w.PoolTx = append(w.PoolTx, h.Hex())
	for _, in := range t.In {
		w.used[in] = true
	}
}

// makeWallets creates the wallet set through the node's wallet service (file names chosen
// here so that a run is reproducible)
func (w *World) makeWallets(n *node.Node) error {
	type spec struct {
		name string
		o    wallet.Options
	}
	bipSeed := detMnemonic(w.Opts.ChainTag+"-bip44", 16)
	bipSeed2 := detMnemonic(w.Opts.ChainTag+"-bip44-enc", 32)
	xpSeed := detMnemonic(w.Opts.ChainTag+"-xpub", 16)
	xs, err := bip39.NewSeed(xpSeed, "")
	if err != nil {
		return err
	}
	c, err := bip44.NewCoin(xs, bip44.CoinTypeSkycoin)
	if err != nil {
		return err
	}
	acct, err := c.Account(0)
	if err != nil {
		return err
	}
	ext, err := acct.External()
	if err != nil {
		return err
	}
	xpub := ext.PublicKey().String()
	var colKeys []cipher.SecKey
	for i := 0; i < 3; i++ {
		_, s := cipher.MustGenerateDeterministicKeyPair([]byte(fmt.Sprintf("collection-%s-%d", w.Opts.ChainTag, i)))
		colKeys = append(colKeys, s)
	}
	specs := []spec{
		{"det-plain.wlt", wallet.Options{Type: wallet.WalletTypeDeterministic, Seed: detMnemonic(w.Opts.ChainTag+"-det", 16), Label: "det plain", GenerateN: 3}},
		{"det-text.wlt", wallet.Options{Type: wallet.WalletTypeDeterministic, Seed: "free text seed é世 " + w.Opts.ChainTag, Label: "det text", GenerateN: 2}},
		{"det-enc.wlt", wallet.Options{Type: wallet.WalletTypeDeterministic, Seed: detMnemonic(w.Opts.ChainTag+"-det-enc", 16), Label: "det enc", GenerateN: 2, Encrypt: true, Password: []byte(WalletPassword)}},
		{"det-enc3.wlt", wallet.Options{Type: wallet.WalletTypeDeterministic, Seed: detMnemonic(w.Opts.ChainTag+"-det-enc3", 16), Label: "det enc 3", GenerateN: 1, Encrypt: true, Password: []byte(WalletPassword)}},
		{"bip44-plain.wlt", wallet.Options{Type: wallet.WalletTypeBip44, Seed: bipSeed, Label: "bip44 plain", GenerateN: 2}},
		{"bip44-enc.wlt", wallet.Options{Type: wallet.WalletTypeBip44, Seed: bipSeed2, SeedPassphrase: "passphrase", Label: "bip44 enc", GenerateN: 2, Encrypt: true, Password: []byte(WalletPassword)}},
		{"xpub.wlt", wallet.Options{Type: wallet.WalletTypeXPub, XPub: xpub, Label: "xpub", GenerateN: 2}},
		{"collection.wlt", wallet.Options{Type: wallet.WalletTypeCollection, Label: "collection", CollectionPrivateKeys: colKeys}},
	}
	for _, s := range specs {
		wl, err := n.Wallets.CreateWallet(s.name, s.o)
		if err != nil {
			return fmt.Errorf("create wallet %s: %v", s.name, err)
		}
		wi := WalletInfo{ID: wl.Filename(), Type: s.o.Type, Encrypted: s.o.Encrypt, Password: string(s.o.Password), Seed: s.o.Seed, SeedPassphrase: s.o.SeedPassphrase, XPub: s.o.XPub}
		addrs, err := wl.GetAddresses()
		if err != nil {
			return fmt.Errorf("wallet %s addresses: %v", s.name, err)
		}
		for _, a := range addrs {
			wi.Addrs = append(wi.Addrs, a.String())
		}
		w.Wallets = append(w.Wallets, wi)
	}
	return nil
}

// XPubWithKey serialises an extended public key (depth 3, arbitrary chain code) holding the
// given 33 key bytes, base58 encoded with a correct checksum
func XPubWithKey(key33 []byte) string {
	b := []byte{0x04, 0x88, 0xB2, 0x1E, 3, 1, 2, 3, 4, 0, 0, 0, 0}
	cc := sha256.Sum256([]byte("chain code"))
	b = append(b, cc[:]...)
	b = append(b, key33...)
	h1 := sha256.Sum256(b)
	h2 := sha256.Sum256(h1[:])
	b = append(b, h2[:4]...)
	return base58.Encode(b)
}
