// Package apifix holds what the HTTP API checks (C27, C28, C29 API leg) share: a raw HTTP/1.1
// client that controls every header byte, the parser of the documented route table
// (src/api/README.md), the syntactic scan of the registered routes, a prepared node data
// directory ("world": chain, pool, wallets, key-value entries) and the request grammar.
// It wires real components together and builds inputs; the oracles live in the checks.
package apifix

import (
	"bufio"
	"bytes"
	"compress/gzip"
	"fmt"
	"io"
	"net"
	"net/http"
	"strings"
	"time"
)

// Req is one HTTP request, rendered byte by byte (no normalisation by a client library)
type Req struct {
	Method  string      `json:"method"`
	Target  string      `json:"target"`            // request-target: path[?query]
	NoHost  bool        `json:"no_host,omitempty"` // send "Host:" with an empty value
	Host    string      `json:"host,omitempty"`    // "" = the node's own address
	Headers [][2]string `json:"headers,omitempty"` // in order; Content-Length is added from Body
	Body    string      `json:"body,omitempty"`
}

// Bytes renders the request for a node listening on addr
func (q *Req) Bytes(addr string) []byte {
	var b bytes.Buffer
	fmt.Fprintf(&b, "%s %s HTTP/1.1\r\n", q.Method, q.Target)
	switch {
	case q.NoHost:
		b.WriteString("Host:\r\n")
	case q.Host != "":
		fmt.Fprintf(&b, "Host: %s\r\n", q.Host)
	default:
		fmt.Fprintf(&b, "Host: %s\r\n", addr)
	}
	for _, h := range q.Headers {
		fmt.Fprintf(&b, "%s: %s\r\n", h[0], h[1])
	}
	if q.Body != "" || q.Method == "POST" || q.Method == "PUT" || q.Method == "PATCH" {
		fmt.Fprintf(&b, "Content-Length: %d\r\n", len(q.Body))
	}
	b.WriteString("Connection: close\r\n\r\n")
	b.WriteString(q.Body)
	return b.Bytes()
}

// Header returns the first value of a request header ("" if absent)
func (q *Req) Header(name string) string {
	for _, h := range q.Headers {
		if strings.EqualFold(h[0], name) {
			return h[1]
		}
	}
	return ""
}

// Resp is what came back. Fail != "" means no syntactically complete response arrived.
type Resp struct {
	Status int
	Header http.Header
	Body   []byte
	Fail   string // "", "dial", "write", "no-response", "malformed-response", "short-body", "bad-gzip", "timeout"
	Detail string
	Local  string // local address of the connection (matches "http: panic serving <addr>" in the server log)
	Dur    time.Duration
}

// Do sends one request on a fresh connection and reads the whole response
func Do(addr string, q *Req, timeout time.Duration) *Resp {
	t0 := time.Now()
	r := &Resp{}
	defer func() { r.Dur = time.Since(t0) }()
	var c net.Conn
	var err error
	for try := 0; ; try++ {
		c, err = net.DialTimeout("tcp", addr, 10*time.Second)
		if err == nil {
			break
		}
		if try >= 3 {
			r.Fail, r.Detail = "dial", err.Error()
			return r
		}
		time.Sleep(50 * time.Millisecond)
	}
	defer c.Close()
	r.Local = c.LocalAddr().String()
	_ = c.SetDeadline(time.Now().Add(timeout))
	raw := q.Bytes(addr)
	if _, err := c.Write(raw); err != nil {
		// the server may answer (and close) before reading a large body: still try to read
		r.Detail = "write: " + err.Error()
	}
	br := bufio.NewReaderSize(c, 64<<10)
	resp, err := http.ReadResponse(br, &http.Request{Method: q.Method})
	if err != nil {
		if ne, ok := err.(net.Error); ok && ne.Timeout() {
			r.Fail = "timeout"
		} else if err == io.EOF || err == io.ErrUnexpectedEOF || strings.Contains(err.Error(), "connection reset") {
			r.Fail = "no-response"
		} else {
			r.Fail = "malformed-response"
		}
		r.Detail += " read: " + err.Error()
		return r
	}
	r.Status = resp.StatusCode
	r.Header = resp.Header
	body, err := io.ReadAll(resp.Body)
	resp.Body.Close()
	r.Body = body
	if err != nil {
		if ne, ok := err.(net.Error); ok && ne.Timeout() {
			r.Fail = "timeout"
		} else {
			r.Fail = "short-body"
		}
		r.Detail += " body: " + err.Error()
		return r
	}
	if resp.Header.Get("Content-Encoding") == "gzip" && q.Method != "HEAD" && len(body) > 0 {
		zr, err := gzip.NewReader(bytes.NewReader(body))
		if err == nil {
			body, err = io.ReadAll(zr)
		}
		if err != nil {
			r.Fail, r.Detail = "bad-gzip", err.Error()
			return r
		}
		r.Body = body
	}
	return r
}

// Get is a convenience wrapper for plain GET requests
func Get(addr, target string) *Resp {
	return Do(addr, &Req{Method: "GET", Target: target}, 60*time.Second)
}
