package sched

import (
	"crypto/sha256"
	"encoding/hex"
	"path/filepath"
	"regexp"
	"sort"
	"strings"
)

// Frame is one stack frame of a race report or goroutine dump
type Frame struct {
	Func string
	File string
	Line string
}

// RaceReport is one "WARNING: DATA RACE" block
type RaceReport struct {
	Text   string
	Ops    [2]string  // "Write", "Previous read", ...
	Stacks [2][]Frame // the two access stacks (nil if not restored)
	// Class: "product"   both innermost attributed frames in the given product packages (non-test, non-hook files)
	//        "harness"   at least one innermost attributed frame is harness code (module verif, hook or test file)
	//        "other"     skycoin code outside the given packages is involved
	//        "unrestored" a stack is missing
	Class string
	Pair  string // the two innermost attributed function names, sorted, joined by " | "
	Key   string // hash of both stacks with line numbers stripped (order independent)
}

var (
	accessRe = regexp.MustCompile(`^(Previous )?(atomic )?(read|write|Read|Write) at 0x[0-9a-f]+ by (main )?goroutine`)
	locRe    = regexp.MustCompile(`^\s+(\S+):(\d+)( \+0x[0-9a-f]+)?$`)
)

// RepoDir is the directory of the skycoin tree the binaries were built from; frames are
// attributed by source file location first (a closure of a product function that was
// inlined into harness code is named after the harness function but lives in a product file)
var RepoDir = "/repo"

const skyMod = "github.com/skycoin/skycoin/"

// framePkg returns the import path a frame's code belongs to ("" if unknown)
func framePkg(f *Frame) string {
	if RepoDir != "" && strings.HasPrefix(f.File, RepoDir+"/") {
		return skyMod + filepath.Dir(strings.TrimPrefix(f.File, RepoDir+"/"))
	}
	if strings.HasPrefix(f.Func, skyMod) || strings.HasPrefix(f.Func, "verif/") {
		return FuncPkg(f.Func)
	}
	if strings.HasPrefix(f.Func, "main.") {
		return "main"
	}
	return ""
}

// canonical function name of a frame: inlined product closures get their product name back
func frameName(f *Frame) string {
	pkg := framePkg(f)
	if strings.HasPrefix(pkg, skyMod) && !strings.HasPrefix(f.Func, pkg+".") {
		rest := f.Func
		if i := strings.LastIndex(rest, ".(*"); i >= 0 {
			rest = rest[i:]
		} else if parts := strings.Split(rest, "."); len(parts) >= 2 {
			rest = "." + strings.Join(parts[len(parts)-2:], ".")
		}
		return pkg + rest
	}
	return f.Func
}

// ParseRaceReports splits race detector output into reports and classifies each.
// productPkgs are import paths, e.g. "github.com/skycoin/skycoin/src/daemon/gnet"
func ParseRaceReports(text string, productPkgs []string) []RaceReport {
	var out []RaceReport
	parts := strings.Split(text, "==================")
	for _, p := range parts {
		if !strings.Contains(p, "WARNING: DATA RACE") {
			continue
		}
		rr := RaceReport{Text: strings.TrimSpace(p)}
		lines := strings.Split(p, "\n")
		idx := 0
		for i := 0; i < len(lines) && idx < 2; i++ {
			l := lines[i]
			if !accessRe.MatchString(l) {
				continue
			}
			rr.Ops[idx] = l[:strings.Index(l, " at 0x")]
			var st []Frame
			j := i + 1
			for ; j < len(lines); j++ {
				if strings.TrimSpace(lines[j]) == "" {
					break
				}
				if strings.Contains(lines[j], "failed to restore the stack") {
					st = nil
					break
				}
				if m := locRe.FindStringSubmatch(lines[j]); m != nil && len(st) > 0 && st[len(st)-1].File == "" {
					st[len(st)-1].File = m[1]
					st[len(st)-1].Line = m[2]
					continue
				}
				st = append(st, Frame{Func: stripArgs(strings.TrimSpace(lines[j]))})
			}
			rr.Stacks[idx] = st
			idx++
			i = j
		}
		classify(&rr, productPkgs)
		out = append(out, rr)
	}
	return out
}

func stripArgs(f string) string {
	if i := strings.LastIndex(f, "("); i > 0 && strings.HasSuffix(f, ")") {
		// keep receiver parentheses such as (*T).M, drop the trailing "()"
		if i == len(f)-2 {
			return f[:i]
		}
	}
	return f
}

// FuncPkg returns the import path part of a fully qualified function name
func FuncPkg(fn string) string {
	slash := strings.LastIndex(fn, "/")
	dot := strings.Index(fn[slash+1:], ".")
	if dot < 0 {
		return fn
	}
	return fn[:slash+1+dot]
}

// attributed returns the innermost frame that belongs to skycoin or to the harness
func attributed(st []Frame) *Frame {
	for i := range st {
		if framePkg(&st[i]) != "" {
			return &st[i]
		}
	}
	return nil
}

func frameClass(f *Frame, productPkgs []string) string {
	if f == nil {
		return "other"
	}
	pkg := framePkg(f)
	if !strings.HasPrefix(pkg, skyMod) {
		return "harness"
	}
	base := filepath.Base(f.File)
	if strings.HasSuffix(base, "_test.go") || strings.HasPrefix(base, "verif_") {
		return "harness"
	}
	for _, p := range productPkgs {
		if pkg == p {
			return "product"
		}
	}
	return "other"
}

func shortFunc(fn string) string {
	return strings.TrimPrefix(fn, "github.com/skycoin/skycoin/src/daemon/")
}

func classify(rr *RaceReport, productPkgs []string) {
	norm := make([]string, 2)
	names := make([]string, 2)
	classes := make([]string, 2)
	for k := 0; k < 2; k++ {
		if rr.Stacks[k] == nil {
			classes[k] = "unrestored"
			names[k] = "<unrestored>"
			norm[k] = "<unrestored>"
			continue
		}
		f := attributed(rr.Stacks[k])
		classes[k] = frameClass(f, productPkgs)
		if f != nil {
			names[k] = shortFunc(frameName(f))
		} else {
			names[k] = "<none>"
		}
		var sb strings.Builder
		for fi, fr := range rr.Stacks[k] {
			sb.WriteString(frameName(&rr.Stacks[k][fi]))
			sb.WriteString("@")
			sb.WriteString(filepath.Base(fr.File))
			sb.WriteString(";")
		}
		norm[k] = sb.String()
	}
	switch {
	case classes[0] == "harness" || classes[1] == "harness":
		rr.Class = "harness"
	case classes[0] == "unrestored" || classes[1] == "unrestored":
		rr.Class = "unrestored"
	case classes[0] == "product" && classes[1] == "product":
		rr.Class = "product"
	default:
		rr.Class = "other"
	}
	sort.Strings(names)
	rr.Pair = names[0] + " | " + names[1]
	sort.Strings(norm)
	h := sha256.Sum256([]byte(norm[0] + "\n" + norm[1]))
	rr.Key = hex.EncodeToString(h[:8])
}

// ---------------------------------------------------------------------------------

// Goroutine is one entry of a runtime.Stack(all) dump
type Goroutine struct {
	ID     string
	State  string // without the ", N minutes" suffix
	Frames []Frame
}

var gHeadRe = regexp.MustCompile(`^goroutine (\d+)(?: gp=\S+ m=\S+(?: mp=\S+)?)? \[([^\]]*)\]:$`)

// ParseDump parses the text produced by runtime.Stack(buf, true) or a SIGQUIT dump
func ParseDump(text string) []Goroutine {
	var out []Goroutine
	var cur *Goroutine
	for _, l := range strings.Split(text, "\n") {
		if m := gHeadRe.FindStringSubmatch(strings.TrimSpace(l)); m != nil {
			st := m[2]
			if i := strings.Index(st, ","); i >= 0 {
				st = st[:i]
			}
			out = append(out, Goroutine{ID: m[1], State: st})
			cur = &out[len(out)-1]
			continue
		}
		if cur == nil {
			continue
		}
		if strings.TrimSpace(l) == "" {
			cur = nil
			continue
		}
		if strings.HasPrefix(l, "\t") {
			if m := locRe.FindStringSubmatch(l); m != nil && len(cur.Frames) > 0 {
				cur.Frames[len(cur.Frames)-1].File = m[1]
				cur.Frames[len(cur.Frames)-1].Line = m[2]
			}
			continue
		}
		fn := strings.TrimSpace(l)
		if strings.HasPrefix(fn, "created by ") {
			cur = nil // the creator is not part of the stack
			continue
		}
		if i := strings.LastIndex(fn, "("); i > 0 {
			fn = fn[:i]
		}
		cur.Frames = append(cur.Frames, Frame{Func: fn})
	}
	return out
}

var blockedStates = map[string]bool{
	"chan receive": true, "chan send": true, "select": true, "select (no cases)": true,
	"semacquire": true, "sync.Mutex.Lock": true, "sync.RWMutex.RLock": true, "sync.RWMutex.Lock": true,
	"sync.WaitGroup.Wait": true, "sync.Cond.Wait": true, "IO wait": true,
	"chan receive (nil chan)": true, "chan send (nil chan)": true,
}

// SubsystemView summarises the goroutines of a dump that have a frame in one of pkgs:
// "id state topProductFunc" lines (sorted), and whether every one of them is blocked
func SubsystemView(gs []Goroutine, pkgs []string) (lines []string, allBlocked bool) {
	allBlocked = true
	for _, g := range gs {
		top := ""
		for _, f := range g.Frames {
			p := FuncPkg(f.Func)
			for _, want := range pkgs {
				if p == want {
					top = f.Func + ":" + f.Line
					break
				}
			}
			if top != "" {
				break
			}
		}
		if top == "" {
			continue
		}
		if !blockedStates[g.State] {
			allBlocked = false
		}
		lines = append(lines, g.ID+" ["+g.State+"] "+top)
	}
	sort.Strings(lines)
	return
}
