// Package sched is the race / schedule-noise toolkit of the harness (DESIGN.md 3.5):
//
//   - an event clock and append-only event log that do NOT synchronise the goroutines that
//     use them as far as the race detector can tell (ticket counter in assembly, slot
//     stores in //go:norace functions) — so that recording what the code under test does
//     does not hide its races;
//   - a seeded noise hook for the verifPoint schedule points, which also records the
//     order in which points were reached (interleaving signature);
//   - a parser/classifier for race detector reports and for goroutine dumps.
package sched

import (
	"runtime"
	"time"
)

var clock int64

// Tick returns the next value of the process-wide logical clock. If Tick a returned
// before Tick b was called then a < b.
func Tick() int64 { return Xadd(&clock, 1) }

// Ev is one recorded event
type Ev struct {
	ready int64
	Seq   int64
	Kind  string
	ID    uint64
	Addr  string
	Info  string
	N     int64
}

// Log is a fixed-capacity multi-writer event log
type Log struct {
	n       int64
	dropped int64
	ev      []Ev
}

// NewLog allocates a log with room for capacity events
func NewLog(capacity int) *Log { return &Log{ev: make([]Ev, capacity)} }

// Add appends an event stamped with Tick() and returns the stamp
//
//go:norace
func (l *Log) Add(kind string, id uint64, addr, info string, n int64) int64 {
	seq := Tick()
	i := Xadd(&l.n, 1) - 1
	if i >= int64(len(l.ev)) {
		Xadd(&l.dropped, 1)
		return seq
	}
	e := &l.ev[i]
	e.Seq, e.Kind, e.ID, e.Addr, e.Info, e.N = seq, kind, id, addr, info, n
	Xadd(&e.ready, 1)
	return seq
}

// Events returns the completed events recorded so far (in slot order, which is not
// necessarily Seq order) and the number of events lost to capacity
//
//go:norace
func (l *Log) Events() ([]Ev, int64) {
	n := Load(&l.n)
	if n > int64(len(l.ev)) {
		n = int64(len(l.ev))
	}
	out := make([]Ev, 0, n)
	for i := int64(0); i < n; i++ {
		e := &l.ev[i]
		if Load(&e.ready) == 0 {
			continue
		}
		out = append(out, Ev{Seq: e.Seq, Kind: e.Kind, ID: e.ID, Addr: e.Addr, Info: e.Info, N: e.N})
	}
	return out, Load(&l.dropped)
}

// Count returns the number of events appended so far
func (l *Log) Count() int64 { return Load(&l.n) }

// ---------------------------------------------------------------------------------

// Points are the schedule points known to the noise hook
var Points = []string{
	"?", "shutdown.quitClosed", "handleConnection.registered", "readLoop.decode",
	"sendLoop.send", "Disconnect.enter", "strand.enqueue", "strand.wait",
}

func pointID(name string) uint8 {
	switch name {
	case "shutdown.quitClosed":
		return 1
	case "handleConnection.registered":
		return 2
	case "readLoop.decode":
		return 3
	case "sendLoop.send":
		return 4
	case "Disconnect.enter":
		return 5
	case "strand.enqueue":
		return 6
	case "strand.wait":
		return 7
	}
	return 0
}

// Noise perturbs the schedule at verifPoint calls and records the order of points reached
type Noise struct {
	seed   uint64
	tick   int64
	order  []uint8
	hits   [8]int64
	yields int64
	sleeps int64
	spins  int64
	sink   int64
}

// NewNoise makes a noise source; the first keep points reached are recorded
func NewNoise(seed int64, keep int) *Noise {
	return &Noise{seed: uint64(seed), order: make([]uint8, keep)}
}

func mix(x uint64) uint64 {
	x += 0x9e3779b97f4a7c15
	x = (x ^ (x >> 30)) * 0xbf58476d1ce4e5b9
	x = (x ^ (x >> 27)) * 0x94d049bb133111eb
	return x ^ (x >> 31)
}

// Point is the function to install with gnet.VerifSetPoint / strand.VerifSetPoint
//
//go:norace
func (n *Noise) Point(name string) {
	id := pointID(name)
	t := Xadd(&n.tick, 1) - 1
	if t < int64(len(n.order)) {
		n.order[t] = id
	}
	Xadd(&n.hits[id], 1)
	h := mix(n.seed ^ uint64(t)*0x100000001b3 ^ uint64(id)<<56)
	switch k := h & 63; {
	case k < 14:
		Xadd(&n.yields, 1)
		runtime.Gosched()
	case k < 20:
		Xadd(&n.spins, 1)
		c := int64(100 + (h>>8)%4000)
		for i := int64(0); i < c; i++ {
			Xadd(&n.sink, 1)
		}
	case k < 25:
		Xadd(&n.sleeps, 1)
		time.Sleep(time.Duration(1+(h>>8)%60) * time.Microsecond)
	case k == 25 && (h>>6)&3 == 0:
		Xadd(&n.sleeps, 1)
		time.Sleep(time.Duration(200+(h>>8)%800) * time.Microsecond)
	}
}

// Order returns the recorded prefix of the point order
//
//go:norace
func (n *Noise) Order() []uint8 {
	t := Load(&n.tick)
	if t > int64(len(n.order)) {
		t = int64(len(n.order))
	}
	out := make([]uint8, t)
	copy(out, n.order[:t])
	return out
}

// Stats returns points reached per point id, and yields/spins/sleeps injected
//
//go:norace
func (n *Noise) Stats() (hits [8]int64, yields, spins, sleeps int64) {
	for i := range n.hits {
		hits[i] = Load(&n.hits[i])
	}
	return hits, Load(&n.yields), Load(&n.spins), Load(&n.sleeps)
}
