#include "textflag.h"

// func Xadd(p *int64, d int64) int64
// Atomic fetch-and-add that is invisible to the race detector (assembly is not
// instrumented), so that the harness's own bookkeeping does not create
// happens-before edges between the goroutines under observation.
TEXT ·Xadd(SB),NOSPLIT,$0-24
	MOVQ	p+0(FP), BX
	MOVQ	d+8(FP), AX
	MOVQ	AX, CX
	LOCK
	XADDQ	AX, 0(BX)
	ADDQ	CX, AX
	MOVQ	AX, ret+16(FP)
	RET

// func Load(p *int64) int64
TEXT ·Load(SB),NOSPLIT,$0-16
	MOVQ	p+0(FP), BX
	MOVQ	0(BX), AX
	MOVQ	AX, ret+8(FP)
	RET
