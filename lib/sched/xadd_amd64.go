//go:build amd64
// +build amd64

package sched

// Xadd atomically adds d to *p and returns the new value; not seen by the race detector
func Xadd(p *int64, d int64) int64

// Load reads *p; not seen by the race detector
func Load(p *int64) int64
