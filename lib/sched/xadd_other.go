//go:build !amd64
// +build !amd64

package sched

import "sync/atomic"

// Xadd falls back to sync/atomic on other architectures (adds happens-before edges under
// -race; the harness still works but masks more races)
func Xadd(p *int64, d int64) int64 { return atomic.AddInt64(p, d) }

// Load reads *p
func Load(p *int64) int64 { return atomic.LoadInt64(p) }
