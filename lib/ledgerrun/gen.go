package ledgerrun

import (
	"fmt"
	"math/big"
	"strings"

	"github.com/skycoin/skycoin/src/cipher"
	"github.com/skycoin/skycoin/src/coin"

	"verif/lib/fix"
	"verif/lib/ledger"
)

// txnPlan describes a generated transaction
type txnPlan struct {
	Txn   coin.Transaction
	Class string
	In    []coin.UxOut
}

func (h *H) randAddr() cipher.Address {
	return h.Chain.Keys[h.Rng.Intn(len(h.Chain.Keys))].Addr
}

// pickInputs chooses 1..k unspent outputs from the model, optionally avoiding locked owners
// and outputs already spent by pooled transactions
func (h *H) pickInputs(m *ledger.Model, k int, avoidLocked, avoidPooled bool) []coin.UxOut {
	all := sortedUtxo(m)
	pooled := map[cipher.SHA256]bool{}
	if avoidPooled {
		for _, e := range m.Pool {
			for _, in := range e.Txn.In {
				pooled[in] = true
			}
		}
	}
	var cand []coin.UxOut
	for _, ux := range all {
		if avoidLocked && m.P.Locked[ux.Body.Address] {
			continue
		}
		if pooled[ledger.UxID(ux)] {
			continue
		}
		cand = append(cand, ux)
	}
	if len(cand) == 0 {
		return nil
	}
	h.Rng.Shuffle(len(cand), func(i, j int) { cand[i], cand[j] = cand[j], cand[i] })
	if k > len(cand) {
		k = len(cand)
	}
	return cand[:k]
}

// splitCoins splits total into n positive parts, multiples of unit where possible
func (h *H) splitCoins(total uint64, n int, unit uint64) []uint64 {
	if n < 1 {
		n = 1
	}
	if unit == 0 {
		unit = 1
	}
	units := total / unit
	rem := total % unit
	if units < uint64(n) {
		n = int(units)
		if n == 0 {
			return []uint64{total}
		}
	}
	parts := make([]uint64, n)
	left := units
	for i := 0; i < n-1; i++ {
		maxv := left - uint64(n-1-i)
		var v uint64
		switch h.Rng.Intn(4) {
		case 0:
			v = 1
		case 1:
			v = maxv
		default:
			v = 1 + uint64(h.Rng.Int63n(int64(minU(maxv, 1<<62))))
			if v > maxv {
				v = maxv
			}
		}
		parts[i] = v * unit
		left -= v
	}
	parts[n-1] = left*unit + rem
	return parts
}

func minU(a, b uint64) uint64 {
	if a < b {
		return a
	}
	return b
}

// availableHours returns the summed accrued hours of the inputs at the model's head time if
// they fit in 64 bits (else 0, false)
func availableHours(m *ledger.Model, in []coin.UxOut) (uint64, bool) {
	t := new(big.Int)
	for _, ux := range in {
		a, cls := ledger.Accrued(ux, m.HeadTime())
		if cls != ledger.AccrualOK {
			return 0, false
		}
		t.Add(t, a)
	}
	if !ledger.Fits(t) {
		return 0, false
	}
	return t.Uint64(), true
}

// genTxn builds a transaction against the model's state. Classes:
// valid, zero-fee, low-fee, exact-fee, precision, locked, conflict (spends an input a pooled
// transaction spends), and hard-invalid kinds.
func (h *H) genTxn(m *ledger.Model) *txnPlan {
	x := h.Rng.Intn(100)
	if h.forceBig {
		x = 56 // zero-fee
	}
	class := "valid"
	switch {
	case x < 45:
		class = "valid"
	case x < 50:
		class = "exact-fee"
	case x < 55:
		class = "low-fee"
	case x < 59:
		class = "zero-fee"
	case x < 63:
		class = "precision"
	case x < 67:
		class = "locked"
	case x < 79:
		class = "conflict"
	case x < 82:
		class = "hard:coins-created"
	case x < 84:
		class = "hard:coins-destroyed"
	case x < 87:
		class = "hard:hours-created"
	case x < 90:
		class = "hard:bad-sig"
	case x < 92:
		class = "hard:spent-input"
	case x < 94:
		class = "hard:dup-output"
	case x < 96:
		class = "hard:out-hours-overflow"
	case x < 98:
		class = "null-address"
	default:
		class = "hard:zero-coin"
	}
	nIn := 1 + h.Rng.Intn(3)
	var in []coin.UxOut
	switch class {
	case "locked":
		// need an input owned by a locked address
		for _, ux := range sortedUtxo(m) {
			if m.P.Locked[ux.Body.Address] {
				in = append(in, ux)
				break
			}
		}
		if in == nil {
			class = "valid"
			in = h.pickInputs(m, nIn, true, true)
		}
	case "conflict":
		// reuse an input of a pooled transaction
		for _, ph := range m.PoolHashes() {
			e := m.Pool[ph]
			if ux, ok := m.Utxo[e.Txn.In[0]]; ok && !m.P.Locked[ux.Body.Address] {
				in = append(in, ux)
				break
			}
		}
		if in == nil {
			class = "valid"
			in = h.pickInputs(m, nIn, true, true)
		}
	case "zero-fee", "low-fee":
		// on the huge-volume chains: spend the largest spendable output. The transaction breaks
		// a soft rule, so it stays pooled, and the output's accrued hours stop being computable
		// in 64 bits once enough head time has passed: a pooled transaction that turns
		// hard-invalid by the passage of time alone (refresh / removal must see it)
		if h.Chain.Volume >= 1<<62 && (h.forceBig || h.Rng.Intn(2) == 0) {
			cand := h.pickInputs(m, 1<<20, true, true)
			var best *coin.UxOut
			for i := range cand {
				if best == nil || cand[i].Body.Coins > best.Body.Coins {
					best = &cand[i]
				}
			}
			if best != nil {
				if _, cls := ledger.Accrued(*best, m.HeadTime()); cls == ledger.AccrualOK {
					in = []coin.UxOut{*best}
					class += "/biggest-input"
					h.R.Count("gen.biggest-input", 1)
				}
			}
		}
		if in == nil {
			in = h.pickInputs(m, nIn, true, true)
		}
	default:
		in = h.pickInputs(m, nIn, true, true)
	}
	if len(in) == 0 {
		in = h.pickInputs(m, nIn, true, false)
		if len(in) == 0 {
			return nil
		}
	}
	var coins uint64
	for _, ux := range in {
		coins += ux.Body.Coins // cannot overflow: bounded by the supply
	}
	unit := uint64(1000)
	if h.Rng.Intn(6) == 0 {
		unit = 1000000
	}
	nOut := 1 + h.Rng.Intn(4)
	parts := h.splitCoins(coins, nOut, unit)
	hours, ok := availableHours(m, in)
	burn := uint64(m.P.User.BurnFactor)
	if m.P.Unconfirmed.BurnFactor > m.P.User.BurnFactor {
		burn = uint64(m.P.Unconfirmed.BurnFactor)
	}
	req := hours / burn
	if hours%burn != 0 {
		req++
	}
	var outHours uint64
	switch class {
	case "zero-fee":
		outHours = hours
	case "low-fee":
		if req > 1 {
			outHours = hours - (req - 1)
		} else {
			outHours = hours
		}
	case "exact-fee":
		outHours = hours - req
	default:
		if hours > 0 {
			outHours = hours - req
			if outHours > 0 && h.Rng.Intn(2) == 0 {
				outHours = uint64(h.Rng.Int63n(int64(minU(outHours, 1<<62)) + 1))
			}
		}
	}
	if !ok {
		outHours = 0
	}
	var outs []fix.Out
	hparts := h.splitCoins(outHours+uint64(len(parts)), len(parts), 1) // positive parts; subtract 1 each
	for i, c := range parts {
		hh := uint64(0)
		if i < len(hparts) {
			hh = hparts[i] - 1
		}
		outs = append(outs, fix.Out{Addr: h.randAddr(), Coins: c, Hours: hh})
	}
	switch class {
	case "precision":
		if len(outs) >= 2 && outs[0].Coins > 1 {
			outs[0].Coins--
			outs[1].Coins++
		} else if outs[0].Coins > 1 {
			outs[0].Coins--
			outs = append(outs, fix.Out{Addr: h.randAddr(), Coins: 1})
		}
	case "hard:coins-created":
		outs[0].Coins += 1 + uint64(h.Rng.Intn(1000))
	case "hard:coins-destroyed":
		if outs[0].Coins > 1 {
			outs[0].Coins--
		} else {
			class = "valid"
		}
	case "hard:hours-created":
		outs[0].Hours = outs[0].Hours + (hours - outHours) + 1
	case "hard:dup-output":
		if outs[0].Coins >= 2 {
			half := outs[0].Coins / 2
			rest := outs[0].Coins - half
			outs[0].Coins = half
			outs = append(outs, fix.Out{Addr: outs[0].Addr, Coins: half, Hours: outs[0].Hours})
			if rest != half {
				outs = append(outs, fix.Out{Addr: h.randAddr(), Coins: rest - half})
			}
		}
	case "hard:out-hours-overflow":
		outs[0].Hours = ^uint64(0)
		outs = append(outs, fix.Out{Addr: h.randAddr(), Coins: 0, Hours: 2})
		// give the extra output a coin: take one droplet-unit from output 0 if possible
		if outs[0].Coins > 1 {
			outs[0].Coins--
			outs[len(outs)-1].Coins = 1
		}
	case "hard:zero-coin":
		outs = append(outs, fix.Out{Addr: h.randAddr(), Coins: 0, Hours: 0})
	case "null-address":
		outs[0].Addr = cipher.Address{}
	case "hard:spent-input":
		if len(h.Spent) > 0 {
			sp := h.Spent[h.Rng.Intn(len(h.Spent))]
			if _, live := m.Utxo[ledger.UxID(sp)]; !live {
				in = append(in, sp)
				outs[0].Coins += sp.Body.Coins
			}
		}
	}
	// any class may also be oversized (more bytes than the transaction size limit: a soft rule);
	// a hard fault stays a hard fault however large the transaction is
	overP := 3
	if strings.HasPrefix(class, "hard:") {
		overP = 15
	}
	if class == "hard:out-hours-overflow" {
		overP = 50
	}
	if h.Rng.Intn(100) < overP && class != "hard:dup-output" && outs[0].Coins > 500000 {
		for i := 0; i < 900; i++ {
			outs[0].Coins -= uint64(i + 1)
			outs = append(outs, fix.Out{Addr: h.randAddr(), Coins: uint64(i + 1)})
		}
		class += "+oversize"
		h.R.Count("gen.oversize", 1)
	}
	t := h.Chain.MakeTxn(in, outs)
	if strings.HasPrefix(class, "hard:bad-sig") {
		switch h.Rng.Intn(3) {
		case 0:
			t.Sigs[0][h.Rng.Intn(64)] ^= 1 << uint(h.Rng.Intn(8))
		case 1:
			// signed by a key that does not own the input
			other := h.Chain.Keys[h.Rng.Intn(len(h.Chain.Keys))]
			if other.Addr != in[0].Body.Address {
				t.Sigs[0] = cipher.MustSignHash(cipher.AddSHA256(t.InnerHash, t.In[0]), other.Sec)
			}
		default:
			t.Sigs[0] = cipher.Sig{}
		}
	}
	return &txnPlan{Txn: t, Class: class, In: in}
}

// genValidTxns builds up to n mutually non-conflicting transactions valid for a block on top of
// the model's head (fees non-zero, precision respected)
func (h *H) genValidTxns(m *ledger.Model, n int) coin.Transactions {
	var txns coin.Transactions
	used := map[cipher.SHA256]bool{}
	all := sortedUtxo(m)
	h.Rng.Shuffle(len(all), func(i, j int) { all[i], all[j] = all[j], all[i] })
	idx := 0
	for len(txns) < n && idx < len(all) {
		k := 1 + h.Rng.Intn(3)
		var in []coin.UxOut
		for idx < len(all) && len(in) < k {
			ux := all[idx]
			idx++
			if used[ledger.UxID(ux)] {
				continue
			}
			if _, owned := h.Chain.KeyFor(ux.Body.Address); !owned {
				// e.g. an output paid to the null address: nobody can sign for it
				continue
			}
			_, cls := ledger.Accrued(ux, m.HeadTime())
			if cls == ledger.AccrualIntermediateOverflow {
				// the node cannot compute this output's hours at all; a block spending it is refused
				continue
			}
			if cls == ledger.AccrualFinalOverflow {
				// documented legacy exception: counts as zero hours; spend it alone
				if len(in) == 0 {
					in = append(in, ux)
					h.R.Count("gen.legacy-overflow-input", 1)
				}
				break
			}
			in = append(in, ux)
		}
		if len(in) == 0 {
			break
		}
		var coins uint64
		for _, ux := range in {
			coins += ux.Body.Coins
			used[ledger.UxID(ux)] = true
		}
		hours, ok := availableHours(m, in)
		if !ok && len(in) > 1 {
			// the sum of the inputs' hours does not fit: spend only the first
			in = in[:1]
			coins = in[0].Body.Coins
			hours, ok = availableHours(m, in)
		}
		var outHours uint64
		if ok && hours > 0 {
			outHours = hours / 2
		}
		parts := h.splitCoins(coins, 1+h.Rng.Intn(3), 1000)
		var outs []fix.Out
		off := h.Rng.Intn(len(h.Chain.Keys))
		for i, c := range parts {
			hh := uint64(0)
			if i == 0 {
				hh = outHours
			}
			// distinct addresses, so that no two outputs are identical
			outs = append(outs, fix.Out{Addr: h.Chain.Keys[(off+i)%len(h.Chain.Keys)].Addr, Coins: c, Hours: hh})
		}
		txns = append(txns, h.Chain.MakeTxn(in, outs))
	}
	return txns
}

// blockFee sums the model fees of the transactions (0 if any is not computable)
func blockFee(m *ledger.Model, txns coin.Transactions) uint64 {
	var total uint64
	for i := range txns {
		f, ok := m.Fee(&txns[i])
		if !ok {
			return 0
		}
		total += f
	}
	return total
}

// stepInjectTie injects two transactions of equal size and equal fee (hence equal fee-per-kB
// priority) into the publisher's pool, so that the hash tie-break of block creation is exercised
func (h *H) stepInjectTie() {
	m := h.Pub.M
	cand := h.pickInputs(m, 8, true, true)
	// If no pair of outputs with comparable hours exists, make twins first: one harness-built block
	// whose transaction pays two equal outputs (same coins, same hours) to two addresses; a later
	// tie step then spends them with equal fees.
	if h.sameHead() && h.Rng.Intn(2) == 0 {
		for _, ux := range cand {
			if _, ok := h.Chain.KeyFor(ux.Body.Address); !ok {
				continue
			}
			hrs, ok := availableHours(m, []coin.UxOut{ux})
			if !ok || hrs < 1000 || ux.Body.Coins < 4000 || ux.Body.Coins%2000 != 0 {
				continue
			}
			half := ux.Body.Coins / 2
			t := h.Chain.MakeTxn([]coin.UxOut{ux}, []fix.Out{
				{Addr: h.Chain.Keys[4].Addr, Coins: half, Hours: hrs / 4},
				{Addr: h.Chain.Keys[5].Addr, Coins: half, Hours: hrs / 4},
			})
			when := h.nextTime()
			b := h.Chain.SignBlock(rawBlock(h.Fol.M, when, coin.Transactions{t}))
			h.log("twin outputs block")
			if h.offer(h.Fol, b, "direct") {
				h.OldBlk = append(h.OldBlk, b)
				h.noteSpent(h.Fol.M, b)
				if !h.offer(h.Pub, b, "direct") {
					h.Anomaly("publisher-rejects-direct-block", "twins "+h.lastRejectErr)
				}
				h.R.Count("inject.twin_blocks", 1)
			}
			h.checkAll("twins")
			return
		}
	}
	burn := uint64(m.P.Unconfirmed.BurnFactor)
	if uint64(m.P.CreateBlock.BurnFactor) > burn {
		burn = uint64(m.P.CreateBlock.BurnFactor)
	}
	if uint64(m.P.User.BurnFactor) > burn {
		burn = uint64(m.P.User.BurnFactor)
	}
	for i := 0; i < len(cand); i++ {
		for j := i + 1; j < len(cand); j++ {
			a, b := cand[i], cand[j]
			if _, ok := h.Chain.KeyFor(a.Body.Address); !ok {
				continue
			}
			if _, ok := h.Chain.KeyFor(b.Body.Address); !ok {
				continue
			}
			ha, oka := availableHours(m, []coin.UxOut{a})
			hb, okb := availableHours(m, []coin.UxOut{b})
			if !oka || !okb || ha == 0 || hb == 0 {
				continue
			}
			f := (ha + burn - 1) / burn
			if g := (hb + burn - 1) / burn; g > f {
				f = g
			}
			if f > ha || f > hb || a.Body.Coins%1000 != 0 || b.Body.Coins%1000 != 0 {
				continue
			}
			ta := h.Chain.MakeTxn([]coin.UxOut{a}, []fix.Out{{Addr: h.randAddr(), Coins: a.Body.Coins, Hours: ha - f}})
			tb := h.Chain.MakeTxn([]coin.UxOut{b}, []fix.Out{{Addr: h.randAddr(), Coins: b.Body.Coins, Hours: hb - f}})
			h.R.Count("inject.tie_pairs", 1)
			h.inject(h.Pub, ta, "tie-a", true)
			h.inject(h.Pub, tb, "tie-b", true)
			return
		}
	}
}

// stepInjectConflictFan injects a multi-input transaction A(u0,u1,..) together with single-input
// transactions B(u0), C(u1), .. that each conflict with A but not with each other, with fees
// chosen so that A ranks first or last. Block creation must keep either A alone or the others.
func (h *H) stepInjectConflictFan() {
	m := h.Pub.M
	n := 2 + h.Rng.Intn(2)
	var in []coin.UxOut
	for _, ux := range h.pickInputs(m, 12, true, true) {
		if _, ok := h.Chain.KeyFor(ux.Body.Address); !ok {
			continue
		}
		if hrs, ok := availableHours(m, []coin.UxOut{ux}); !ok || hrs < 8 || ux.Body.Coins%1000 != 0 {
			continue
		}
		in = append(in, ux)
		if len(in) == n {
			break
		}
	}
	if len(in) < 2 {
		return
	}
	aFirst := h.Rng.Intn(2) == 0
	total, _ := availableHours(m, in)
	var coins uint64
	for _, ux := range in {
		coins += ux.Body.Coins
	}
	// fee share: burn half (high priority) or the minimum tenth (low priority)
	outA := total / 2
	if !aFirst {
		outA = total - (total+4)/5
	}
	a := h.Chain.MakeTxn(in, []fix.Out{{Addr: h.randAddr(), Coins: coins, Hours: outA}})
	h.R.Count("inject.conflict_fans", 1)
	h.inject(h.Pub, a, "fan-a", true)
	for i, ux := range in {
		hrs, _ := availableHours(m, []coin.UxOut{ux})
		out := hrs - (hrs+4)/5
		if !aFirst {
			out = hrs / 2
		}
		t := h.Chain.MakeTxn([]coin.UxOut{ux}, []fix.Out{{Addr: h.Chain.Keys[i%len(h.Chain.Keys)].Addr, Coins: ux.Body.Coins, Hours: out}})
		h.inject(h.Pub, t, "fan-leaf", true)
	}
}

func describeTxn(t *coin.Transaction) string {
	return fmt.Sprintf("txn %s in=%d out=%d", ledger.TxnHash(t).Hex()[:12], len(t.In), len(t.Out))
}
