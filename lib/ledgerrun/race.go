package ledgerrun

import (
	"encoding/json"
	"fmt"
	"io/ioutil"
	"os"
	"path/filepath"
	"strings"
	"time"

	"verif/lib/sched"
	"verif/lib/vf"
)

// Race leg (C02 run): a few histories, every one with concurrent read-only clients, are executed by
// the same package built with the race detector (binary c02race). A report whose two innermost
// attributed frames lie in the node's ledger packages is a violation: the unspent set is then read
// and written without synchronisation. What the child's monitors observed comes back as counters.

var ledgerPkgs = []string{
	"github.com/skycoin/skycoin/src/visor",
	"github.com/skycoin/skycoin/src/visor/blockdb",
	"github.com/skycoin/skycoin/src/visor/historydb",
	"github.com/skycoin/skycoin/src/visor/dbutil",
	"github.com/skycoin/skycoin/src/coin",
	"github.com/skycoin/skycoin/src/transaction",
	"github.com/skycoin/skycoin/src/params",
	"github.com/skycoin/skycoin/src/cipher",
	"github.com/skycoin/skycoin/src/cipher/encoder",
}

type raceChildResult struct {
	Finished  bool             `json:"finished"`
	Histories int64            `json:"histories"`
	Steps     int64            `json:"steps"`
	Reads     int64            `json:"reads"`
	Observed  map[string]int64 `json:"observed"`
	Panics    int64            `json:"panics"`
}

// raceChild is Main in the race-instrumented child
func raceChild(prop string) {
	r := vf.Start(prop, "exploration")
	nHist, nSteps := 4, 40
	fmt.Sscan(os.Getenv("VERIF_HISTORIES"), &nHist)
	fmt.Sscan(os.Getenv("VERIF_STEPS"), &nSteps)
	root := vf.TempDir("ledger-race-" + prop)
	vf.Parallel(nHist, 4, func(i int) {
		dir := filepath.Join(root, fmt.Sprint(i))
		_ = os.MkdirAll(dir, 0755)
		h, err := NewHistory(r, prop, 1000+i, dir)
		if err != nil {
			return
		}
		h.quiet = true
		h.allReaders = true
		panicked, msg, frame := vf.Recover(func() { h.Run(nSteps) })
		if panicked {
			r.Count("panics", 1)
			r.Count("observed.panic."+frame+": "+msg, 1)
		}
		r.Count("histories", 1)
		h.Close()
		_ = os.RemoveAll(dir)
	})
	_ = os.RemoveAll(root)
	res := raceChildResult{Finished: true, Histories: r.Get("histories"), Steps: r.Evals(), Reads: r.Get("readers.reads"), Observed: map[string]int64{}, Panics: r.Get("panics")}
	for k, v := range r.Counts() {
		if strings.HasPrefix(k, "observed.") && !strings.HasPrefix(k, "observed.valid-block-rejected") {
			res.Observed[k] = v
		}
	}
	b, _ := json.Marshal(res)
	_ = ioutil.WriteFile(os.Getenv("VERIF_RACE_OUT"), b, 0644)
	os.Exit(0)
}

// raceLeg runs the child and reads its reports
func raceLeg(r *vf.Run, prop string) {
	bin := filepath.Join(os.Getenv("VERIF_BIN"), "c02race")
	if _, err := os.Stat(bin); err != nil {
		r.Inconclusive("race-instrumented binary " + bin + " not found (run through ./check)")
		return
	}
	dir := vf.TempDir("ledger-race-parent")
	defer os.RemoveAll(dir)
	sched.RepoDir = vf.RepoDir()
	out := filepath.Join(dir, "result.json")
	env := []string{
		"VERIF_RACE_OUT=" + out,
		fmt.Sprintf("VERIF_HISTORIES=%d", r.Pick(4, 16)),
		fmt.Sprintf("VERIF_STEPS=%d", r.Pick(30, 80)),
		"GORACE=log_path=" + filepath.Join(dir, "race") + " halt_on_error=0 exitcode=0",
	}
	// the timeout is a watchdog: it can only make the run inconclusive
	child := vf.RunChild(dir, bin, "race", []string{"-tier", r.Tier}, env, time.Duration(r.Pick(1200, 3600))*time.Second)
	text := ""
	files, _ := filepath.Glob(filepath.Join(dir, "race.*"))
	for _, f := range files {
		b, _ := ioutil.ReadFile(f)
		text += string(b) + "\n"
	}
	if strings.Contains(string(child.Stderr), "WARNING: DATA RACE") {
		text += string(child.Stderr)
	}
	r.Count("race.reports", 0)
	if child.TimedOut {
		r.Inconclusive("race child timed out")
		return
	}
	if head, frame := vf.CrashSignature(child.Stderr); head != "" {
		r.Violation("panic", map[string]string{"leg": "race-build", "frame": frame, "msg": head}, map[string]interface{}{"frames": vf.FirstFrames(child.Stderr, 8), "exit": child.ExitCode})
		return
	}
	var res raceChildResult
	if b, err := ioutil.ReadFile(out); err != nil || json.Unmarshal(b, &res) != nil || !res.Finished {
		stderr := string(child.Stderr)
		if len(stderr) > 600 {
			stderr = stderr[:600]
		}
		r.Inconclusive(fmt.Sprintf("race child did not finish (exit %d): %s", child.ExitCode, stderr))
		return
	}
	r.Count("race.child_wall_s", int64(child.Wall.Seconds()))
	r.Count("race.histories", res.Histories)
	r.Count("race.steps", res.Steps)
	r.Count("race.reads", res.Reads)
	for k, v := range res.Observed {
		// what the child's monitors saw for the property decided here counts here too
		r.Count("race."+k, v)
		if strings.HasPrefix(k, "observed."+prop+".") || strings.HasPrefix(k, "observed.panic.") {
			r.Violation("race-build:"+strings.TrimPrefix(k, "observed."), map[string]string{"leg": "race-build", "count": fmt.Sprint(v)}, res.Observed)
		}
	}
	seen := map[string]bool{}
	for _, rep := range sched.ParseRaceReports(text, ledgerPkgs) {
		r.Count("race.reports", 1)
		r.Count("race.reports."+rep.Class, 1)
		if seen[rep.Key] {
			continue
		}
		seen[rep.Key] = true
		txt := rep.Text
		if len(txt) > 3000 {
			txt = txt[:3000]
		}
		if rep.Class != "product" {
			r.Inconclusive("race report not attributable to the ledger packages (" + rep.Class + ", " + rep.Pair + "): " + txt[:min(len(txt), 1200)])
			continue
		}
		r.Violation("data-race", map[string]string{"leg": "race-build", "pair": rep.Pair}, map[string]string{"pair": rep.Pair, "ops": rep.Ops[0] + " / " + rep.Ops[1], "report": txt})
	}
	r.Floor("race.histories", 2)
	r.Floor("race.reads", 1000)
}
