// Package ledgerrun drives real publisher/follower visors through generated histories while the
// shadow ledger (lib/ledger) monitors every step. One workload serves C01-C07; the property
// given to Main decides which classes of refuting observations count for the verdict.
package ledgerrun

import (
	"fmt"
	"math/rand"
	"os"
	"path/filepath"
	"sort"
	"sync"

	"github.com/skycoin/skycoin/src/cipher"
	"github.com/skycoin/skycoin/src/coin"
	"github.com/skycoin/skycoin/src/params"
	"github.com/skycoin/skycoin/src/visor"

	"verif/lib/fix"
	"verif/lib/ledger"
	"verif/lib/vf"
)

// Mon is a node together with its shadow ledger
type Mon struct {
	Name string
	N    *fix.Node
	M    *ledger.Model
	Arb  bool
	// an earlier state of the node's address index (rows, recorded height) for rebuild mode 3
	oldIdxK, oldIdxV [][]byte
	oldIdxH          []byte
}

// H is one history being executed
type H struct {
	R             *vf.Run
	Prop          string
	ID            string
	Rng           *rand.Rand
	Chain         *fix.Chain
	Dir           string
	Pub           *Mon
	Fol           *Mon
	Now           uint64
	Wild          bool // wild time gaps / boundary amounts
	Steps         []string
	Spent         []coin.UxOut // some outputs known to be spent (for forgeries)
	OldBlk        []coin.SignedBlock
	mu            *sync.Mutex
	cfgIdx        int
	views         bool
	lastRejectErr string
	diverged      bool
	Mir           *Mon // arbitrating mirror of the follower (mirror.go)
	mirStale      bool
	readers       *readerSet
	idx           int
	realClock     bool
	forceBig      bool // next generated transaction: zero-fee spend of the largest output
	quiet         bool // race child: refuting observations are only counted
	allReaders    bool
}

func vp(p params.VerifyTxn) ledger.VerifyParams {
	return ledger.VerifyParams{BurnFactor: p.BurnFactor, MaxTxnSize: p.MaxTransactionSize, MaxPrecision: p.MaxDropletPrecision}
}

func (h *H) modelParams() ledger.Params {
	return ledger.Params{
		Volume:      h.Chain.Volume,
		Publisher:   h.Chain.Publisher.Pub,
		Locked:      h.Chain.LockedAddrs(),
		Unconfirmed: vp(h.Chain.Unconfirmed),
		CreateBlock: vp(h.Chain.CreateBlock),
		User:        vp(params.UserVerifyTxn),
		MaxBlock:    h.Chain.MaxBlock,
	}
}

// Owns reports whether a refuting observation of property p counts in this run
func (h *H) Owns(p string) bool { return p == h.Prop }

// Viol reports a refuting observation owned by property prop
func (h *H) Viol(prop, kind string, attrs map[string]string, witness interface{}) {
	h.R.Count("observed."+prop+"."+kind, 1)
	if !h.Owns(prop) || h.quiet {
		return
	}
	if attrs == nil {
		attrs = map[string]string{}
	}
	attrs["history"] = h.ID
	attrs["step"] = fmt.Sprint(len(h.Steps))
	h.R.Violation(kind, attrs, map[string]interface{}{
		"history": h.ID, "config": h.cfgIdx, "steps": h.Steps, "detail": witness,
	})
}

// Anomaly records a disagreement that is not a violation of the decided property but means the
// model and the tree no longer match (reported as inconclusive)
func (h *H) Anomaly(kind string, detail string) {
	h.R.Count("anomaly."+kind, 1)
	h.R.Inconclusive(fmt.Sprintf("anomaly %s in history %s step %d: %s", kind, h.ID, len(h.Steps), detail))
}

func (h *H) log(s string) {
	h.Steps = append(h.Steps, s)
	if len(h.Steps) > 400 {
		h.Steps = h.Steps[len(h.Steps)-400:]
	}
}

// Configs: genesis volume variants
var volumes = []struct {
	name   string
	volume uint64
	nDist  int
}{
	{"mainnet-100e12", 100000000000000, 4},
	{"tiny-1000e6", 1000000000, 4},
	{"2^63+2^20", 1<<63 + 1<<20, 4},
	{"2^64-1", ^uint64(0), 3},
}

// NewHistory sets up publisher and follower on fresh files
func NewHistory(r *vf.Run, prop string, idx int, dir string) (*H, error) {
	rng := r.Rand("history", idx)
	cfg := idx % len(volumes)
	v := volumes[cfg]
	h := &H{R: r, Prop: prop, ID: fmt.Sprintf("seed%d-h%d", r.Seed, idx), Rng: rng, Dir: dir, cfgIdx: cfg}
	h.Chain = fix.NewChain(h.ID, v.volume, 7, v.nDist, 2)
	h.Wild = (idx/len(volumes))%3 == 2
	// block size limits cycle over the minimum allowed and a larger one
	if (idx/len(volumes))%2 == 1 {
		h.Chain.MaxBlock = 64 * 1024
	}
	if idx%5 == 3 {
		h.Chain.Unconfirmed.BurnFactor = 20
		h.Chain.Unconfirmed.MaxDropletPrecision = 6
		h.Chain.CreateBlock.BurnFactor = 15
		h.Chain.CreateBlock.MaxDropletPrecision = 5
	}
	h.Now = h.Chain.Timestamp
	pn, err := h.Chain.Open(filepath.Join(dir, "pub.db"), true, true)
	if err != nil {
		return nil, fmt.Errorf("open publisher: %v", err)
	}
	fn, err := h.Chain.Open(filepath.Join(dir, "fol.db"), false, false)
	if err != nil {
		return nil, fmt.Errorf("open follower: %v", err)
	}
	h.Pub = &Mon{Name: "pub", N: pn, M: ledger.New(h.modelParams()), Arb: true}
	h.Fol = &Mon{Name: "fol", N: fn, M: ledger.New(h.modelParams())}
	for _, m := range []*Mon{h.Pub, h.Fol} {
		g, err := m.N.V.GetSignedBlockBySeq(0)
		if err != nil || g == nil {
			return nil, fmt.Errorf("genesis missing on %s: %v", m.Name, err)
		}
		m.M.ApplyGenesis(*g)
	}
	h.idx = idx
	if err := h.openMirror(); err != nil {
		return nil, fmt.Errorf("open mirror: %v", err)
	}
	return h, nil
}

// Close closes both nodes
func (h *H) Close() {
	h.stopReaders()
	h.Pub.N.Close()
	h.Fol.N.Close()
	if h.Mir != nil {
		h.Mir.N.Close()
	}
}

// Main is the entry point shared by cmd/c01..c07
func Main(prop string) {
	fix.Quiet()
	if vf.ChildMode() == "race" {
		raceChild(prop)
		return
	}
	r := vf.Start(prop, "exploration")
	nHist := r.Pick(48, 192)
	nSteps := r.Pick(80, 300)
	if v := os.Getenv("VERIF_HISTORIES"); v != "" {
		fmt.Sscan(v, &nHist)
	}
	if v := os.Getenv("VERIF_STEPS"); v != "" {
		fmt.Sscan(v, &nSteps)
	}
	root := vf.TempDir("ledger-" + prop)
	defer os.RemoveAll(root)
	if prop == "C03" {
		coinHoursLeg(r)
	}
	vf.Parallel(nHist, 16, func(i int) {
		dir := filepath.Join(root, fmt.Sprint(i))
		_ = os.MkdirAll(dir, 0755)
		h, err := NewHistory(r, prop, i, dir)
		if err != nil {
			r.Inconclusive(fmt.Sprintf("history %d setup: %v", i, err))
			return
		}
		panicked, msg, frame := vf.Recover(func() { h.Run(nSteps) })
		if panicked {
			// a panic inside the node while processing harness input
			h.R.Count("panics", 1)
			h.R.Violation("panic", map[string]string{"frame": frame, "msg": msg, "history": h.ID}, map[string]interface{}{"steps": h.Steps, "msg": msg, "frame": frame})
		}
		r.Count("histories", 1)
		r.Distinct("hist:" + h.ID + fmt.Sprint(len(h.Pub.M.Blocks), len(h.Fol.M.Blocks), len(h.Pub.M.Utxo)))
		if i < 2 {
			tail := h.Steps
			if len(tail) > 25 {
				tail = tail[:25]
			}
			r.Sample(map[string]interface{}{"history": h.ID, "config": volumes[h.cfgIdx].name, "first_steps": tail, "blocks": len(h.Pub.M.Blocks)})
		}
		h.Close()
		_ = os.RemoveAll(dir)
	})
	_ = os.RemoveAll(root) // Finish exits the process; deferred calls would not run
	if prop == "C02" {
		raceLeg(r, prop)
	}
	setFloors(r, prop)
	r.Finish(ruleText(prop), assumptions(prop)...)
}

func ruleText(prop string) string {
	return "Seeded histories (few keys, many conflicts) over real publisher+follower visors on bolt files (plus an arbitrating mirror node and concurrent read-only clients): user/foreign transaction injections (valid, soft-invalid, hard-invalid, conflicting), publisher block creation, harness-signed direct blocks, forged blocks (one targeted rule broken, validly signed), replays/duplicates/skip-ahead, pool refresh/remove-invalid, reopen. After every step the shadow ledger (math/big, own encodings, textbook secp256k1) is compared with the node. evaluations = steps executed; distinct_nontrivial = distinct (history, final state) plus distinct forged/mutation classes observed rejected and distinct transaction classes admitted. Property decided here: " + prop
}

func assumptions(prop string) []string {
	return []string{
		"the shadow ledger (lib/ledger) states the rules correctly; it was written from the property statements and shares only plain data structs and SHA-256/RIPEMD-160 with the code under test",
		"forged blocks are submitted to a non-arbitrating follower (decision judged) and to an arbitrating mirror node (decision not judged; what it stored is judged against its own shadow ledger); the arbitrating publisher only receives its own and harness-built valid blocks",
		"concurrent read-only clients run beside the history in a deterministic subset of histories; their interleaving with block execution is not controlled (counters readers.reads show how many overlapped)",
		"block-level output-hours wrap (documented legacy rule) is recorded, not asserted",
		"held on the executions produced; not a proof",
	}
}

func setFloors(r *vf.Run, prop string) {
	r.Floor("histories", 1)
	r.Floor("blocks.accepted.fol", 10)
	r.Floor("blocks.accepted.pub", 10)
	r.Floor("inject.admitted", 20)
	r.Floor("mirror.accepted", 10)
	r.Floor("gen.oversize", 5)
	r.Floor("publish.real-entry-point", 4)
	switch prop {
	case "C01":
		r.Floor("forge.rejected.coins-created", 1)
		r.Floor("forge.rejected.coins-destroyed", 1)
		r.Floor("forge.rejected.coins-wrap", 1)
		r.Floor("forge.rejected.coins-wrap-early", 1)
		r.Floor("forge.rejected.zero-coin", 1)
		r.Floor("check.supply", 100)
		r.Floor("mirror.arbitrated", 1)
	case "C02":
		r.Floor("forge.rejected.dup-input", 1)
		r.Floor("forge.rejected.double-spend-in-block", 1)
		r.Floor("forge.rejected.spend-spent", 1)
		r.Floor("forge.rejected.spend-same-block", 1)
		r.Floor("check.utxo", 100)
		r.Floor("readers.reads", 10000)
	case "C03":
		r.Floor("forge.rejected.hours-created", 1)
		r.Floor("forge.rejected.hours-created-beside-overflow-input", 1)
		r.Floor("check.hours.txn", 20)
	case "C04":
		r.Floor("probe.families", 4)
		r.Floor("probe.rejected", 100)
		r.Floor("probe.control.accepted", 4)
		r.Floor("publish.wrong-key.refused", 2)
		r.Floor("forge.signature-to-publisher", 10)
	case "C05":
		r.Floor("publish.blocks", 20)
		r.Floor("publish.conflict_dropped", 3)
		r.Floor("publish.fee_ties", 1)
	case "C06":
		r.Floor("pool.refresh", 5)
		r.Floor("pool.remove_invalid", 5)
		r.Floor("pool.flip.to_invalid", 2)
		r.Floor("pool.removed", 2)
	case "C07":
		r.Floor("views.sweeps", 20)
		r.Floor("views.rebuild", 1)
		r.Floor("views.rebuild.mode3", 10)
	}
}

// ---------------------------------------------------------------------------------

// Run executes nSteps steps
func (h *H) Run(nSteps int) {
	h.views = h.Prop == "C07"
	h.checkAll("init")
	// concurrent read-only clients: every history of the C02 run, every fourth one elsewhere
	if h.allReaders {
		h.startReaders(2)
		defer h.stopReaders()
	} else if h.Prop == "C02" || h.idx%4 == 1 {
		h.startReaders(2)
		defer h.stopReaders()
	}
	for s := 0; s < nSteps; s++ {
		h.R.Eval(1)
		h.resyncMirror()
		h.publishIDs()
		if h.Prop == "C07" && (s == nSteps/4 || s == nSteps/2 || s == 3*nSteps/4) {
			// more index rebuilds when the views are decided: the second and third find an
			// earlier index state to fall back to
			if s == nSteps/2 && h.Mir != nil && !h.mirStale {
				// the arbitrating node's derived data too
				h.stepReopen(h.Mir)
			} else {
				h.stepReopen(h.pick())
			}
		}
		h.step()
		if h.R.Violations() > 20 {
			return
		}
	}
	h.finalRealPublish()
	// end of history: the node's own verification must pass on the follower's file
	h.checkDatabase(h.Fol)
	h.checkDatabase(h.Pub)
}

func (h *H) step() {
	x := h.Rng.Intn(100)
	if h.Prop == "C05" && h.Rng.Intn(8) == 0 {
		// the property under decision is about conflict handling: more conflict structures
		if h.Rng.Intn(2) == 0 {
			h.stepInjectConflictFan()
		} else {
			h.stepInjectTie()
		}
		h.stepPublish()
		return
	}
	if h.Wild && h.Chain.Volume >= 1<<62 && h.Rng.Intn(5) == 0 {
		// a long-lived pooled spend of a huge output, ahead of the wild time gaps (see genTxn)
		h.forceBig = true
		h.stepInject(h.Pub, true)
		h.forceBig = false
		return
	}
	switch {
	case x < 3:
		h.stepInjectTie()
	case x < 6:
		h.stepInjectConflictFan()
	case x < 30:
		h.stepInject(h.Pub, h.Rng.Intn(3) == 0)
	case x < 36:
		h.stepInject(h.Fol, true)
	case x < 56:
		h.stepPublish()
	case x < 64:
		h.stepDirectBlock()
	case x < 78:
		h.stepForge()
	case x < 82:
		h.stepReplay()
	case x < 88:
		h.stepRefresh(h.pick())
	case x < 94:
		h.stepRemoveInvalid(h.pick())
	case x < 97:
		h.stepReopen(h.pick())
	default:
		if h.Rng.Intn(5) == 0 {
			h.stepWrongKeyPublish()
		} else if h.Prop == "C04" || h.Rng.Intn(4) == 0 {
			h.stepProbe()
		} else {
			h.stepPublish()
		}
	}
}

func (h *H) pick() *Mon {
	if h.Rng.Intn(2) == 0 {
		return h.Pub
	}
	return h.Fol
}

// nextTime advances the harness clock
func (h *H) nextTime() uint64 {
	gaps := []uint64{1, 10, 59 * 60, 3600, 3601, 86400, 7 * 86400}
	g := gaps[h.Rng.Intn(len(gaps))]
	if h.Wild && h.Rng.Intn(6) == 0 {
		wild := []uint64{1 << 25, 1 << 32, 1 << 40, 1 << 50}
		g = wild[h.Rng.Intn(len(wild))]
	}
	head := h.Pub.M.HeadTime()
	if h.Fol.M.HeadTime() > head {
		head = h.Fol.M.HeadTime()
	}
	if h.Now < head {
		h.Now = head
	}
	if h.Now > ^uint64(0)-g-1 {
		return h.Now + 1
	}
	h.Now += g
	return h.Now
}

// ---------------------------------------------------------------------------------
// Monitors run after every step

func (h *H) checkAll(after string) {
	for _, m := range []*Mon{h.Pub, h.Fol} {
		h.checkState(m, after)
	}
}

func (h *H) checkState(m *Mon, after string) {
	uxs, err := m.N.V.GetAllUnspentOutputs()
	if err != nil {
		h.Anomaly("get-unspent", err.Error())
		return
	}
	// C01: supply
	h.R.Count("check.supply", 1)
	total := ledger.TotalBig(uxs)
	if total.Cmp(ledger.BigU(h.Chain.Volume)) != 0 {
		h.Viol("C01", "supply", map[string]string{"node": m.Name, "after": after, "total": total.String(), "volume": fmt.Sprint(h.Chain.Volume)}, nil)
	}
	// C02: unspent set equality (full values, head fields included)
	h.R.Count("check.utxo", 1)
	if len(uxs) != len(m.M.Utxo) {
		h.Viol("C02", "utxo-size", map[string]string{"node": m.Name, "after": after, "node_n": fmt.Sprint(len(uxs)), "model_n": fmt.Sprint(len(m.M.Utxo))}, nil)
	} else {
		for _, ux := range uxs {
			mu, ok := m.M.Utxo[ledger.UxID(ux)]
			if !ok || mu != ux {
				h.Viol("C02", "utxo-diff", map[string]string{"node": m.Name, "after": after, "ux": ledger.UxID(ux).Hex()}, ux)
				break
			}
		}
	}
	meta, err := m.N.V.GetBlockchainMetadata()
	if err == nil && meta != nil {
		if meta.Unspents != uint64(len(m.M.Utxo)) {
			h.Viol("C02", "meta-unspents", map[string]string{"node": m.Name, "after": after}, nil)
		}
		if meta.HeadBlock.Head.BkSeq != m.M.Head().Head.BkSeq {
			h.Viol("C04", "head-seq", map[string]string{"node": m.Name, "after": after, "node_seq": fmt.Sprint(meta.HeadBlock.Head.BkSeq), "model_seq": fmt.Sprint(m.M.Head().Head.BkSeq)}, nil)
		}
	}
	// C06: pool equality
	h.checkPool(m, after)
	if h.views && h.Rng.Intn(3) == 0 {
		h.checkViews(m, after)
	}
}

func (h *H) checkPool(m *Mon, after string) {
	utxs, err := m.N.V.GetAllUnconfirmedTransactions()
	if err != nil {
		h.Anomaly("get-pool", err.Error())
		return
	}
	h.R.Count("check.pool", 1)
	if len(utxs) != len(m.M.Pool) {
		h.Viol("C06", "pool-size", map[string]string{"node": m.Name, "after": after, "node_n": fmt.Sprint(len(utxs)), "model_n": fmt.Sprint(len(m.M.Pool))}, nil)
		return
	}
	for _, u := range utxs {
		t := u.Transaction
		e, ok := m.M.Pool[ledger.TxnHash(&t)]
		if !ok {
			h.Viol("C06", "pool-diff", map[string]string{"node": m.Name, "after": after}, nil)
			return
		}
		if (u.IsValid == 1) != e.Valid {
			h.Viol("C06", "pool-flag", map[string]string{"node": m.Name, "after": after, "txn": ledger.TxnHash(&t).Hex(), "node_flag": fmt.Sprint(u.IsValid), "model_flag": fmt.Sprint(e.Valid)}, nil)
			return
		}
	}
	valid, err := m.N.V.GetAllValidUnconfirmedTxHashes()
	if err == nil {
		n := 0
		for _, e := range m.M.Pool {
			if e.Valid {
				n++
			}
		}
		if n != len(valid) {
			h.Viol("C06", "pool-valid-hashes", map[string]string{"node": m.Name, "after": after}, nil)
		}
	}
}

func (h *H) checkDatabase(m *Mon) {
	h.R.Count("check.database", 1)
	if err := visor.CheckDatabase(m.N.DB, h.Chain.Publisher.Pub, nil); err != nil {
		h.Viol("C04", "check-database", map[string]string{"node": m.Name, "err": err.Error()}, nil)
	}
}

// sortedUtxo returns the model's unspent outputs in a deterministic order
func sortedUtxo(m *ledger.Model) []coin.UxOut {
	out := make([]coin.UxOut, 0, len(m.Utxo))
	ids := make([]cipher.SHA256, 0, len(m.Utxo))
	for id := range m.Utxo {
		ids = append(ids, id)
	}
	sort.Slice(ids, func(i, j int) bool { return string(ids[i][:]) < string(ids[j][:]) })
	for _, id := range ids {
		out = append(out, m.Utxo[id])
	}
	return out
}
