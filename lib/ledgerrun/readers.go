package ledgerrun

import (
	"math/rand"
	"sync"
	"sync/atomic"

	"github.com/skycoin/skycoin/src/cipher"
	"github.com/skycoin/skycoin/src/visor"
)

// Concurrent readers. A real node answers balance / outputs / block queries (read-only database
// transactions) while blocks are executed. The histories are sequential; these goroutines add the
// read side so that any state a reader can disturb (shared scratch values, caches, iterators)
// shows up in the monitors that run after every step. The readers never change node state and
// draw from their own PRNG, so the history itself stays a function of VERIF_SEED.

type readerSet struct {
	mu    sync.RWMutex // write-held while a node handle is being replaced (reopen / mirror resync)
	stop  chan struct{}
	wg    sync.WaitGroup
	ids   atomic.Value // []cipher.SHA256: recent unspent ids (published by the history goroutine)
	addrs []cipher.Address
	reads int64
	errs  int64
	// first error a reader saw (unknown ids are expected: the ids come from the follower's ledger)
	firstErr atomic.Value
}

func (h *H) startReaders(n int) {
	rs := &readerSet{stop: make(chan struct{})}
	for _, k := range h.Chain.Keys {
		rs.addrs = append(rs.addrs, k.Addr)
	}
	rs.ids.Store([]cipher.SHA256{})
	h.readers = rs
	for i := 0; i < n; i++ {
		rs.wg.Add(1)
		go func(i int) {
			defer rs.wg.Done()
			rng := rand.New(rand.NewSource(int64(i) + 77))
			for k := 0; ; k++ {
				select {
				case <-rs.stop:
					return
				default:
				}
				rs.mu.RLock()
				mons := []*Mon{h.Pub, h.Fol}
				if h.Mir != nil {
					mons = append(mons, h.Mir)
				}
				m := mons[rng.Intn(len(mons))]
				v := m.N.V
				var err error
				switch rng.Intn(9) {
				case 0, 1:
					ids, _ := rs.ids.Load().([]cipher.SHA256)
					if len(ids) > 0 {
						a := rng.Intn(len(ids))
						b := a + 1 + rng.Intn(4)
						if b > len(ids) {
							b = len(ids)
						}
						_, err = v.GetUnspentOutputs(ids[a:b])
					}
				case 2:
					_, err = v.GetUnspentsOfAddrs(rs.addrs[rng.Intn(len(rs.addrs)):])
				case 3:
					_, err = v.GetAllUnspentOutputs()
				case 4:
					_, err = v.GetBlockchainMetadata()
				case 5:
					_, err = v.GetAllUnconfirmedTransactions()
				case 6:
					a := rs.addrs[rng.Intn(len(rs.addrs))]
					_, _, err = v.GetTransactions([]visor.TxFilter{visor.NewAddrsFilter([]cipher.Address{a})}, visor.AscOrder, nil)
				case 7:
					_, err = v.GetUnspentOutputsSummary(nil)
				case 8:
					_, err = v.GetLastBlocks(3)
				}
				rs.mu.RUnlock()
				atomic.AddInt64(&rs.reads, 1)
				if err != nil {
					if atomic.AddInt64(&rs.errs, 1) == 1 {
						rs.firstErr.Store(err.Error())
					}
				}
			}
		}(i)
	}
}

// publishIDs hands the readers the current unspent ids of the follower's model
func (h *H) publishIDs() {
	if h.readers == nil {
		return
	}
	ids := make([]cipher.SHA256, 0, len(h.Fol.M.Utxo))
	for id := range h.Fol.M.Utxo {
		ids = append(ids, id)
		if len(ids) >= 64 {
			break
		}
	}
	h.readers.ids.Store(ids)
}

func (h *H) stopReaders() {
	if h.readers == nil {
		return
	}
	close(h.readers.stop)
	h.readers.wg.Wait()
	h.R.Count("readers.reads", atomic.LoadInt64(&h.readers.reads))
	h.R.Count("readers.errors", atomic.LoadInt64(&h.readers.errs))
	if e, ok := h.readers.firstErr.Load().(string); ok {
		h.R.Count("readers.first-error-kind."+e[:min(len(e), 17)], 1)
	}
	h.readers = nil
}

// swapLock / swapUnlock bracket every replacement of a node handle
func (h *H) swapLock() {
	if h.readers != nil {
		h.readers.mu.Lock()
	}
}

func (h *H) swapUnlock() {
	if h.readers != nil {
		h.readers.mu.Unlock()
	}
}
