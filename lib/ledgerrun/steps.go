package ledgerrun

import (
	"fmt"
	"os"
	"strings"
	"time"

	"github.com/skycoin/skycoin/src/cipher"
	"github.com/skycoin/skycoin/src/coin"
	"github.com/skycoin/skycoin/src/transaction"

	"verif/lib/ledger"
)

func condNames(cs []ledger.Cond) string {
	var s []string
	for _, c := range cs {
		s = append(s, c.Prop+":"+c.Name)
	}
	return strings.Join(s, ",")
}

func nonLegacy(cs []ledger.Cond) []ledger.Cond {
	var out []ledger.Cond
	for _, c := range cs {
		if c.Prop != "legacy" {
			out = append(out, c)
		}
	}
	return out
}

// ---------------------------------------------------------------------------------
// Injection (C06, C11 classification, C03 last clause)

func (h *H) stepInject(m *Mon, foreign bool) {
	p := h.genTxn(m.M)
	if p == nil {
		return
	}
	synced := m == h.Pub && h.sameHead()
	h.inject(m, p.Txn, p.Class, foreign)
	// the same transaction often reaches other nodes too: mirror it into the follower's pool,
	// so that blocks later confirm transactions of which the follower holds only some
	if synced && h.Rng.Intn(2) == 0 {
		h.R.Count("inject.mirrored", 1)
		h.inject(h.Fol, p.Txn, p.Class+"/mirror", true)
	}
}

func (h *H) inject(m *Mon, t coin.Transaction, class string, foreign bool) {
	kind := "user"
	if foreign {
		kind = "foreign"
	}
	h.log(fmt.Sprintf("inject %s %s on %s: %s", kind, class, m.Name, describeTxn(&t)))
	hash := ledger.TxnHash(&t)
	_, wasKnown := m.M.Pool[hash]
	hard := nonLegacy(m.M.TxnSingleHard(&t))
	var soft []string
	if len(hard) == 0 {
		if foreign {
			soft = m.M.Soft(&t, m.M.P.Unconfirmed)
		} else {
			soft = m.M.Soft(&t, m.M.P.User)
		}
	}
	before := m.N.Dump()
	var known bool
	var softErr *transaction.ErrTxnViolatesSoftConstraint
	var err error
	if foreign {
		known, softErr, err = m.N.V.InjectForeignTransaction(t)
	} else {
		known, _, _, err = m.N.V.InjectUserTransaction(t)
	}
	h.R.Count("inject."+kind, 1)
	h.R.Count("inject.class."+class, 1)
	attrs := map[string]string{"node": m.Name, "kind": kind, "class": class, "model_hard": condNames(hard), "model_soft": strings.Join(soft, ","), "err": fmt.Sprint(err)}
	errClass := "none"
	switch err.(type) {
	case nil:
	case transaction.ErrTxnViolatesHardConstraint:
		errClass = "hard"
	case transaction.ErrTxnViolatesSoftConstraint:
		errClass = "soft"
	case transaction.ErrTxnViolatesUserConstraint:
		errClass = "user"
	default:
		errClass = "other"
	}
	attrs["err_class"] = errClass
	admitted := err == nil
	if admitted {
		h.R.Count("inject.admitted", 1)
		if strings.Contains(class, "huge-hours") || strings.Contains(class, "biggest-input") {
			h.R.Count("inject.admitted.class."+class, 1)
		}
		h.R.Distinct("admitted:" + kind + ":" + class)
	} else {
		h.R.Count("inject.refused."+errClass, 1)
		h.R.Distinct("refused:" + kind + ":" + class + ":" + errClass)
	}
	// --- soundness: admitted only if the hard rules hold (user: also soft and user rules)
	if admitted && len(hard) > 0 {
		prop := "C06"
		for _, c := range hard {
			if c.Name == "out-hours-overflow" {
				prop = "C03"
			}
		}
		h.Viol(prop, "admitted-hard-invalid", attrs, t)
	}
	if admitted && !foreign && (len(soft) > 0 || ledger.NullOutput(&t)) {
		h.Viol("C06", "user-admitted-soft-invalid", attrs, t)
	}
	// --- error classification (C11): hard failures reported as hard, soft as soft
	if !admitted {
		switch {
		case !foreign && ledger.NullOutput(&t):
			if errClass != "user" {
				h.Anomaly("user-constraint-class", fmt.Sprint(attrs))
			}
		case len(hard) > 0:
			if errClass == "soft" {
				h.Viol("C11", "hard-reported-as-soft", attrs, t)
			}
		case len(soft) > 0:
			if errClass == "hard" {
				h.Viol("C11", "soft-reported-as-hard", attrs, t)
			}
			if foreign {
				// a foreign transaction that only breaks soft rules must be admitted (flagged)
				h.Viol("C11", "soft-invalid-foreign-refused", attrs, t)
			}
		default:
			// the model finds nothing wrong but the node refused
			if errClass == "soft" {
				h.Viol("C11", "valid-reported-soft-invalid", attrs, t)
			} else {
				h.Anomaly("valid-refused", fmt.Sprint(attrs))
			}
		}
	}
	if admitted && foreign {
		if (softErr != nil) != (len(soft) > 0) {
			h.Viol("C11", "soft-verdict", attrs, t)
		}
	}
	// --- model update and pool effects
	if admitted {
		if known != wasKnown {
			h.Viol("C06", "known-flag", attrs, nil)
		}
		valid := len(soft) == 0
		if e, ok := m.M.Pool[hash]; ok {
			e.Valid = valid
		} else {
			m.M.Pool[hash] = &ledger.PoolEntry{Txn: t, Valid: valid}
		}
	} else {
		// a refused transaction leaves everything as it was
		if d := before.Diff(m.N.Dump()); len(d) > 0 {
			h.Viol("C06", "refused-but-changed", map[string]string{"node": m.Name, "buckets": strings.Join(d, ",")}, t)
		}
	}
	h.checkState(m, "inject")
}

// ---------------------------------------------------------------------------------
// Blocks

// offer submits a block to a node and checks soundness of the decision against the node's model.
// Returns whether the node accepted it.
func (h *H) offer(m *Mon, b coin.SignedBlock, label string) bool {
	mirror := m == h.Fol && h.mirrorInSync()
	ok := h.offer1(m, b, label)
	if mirror {
		h.offerMirror(b, label, ok)
	}
	return ok
}

func (h *H) offer1(m *Mon, b coin.SignedBlock, label string) bool {
	conds := m.M.BlockConds(&b)
	hardConds := nonLegacy(conds)
	before := m.N.Dump()
	submitted := b
	err := m.N.V.ExecuteSignedBlock(b)
	accepted := err == nil
	attrs := map[string]string{"node": m.Name, "label": label, "model": condNames(conds), "err": fmt.Sprint(err)}
	if accepted {
		h.R.Count("blocks.accepted."+m.Name, 1)
		if len(conds) != len(hardConds) {
			h.R.Count("legacy.out-hours-wrap.accepted", 1)
		}
		// read back what was stored
		stored, gerr := m.N.V.GetSignedBlockBySeq(m.M.Head().Head.BkSeq + 1)
		if gerr != nil || stored == nil {
			h.Viol("C04", "accepted-not-stored", attrs, nil)
			return true
		}
		if m.Arb {
			// an arbitrating node may drop transactions; only non-arbitrating acceptance is judged,
			// except for the publisher signature, which no configuration may waive
			for _, c := range hardConds {
				if c.Name == "signature" {
					h.Viol("C04", "accepted-invalid-block", map[string]string{"node": m.Name, "label": label, "cond": c.Name, "all": condNames(conds)}, submitted)
				}
			}
			m.M.ApplyBlock(*stored)
			return true
		}
		for _, c := range hardConds {
			a := map[string]string{"node": m.Name, "label": label, "cond": c.Name, "info": c.Info, "all": condNames(conds)}
			h.Viol(c.Prop, "accepted-invalid-block", a, submitted)
		}
		// stored = submitted, signature covers the stored header
		if ledger.HeaderHash(stored.Head) != ledger.HeaderHash(submitted.Head) || stored.Sig != submitted.Sig || ledger.BodyHash(stored.Body.Transactions) != ledger.BodyHash(submitted.Body.Transactions) {
			h.Viol("C04", "stored-differs-from-submitted", attrs, map[string]interface{}{"submitted": submitted.Head, "stored": stored.Head})
		}
		if !ledger.VerifyBlockSig(h.Chain.Publisher.Pub, stored.Sig, ledger.HeaderHash(stored.Head)) {
			h.Viol("C04", "stored-signature-does-not-cover-header", attrs, map[string]interface{}{"submitted": submitted.Head, "stored": stored.Head})
		}
		// per-transaction conservation on the accepted block (C01, C03)
		h.R.Count("check.hours.txn", int64(len(stored.Body.Transactions)))
		h.R.Count("check.coins.txn", int64(len(stored.Body.Transactions)))
		m.M.ApplyBlock(*stored)
		return true
	}
	h.R.Count("blocks.rejected."+m.Name, 1)
	// reject => nothing changed (chain, unspent set, history, pool)
	if d := before.Diff(m.N.Dump()); len(d) > 0 {
		h.Viol("C04", "rejected-but-changed", map[string]string{"node": m.Name, "label": label, "buckets": strings.Join(d, ",")}, submitted)
	}
	h.lastRejectErr = fmt.Sprintf("%v (model: %s)", err, condNames(conds))
	if len(conds) == 0 {
		h.R.Count("observed.valid-block-rejected."+label, 1)
	}
	return false
}

// stepPublish lets the publisher create a block from its pool (C05) and relays it
func (h *H) stepPublish() {
	pm := h.Pub
	when := h.nextTime()
	poolBefore := map[cipher.SHA256]coin.Transaction{}
	for hsh, e := range pm.M.Pool {
		poolBefore[hsh] = e.Txn
	}
	exp := h.expectPublish(pm.M)
	h.log(fmt.Sprintf("publish when=%d pool=%d eligible=%d", when, len(poolBefore), len(exp.order)))
	headBefore := pm.M.Head()
	synced := h.sameHead()
	var sb coin.SignedBlock
	var err error
	if h.realClock {
		// the production entry point (block time = the machine's clock)
		sb, err = pm.N.V.CreateAndExecuteBlock()
		h.R.Count("publish.real-entry-point", 1)
	} else {
		sb, err = pm.N.V.VerifCreateAndExecuteBlock(when)
	}
	if err != nil {
		h.R.Count("publish.none", 1)
		if len(exp.order) > 0 {
			h.Viol("C05", "no-block-from-eligible-pool", map[string]string{"err": err.Error(), "eligible": fmt.Sprint(len(exp.order))}, nil)
		}
		return
	}
	h.R.Count("publish.blocks", 1)
	h.R.Count("blocks.accepted.pub", 1)
	// clause-wise check of the created block against the publisher's model (pre-state)
	h.checkPublished(pm.M, exp, poolBefore, sb, headBefore)
	conds := nonLegacy(pm.M.BlockConds(&sb))
	for _, c := range conds {
		h.Viol("C05", "publisher-block-invalid", map[string]string{"cond": c.Name, "info": c.Info, "owner": c.Prop}, sb)
		if c.Prop != "C05" {
			h.Viol(c.Prop, "accepted-invalid-block", map[string]string{"node": "pub", "label": "publish", "cond": c.Name, "info": c.Info}, sb)
		}
	}
	pm.M.ApplyBlock(sb)
	h.OldBlk = append(h.OldBlk, sb)
	h.noteSpent(pm.M, sb)
	h.checkState(pm, "publish")
	// (a) an independent node holding the same chain accepts it
	if synced {
		if !h.offer(h.Fol, sb, "published") {
			h.Viol("C05", "follower-rejects-publisher-block", map[string]string{"seq": fmt.Sprint(sb.Head.BkSeq), "err": h.lastRejectErr}, sb)
		}
		h.checkState(h.Fol, "relay")
	}
}

func (h *H) noteSpent(m *ledger.Model, sb coin.SignedBlock) {
	for i := range sb.Body.Transactions {
		r := m.Txns[ledger.TxnHash(&sb.Body.Transactions[i])]
		if r != nil && len(h.Spent) < 64 {
			h.Spent = append(h.Spent, r.In...)
		}
	}
}

// catchUp brings the follower to the publisher's head with the publisher's own blocks
// onPubChain reports whether the follower's head is a block of the publisher's chain
func (h *H) onPubChain() bool {
	if h.diverged {
		return false
	}
	fs := h.Fol.M.Head().Head.BkSeq
	if fs >= uint64(len(h.Pub.M.Blocks)) {
		return false
	}
	pb := h.Pub.M.Blocks[fs]
	return ledger.HeaderHash(pb.Head) == ledger.HeaderHash(h.Fol.M.Head().Head) && pb.Sig == h.Fol.M.Head().Sig
}

// sameHead reports whether both nodes hold the same head block
func (h *H) sameHead() bool {
	return h.onPubChain() && h.Fol.M.Head().Head.BkSeq == h.Pub.M.Head().Head.BkSeq
}

func (h *H) catchUp() {
	if !h.onPubChain() {
		h.R.Count("diverged.steps", 1)
		return
	}
	for h.Fol.M.Head().Head.BkSeq < h.Pub.M.Head().Head.BkSeq {
		b := h.Pub.M.Blocks[h.Fol.M.Head().Head.BkSeq+1]
		if !h.offer(h.Fol, b, "catch-up") {
			h.Viol("C05", "follower-rejects-publisher-block", map[string]string{"seq": fmt.Sprint(b.Head.BkSeq), "err": h.lastRejectErr, "via": "catch-up"}, b)
			return
		}
	}
}

// stepDirectBlock: the harness (holding the publisher key) builds a valid multi-transaction
// block on the common head and gives it to both nodes
func (h *H) stepDirectBlock() {
	h.catchUp()
	synced := h.sameHead()
	m := h.Fol.M
	txns := h.genValidTxns(m, 1+h.Rng.Intn(4))
	if len(txns) == 0 {
		return
	}
	when := h.nextTime()
	ordered := sortForBlock(m, txns)
	if len(ordered) > 1 && h.Rng.Intn(3) == 0 {
		// no rule fixes the order of transactions inside a received block: an arbitrating node
		// re-orders them, every other node stores them as received
		h.Rng.Shuffle(len(ordered), func(i, j int) { ordered[i], ordered[j] = ordered[j], ordered[i] })
		h.R.Count("blocks.direct.shuffled", 1)
	}
	b := h.Chain.SignBlock(rawBlock(m, when, ordered))
	h.log(fmt.Sprintf("direct block seq=%d txns=%d when=%d", b.Head.BkSeq, len(txns), when))
	okF := h.offer(h.Fol, b, "direct")
	h.checkState(h.Fol, "direct")
	if okF {
		if len(txns) > 1 {
			h.R.Count("blocks.accepted.multi-txn", 1)
		}
		for i := range txns {
			if len(txns[i].In) > 1 {
				h.R.Count("blocks.accepted.multi-input-txn", 1)
			}
		}
		h.OldBlk = append(h.OldBlk, b)
		h.noteSpent(h.Fol.M, b)
		if synced {
			okP := h.offer(h.Pub, b, "direct")
			h.checkState(h.Pub, "direct")
			if !okP {
				h.Anomaly("publisher-rejects-direct-block", h.lastRejectErr)
			}
		}
	} else {
		h.Anomaly("follower-rejects-direct-block", fmt.Sprint(len(txns), " ", h.lastRejectErr))
	}
}

func rawBlock(m *ledger.Model, when uint64, txns coin.Transactions) coin.Block {
	head := m.Head()
	body := coin.BlockBody{Transactions: txns}
	return coin.Block{
		Head: coin.BlockHeader{
			Version:  head.Head.Version,
			Time:     when,
			BkSeq:    head.Head.BkSeq + 1,
			Fee:      blockFee(m, txns),
			PrevHash: ledger.HeaderHash(head.Head),
			BodyHash: ledger.BodyHash(txns),
			UxHash:   m.UxChecksum(),
		},
		Body: body,
	}
}

// stepReplay resubmits old blocks, duplicates and skip-ahead blocks to the follower
func (h *H) stepReplay() {
	if len(h.OldBlk) == 0 {
		return
	}
	b := h.OldBlk[h.Rng.Intn(len(h.OldBlk))]
	h.log(fmt.Sprintf("replay block seq=%d", b.Head.BkSeq))
	h.R.Count("replay.offers", 1)
	headSeq := h.Fol.M.Head().Head.BkSeq
	ok := h.offer(h.Fol, b, "replay")
	if ok && b.Head.BkSeq != headSeq+1 {
		h.Viol("C04", "replayed-block-accepted", map[string]string{"seq": fmt.Sprint(b.Head.BkSeq), "head": fmt.Sprint(headSeq)}, b)
	}
	h.checkState(h.Fol, "replay")
	// genesis again
	if h.Rng.Intn(3) == 0 {
		g := h.Fol.M.Blocks[0]
		if h.offer(h.Fol, g, "second-genesis") {
			h.Viol("C04", "second-genesis-accepted", nil, g)
		}
		h.R.Count("replay.genesis", 1)
	}
}

// ---------------------------------------------------------------------------------
// Pool maintenance (C06)

func (h *H) stepRefresh(m *Mon) {
	h.log("refresh on " + m.Name)
	// model: fresh verdict under the unconfirmed parameters
	expectNowValid := map[cipher.SHA256]bool{}
	for hsh, e := range m.M.Pool {
		hard := nonLegacy(m.M.TxnSingleHard(&e.Txn))
		valid := len(hard) == 0 && len(m.M.Soft(&e.Txn, m.M.P.Unconfirmed)) == 0
		if valid && !e.Valid {
			expectNowValid[hsh] = true
			h.R.Count("pool.flip.to_valid", 1)
		}
		if !valid && e.Valid {
			h.R.Count("pool.flip.to_invalid", 1)
		}
		e.Valid = valid
	}
	got, err := m.N.V.RefreshUnconfirmed()
	if err != nil {
		h.Anomaly("refresh-error", err.Error())
		return
	}
	h.R.Count("pool.refresh", 1)
	same := len(got) == len(expectNowValid)
	for _, g := range got {
		if !expectNowValid[g] {
			same = false
		}
	}
	if !same {
		h.Viol("C06", "refresh-became-valid-list", map[string]string{"node": m.Name, "got": fmt.Sprint(len(got)), "want": fmt.Sprint(len(expectNowValid))}, nil)
	}
	h.checkState(m, "refresh")
}

func (h *H) stepRemoveInvalid(m *Mon) {
	h.log("remove-invalid on " + m.Name)
	expect := map[cipher.SHA256]bool{}
	for hsh, e := range m.M.Pool {
		if cs := nonLegacy(m.M.TxnSingleHard(&e.Txn)); len(cs) > 0 {
			expect[hsh] = true
			h.R.Count("pool.remove.expected."+cs[0].Name, 1)
		}
	}
	got, err := m.N.V.RemoveInvalidUnconfirmed()
	if err != nil {
		h.Anomaly("remove-invalid-error", err.Error())
		return
	}
	h.R.Count("pool.remove_invalid", 1)
	h.R.Count("pool.removed", int64(len(got)))
	for _, g := range got {
		if !expect[g] {
			// removed a transaction the model holds hard-valid: not a violation of the statement
			// ("after removal no pooled txn violates a hard rule"), but the model must follow
			h.R.Count("pool.removed.unexpected", 1)
			h.Anomaly("removed-hard-valid", g.Hex())
		}
		delete(m.M.Pool, g)
		delete(expect, g)
	}
	// after the pass, no pooled transaction may violate a hard rule
	for hsh := range expect {
		if _, still := m.M.Pool[hsh]; still {
			h.Viol("C06", "hard-invalid-survives-removal", map[string]string{"node": m.Name, "txn": hsh.Hex(), "conds": condNames(m.M.TxnSingleHard(&m.M.Pool[hsh].Txn))}, m.M.Pool[hsh].Txn)
			delete(m.M.Pool, hsh)
		}
	}
	h.checkState(m, "remove-invalid")
}

// ---------------------------------------------------------------------------------
// Reopen (index rebuild paths; C07 rebuild equivalence)

func (h *H) stepReopen(m *Mon) {
	h.log("reopen " + m.Name)
	path := m.N.Path
	h.swapLock()
	if err := m.N.Close(); err != nil {
		h.Anomaly("close", err.Error())
	}
	if h.Prop == "C07" {
		h.rebuildEquivalence(m, path)
	}
	n, err := h.Chain.Open(path, m.N.Publisher, m.Arb)
	if err == nil {
		m.N = n
	}
	h.swapUnlock()
	if err != nil {
		h.Viol("C07", "reopen-failed", map[string]string{"node": m.Name, "err": err.Error()}, nil)
		h.Anomaly("reopen-failed", err.Error())
		// try to continue with a fresh handle is impossible; abort history
		panic("reopen failed: " + err.Error())
	}
	h.R.Count("reopen", 1)
	// visor.Init removes hard-invalid pooled transactions on start
	for hsh, e := range m.M.Pool {
		if len(nonLegacy(m.M.TxnSingleHard(&e.Txn))) > 0 {
			delete(m.M.Pool, hsh)
		}
	}
	h.checkState(m, "reopen")
	if h.views {
		h.checkViews(m, "reopen")
	}
}

func fileExists(p string) bool {
	_, err := os.Stat(p)
	return err == nil
}

// stepWrongKeyPublish: the publisher's own create-and-append entry point (the production one)
// with a signing key that is not the configured publisher key. The block it makes carries a
// signature that does not verify against the publisher key, so it must not be appended (C04).
func (h *H) stepWrongKeyPublish() {
	pm := h.Pub
	exp := h.expectPublish(pm.M)
	if len(exp.order) == 0 || uint64(time.Now().Unix()) <= pm.M.HeadTime() {
		return
	}
	h.log("publish with a foreign signing key")
	wrong := h.Chain.Keys[h.Rng.Intn(len(h.Chain.Keys))].Sec
	before := pm.N.Dump()
	h.swapLock()
	orig := pm.N.V.Config.BlockchainSeckey
	pm.N.V.Config.BlockchainSeckey = wrong
	h.swapUnlock()
	sb, err := pm.N.V.CreateAndExecuteBlock()
	h.swapLock()
	pm.N.V.Config.BlockchainSeckey = orig
	h.swapUnlock()
	h.R.Count("publish.wrong-key.offers", 1)
	changed := before.Diff(pm.N.Dump())
	if err == nil || len(changed) > 0 {
		h.Viol("C04", "block-signed-by-other-key-appended", map[string]string{"node": "pub", "entry": "CreateAndExecuteBlock", "err": fmt.Sprint(err), "buckets": strings.Join(changed, ",")}, sb)
		if err == nil {
			// keep the shadow ledger in step with what the node did
			pm.M.ApplyBlock(sb)
			h.diverged = true
		}
		return
	}
	h.R.Count("publish.wrong-key.refused", 1)
}

// finalRealPublish ends a history with one block made through the production entry point
func (h *H) finalRealPublish() {
	if uint64(time.Now().Unix()) <= h.Pub.M.HeadTime() || uint64(time.Now().Unix()) <= h.Fol.M.HeadTime() {
		return
	}
	h.stepInject(h.Pub, false)
	h.catchUp()
	h.stepWrongKeyPublish()
	h.realClock = true
	h.stepPublish()
	h.realClock = false
}
