package ledgerrun

import (
	"bytes"
	"fmt"
	"math/big"
	"sort"

	"github.com/skycoin/skycoin/src/cipher"
	"github.com/skycoin/skycoin/src/coin"

	"verif/lib/ledger"
)

var max64 = new(big.Int).SetUint64(^uint64(0))

// rate is floor(min(fee*1024, 2^64-1) / size): the documented fee-per-kilobyte priority
func rate(fee uint64, size uint64) *big.Int {
	x := new(big.Int).Mul(new(big.Int).SetUint64(fee), big.NewInt(1024))
	if x.Cmp(max64) > 0 {
		x.Set(max64)
	}
	return x.Div(x, new(big.Int).SetUint64(size))
}

type ranked struct {
	t    coin.Transaction
	h    cipher.SHA256
	rate *big.Int
	size uint64
}

func rankTxns(m *ledger.Model, txns coin.Transactions) []ranked {
	var rs []ranked
	for i := range txns {
		f, ok := m.Fee(&txns[i])
		if !ok {
			continue
		}
		rs = append(rs, ranked{t: txns[i], h: ledger.TxnHash(&txns[i]), rate: rate(f, ledger.TxnSize(&txns[i])), size: ledger.TxnSize(&txns[i])})
	}
	sort.SliceStable(rs, func(i, j int) bool {
		if c := rs[i].rate.Cmp(rs[j].rate); c != 0 {
			return c > 0
		}
		return bytes.Compare(rs[i].h[:], rs[j].h[:]) < 0
	})
	return rs
}

// sortForBlock orders valid transactions by the publisher's documented order
func sortForBlock(m *ledger.Model, txns coin.Transactions) coin.Transactions {
	rs := rankTxns(m, txns)
	if len(rs) != len(txns) {
		return txns
	}
	out := make(coin.Transactions, len(rs))
	for i := range rs {
		out[i] = rs[i].t
	}
	return out
}

func sortForBlockLoose(txns coin.Transactions) coin.Transactions { return txns }

type publishExpect struct {
	order    []ranked               // eligible pooled transactions in priority order
	eligible map[cipher.SHA256]int  // hash -> rank
	prefix   int                    // number of leading transactions that fit the block size
	must     map[cipher.SHA256]bool // in the prefix and without a conflict against any earlier eligible one
	ties     bool
}

// expectPublish evaluates the publisher's pool with the model before a block is made
func (h *H) expectPublish(m *ledger.Model) publishExpect {
	var elig coin.Transactions
	for _, ph := range m.PoolHashes() {
		e := m.Pool[ph]
		if len(nonLegacy(m.TxnSingleHard(&e.Txn))) > 0 {
			continue
		}
		if len(m.Soft(&e.Txn, m.P.CreateBlock)) > 0 {
			continue
		}
		elig = append(elig, e.Txn)
	}
	exp := publishExpect{eligible: map[cipher.SHA256]int{}, must: map[cipher.SHA256]bool{}}
	exp.order = rankTxns(m, elig)
	var total uint64
	exp.prefix = len(exp.order)
	for i, r := range exp.order {
		exp.eligible[r.h] = i
		if i > 0 && exp.order[i-1].rate.Cmp(r.rate) == 0 {
			exp.ties = true
		}
	}
	for i, r := range exp.order {
		if total+r.size > uint64(m.P.MaxBlock) {
			exp.prefix = i
			break
		}
		total += r.size
	}
	for i := 0; i < exp.prefix; i++ {
		conflict := false
		for j := 0; j < i && !conflict; j++ {
			for _, a := range exp.order[i].t.In {
				for _, b := range exp.order[j].t.In {
					if a == b {
						conflict = true
					}
				}
			}
		}
		if !conflict {
			exp.must[exp.order[i].h] = true
		}
	}
	return exp
}

// checkPublished checks the block the publisher made, clause by clause (C05)
func (h *H) checkPublished(m *ledger.Model, exp publishExpect, pool map[cipher.SHA256]coin.Transaction, sb coin.SignedBlock, headBefore coin.SignedBlock) {
	attrs := func(extra ...string) map[string]string {
		a := map[string]string{"seq": fmt.Sprint(sb.Head.BkSeq), "txns": fmt.Sprint(len(sb.Body.Transactions)), "eligible": fmt.Sprint(len(exp.order))}
		for i := 0; i+1 < len(extra); i += 2 {
			a[extra[i]] = extra[i+1]
		}
		return a
	}
	included := map[cipher.SHA256]bool{}
	var total uint64
	lastRank := -1
	for i := range sb.Body.Transactions {
		t := &sb.Body.Transactions[i]
		hh := ledger.TxnHash(t)
		included[hh] = true
		total += ledger.TxnSize(t)
		// (f) nothing outside the pool
		if _, ok := pool[hh]; !ok {
			h.Viol("C05", "includes-non-pool-txn", attrs("txn", hh.Hex()), sb)
			continue
		}
		// (b) only transactions satisfying all hard and soft rules (create-block parameters)
		rk, ok := exp.eligible[hh]
		if !ok {
			h.Viol("C05", "includes-ineligible-txn", attrs("txn", hh.Hex(), "hard", condNames(m.TxnSingleHard(t)), "soft", fmt.Sprint(m.Soft(t, m.P.CreateBlock))), sb)
			continue
		}
		// (d) listed by fee per kilobyte, highest first, ties by lowest hash
		if rk < lastRank {
			h.Viol("C05", "order", attrs("txn", hh.Hex(), "rank", fmt.Sprint(rk), "prev_rank", fmt.Sprint(lastRank)), sb)
		}
		lastRank = rk
	}
	// (c) block size
	if total > uint64(m.P.MaxBlock) {
		h.Viol("C05", "oversize", attrs("size", fmt.Sprint(total), "max", fmt.Sprint(m.P.MaxBlock)), sb)
	}
	// (e1) no two included transactions conflict
	seen := map[cipher.SHA256]bool{}
	for i := range sb.Body.Transactions {
		for _, in := range sb.Body.Transactions[i].In {
			if seen[in] {
				h.Viol("C05", "conflicting-both-included", attrs("input", in.Hex()), sb)
			}
			seen[in] = true
		}
	}
	// (e2) the first of each conflict (no conflict with any earlier eligible transaction, fits the
	// size prefix) is included
	dropped := false
	for i := 0; i < exp.prefix; i++ {
		r := exp.order[i]
		if exp.must[r.h] && !included[r.h] {
			h.Viol("C05", "first-in-order-not-included", attrs("txn", r.h.Hex(), "rank", fmt.Sprint(i)), sb)
		}
		if !exp.must[r.h] {
			dropped = true
		}
	}
	if dropped {
		h.R.Count("publish.conflict_dropped", 1)
	}
	if exp.prefix < len(exp.order) {
		h.R.Count("publish.size_truncated", 1)
	}
	if exp.ties {
		h.R.Count("publish.fee_ties", 1)
	}
	if len(pool) > len(exp.order) {
		h.R.Count("publish.pool_had_ineligible", 1)
	}
	if sb.Head.Time <= headBefore.Head.Time {
		h.Viol("C05", "time-not-after-head", attrs(), sb)
	}
	h.R.Distinct(fmt.Sprintf("publish:%d/%d/%d/%v", len(sb.Body.Transactions), len(exp.order), len(pool), dropped))
}
