package ledgerrun

import (
	"fmt"
	"math/big"
	"os"
	"path/filepath"
	"sort"

	"github.com/boltdb/bolt"

	"github.com/skycoin/skycoin/src/cipher"
	"github.com/skycoin/skycoin/src/coin"
	"github.com/skycoin/skycoin/src/visor"
	"github.com/skycoin/skycoin/src/visor/dbutil"

	"verif/lib/fix"
	"verif/lib/ledger"
)

func (h *H) addrUniverse() []cipher.Address {
	as := []cipher.Address{h.Chain.Genesis.Addr}
	for _, k := range h.Chain.Keys {
		as = append(as, k.Addr)
	}
	// two unknown addresses
	as = append(as, fix.KeyFromSeed("unknown-1-"+h.ID).Addr, fix.KeyFromSeed("unknown-2-"+h.ID).Addr)
	return as
}

// checkViews compares every derived view with the shadow ledger (C07)
func (h *H) checkViews(m *Mon, after string) {
	h.R.Count("views.sweeps", 1)
	v := m.N.V
	M := m.M
	univ := h.addrUniverse()
	fail := func(kind string, kv ...string) {
		a := map[string]string{"node": m.Name, "after": after}
		for i := 0; i+1 < len(kv); i += 2 {
			a[kv[i]] = kv[i+1]
		}
		h.Viol("C07", kind, a, nil)
	}

	// --- per-address unspent index
	got, err := v.GetUnspentsOfAddrs(univ)
	if err != nil {
		fail("unspents-of-addrs-error", "err", err.Error())
	} else {
		for _, a := range univ {
			want := M.UnspentOf(a)
			g := got[a]
			if len(g) != len(want) {
				fail("addr-unspent-index", "addr", a.String(), "node_n", fmt.Sprint(len(g)), "model_n", fmt.Sprint(len(want)))
				continue
			}
			ws := map[cipher.SHA256]coin.UxOut{}
			for _, ux := range want {
				ws[ledger.UxID(ux)] = ux
			}
			for _, ux := range g {
				if w, ok := ws[ledger.UxID(ux)]; !ok || w != ux {
					fail("addr-unspent-index", "addr", a.String(), "ux", ledger.UxID(ux).Hex())
					break
				}
			}
		}
	}
	// --- address count
	if n, err := v.AddressCount(); err != nil || n != uint64(M.AddressCount()) {
		fail("address-count", "node", fmt.Sprint(n), "model", fmt.Sprint(M.AddressCount()), "err", fmt.Sprint(err))
	}
	// --- unspent checksum as stored by the node
	if cs, ok := readUxChecksum(m.N.DB); ok {
		if cs != M.UxChecksum() {
			fail("ux-checksum", "node", cs.Hex(), "model", M.UxChecksum().Hex())
		}
		h.R.Count("views.checksum", 1)
	}
	// --- outputs by id, with spender
	ids := make([]cipher.SHA256, 0, len(M.AllOuts))
	for id := range M.AllOuts {
		ids = append(ids, id)
	}
	sort.Slice(ids, func(i, j int) bool { return string(ids[i][:]) < string(ids[j][:]) })
	for i, id := range ids {
		if len(ids) > 40 && i%(len(ids)/40+1) != 0 {
			continue
		}
		o, ht, err := v.GetUxOutByID(id)
		if err != nil || o == nil {
			fail("uxout-by-id-missing", "id", id.Hex(), "err", fmt.Sprint(err))
			continue
		}
		want := M.AllOuts[id]
		sp, spent := M.SpentBy[id]
		if o.Out != want || ht != M.HeadTime() {
			fail("uxout-by-id-value", "id", id.Hex())
		}
		if spent && (o.SpentTxnID != sp.Txn || o.SpentBlockSeq != sp.Seq) {
			fail("uxout-spender", "id", id.Hex(), "node_seq", fmt.Sprint(o.SpentBlockSeq), "model_seq", fmt.Sprint(sp.Seq))
		}
		if !spent && (o.SpentTxnID != (cipher.SHA256{}) || o.SpentBlockSeq != 0) {
			fail("uxout-spender-on-unspent", "id", id.Hex())
		}
		h.R.Count("views.uxout", 1)
	}
	if o, _, err := v.GetUxOutByID(cipher.SumSHA256([]byte("nope" + h.ID))); err == nil && o != nil {
		fail("uxout-by-id-unknown-found")
	}
	// --- all outputs ever received by an address, with spender info
	outsByAddr, _, err := v.GetSpentOutputsForAddresses(univ)
	if err != nil {
		fail("outputs-for-addresses-error", "err", err.Error())
	} else {
		for i, a := range univ {
			want := map[cipher.SHA256]bool{}
			for id, ux := range M.AllOuts {
				if ux.Body.Address == a {
					want[id] = true
				}
			}
			if len(outsByAddr[i]) != len(want) {
				fail("outputs-for-address", "addr", a.String(), "node_n", fmt.Sprint(len(outsByAddr[i])), "model_n", fmt.Sprint(len(want)))
				continue
			}
			for _, o := range outsByAddr[i] {
				id := ledger.UxID(o.Out)
				sp := M.SpentBy[id]
				if !want[id] || o.SpentTxnID != sp.Txn || o.SpentBlockSeq != sp.Seq {
					fail("outputs-for-address", "addr", a.String(), "id", id.Hex())
					break
				}
			}
		}
	}
	// --- transaction history per address (confirmed), single addresses and a set
	for _, a := range univ {
		want := M.AddrTxns(a)
		txns, _, err := v.GetTransactions([]visor.TxFilter{visor.NewAddrsFilter([]cipher.Address{a}), visor.NewConfirmedTxFilter(true)}, visor.AscOrder, nil)
		if err != nil {
			fail("get-transactions-error", "addr", a.String(), "err", err.Error())
			continue
		}
		if len(txns) != len(want) {
			fail("addr-txns", "addr", a.String(), "node_n", fmt.Sprint(len(txns)), "model_n", fmt.Sprint(len(want)))
			continue
		}
		ws := map[cipher.SHA256]bool{}
		for _, w := range want {
			ws[w] = true
		}
		var last uint64
		for _, t := range txns {
			hh := ledger.TxnHash(&t.Transaction)
			rec := M.Txns[hh]
			if !ws[hh] || rec == nil {
				fail("addr-txns", "addr", a.String(), "txn", hh.Hex())
				break
			}
			if !t.Status.Confirmed || t.Status.BlockSeq != rec.Seq || t.Time != rec.Time || t.Status.Height != M.Head().Head.BkSeq-rec.Seq+1 {
				fail("txn-status", "txn", hh.Hex(), "node_seq", fmt.Sprint(t.Status.BlockSeq), "model_seq", fmt.Sprint(rec.Seq))
				break
			}
			if rec.Seq < last {
				fail("addr-txns-order", "addr", a.String())
				break
			}
			last = rec.Seq
		}
		h.R.Count("views.addr_txns", 1)
	}
	// --- transaction history per address including the pool: the pending part of the answer
	// must come from the pool (every pooled transaction paying the address, nothing that is not
	// pooled), the confirmed part is the history checked above
	for _, a := range univ {
		paying := map[cipher.SHA256]bool{}
		for hh, e := range M.Pool {
			for _, o := range e.Txn.Out {
				if o.Address == a {
					paying[hh] = true
				}
			}
		}
		for _, mode := range []string{"unconfirmed", "all"} {
			flts := []visor.TxFilter{visor.NewAddrsFilter([]cipher.Address{a})}
			if mode == "unconfirmed" {
				flts = append(flts, visor.NewConfirmedTxFilter(false))
			}
			txns, _, err := v.GetTransactions(flts, visor.AscOrder, nil)
			if err != nil {
				fail("get-transactions-error", "addr", a.String(), "mode", mode, "err", err.Error())
				continue
			}
			seen := map[cipher.SHA256]bool{}
			nConfirmed := 0
			for _, t := range txns {
				hh := ledger.TxnHash(&t.Transaction)
				if t.Status.Confirmed {
					nConfirmed++
					if mode == "unconfirmed" || M.Txns[hh] == nil {
						fail("addr-pending-txns", "addr", a.String(), "mode", mode, "txn", hh.Hex(), "why", "confirmed status")
					}
					continue
				}
				seen[hh] = true
				if _, pooled := M.Pool[hh]; !pooled {
					fail("addr-pending-txns", "addr", a.String(), "mode", mode, "txn", hh.Hex(), "why", "not in the pool")
				}
			}
			for hh := range paying {
				if !seen[hh] {
					fail("addr-pending-txns", "addr", a.String(), "mode", mode, "txn", hh.Hex(), "why", "pooled payment missing")
				}
			}
			if mode == "all" && nConfirmed != len(M.AddrTxns(a)) {
				fail("addr-txns", "addr", a.String(), "mode", mode, "node_n", fmt.Sprint(nConfirmed), "model_n", fmt.Sprint(len(M.AddrTxns(a))))
			}
			h.R.Count("views.addr_pending_txns", 1)
		}
	}
	{
		set := []cipher.Address{univ[1], univ[2], univ[3]}
		wantSet := map[cipher.SHA256]bool{}
		for _, a := range set {
			for _, w := range M.AddrTxns(a) {
				wantSet[w] = true
			}
		}
		var want []cipher.SHA256
		for w := range wantSet {
			want = append(want, w)
		}
		sort.Slice(want, func(i, j int) bool {
			a, b := M.Txns[want[i]], M.Txns[want[j]]
			if a.Seq != b.Seq {
				return a.Seq < b.Seq
			}
			return want[i].Hex() < want[j].Hex()
		})
		txns, _, err := v.GetTransactions([]visor.TxFilter{visor.NewAddrsFilter(set), visor.NewConfirmedTxFilter(true)}, visor.AscOrder, nil)
		if err != nil {
			fail("get-transactions-error", "err", err.Error())
		} else if len(txns) != len(want) {
			fail("addrset-txns", "node_n", fmt.Sprint(len(txns)), "model_n", fmt.Sprint(len(want)))
		} else {
			for i := range txns {
				if ledger.TxnHash(&txns[i].Transaction) != want[i] {
					fail("addrset-txns-order", "index", fmt.Sprint(i))
					break
				}
			}
		}
	}
	// --- single transaction lookups: confirmed, pooled, unknown
	for i, hh := range M.TxOrder {
		if len(M.TxOrder) > 20 && i%(len(M.TxOrder)/20+1) != 0 {
			continue
		}
		t, err := v.GetTransaction(hh)
		rec := M.Txns[hh]
		if err != nil || t == nil || !t.Status.Confirmed || t.Status.BlockSeq != rec.Seq || t.Status.Height != M.Head().Head.BkSeq-rec.Seq+1 {
			fail("get-transaction-confirmed", "txn", hh.Hex(), "err", fmt.Sprint(err))
		}
	}
	for _, hh := range M.PoolHashes() {
		t, err := v.GetTransaction(hh)
		if err != nil || t == nil || t.Status.Confirmed {
			fail("get-transaction-pooled", "txn", hh.Hex(), "err", fmt.Sprint(err))
		}
	}
	if n, err := v.GetTransactionsNum(); err != nil || n != uint64(len(M.TxOrder)) {
		fail("transactions-num", "node", fmt.Sprint(n), "model", fmt.Sprint(len(M.TxOrder)))
	}
	// --- balances
	h.checkBalances(m, univ, fail)
	// --- block queries
	head := M.Head()
	for _, seq := range []uint64{0, head.Head.BkSeq / 2, head.Head.BkSeq} {
		b, err := v.GetSignedBlockBySeq(seq)
		if err != nil || b == nil || ledger.HeaderHash(b.Head) != ledger.HeaderHash(M.Blocks[seq].Head) || b.Sig != M.Blocks[seq].Sig {
			fail("block-by-seq", "seq", fmt.Sprint(seq))
			continue
		}
		bh, err := v.GetSignedBlockByHash(ledger.HeaderHash(M.Blocks[seq].Head))
		if err != nil || bh == nil || bh.Head.BkSeq != seq {
			fail("block-by-hash", "seq", fmt.Sprint(seq))
		}
	}
	if b, err := v.GetSignedBlockBySeq(head.Head.BkSeq + 1); err == nil && b != nil {
		fail("block-beyond-head")
	}
	if bs, err := v.GetBlocksInRange(0, head.Head.BkSeq+5); err != nil || uint64(len(bs)) != head.Head.BkSeq+1 {
		fail("blocks-in-range", "n", fmt.Sprint(len(bs)))
	} else {
		for i := range bs {
			if ledger.HeaderHash(bs[i].Head) != ledger.HeaderHash(M.Blocks[i].Head) {
				fail("blocks-in-range-content", "i", fmt.Sprint(i))
				break
			}
		}
	}
	for _, n := range []uint64{1, 3, head.Head.BkSeq + 1} {
		bs, err := v.GetLastBlocks(n)
		wantN := n
		if wantN > head.Head.BkSeq+1 {
			wantN = head.Head.BkSeq + 1
		}
		if err != nil || uint64(len(bs)) != wantN || (len(bs) > 0 && bs[len(bs)-1].Head.BkSeq != head.Head.BkSeq) {
			fail("last-blocks", "n", fmt.Sprint(n), "got", fmt.Sprint(len(bs)))
		}
	}
	h.R.Distinct(fmt.Sprintf("views:%s:%d:%d:%d", h.ID, head.Head.BkSeq, len(M.Utxo), len(M.Pool)))
}

func (h *H) checkBalances(m *Mon, univ []cipher.Address, fail func(string, ...string)) {
	M := m.M
	// predicted balances are only defined without ambiguity when the pool is conflict-free and
	// every pooled input is still unspent
	poolClean := true
	spentIn := map[cipher.SHA256]bool{}
	for _, e := range M.Pool {
		for _, in := range e.Txn.In {
			if _, ok := M.Utxo[in]; !ok || spentIn[in] {
				poolClean = false
			}
			spentIn[in] = true
		}
	}
	bps, err := m.N.V.GetBalanceOfAddresses(univ)
	if err != nil {
		// the query has no answer when some output's hours cannot be computed in 64 bits, or when
		// the pool still refers to spent outputs; neither is a disagreement with the chain
		uncomputable := false
		for _, a := range univ {
			sum := new(big.Int)
			for _, ux := range M.UnspentOf(a) {
				acc, cls := ledger.Accrued(ux, M.HeadTime())
				if cls != ledger.AccrualOK {
					uncomputable = true
				}
				sum.Add(sum, acc)
			}
			// pooled receipts are added to the predicted balance
			for _, e := range M.Pool {
				for _, o := range e.Txn.Out {
					if o.Address == a {
						sum.Add(sum, ledger.BigU(o.Hours))
					}
				}
			}
			if !ledger.Fits(sum) {
				uncomputable = true
			}
		}
		switch {
		case uncomputable:
			h.R.Count("views.balance.error_with_uncomputable_hours", 1)
		case !poolClean:
			h.R.Count("views.balance.error_with_stale_pool", 1)
		default:
			fail("balance-error", "err", err.Error())
		}
		return
	}
	for i, a := range univ {
		conf := new(big.Int)
		hours := new(big.Int)
		hoursOK := true
		pred := new(big.Int)
		predHours := new(big.Int)
		for _, ux := range M.UnspentOf(a) {
			conf.Add(conf, ledger.BigU(ux.Body.Coins))
			acc, cls := ledger.Accrued(ux, M.HeadTime())
			if cls != ledger.AccrualOK {
				hoursOK = false
			}
			hours.Add(hours, acc)
			if !spentIn[ledger.UxID(ux)] {
				pred.Add(pred, ledger.BigU(ux.Body.Coins))
				predHours.Add(predHours, acc)
			}
		}
		for _, e := range M.Pool {
			for _, o := range e.Txn.Out {
				if o.Address == a {
					pred.Add(pred, ledger.BigU(o.Coins))
					predHours.Add(predHours, ledger.BigU(o.Hours))
				}
			}
		}
		bp := bps[i]
		if ledger.Fits(conf) && bp.Confirmed.Coins != conf.Uint64() {
			fail("balance-confirmed-coins", "addr", a.String(), "node", fmt.Sprint(bp.Confirmed.Coins), "model", conf.String())
		}
		if hoursOK && ledger.Fits(hours) && bp.Confirmed.Hours != hours.Uint64() {
			fail("balance-confirmed-hours", "addr", a.String(), "node", fmt.Sprint(bp.Confirmed.Hours), "model", hours.String())
		}
		if poolClean {
			h.R.Count("views.balance.predicted_checked", 1)
			if ledger.Fits(pred) && bp.Predicted.Coins != pred.Uint64() {
				class := "has-confirmed-unspents"
				if len(M.UnspentOf(a)) == 0 {
					class = "no-confirmed-unspents"
				}
				fail("balance-predicted-coins", "addr", a.String(), "node", fmt.Sprint(bp.Predicted.Coins), "model", pred.String(), "class", class)
			} else if hoursOK && ledger.Fits(predHours) && ledger.Fits(pred) && bp.Predicted.Hours != predHours.Uint64() {
				fail("balance-predicted-hours", "addr", a.String(), "node", fmt.Sprint(bp.Predicted.Hours), "model", predHours.String())
			}
		}
	}
	h.R.Count("views.balance", 1)
}

// readUxChecksum reads the XOR checksum the node keeps for its unspent set
func readUxChecksum(db *dbutil.DB) (cipher.SHA256, bool) {
	var out cipher.SHA256
	ok := false
	_ = db.View("verif ux checksum", func(tx *dbutil.Tx) error {
		b := tx.Tx.Bucket([]byte("unspent_meta"))
		if b == nil {
			return nil
		}
		v := b.Get([]byte("xorhash"))
		if len(v) == 32 {
			copy(out[:], v)
			ok = true
		}
		return nil
	})
	return out, ok
}

// rebuildEquivalence: on a copy of the (closed) database, empty the derived buckets the way an
// upgrade from a version without them presents them, reopen, and compare every derived bucket
// with the original (C07 "rebuilding yields exactly the same data")
func (h *H) rebuildEquivalence(m *Mon, path string) {
	cp := filepath.Join(filepath.Dir(path), "rebuild-"+filepath.Base(path))
	if err := fix.CopyFile(cp, path); err != nil {
		h.Anomaly("copy", err.Error())
		return
	}
	defer os.Remove(cp)
	orig, err := visor.OpenDB(path, true)
	if err != nil {
		h.Anomaly("open-orig", err.Error())
		return
	}
	origDump := fix.DumpDB(orig)
	origIdxK, origIdxV := fix.RawBucket(orig, "unspent_pool_addr_index")
	metaK, metaV := fix.RawBucket(orig, "unspent_meta")
	orig.Close()
	defer func() {
		// remember this state of the index for a later rebuild (mode 3)
		for i := range metaK {
			if string(metaK[i]) == "addr_index_height" {
				m.oldIdxK, m.oldIdxV, m.oldIdxH = origIdxK, origIdxV, metaV[i]
			}
		}
	}()

	// which derived data to drop: the address index, the history, or both; or (3) put the address
	// index back to an earlier state of this node (rows and recorded height of that time: an
	// index that is behind the head, as after running an older binary for a while)
	mode := h.Rng.Intn(3)
	if m.oldIdxH != nil && h.Rng.Intn(2) == 0 {
		mode = 3
	}
	bdb, err := bolt.Open(cp, 0600, nil)
	if err != nil {
		h.Anomaly("open-copy", err.Error())
		return
	}
	err = bdb.Update(func(tx *bolt.Tx) error {
		del := func(name string) {
			if tx.Bucket([]byte(name)) != nil {
				_ = tx.DeleteBucket([]byte(name))
			}
		}
		if mode == 0 || mode == 2 {
			del("unspent_pool_addr_index")
			if b := tx.Bucket([]byte("unspent_meta")); b != nil {
				_ = b.Delete([]byte("addr_index_height"))
			}
		}
		if mode == 3 {
			del("unspent_pool_addr_index")
			b, err := tx.CreateBucket([]byte("unspent_pool_addr_index"))
			if err != nil {
				return err
			}
			for i := range m.oldIdxK {
				if err := b.Put(m.oldIdxK[i], m.oldIdxV[i]); err != nil {
					return err
				}
			}
			if mb := tx.Bucket([]byte("unspent_meta")); mb != nil {
				_ = mb.Put([]byte("addr_index_height"), m.oldIdxH)
			}
		}
		if mode == 1 || mode == 2 {
			for _, n := range []string{"transactions", "uxouts", "address_in", "address_txns"} {
				del(n)
			}
			if b := tx.Bucket([]byte("history_meta")); b != nil {
				_ = b.Delete([]byte("parsed_height"))
			}
		}
		return nil
	})
	bdb.Close()
	if err != nil {
		h.Anomaly("strip-copy", err.Error())
		return
	}
	n, err := h.Chain.Open(cp, m.N.Publisher, m.Arb)
	h.R.Count("views.rebuild", 1)
	h.R.Count(fmt.Sprintf("views.rebuild.mode%d", mode), 1)
	if err != nil {
		h.Viol("C07", "rebuild-failed", map[string]string{"node": m.Name, "mode": fmt.Sprint(mode), "err": err.Error(), "height": fmt.Sprint(m.M.Head().Head.BkSeq)}, nil)
		return
	}
	newDump := n.Dump()
	mm := &Mon{Name: m.Name + "-rebuilt", N: n, M: m.M}
	// Init removes hard-invalid pooled transactions, which is not part of the derived data:
	// compare only the derived buckets
	for _, b := range []string{"unspent_pool_addr_index", "transactions", "uxouts", "address_in", "address_txns", "unspent_pool", "unspent_meta", "history_meta", "blocks", "block_sigs", "block_tree"} {
		if _, ok := origDump.Digest[b]; !ok {
			continue
		}
		if b == "unspent_pool_addr_index" {
			// the code defines no order inside an address's hash list: compare as sets
			nk, nv := fix.RawBucket(n.DB, b)
			if !sameIndex(origIdxK, origIdxV, nk, nv) {
				h.Viol("C07", "rebuild-differs", map[string]string{"node": m.Name, "mode": fmt.Sprint(mode), "bucket": b}, nil)
			}
			continue
		}
		if origDump.Digest[b] != newDump.Digest[b] {
			h.Viol("C07", "rebuild-differs", map[string]string{"node": m.Name, "mode": fmt.Sprint(mode), "bucket": b, "orig_n": fmt.Sprint(origDump.Count[b]), "new_n": fmt.Sprint(newDump.Count[b])}, nil)
		}
	}
	saved := h.views
	h.views = true
	pool := m.M.Pool
	// the rebuilt node dropped hard-invalid pooled transactions at Init; view the model likewise
	m.M.Pool = map[cipher.SHA256]*ledger.PoolEntry{}
	for k, e := range pool {
		if len(nonLegacy(m.M.TxnSingleHard(&e.Txn))) == 0 {
			m.M.Pool[k] = e
		}
	}
	h.checkViews(mm, "rebuild")
	m.M.Pool = pool
	h.views = saved
	n.Close()
}

// sameIndex compares two address-index buckets, treating each value (length-prefixed list of
// 32-byte hashes) as a set
func sameIndex(k1, v1, k2, v2 [][]byte) bool {
	if len(k1) != len(k2) {
		return false
	}
	norm := func(v []byte) string {
		if len(v) < 4 {
			return string(v)
		}
		body := v[4:]
		var hs []string
		for i := 0; i+32 <= len(body); i += 32 {
			hs = append(hs, string(body[i:i+32]))
		}
		sort.Strings(hs)
		out := string(v[:4])
		for _, x := range hs {
			out += x
		}
		return out
	}
	m := map[string]string{}
	for i := range k1 {
		m[string(k1[i])] = norm(v1[i])
	}
	for i := range k2 {
		if m[string(k2[i])] != norm(v2[i]) {
			return false
		}
	}
	return true
}
