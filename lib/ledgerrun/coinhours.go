package ledgerrun

import (
	"fmt"
	"math/big"

	"github.com/skycoin/skycoin/src/coin"

	"verif/lib/ledger"
	"verif/lib/vf"
)

// coinHoursLeg is the function-level part of C03: an output's accrued hours equal initial hours
// plus floor(coins*dt/3.6e9), never decrease as time moves forward, and the 64-bit computation
// reports an error exactly when an intermediate or the final sum does not fit.
func coinHoursLeg(r *vf.Run) {
	var coinsL, hoursL, dtL []uint64
	add := func(l *[]uint64, vs ...uint64) { *l = append(*l, vs...) }
	add(&coinsL, 0, 1, 999999, 1000000, 1000001, 999000500, 1500000, 25000000000, 100000000000000, 1<<32, 1<<62, 1<<63, ^uint64(0))
	add(&hoursL, 0, 1, 1000, 1<<32, 1<<62, 1<<63-1, 1<<63, ^uint64(0)-1, ^uint64(0))
	add(&dtL, 0, 1, 59, 3599, 3600, 3601, 86400, 31536000)
	for k := uint(8); k < 64; k += 3 {
		add(&dtL, 1<<k-1, 1<<k, 1<<k+1)
		add(&coinsL, 1<<k+3)
	}
	// elapsed times around the points where whole-coin seconds, droplet seconds or their sum
	// stop fitting in 64 bits, for every coin amount in the lattice
	max := ^uint64(0)
	base := append([]uint64(nil), coinsL...)
	extra := map[uint64][]uint64{}
	for _, c := range base {
		whole, rem := c/1000000, c%1000000
		for _, d := range []uint64{whole, rem, whole + 1} {
			if d == 0 {
				continue
			}
			q := max / d
			extra[c] = append(extra[c], q-1, q, q+1)
		}
	}
	rng := r.Rand("coinhours")
	nRand := r.Pick(200000, 5000000)
	check := func(c, h, t0, dt uint64) {
		if t0 > max-dt {
			return
		}
		ux := coin.UxOut{Head: coin.UxHead{Time: t0, BkSeq: 1}, Body: coin.UxBody{Coins: c, Hours: h}}
		want, cls := ledger.Accrued(ux, t0+dt)
		got, err := ux.CoinHours(t0 + dt)
		r.Count("check.coinhours", 1)
		attrs := map[string]string{"coins": fmt.Sprint(c), "hours": fmt.Sprint(h), "elapsed": fmt.Sprint(dt), "got": fmt.Sprint(got), "err": fmt.Sprint(err), "model": want.String()}
		switch cls {
		case ledger.AccrualOK:
			r.Count("coinhours.class.ok", 1)
			if err != nil || new(big.Int).SetUint64(got).Cmp(want) != 0 {
				attrs["class"] = "value"
				r.Violation("coinhours-mismatch", attrs, attrs)
			}
		case ledger.AccrualFinalOverflow:
			r.Count("coinhours.class.final-sum-overflow", 1)
			if err == nil {
				attrs["class"] = "missed-final-overflow"
				r.Violation("coinhours-mismatch", attrs, attrs)
			}
		default:
			r.Count("coinhours.class.intermediate-overflow", 1)
			if err == nil {
				attrs["class"] = "missed-intermediate-overflow"
				r.Violation("coinhours-mismatch", attrs, attrs)
			}
		}
		// never decreases as time moves forward (one second later)
		if err == nil && dt < max-t0 {
			got2, err2 := ux.CoinHours(t0 + dt + 1)
			if err2 == nil && got2 < got {
				attrs["class"] = "decreases"
				attrs["next"] = fmt.Sprint(got2)
				r.Violation("coinhours-mismatch", attrs, attrs)
			}
			r.Count("check.coinhours.monotone", 1)
		}
	}
	for _, c := range coinsL {
		for _, h := range hoursL {
			for _, dt := range append(append([]uint64(nil), dtL...), extra[c]...) {
				r.Eval(1)
				check(c, h, 1426562704, dt)
			}
		}
		r.Distinct(fmt.Sprint("coinhours:", c))
	}
	for i := 0; i < nRand; i++ {
		c := uint64(rng.Int63()) >> uint(rng.Intn(62))
		h := uint64(rng.Int63()) >> uint(rng.Intn(63))
		dt := uint64(rng.Int63()) >> uint(rng.Intn(63))
		if rng.Intn(4) == 0 && c >= 1000000 {
			// land near the whole-coin-seconds boundary
			dt = max/(c/1000000) - uint64(rng.Intn(3))
		}
		check(c, h, uint64(rng.Int63n(1<<40)), dt)
	}
	r.Eval(int64(nRand))
	r.Floor("coinhours.class.ok", 1000)
	r.Floor("coinhours.class.final-sum-overflow", 100)
	r.Floor("coinhours.class.intermediate-overflow", 100)
}
