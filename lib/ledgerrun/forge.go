package ledgerrun

import (
	"fmt"
	"math/big"

	"github.com/skycoin/skycoin/src/cipher"
	"github.com/skycoin/skycoin/src/coin"

	"verif/lib/fix"
	"verif/lib/ledger"
	"verif/lib/refsecp"
)

type variant struct {
	Label string
	B     coin.SignedBlock
	// Legacy marks the class whose outcome is recorded but not asserted
	Legacy bool
}

func cloneTxn(t coin.Transaction) coin.Transaction {
	c := t
	c.Sigs = append([]cipher.Sig(nil), t.Sigs...)
	c.In = append([]cipher.SHA256(nil), t.In...)
	c.Out = append([]coin.TransactionOutput(nil), t.Out...)
	return c
}

func cloneTxns(ts coin.Transactions) coin.Transactions {
	out := make(coin.Transactions, len(ts))
	for i := range ts {
		out[i] = cloneTxn(ts[i])
	}
	return out
}

func (h *H) insOf(m *ledger.Model, t *coin.Transaction) []coin.UxOut {
	var in []coin.UxOut
	for _, id := range t.In {
		in = append(in, m.Utxo[id])
	}
	return in
}

// highS returns the mathematically valid high-s twin of a signature (s -> n-s, recid parity flipped)
func highS(sig cipher.Sig) cipher.Sig {
	s, _ := refsecp.ParseSig(sig[:])
	s.S = new(big.Int).Sub(refsecp.N, s.S)
	s.RecID ^= 1
	var out cipher.Sig
	copy(out[:], s.Bytes())
	return out
}

// variants builds the forged family around the valid next block made of txns on m's head.
// Every variant is signed by the publisher key after the mutation unless its label says otherwise.
func (h *H) variants(m *ledger.Model, txns coin.Transactions, when uint64) (valid coin.SignedBlock, vs []variant) {
	base := rawBlock(m, when, sortForBlock(m, txns))
	valid = h.Chain.SignBlock(base)
	head := m.Head()
	sign := func(b coin.Block) coin.SignedBlock { return h.Chain.SignBlock(b) }
	add := func(label string, b coin.SignedBlock) { vs = append(vs, variant{Label: label, B: b}) }
	withTxns := func(ts coin.Transactions) coin.Block {
		b := base
		b.Body = coin.BlockBody{Transactions: ts}
		b.Head.BodyHash = ledger.BodyHash(ts)
		b.Head.Fee = blockFee(m, ts)
		return b
	}
	t0 := base.Body.Transactions[0]
	in0 := h.insOf(m, &t0)

	// ---- transaction content (C01, C02, C03, C09, C10)
	mut := func(label string, f func(t *coin.Transaction) bool, resign bool) {
		ts := cloneTxns(base.Body.Transactions)
		if !f(&ts[0]) {
			return
		}
		if resign {
			h.Chain.Resign(&ts[0], h.insOf(m, &ts[0]))
		}
		add(label, sign(withTxns(ts)))
	}
	mut("coins-created", func(t *coin.Transaction) bool { t.Out[0].Coins += 1 + uint64(h.Rng.Intn(5000)); return true }, true)
	mut("coins-destroyed", func(t *coin.Transaction) bool {
		if t.Out[0].Coins < 2 {
			return false
		}
		t.Out[0].Coins--
		return true
	}, true)
	mut("coins-wrap", func(t *coin.Transaction) bool {
		var c uint64
		for _, ux := range in0 {
			c += ux.Body.Coins
		}
		if c < 2 || c >= 1<<63 {
			return false
		}
		x := uint64(1 + h.Rng.Intn(int(minU(c-1, 1<<30))))
		// outputs 2^63+x and 2^63+(c-x): the 64-bit sum wraps to exactly c
		t.Out = []coin.TransactionOutput{
			{Address: h.randAddr(), Coins: 1<<63 + x, Hours: 0},
			{Address: h.randAddr(), Coins: 1<<63 + (c - x), Hours: 0},
		}
		return true
	}, true)
	// the same with three or more outputs, the 64-bit wrap happening before the last addition
	mut("coins-wrap-early", func(t *coin.Transaction) bool {
		var c uint64
		for _, ux := range in0 {
			c += ux.Body.Coins
		}
		if c < 4 || c >= 1<<62 {
			return false
		}
		// a + b = 2^64 exactly (wraps to 0), then the remaining outputs sum to c
		a := uint64(1) + uint64(h.Rng.Int63())
		b := ^uint64(0) - a + 1
		rest := h.splitCoins(c, 1+h.Rng.Intn(3), 1)
		outs := []coin.TransactionOutput{{Address: h.randAddr(), Coins: a}, {Address: h.randAddr(), Coins: b}}
		if h.Rng.Intn(2) == 0 {
			// or: wrap in the middle, a + r0 first
			outs = []coin.TransactionOutput{{Address: h.randAddr(), Coins: a}}
			outs = append(outs, coin.TransactionOutput{Address: h.randAddr(), Coins: rest[0]})
			outs = append(outs, coin.TransactionOutput{Address: h.randAddr(), Coins: b})
			rest = rest[1:]
		}
		for i, r := range rest {
			outs = append(outs, coin.TransactionOutput{Address: h.Chain.Keys[i%len(h.Chain.Keys)].Addr, Coins: r, Hours: uint64(i)})
		}
		// distinct receivers, so that the wrap is the only fault
		off := h.Rng.Intn(len(h.Chain.Keys))
		for i := range outs {
			outs[i].Address = h.Chain.Keys[(off+i)%len(h.Chain.Keys)].Addr
			outs[i].Hours = 0
		}
		t.Out = outs
		return true
	}, true)
	mut("zero-coin", func(t *coin.Transaction) bool {
		t.Out = append(t.Out, coin.TransactionOutput{Address: h.randAddr(), Coins: 0, Hours: 0})
		return true
	}, true)
	mut("dup-input", func(t *coin.Transaction) bool {
		t.In = append(t.In, t.In[0])
		t.Out[0].Coins += in0[0].Body.Coins
		return true
	}, true)
	mut("hours-created", func(t *coin.Transaction) bool {
		hrs, ok := availableHours(m, in0)
		if !ok || hrs == ^uint64(0) {
			return false
		}
		var out uint64
		for _, o := range t.Out {
			out += o.Hours
		}
		t.Out[0].Hours += hrs - out + 1
		return true
	}, true)
	mut("dup-outputs", func(t *coin.Transaction) bool {
		if t.Out[0].Coins < 2 || t.Out[0].Coins%2 != 0 {
			return false
		}
		half := t.Out[0].Coins / 2
		t.Out[0].Coins = half
		t.Out = append(t.Out, t.Out[0])
		return true
	}, true)
	mut("spend-unknown", func(t *coin.Transaction) bool {
		t.In[0] = cipher.SumSHA256([]byte(fmt.Sprint("unknown", h.Rng.Int63())))
		return true
	}, false)
	if len(h.Spent) > 0 {
		sp := h.Spent[h.Rng.Intn(len(h.Spent))]
		if _, live := m.Utxo[ledger.UxID(sp)]; !live {
			ts := cloneTxns(base.Body.Transactions)
			outs := []fix.Out{{Addr: h.randAddr(), Coins: sp.Body.Coins, Hours: 0}}
			ts = append(ts, h.Chain.MakeTxn([]coin.UxOut{sp}, outs))
			add("spend-spent", sign(withTxns(sortForBlockLoose(ts))))
		}
	}
	// same output spent by two transactions of the block
	{
		ts := cloneTxns(base.Body.Transactions)
		var c uint64
		for _, ux := range in0 {
			c += ux.Body.Coins
		}
		dup := h.Chain.MakeTxn(in0, []fix.Out{{Addr: h.randAddr(), Coins: c, Hours: 0}})
		if ledger.TxnHash(&dup) != ledger.TxnHash(&ts[0]) {
			ts = append(ts, dup)
			add("double-spend-in-block", sign(withTxns(ts)))
		}
	}
	// spend of an output created in the same block
	{
		ts := cloneTxns(base.Body.Transactions)
		created := ledger.OutputsOf(&ts[0], when, head.Head.BkSeq+1)
		if _, ok := h.Chain.KeyFor(created[0].Body.Address); ok {
			child := h.Chain.MakeTxn([]coin.UxOut{created[0]}, []fix.Out{{Addr: h.randAddr(), Coins: created[0].Body.Coins, Hours: 0}})
			ts = append(ts, child)
			add("spend-same-block", sign(withTxns(ts)))
		}
	}
	// output hours whose sum wraps (documented legacy rule: recorded, not asserted)
	{
		ts := cloneTxns(base.Body.Transactions)
		t := &ts[0]
		if len(t.Out) >= 1 && t.Out[0].Coins >= 2 {
			c := t.Out[0].Coins
			t.Out[0].Coins = c - 1
			t.Out[0].Hours = ^uint64(0)
			t.Out = append(t.Out, coin.TransactionOutput{Address: h.randAddr(), Coins: 1, Hours: 1})
			h.Chain.Resign(t, h.insOf(m, t))
			vs = append(vs, variant{Label: "legacy-out-hours-wrap", B: sign(withTxns(ts)), Legacy: true})
		}
	}
	// signatures inside the transaction
	mut("sig-wrong-owner", func(t *coin.Transaction) bool {
		for _, k := range h.Chain.Keys {
			if k.Addr != in0[0].Body.Address {
				t.Sigs[0] = cipher.MustSignHash(cipher.AddSHA256(t.InnerHash, t.In[0]), k.Sec)
				return true
			}
		}
		return false
	}, false)
	mut("sig-corrupt", func(t *coin.Transaction) bool { t.Sigs[0][h.Rng.Intn(64)] ^= 0x40; return true }, false)
	mut("sig-null", func(t *coin.Transaction) bool { t.Sigs[0] = cipher.Sig{}; return true }, false)
	mut("sig-high-s", func(t *coin.Transaction) bool { t.Sigs[0] = highS(t.Sigs[0]); return true }, false)
	mut("sig-recid+4", func(t *coin.Transaction) bool { t.Sigs[0][64] += 4; return true }, false)
	mut("inner-hash", func(t *coin.Transaction) bool { t.InnerHash[3] ^= 1; return true }, false)
	mut("length", func(t *coin.Transaction) bool { t.Length++; return true }, false)
	mut("type", func(t *coin.Transaction) bool { t.Type = 1; return true }, false)
	mut("sig-count", func(t *coin.Transaction) bool { t.Sigs = append(t.Sigs, t.Sigs[0]); return true }, false)

	// ---- header fields, each not re-signed (signature then covers another header) and re-signed
	hdr := func(label string, f func(b *coin.Block)) {
		b := base
		f(&b)
		add("hdr-"+label+"/resigned", sign(b))
		add("hdr-"+label+"/stale-sig", coin.SignedBlock{Block: b, Sig: valid.Sig})
	}
	hdr("seq=head", func(b *coin.Block) { b.Head.BkSeq = head.Head.BkSeq })
	hdr("seq=head+2", func(b *coin.Block) { b.Head.BkSeq = head.Head.BkSeq + 2 })
	hdr("seq=0", func(b *coin.Block) { b.Head.BkSeq = 0 })
	hdr("seq=max", func(b *coin.Block) { b.Head.BkSeq = ^uint64(0) })
	hdr("time=head", func(b *coin.Block) { b.Head.Time = head.Head.Time })
	hdr("time=head-1", func(b *coin.Block) { b.Head.Time = head.Head.Time - 1 })
	hdr("time=0", func(b *coin.Block) { b.Head.Time = 0 })
	hdr("prev=zero", func(b *coin.Block) { b.Head.PrevHash = cipher.SHA256{} })
	hdr("prev=random", func(b *coin.Block) { b.Head.PrevHash = cipher.SumSHA256([]byte(fmt.Sprint(h.Rng.Int63()))) })
	if len(m.Blocks) >= 2 {
		gp := m.Blocks[len(m.Blocks)-2]
		hdr("prev=grandparent", func(b *coin.Block) { b.Head.PrevHash = ledger.HeaderHash(gp.Head) })
	}
	hdr("body=random", func(b *coin.Block) { b.Head.BodyHash = cipher.SumSHA256([]byte(fmt.Sprint(h.Rng.Int63()))) })
	hdr("ux=zero", func(b *coin.Block) { b.Head.UxHash = cipher.SHA256{} })
	hdr("ux=previous", func(b *coin.Block) { b.Head.UxHash = head.Head.UxHash })
	hdr("ux=random", func(b *coin.Block) { b.Head.UxHash = cipher.SumSHA256([]byte(fmt.Sprint(h.Rng.Int63()))) })

	// ---- transaction list edits without and with recomputed body hash
	if len(base.Body.Transactions) >= 2 {
		ts := cloneTxns(base.Body.Transactions)
		ts = ts[:len(ts)-1]
		b := base
		b.Body = coin.BlockBody{Transactions: ts}
		add("txns-removed/stale-bodyhash", sign(b))
		ts2 := cloneTxns(base.Body.Transactions)
		ts2[0], ts2[1] = ts2[1], ts2[0]
		b2 := base
		b2.Body = coin.BlockBody{Transactions: ts2}
		add("txns-reordered/stale-bodyhash", sign(b2))
	}
	{
		b := base
		b.Body = coin.BlockBody{}
		add("txns-empty/stale-bodyhash", sign(b))
		add("txns-empty/recomputed", sign(withTxns(coin.Transactions{})))
	}

	// ---- block signature
	add("blocksig-null", coin.SignedBlock{Block: base})
	{
		var s cipher.Sig
		for i := range s[:64] {
			s[i] = byte(h.Rng.Intn(256))
		}
		add("blocksig-random", coin.SignedBlock{Block: base, Sig: s})
	}
	other := h.Chain.Keys[0]
	add("blocksig-other-key", coin.SignedBlock{Block: base, Sig: cipher.MustSignHash(base.HashHeader(), other.Sec)})
	add("blocksig-high-s", coin.SignedBlock{Block: base, Sig: highS(valid.Sig)})
	{
		s := valid.Sig
		s[64] += 4
		add("blocksig-recid+4", coin.SignedBlock{Block: base, Sig: s})
	}
	add("second-genesis", m.Blocks[0])
	return valid, vs
}

// stepForge offers one random forged block to the follower
func (h *H) stepForge() {
	m := h.Fol
	txns := h.genValidTxns(m.M, 1+h.Rng.Intn(3))
	if len(txns) == 0 {
		return
	}
	when := h.nextTime()
	_, vs := h.variants(m.M, txns, when)
	v := vs[h.Rng.Intn(len(vs))]
	if ov := h.overflowInputVariant(m.M, when); ov != nil && h.Rng.Intn(2) == 0 {
		v = *ov
	} else if h.Rng.Intn(8) == 0 {
		// make outputs whose accrued hours overflow (needed by the variant above) more common
		for _, x := range vs {
			if x.Legacy {
				v = x
			}
		}
	}
	h.log("forge " + v.Label)
	h.offerForged(m, v)
	h.checkState(m, "forge")
}

// overflowInputVariant builds a block whose transaction spends an ordinary input followed by an
// input whose accrued hours overflow the final addition (the documented legacy exception: it counts
// as zero hours), with output hours one above what the ordinary input provides: hours are created.
func (h *H) overflowInputVariant(m *ledger.Model, when uint64) *variant {
	var ord, ovf *coin.UxOut
	for _, ux := range sortedUtxo(m) {
		ux := ux
		if _, ok := h.Chain.KeyFor(ux.Body.Address); !ok {
			continue
		}
		a, cls := ledger.Accrued(ux, m.HeadTime())
		switch {
		case cls == ledger.AccrualFinalOverflow && ovf == nil:
			ovf = &ux
		case cls == ledger.AccrualOK && ord == nil && a.Sign() > 0 && a.IsUint64() && a.Uint64() < 1<<62:
			ord = &ux
		}
	}
	if ord == nil || ovf == nil {
		return nil
	}
	hrs, _ := availableHours(m, []coin.UxOut{*ord})
	coins := ord.Body.Coins + ovf.Body.Coins
	if coins < ord.Body.Coins {
		return nil
	}
	extra := uint64(1)
	if h.Rng.Intn(2) == 0 {
		extra = 1 + uint64(h.Rng.Int63n(int64(hrs)))
	}
	t := h.Chain.MakeTxn([]coin.UxOut{*ord, *ovf}, []fix.Out{{Addr: h.randAddr(), Coins: coins, Hours: hrs + extra}})
	b := h.Chain.SignBlock(rawBlock(m, when, coin.Transactions{t}))
	h.R.Count("forge.built.hours-created-beside-overflow-input", 1)
	return &variant{Label: "hours-created-beside-overflow-input", B: b}
}

func (h *H) offerForged(m *Mon, v variant) {
	conds := nonLegacy(m.M.BlockConds(&v.B))
	if len(conds) == 0 && !v.Legacy {
		h.Anomaly("forged-block-model-finds-no-fault", v.Label)
	}
	h.R.Count("forge.offers", 1)
	synced := h.sameHead()
	if synced && m == h.Fol {
		// a block that only lacks the publisher's signature is refused by every configuration:
		// the publisher-mode node is offered it too
		if sigOnlyConds(conds) {
			h.R.Count("forge.signature-to-publisher", 1)
			if h.offer(h.Pub, v.B, "forge:"+v.Label) {
				h.diverged = true
			}
		}
	}
	ok := h.offer(m, v.B, "forge:"+v.Label)
	if ok {
		h.R.Count("forge.accepted."+v.Label, 1)
		if !v.Legacy {
			h.OldBlk = append(h.OldBlk, v.B)
		}
		// the follower now holds a block the publisher does not have: from here on it runs alone
		_ = synced
		h.diverged = true
		if v.Legacy {
			h.injectSpendOfHugeHours()
		}
		return
	}
	h.R.Count("forge.rejected."+classOf(v.Label), 1)
	h.R.Distinct("forge-rejected:" + v.Label)
}

func classOf(label string) string {
	return label
}

// stepProbe: the systematic mutation family of the valid next block, then the block itself (C04)
func (h *H) stepProbe() {
	h.catchUp()
	synced := h.sameHead()
	m := h.Fol
	txns := h.genValidTxns(m.M, 2+h.Rng.Intn(2))
	if len(txns) == 0 {
		return
	}
	when := h.nextTime()
	valid, vs := h.variants(m.M, txns, when)
	h.log(fmt.Sprintf("probe family of %d variants around block seq=%d", len(vs), valid.Head.BkSeq))
	h.R.Count("probe.families", 1)
	for _, v := range vs {
		if v.Legacy {
			continue
		}
		conds := nonLegacy(m.M.BlockConds(&v.B))
		if len(conds) == 0 {
			h.Anomaly("forged-block-model-finds-no-fault", v.Label)
			continue
		}
		h.R.Count("probe.offers", 1)
		if synced && !h.diverged && sigOnlyConds(conds) {
			h.R.Count("forge.signature-to-publisher", 1)
			if h.offer(h.Pub, v.B, "probe:"+v.Label) {
				h.diverged = true
			}
		}
		if h.offer(m, v.B, "probe:"+v.Label) {
			h.R.Count("probe.accepted."+v.Label, 1)
			h.diverged = true
			h.checkState(m, "probe-accepted")
			// the chain moved; the rest of the family no longer targets the head
			return
		}
		h.R.Count("probe.rejected", 1)
		h.R.Count("forge.rejected."+v.Label, 1)
		h.R.Distinct("probe-rejected:" + v.Label)
	}
	h.checkState(m, "probe")
	// control: the unmutated block is accepted
	if h.offer(m, valid, "probe:control") {
		h.R.Count("probe.control.accepted", 1)
		h.OldBlk = append(h.OldBlk, valid)
		h.noteSpent(m.M, valid)
		if synced {
			if !h.offer(h.Pub, valid, "probe:control") {
				h.Anomaly("publisher-rejects-direct-block", "probe control "+h.lastRejectErr)
			}
			h.checkState(h.Pub, "probe-control")
		}
	} else {
		h.Anomaly("follower-rejects-direct-block", "probe control")
	}
	h.checkState(m, "probe-control")
}

// sigOnlyConds reports whether the publisher signature is the only thing wrong with a block
func sigOnlyConds(conds []ledger.Cond) bool {
	for _, c := range conds {
		if c.Name != "signature" {
			return false
		}
	}
	return len(conds) > 0
}

// injectSpendOfHugeHours: an output whose starting hours are close to 2^64 (they exist after a
// legacy-class block) is spendable only while the head time equals its creation time: one second
// later the addition "starting hours + earned hours" no longer fits. A transaction spending it is
// pooled now (in the follower's pool, which nobody publishes from), so that it turns hard-invalid by the passage of time and
// the pool's refresh / removal passes must deal with it.
func (h *H) injectSpendOfHugeHours() {
	m := h.Fol
	pooled := map[cipher.SHA256]bool{}
	for _, e := range m.M.Pool {
		for _, in := range e.Txn.In {
			pooled[in] = true
		}
	}
	for _, ux := range sortedUtxo(m.M) {
		if ux.Body.Hours < 1<<63 || ux.Body.Coins == 0 || m.M.P.Locked[ux.Body.Address] || pooled[ledger.UxID(ux)] {
			continue
		}
		if _, ok := h.Chain.KeyFor(ux.Body.Address); !ok {
			continue
		}
		acc, cls := ledger.Accrued(ux, m.M.HeadTime())
		if cls != ledger.AccrualOK || !ledger.Fits(acc) {
			continue
		}
		// all hours are burnt: once the input's hours stop being computable, the in-block rules
		// (which count such an input as zero hours) still find the outputs covered, the
		// single-transaction rules do not
		t := h.Chain.MakeTxn([]coin.UxOut{ux}, []fix.Out{{Addr: h.randAddr(), Coins: ux.Body.Coins, Hours: 0}})
		h.R.Count("gen.huge-hours-input", 1)
		h.inject(m, t, "valid/huge-hours-input", true)
		return
	}
}
