package ledgerrun

import (
	"fmt"
	"path/filepath"

	"github.com/skycoin/skycoin/src/coin"
	"github.com/skycoin/skycoin/src/visor/dbutil"

	"verif/lib/ledger"
)

// The mirror is a third node with BlockchainConfig.Arbitrating = true (the configuration a block
// publisher runs with). It is offered every block the follower is offered, forged ones included.
// An arbitrating node may legitimately drop transactions from a block, so its accept/reject
// decision is not judged; what is judged is the state it ends up in: whatever it stored must
// itself satisfy the ledger rules against the mirror's own shadow ledger (which follows the
// stored blocks), the publisher signature must cover the stored header, the supply is conserved
// and the unspent set equals the shadow ledger's.
//
// Once the mirror holds a different block than the follower (it dropped transactions, or took a
// block the follower refused) it is re-created from a snapshot of the follower's database.

func (h *H) openMirror() error {
	n, err := h.Chain.Open(filepath.Join(h.Dir, "arb.db"), false, true)
	if err != nil {
		return err
	}
	h.Mir = &Mon{Name: "arb", N: n, M: ledger.New(h.modelParams()), Arb: true}
	g, err := n.V.GetSignedBlockBySeq(0)
	if err != nil || g == nil {
		return fmt.Errorf("genesis missing on arb: %v", err)
	}
	h.Mir.M.ApplyGenesis(*g)
	return nil
}

func sameBlock(a, b coin.SignedBlock) bool {
	return ledger.HeaderHash(a.Head) == ledger.HeaderHash(b.Head) && a.Sig == b.Sig &&
		ledger.BodyHash(a.Body.Transactions) == ledger.BodyHash(b.Body.Transactions)
}

// mirrorInSync reports whether mirror and follower hold the same head
func (h *H) mirrorInSync() bool {
	return h.Mir != nil && !h.mirStale && sameBlock(h.Mir.M.Head(), h.Fol.M.Head())
}

// offerMirror gives the mirror the block the follower has just decided on. preSync says whether
// both held the same head before the follower's decision.
func (h *H) offerMirror(b coin.SignedBlock, label string, folAccepted bool) {
	m := h.Mir
	err := m.N.V.ExecuteSignedBlock(b)
	h.R.Count("mirror.offers", 1)
	if err != nil {
		h.R.Count("mirror.rejected", 1)
		if folAccepted {
			h.mirStale = true
		}
		return
	}
	h.R.Count("mirror.accepted", 1)
	attrs := func(c ledger.Cond) map[string]string {
		return map[string]string{"node": m.Name, "label": label, "cond": c.Name, "info": c.Info}
	}
	stored, gerr := m.N.V.GetSignedBlockBySeq(m.M.Head().Head.BkSeq + 1)
	if gerr != nil || stored == nil {
		h.Viol("C04", "accepted-not-stored", map[string]string{"node": m.Name, "label": label}, nil)
		h.mirStale = true
		return
	}
	if len(stored.Body.Transactions) != len(b.Body.Transactions) {
		h.R.Count("mirror.arbitrated", 1)
		h.R.Distinct("mirror-arbitrated:" + label)
	}
	for _, c := range nonLegacy(m.M.BlockConds(stored)) {
		if c.Name == "body-hash" || c.Name == "empty-block" {
			// arbitration keeps the (verified) header and drops transactions, possibly all of
			// them; the property statements do not speak about either
			continue
		}
		h.Viol(c.Prop, "arbitrating-node-stored-invalid-block", attrs(c), map[string]interface{}{"submitted": b, "stored": stored})
	}
	m.M.ApplyBlock(*stored)
	// the mirror's pool follows what the model removes on ApplyBlock; supply/unspent/pool monitors
	h.checkState(m, "mirror:"+label)
	if !folAccepted || !sameBlock(*stored, h.Fol.M.Head()) {
		h.mirStale = true
	}
}

// resyncMirror re-creates the mirror from a snapshot of the follower's database
func (h *H) resyncMirror() {
	if h.Mir == nil || !h.mirStale {
		return
	}
	h.swapLock()
	defer h.swapUnlock()
	path := h.Mir.N.Path
	_ = h.Mir.N.Close()
	err := h.Fol.N.DB.View("verif-snapshot", func(tx *dbutil.Tx) error {
		return tx.CopyFile(path, 0600)
	})
	if err != nil {
		panic("mirror snapshot: " + err.Error())
	}
	n, err := h.Chain.Open(path, false, true)
	if err != nil {
		panic("mirror reopen: " + err.Error())
	}
	h.Mir.N = n
	h.Mir.M = h.Fol.M.Clone()
	// visor.Init removes hard-invalid pooled transactions on start
	for hsh, e := range h.Mir.M.Pool {
		if len(nonLegacy(h.Mir.M.TxnSingleHard(&e.Txn))) > 0 {
			delete(h.Mir.M.Pool, hsh)
		}
	}
	h.mirStale = false
	h.R.Count("mirror.resync", 1)
	h.checkState(h.Mir, "mirror-resync")
}
