// Package rp reads the replay files written by vf.Run.Violation (used by c23, c29, c30, c31).
package rp

import (
	"encoding/json"
	"fmt"
	"io/ioutil"
	"os"
	"strconv"
)

// File is the part of a replay file the function-level checks need
type File struct {
	Property string            `json:"property"`
	Kind     string            `json:"kind"`
	Attrs    map[string]string `json:"attrs"`
	Seed     int64             `json:"seed"`
	Tier     string            `json:"tier"`
}

// Load reads a replay file or exits with status 3
func Load(path, property string) File {
	var f File
	b, err := ioutil.ReadFile(path)
	if err == nil {
		err = json.Unmarshal(b, &f)
	}
	if err == nil && f.Property != property {
		err = fmt.Errorf("replay file is for property %q, not %s", f.Property, property)
	}
	if err != nil {
		fmt.Fprintf(os.Stderr, "replay: %v\n", err)
		os.Exit(3)
	}
	return f
}

// U64 parses attribute k as a decimal uint64 or exits with status 3
func (f File) U64(k string) uint64 {
	v, err := strconv.ParseUint(f.Attrs[k], 10, 64)
	if err != nil {
		fmt.Fprintf(os.Stderr, "replay: attribute %q=%q is not a uint64\n", k, f.Attrs[k])
		os.Exit(3)
	}
	return v
}

// Done prints the replay verdict and exits 1 (violation reproduced) or 0 (not reproduced).
// No evidence file is written for a replay.
func Done(property string, violations int) {
	if violations > 0 {
		fmt.Printf("REPLAY property=%s reproduced=true\n", property)
		os.Exit(1)
	}
	fmt.Printf("REPLAY property=%s reproduced=false\n", property)
	os.Exit(0)
}
