package node

import (
	"io/ioutil"
	"net/http"
	"os"
	"testing"
	"time"

	"verif/lib/wire"
)

func TestSmoke(t *testing.T) {
	dir, _ := ioutil.TempDir("", "verif-nodetest-")
	defer os.RemoveAll(dir)
	n, err := Start(Options{DataDir: dir, ChainTag: "smoke", Volume: 100e12, Publisher: true, Arbitrating: true, DisableCSRF: true})
	if err != nil {
		t.Fatal(err)
	}
	defer n.Stop()
	resp, err := http.Get("http://" + n.APIAddr + "/api/v1/health")
	if err != nil {
		t.Fatal(err)
	}
	b, _ := ioutil.ReadAll(resp.Body)
	resp.Body.Close()
	if resp.StatusCode != 200 {
		t.Fatalf("health: %d %s", resp.StatusCode, b)
	}
	p, err := wire.Dial(n.PeerAddr)
	if err != nil {
		t.Fatal(err)
	}
	defer p.Close()
	if !p.Introduce(n.Chain.Publisher.Pub, 12345, 10*time.Second) {
		t.Fatalf("no INTR back; recv=%v eof=%v", p.Recv, p.EOF)
	}
	if !p.Barrier(10 * time.Second) {
		t.Fatal("no PONG")
	}
	ids := ""
	for _, m := range p.Recv {
		ids += m.ID + " "
	}
	t.Log("received:", ids)
}
