// Package node assembles a real skycoin node (database, visor, wallet service, key-value
// storage, daemon, HTTP API) on loopback the way skycoin.Coin.Run does, either in-process
// (Start) or as a child process (Spawn, with cmd/vnode). It wires real components together and
// contains no oracle.
package node

import (
	"bufio"
	"encoding/hex"
	"encoding/json"
	"fmt"
	"io"
	"net"
	"os"
	"os/exec"
	"path/filepath"
	"sync"
	"syscall"
	"time"

	"github.com/skycoin/skycoin/src/api"
	"github.com/skycoin/skycoin/src/cipher"
	"github.com/skycoin/skycoin/src/cipher/crypto"
	"github.com/skycoin/skycoin/src/daemon"
	"github.com/skycoin/skycoin/src/daemon/gnet"
	"github.com/skycoin/skycoin/src/kvstorage"
	"github.com/skycoin/skycoin/src/readable"
	"github.com/skycoin/skycoin/src/util/logging"
	"github.com/skycoin/skycoin/src/util/useragent"
	"github.com/skycoin/skycoin/src/visor"
	"github.com/skycoin/skycoin/src/visor/dbutil"
	"github.com/skycoin/skycoin/src/wallet"
	// the wallet types register their loaders on import (the real node imports them in cmd/skycoin)
	_ "github.com/skycoin/skycoin/src/wallet/bip44wallet"
	_ "github.com/skycoin/skycoin/src/wallet/collection"
	_ "github.com/skycoin/skycoin/src/wallet/deterministic"
	_ "github.com/skycoin/skycoin/src/wallet/xpubwallet"

	"verif/lib/fix"
)

// Options configures a node; it is JSON so that it can be handed to a child process
type Options struct {
	DataDir string `json:"data_dir"`

	// chain parameters (keys are re-derived from ChainTag with fix.NewChain)
	ChainTag   string `json:"chain_tag"`
	Volume     uint64 `json:"volume"`
	NKeys      int    `json:"n_keys"`
	NDist      int    `json:"n_dist"`
	NUnlocked  int    `json:"n_unlocked"`
	GenesisSig string `json:"genesis_sig"` // hex; required for a non-publisher
	MaxBlock   uint32 `json:"max_block"`

	Publisher   bool `json:"publisher"`
	Arbitrating bool `json:"arbitrating"`

	// API
	APISets            []string `json:"api_sets"` // nil = all
	NoAPISets          bool     `json:"no_api_sets"`
	DisableCSRF        bool     `json:"disable_csrf"`
	DisableHeaderCheck bool     `json:"disable_header_check"`
	Username           string   `json:"username"`
	Password           string   `json:"password"`
	HostWhitelist      []string `json:"host_whitelist"`
	WalletCrypto       string   `json:"wallet_crypto"`

	// daemon
	MaxIncomingMsgLen int           `json:"max_incoming_msg_len"`
	MaxOutgoingMsgLen int           `json:"max_outgoing_msg_len"`
	IntroductionWait  time.Duration `json:"introduction_wait"`
	DisableNetworking bool          `json:"disable_networking"`
	MaxConnections    int           `json:"max_connections"`
	Verbose           bool          `json:"verbose"` // keep skycoin logging on (stderr of the child)
}

// AllAPISets lists every API set
var AllAPISets = []string{api.EndpointsRead, api.EndpointsStatus, api.EndpointsTransaction, api.EndpointsWallet, api.EndpointsInsecureWalletSeed, api.EndpointsNetCtrl, api.EndpointsStorage, "PROMETHEUS"}

// Chain rebuilds the chain parameters from the options
func (o *Options) Chain() *fix.Chain {
	nk, nd, nu := o.NKeys, o.NDist, o.NUnlocked
	if nk == 0 {
		nk, nd, nu = 7, 4, 2
	}
	c := fix.NewChain(o.ChainTag, o.Volume, nk, nd, nu)
	if o.MaxBlock != 0 {
		c.MaxBlock = o.MaxBlock
	}
	if o.GenesisSig != "" {
		b, err := hex.DecodeString(o.GenesisSig)
		if err == nil && len(b) == 65 {
			copy(c.GenesisSig[:], b)
		}
	}
	return c
}

// Node is a running in-process node
type Node struct {
	Opts     Options
	Chain    *fix.Chain
	DB       *dbutil.DB
	Visor    *visor.Visor
	Wallets  *wallet.Service
	Daemon   *daemon.Daemon
	KV       *kvstorage.Manager
	Gateway  *api.Gateway
	API      *api.Server
	APIAddr  string
	PeerAddr string

	wg       sync.WaitGroup
	stopOnce sync.Once
	RunErr   chan error
}

func freePort() int {
	l, err := net.Listen("tcp", "127.0.0.1:0")
	if err != nil {
		return 0
	}
	defer l.Close()
	return l.Addr().(*net.TCPAddr).Port
}

// Start assembles and starts a node in this process
func Start(o Options) (*Node, error) {
	if !o.Verbose {
		logging.Disable()
	}
	if err := os.MkdirAll(o.DataDir, 0700); err != nil {
		return nil, err
	}
	chain := o.Chain()
	n := &Node{Opts: o, Chain: chain, RunErr: make(chan error, 4)}

	sets := map[string]struct{}{}
	if !o.NoAPISets {
		list := o.APISets
		if list == nil {
			list = AllAPISets
		}
		for _, s := range list {
			sets[s] = struct{}{}
		}
	}

	db, err := visor.OpenDB(filepath.Join(o.DataDir, "data.db"), false)
	if err != nil {
		return nil, err
	}
	n.DB = db
	fail := func(err error) (*Node, error) {
		db.Close()
		return nil, err
	}

	wc := wallet.NewConfig()
	wc.WalletDir = filepath.Join(o.DataDir, "wallets")
	_, wc.EnableWalletAPI = sets[api.EndpointsWallet]
	_, wc.EnableSeedAPI = sets[api.EndpointsInsecureWalletSeed]
	ct := o.WalletCrypto
	if ct == "" {
		ct = "scrypt-chacha20poly1305-insecure"
	}
	cty, err := crypto.CryptoTypeFromString(ct)
	if err != nil {
		return fail(err)
	}
	wc.CryptoType = cty
	w, err := wallet.NewService(wc)
	if err != nil {
		return fail(fmt.Errorf("wallet.NewService: %v", err))
	}
	n.Wallets = w

	vc := chain.Config(o.Publisher, o.Arbitrating)
	v, err := visor.New(vc, db, w)
	if err != nil {
		return fail(fmt.Errorf("visor.New: %v", err))
	}
	n.Visor = v

	dc := daemon.NewConfig()
	port := freePort()
	dc.Daemon.Address = "127.0.0.1"
	dc.Daemon.Port = port
	dc.Daemon.LocalhostOnly = true
	dc.Daemon.DisableOutgoingConnections = true
	dc.Daemon.DisableNetworking = o.DisableNetworking
	dc.Daemon.DataDirectory = o.DataDir
	dc.Daemon.BlockchainPubkey = chain.Publisher.Pub
	dc.Daemon.UserAgent = useragent.Data{Coin: "skycoin", Version: "0.27.0"}
	dc.Daemon.UnconfirmedVerifyTxn = chain.Unconfirmed
	dc.Daemon.MaxBlockTransactionsSize = chain.MaxBlock
	dc.Daemon.LogPings = false
	dc.Daemon.MaxLastBlocksCount = 256
	dc.Daemon.IPCountsMax = 1000
	// long timers: nothing fires during a run unless the workload asks for it
	dc.Daemon.IntroductionWait = time.Hour
	if o.IntroductionWait != 0 {
		dc.Daemon.IntroductionWait = o.IntroductionWait
	}
	dc.Daemon.CullInvalidRate = time.Hour
	dc.Daemon.FlushAnnouncedTxnsRate = time.Hour
	dc.Daemon.BlocksRequestRate = time.Hour
	dc.Daemon.BlocksAnnounceRate = time.Hour
	dc.Daemon.UnconfirmedRefreshRate = time.Hour
	dc.Daemon.UnconfirmedRemoveInvalidRate = time.Hour
	dc.Daemon.BlockCreationInterval = 1 << 30
	dc.Daemon.OutgoingRate = time.Hour
	dc.Daemon.OutgoingTrustedRate = time.Hour
	if o.MaxIncomingMsgLen != 0 {
		dc.Daemon.MaxIncomingMessageLength = uint64(o.MaxIncomingMsgLen)
		dc.Pool.MaxIncomingMessageLength = o.MaxIncomingMsgLen
	}
	if o.MaxOutgoingMsgLen != 0 {
		dc.Daemon.MaxOutgoingMessageLength = uint64(o.MaxOutgoingMsgLen)
		dc.Pool.MaxOutgoingMessageLength = o.MaxOutgoingMsgLen
	}
	if o.MaxConnections != 0 {
		dc.Daemon.MaxConnections = o.MaxConnections
		dc.Pool.MaxConnections = o.MaxConnections
		dc.Pool.MaxIncomingConnections = o.MaxConnections - dc.Pool.MaxOutgoingConnections
	}
	dc.Pool.IdleLimit = time.Hour
	dc.Pool.PingRate = time.Hour
	dc.Pool.IdleCheckRate = time.Hour
	dc.Pool.ClearStaleRate = time.Hour
	dc.Pex.DataDirectory = o.DataDir
	dc.Pex.Disabled = true
	dc.Pex.DownloadPeerList = false
	dc.Pex.NetworkDisabled = o.DisableNetworking
	dc.Pex.DisableTrustedPeers = true
	dc.Pex.AllowLocalhost = true

	gnet.EraseMessages()
	d, err := daemon.New(dc, v)
	if err != nil {
		return fail(fmt.Errorf("daemon.New: %v", err))
	}
	n.Daemon = d
	n.PeerAddr = fmt.Sprintf("127.0.0.1:%d", port)

	sc := kvstorage.NewConfig()
	sc.StorageDir = filepath.Join(o.DataDir, "kv")
	_, sc.EnableStorageAPI = sets[api.EndpointsStorage]
	sc.EnabledStorages = []kvstorage.Type{kvstorage.TypeTxIDNotes, kvstorage.TypeGeneral}
	if err := os.MkdirAll(sc.StorageDir, 0700); err != nil {
		return fail(err)
	}
	s, err := kvstorage.NewManager(sc)
	if err != nil {
		return fail(fmt.Errorf("kvstorage.NewManager: %v", err))
	}
	n.KV = s

	gw := api.NewGateway(d, v, w, s)
	n.Gateway = gw
	ac := api.Config{
		DisableCSRF:        o.DisableCSRF,
		DisableHeaderCheck: o.DisableHeaderCheck,
		DisableCSP:         true,
		EnableGUI:          false,
		ReadTimeout:        time.Minute,
		WriteTimeout:       5 * time.Minute,
		IdleTimeout:        2 * time.Minute,
		EnabledAPISets:     sets,
		HostWhitelist:      o.HostWhitelist,
		Username:           o.Username,
		Password:           o.Password,
		Health: api.HealthConfig{
			BuildInfo:       readable.BuildInfo{Version: "0.27.0", Commit: "verif", Branch: "verif"},
			DaemonUserAgent: dc.Daemon.UserAgent,
			BlockPublisher:  o.Publisher,
		},
	}
	srv, err := api.Create("127.0.0.1:0", ac, gw)
	if err != nil {
		return fail(fmt.Errorf("api.Create: %v", err))
	}
	n.API = srv
	n.APIAddr = srv.Addr()

	if err := v.Init(); err != nil {
		return fail(fmt.Errorf("visor.Init: %v", err))
	}
	if o.Publisher && chain.GenesisSig == (cipher.Sig{}) {
		if sb, err := v.GetSignedBlockBySeq(0); err == nil && sb != nil {
			chain.GenesisSig = sb.Sig
		}
	}
	n.wg.Add(2)
	go func() {
		defer n.wg.Done()
		if err := d.Run(); err != nil {
			n.RunErr <- fmt.Errorf("daemon.Run: %v", err)
		}
	}()
	go func() {
		defer n.wg.Done()
		if err := srv.Serve(); err != nil {
			n.RunErr <- fmt.Errorf("api.Serve: %v", err)
		}
	}()
	// wait until the peer port accepts connections (the pool starts listening inside Run)
	if !o.DisableNetworking {
		deadline := time.Now().Add(20 * time.Second)
		for {
			c, err := net.DialTimeout("tcp", n.PeerAddr, time.Second)
			if err == nil {
				c.Close()
				break
			}
			if time.Now().After(deadline) {
				n.Stop()
				return nil, fmt.Errorf("peer port never opened: %v", err)
			}
			time.Sleep(5 * time.Millisecond)
		}
	}
	return n, nil
}

// Stop shuts the node down like Coin.Run does
func (n *Node) Stop() {
	n.stopOnce.Do(func() {
		n.API.Shutdown()
		n.Daemon.Shutdown()
		n.wg.Wait()
		n.DB.Close()
	})
}

// ---------------------------------------------------------------------------------
// Child process

// Ready is what cmd/vnode prints on stdout once it serves
type Ready struct {
	APIAddr    string `json:"api_addr"`
	PeerAddr   string `json:"peer_addr"`
	PID        int    `json:"pid"`
	GenesisSig string `json:"genesis_sig"`
	Err        string `json:"err,omitempty"`
}

// ChildMain is the body of cmd/vnode: read Options JSON from argv[1], start, print Ready,
// stop when stdin reaches EOF or on SIGTERM
func ChildMain() {
	var o Options
	if len(os.Args) < 2 {
		fmt.Fprintln(os.Stderr, "usage: vnode <options.json>")
		os.Exit(2)
	}
	b, err := os.ReadFile(os.Args[1])
	if err == nil {
		err = json.Unmarshal(b, &o)
	}
	if err != nil {
		fmt.Fprintln(os.Stderr, err)
		os.Exit(2)
	}
	n, err := Start(o)
	enc := json.NewEncoder(os.Stdout)
	if err != nil {
		_ = enc.Encode(Ready{Err: err.Error()})
		os.Exit(1)
	}
	_ = enc.Encode(Ready{APIAddr: n.APIAddr, PeerAddr: n.PeerAddr, PID: os.Getpid(), GenesisSig: hex.EncodeToString(n.Chain.GenesisSig[:])})
	done := make(chan struct{})
	go func() {
		_, _ = io.Copy(io.Discard, os.Stdin)
		close(done)
	}()
	select {
	case <-done:
	case err := <-n.RunErr:
		fmt.Fprintln(os.Stderr, "node run error:", err)
	}
	n.Stop()
}

// Proc is a node running as a child process
type Proc struct {
	Ready
	Cmd     *exec.Cmd
	Stdin   io.WriteCloser
	Dir     string
	LogPath string
	exited  chan struct{}
	exitErr error
}

// Spawn starts bin (the vnode binary) with the options; its stderr (skycoin log, panics,
// goroutine dumps) goes to <workdir>/vnode.stderr
func Spawn(bin, workdir string, o Options) (*Proc, error) {
	if err := os.MkdirAll(workdir, 0755); err != nil {
		return nil, err
	}
	ob, _ := json.Marshal(o)
	op := filepath.Join(workdir, "options.json")
	if err := os.WriteFile(op, ob, 0644); err != nil {
		return nil, err
	}
	logp := filepath.Join(workdir, "vnode.stderr")
	lf, err := os.Create(logp)
	if err != nil {
		return nil, err
	}
	cmd := exec.Command(bin, op)
	cmd.Stderr = lf
	stdin, err := cmd.StdinPipe()
	if err != nil {
		return nil, err
	}
	stdout, err := cmd.StdoutPipe()
	if err != nil {
		return nil, err
	}
	if err := cmd.Start(); err != nil {
		return nil, err
	}
	lf.Close()
	p := &Proc{Cmd: cmd, Stdin: stdin, Dir: workdir, LogPath: logp, exited: make(chan struct{})}
	rd := bufio.NewReader(stdout)
	lineC := make(chan string, 1)
	go func() {
		l, _ := rd.ReadString('\n')
		lineC <- l
		_, _ = io.Copy(io.Discard, rd)
	}()
	go func() {
		p.exitErr = cmd.Wait()
		close(p.exited)
	}()
	select {
	case l := <-lineC:
		if err := json.Unmarshal([]byte(l), &p.Ready); err != nil {
			p.Kill()
			return nil, fmt.Errorf("vnode did not report readiness: %q", l)
		}
		if p.Ready.Err != "" {
			return nil, fmt.Errorf("vnode: %s", p.Ready.Err)
		}
	case <-time.After(60 * time.Second):
		p.Kill()
		return nil, fmt.Errorf("vnode start timed out")
	}
	return p, nil
}

// Alive reports whether the child is still running
func (p *Proc) Alive() bool {
	select {
	case <-p.exited:
		return false
	default:
		return true
	}
}

// Stop closes stdin (graceful shutdown) and waits; returns false if it had to be killed
func (p *Proc) Stop(wait time.Duration) bool {
	_ = p.Stdin.Close()
	select {
	case <-p.exited:
		return true
	case <-time.After(wait):
		p.DumpGoroutines()
		p.Kill()
		return false
	}
}

// DumpGoroutines sends SIGQUIT so that the Go runtime writes all goroutine stacks to stderr
func (p *Proc) DumpGoroutines() {
	if p.Alive() {
		_ = p.Cmd.Process.Signal(syscall.SIGQUIT)
		select {
		case <-p.exited:
		case <-time.After(10 * time.Second):
		}
	}
}

// Kill kills the child
func (p *Proc) Kill() {
	if p.Alive() {
		_ = p.Cmd.Process.Kill()
		<-p.exited
	}
}

// Stderr returns the child's stderr so far
func (p *Proc) Stderr() []byte {
	b, _ := os.ReadFile(p.LogPath)
	return b
}
