package refbip

import (
	"encoding/hex"
	"testing"

	"verif/lib/refb58"
)

// Published vectors only (BIP32 test vector 1 and 5, BIP39 Trezor vector, RIPEMD-160 paper,
// base58 from the Bitcoin wiki); no call into the code under test.

func TestRipemd160(t *testing.T) {
	cases := map[string]string{
		"":                           "9c1185a5c5e9fc54612808977ee8f548b2258d31",
		"a":                          "0bdc9d2d256b3ee9daae347be6f4dc835a467ffe",
		"abc":                        "8eb208f7e05d987a9b044a8e98c6b087f15a0bfc",
		"message digest":             "5d0689ef49d2fae572b881b123a85ffa21595f36",
		"abcdefghijklmnopqrstuvwxyz": "f71c27109c692c1b56bbdceb5b9d2865b3708dbc",
		"abcdbcdecdefdefgefghfghighijhijkijkljklmklmnlmnomnopnopq":                         "12a053384a9c0c88e405a06c27dcf49ada62eb2b",
		"12345678901234567890123456789012345678901234567890123456789012345678901234567890": "9b752e45573d4b39f4dbd3323cab82bf63326bfb",
	}
	for in, want := range cases {
		got := Ripemd160([]byte(in))
		if hex.EncodeToString(got[:]) != want {
			t.Errorf("ripemd160(%q) = %x want %s", in, got, want)
		}
	}
}

func TestBIP39Vector(t *testing.T) {
	ent := make([]byte, 16)
	m, err := MnemonicFromEntropy(ent)
	if err != nil || m != "abandon abandon abandon abandon abandon abandon abandon abandon abandon abandon abandon about" {
		t.Fatalf("mnemonic %q %v", m, err)
	}
	seed, ok := Seed(m, "TREZOR")
	want := "c55257c360c07c72029aebc1b53c05ed0362ada38ead3e3e9efa3708e53495531f09a6987599d18264c1e1c92f2cf141630c7a3c4ab7c81b2f001698e7463b04"
	if !ok || hex.EncodeToString(seed) != want {
		t.Fatalf("seed %x", seed)
	}
	e2, err := EntropyFromMnemonic(m)
	if err != nil || hex.EncodeToString(e2) != hex.EncodeToString(ent) {
		t.Fatal("entropy roundtrip")
	}
	ff, _ := hex.DecodeString("ffffffffffffffffffffffffffffffffffffffffffffffffffffffffffffffff")
	m, _ = MnemonicFromEntropy(ff)
	if m != "zoo zoo zoo zoo zoo zoo zoo zoo zoo zoo zoo zoo zoo zoo zoo zoo zoo zoo zoo zoo zoo zoo zoo vote" {
		t.Fatalf("mnemonic %q", m)
	}
	if ValidMnemonic("abandon abandon abandon abandon abandon abandon abandon abandon abandon abandon abandon abandon") {
		t.Fatal("checksum not checked")
	}
}

func TestBIP32Vector1(t *testing.T) {
	seed, _ := hex.DecodeString("000102030405060708090a0b0c0d0e0f")
	m, err := Master(seed)
	if err != nil {
		t.Fatal(err)
	}
	if m.String() != "xprv9s21ZrQH143K3QTDL4LXw2F7HEK3wJUD2nW2nRk4stbPy6cq3jPPqjiChkVvvNKmPGJxWUtg6LnF5kejMRNNU3TGtRBeJgk33yuGBxrMPHi" {
		t.Fatalf("m xprv %s", m.String())
	}
	if m.Neuter().String() != "xpub661MyMwAqRbcFtXgS5sYJABqqG9YLmC4Q1Rdap9gSE8NqtwybGhePY2gZ29ESFjqJoCu1Rupje8YtGqsefD265TMg7usUDFdp6W1EGMcet8" {
		t.Fatalf("m xpub %s", m.Neuter().String())
	}
	p, err := ParsePath("m/0'/1/2'/2/1000000000")
	if err != nil {
		t.Fatal(err)
	}
	k, err := m.Derive(p)
	if err != nil {
		t.Fatal(err)
	}
	if k.String() != "xprvA41z7zogVVwxVSgdKUHDy1SKmdb533PjDz7J6N6mV6uS3ze1ai8FHa8kmHScGpWmj4WggLyQjgPie1rFSruoUihUZREPSL39UNdE3BBDu76" {
		t.Fatalf("leaf xprv %s", k.String())
	}
	if k.Neuter().String() != "xpub6H1LXWLaKsWFhvm6RVpEL9P4KfRZSW7abD2ttkWP3SSQvnyA8FSVqNTEcYFgJS2UaFcxupHiYkro49S8yGasTvXEYBVPamhGW6cFJodrTHy" {
		t.Fatalf("leaf xpub %s", k.Neuter().String())
	}
	// CKDpub commutes with CKDpriv + neuter on the last (normal) step
	par, _ := m.Derive(p[:4])
	c, err := par.Neuter().CKDpub(p[4])
	if err != nil || c.String() != k.Neuter().String() {
		t.Fatalf("ckdpub %v", err)
	}
	back, class, err := ParseString(k.String(), true)
	if err != nil || class != "" || back.String() != k.String() {
		t.Fatalf("parse %v %s", err, class)
	}
}

func TestBIP32Vector5Invalid(t *testing.T) {
	bad := []struct {
		s    string
		priv bool
	}{
		{"xpub661MyMwAqRbcEYS8w7XLSVeEsBXy79zSzH1J8vCdxAZningWLdN3zgtU6LBpB85b3D2yc8sfvZU521AAwdZafEz7mnzBBsz4wKY5fTtTQBm", false}, // pubkey version / prvkey mismatch
		{"xprv9s21ZrQH143K24Mfq5zL5MhWK9hUhhGbd45hLXo2Pq2oqzMMo63oStZzFGTQQD3dC4H2D5GBj7vWvSQaaBv5cxi9gafk7NF3pnBju6dwKvH", true},  // prvkey version / pubkey mismatch
		{"xpub661MyMwAqRbcEYS8w7XLSVeEsBXy79zSzH1J8vCdxAZningWLdN3zgtU6Txnt3siSujt9RCVYsx4qHZGc62TG4McvMGcAUjeuwZdduYEvFn", false}, // invalid pubkey prefix 04
		{"xprv9s21ZrQH143K24Mfq5zL5MhWK9hUhhGbd45hLXo2Pq2oqzMMo63oStZzFGpWnsj83BHtEy5Zt8CcDr1UiRXuWCmTQLxEK9vbz5gPstX92JQ", true},  // invalid prvkey prefix 04
		{"xprv9s21ZrQH143K24Mfq5zL5MhWK9hUhhGbd45hLXo2Pq2oqzMMo63oStZzFAzHGBP2UuGCqWLTAPLcMtD9y5gkZ6Eq3Rjuahrv17fEQ3Qen6J", true},  // invalid prvkey prefix 01
		{"xprv9s2SPatNQ9Vc6GTbVMFPFo7jsaZySyzk7L8n2uqKXJen3KUmvQNTuLh3fhZMBoG3G4ZW1N2kZuHEPY53qmbZzCHshoQnNf4GvELZfqTUrcv", true},  // zero depth with non-zero parent fingerprint
		{"xpub661no6RGEX3uJkY4bNnPcw4URcQTrSibUZ4NqJEw5eBkv7ovTwgiT91XX27VbEXGENhYRCf7hyEbWrR3FewATdCEebj6znwMfQkhRYHRLpJ", false}, // zero depth with non-zero parent fingerprint
		{"xprv9s21ZrQH4r4TsiLvyLXqM9P7k1K3EYhA1kkD6xuquB5i39AU8KF42acDyL3qsDbU9NmZn6MsGSUYZEsuoePmjzsB3eFKSUEh3Gu1N3cqVUN", true},  // zero depth with non-zero index
		{"xpub661MyMwAuDcm6CRQ5N4qiHKrJ39Xe1R1NyfouMKTTWcguwVcfrZJaNvhpebzGerh7gucBvzEQWRugZDuDXjNDRmXzSZe4c7mnTK97pTvGS8", false}, // zero depth with non-zero index
		{"DMwo58pR1QLEFihHiXPVykYB6fJmsTeHvyTp7hRThAtCX8CvYzgPcn8XnmdfHGMQzT7ayAmfo4z3gY5KfbrZWZ6St24UVf2Qgo6oujFktLHdHY4", false}, // unknown extended key version
		{"DMwo58pR1QLEFihHiXPVykYB6fJmsTeHvyTp7hRThAtCX8CvYzgPcn8XnmdfHPmHJiEDXkTiJTVV9rHEBUem2mwVbbNfvT2MTcAqj3nesx8uBf9", true},  // unknown extended key version
		{"xprv9s21ZrQH143K24Mfq5zL5MhWK9hUhhGbd45hLXo2Pq2oqzMMo63oStZzF93Y5wvzdUayhgkkFoicQZcP3y52uPPxFnfoLZB21Teqt1VvEHx", true},  // private key 0 not in 1..n-1
		{"xprv9s21ZrQH143K24Mfq5zL5MhWK9hUhhGbd45hLXo2Pq2oqzMMo63oStZzFAzHGBP2UuGCqWLTAPLcMtD5SDKr24z3aiUvKr9bJpdrcLg1y3G", true},  // private key n not in 1..n-1
		{"xpub661MyMwAqRbcEYS8w7XLSVeEsBXy79zSzH1J8vCdxAZningWLdN3zgtU6Q5JXayek4PRsn35jii4veMimro1xefsM58PgBMrvdYre8QyULY", false}, // invalid pubkey 020000...0007
		{"xprv9s21ZrQH143K3QTDL4LXw2F7HEK3wJUD2nW2nRk4stbPy6cq3jPPqjiChkVvvNKmPGJxWUtg6LnF5kejMRNNU3TGtRBeJgk33yuGBxrMPHL", true},  // invalid checksum
	}
	for _, c := range bad {
		if _, _, err := ParseString(c.s, c.priv); err == nil {
			t.Errorf("accepted invalid key %s", c.s)
		}
	}
}

func TestBase58(t *testing.T) {
	if refb58.Encode([]byte("Hello World!")) != "2NEpo7TZRRrLZSi2U" {
		t.Fatal("encode")
	}
	b, _ := hex.DecodeString("0000287fb4cd")
	if refb58.Encode(b) != "11233QC4" {
		t.Fatal("leading zeros")
	}
	d, err := refb58.Decode("11233QC4")
	if err != nil || hex.EncodeToString(d) != "0000287fb4cd" {
		t.Fatal("decode")
	}
}

func TestNFKD(t *testing.T) {
	out, changed, ok := NFKD("caf\u00e9 \u65e5\u672c")
	if !ok || !changed || out != "cafe\u0301 \u65e5\u672c" {
		t.Fatalf("%q", out)
	}
	if _, _, ok := NFKD("\u0301"); ok {
		t.Fatal("raw combining mark must be outside the known set")
	}
}
