package refbip

import "math/bits"

// RIPEMD-160 written from the specification (Dobbertin, Bosselaers, Preneel: "RIPEMD-160: a
// strengthened version of RIPEMD", 1996, appendix A). No code shared with skycoin's copy.

var rmdR = [80]int{
	0, 1, 2, 3, 4, 5, 6, 7, 8, 9, 10, 11, 12, 13, 14, 15,
	7, 4, 13, 1, 10, 6, 15, 3, 12, 0, 9, 5, 2, 14, 11, 8,
	3, 10, 14, 4, 9, 15, 8, 1, 2, 7, 0, 6, 13, 11, 5, 12,
	1, 9, 11, 10, 0, 8, 12, 4, 13, 3, 7, 15, 14, 5, 6, 2,
	4, 0, 5, 9, 7, 12, 2, 10, 14, 1, 3, 8, 11, 6, 15, 13,
}

var rmdRp = [80]int{
	5, 14, 7, 0, 9, 2, 11, 4, 13, 6, 15, 8, 1, 10, 3, 12,
	6, 11, 3, 7, 0, 13, 5, 10, 14, 15, 8, 12, 4, 9, 1, 2,
	15, 5, 1, 3, 7, 14, 6, 9, 11, 8, 12, 2, 10, 0, 4, 13,
	8, 6, 4, 1, 3, 11, 15, 0, 5, 12, 2, 13, 9, 7, 10, 14,
	12, 15, 10, 4, 1, 5, 8, 7, 6, 2, 13, 14, 0, 3, 9, 11,
}

var rmdS = [80]int{
	11, 14, 15, 12, 5, 8, 7, 9, 11, 13, 14, 15, 6, 7, 9, 8,
	7, 6, 8, 13, 11, 9, 7, 15, 7, 12, 15, 9, 11, 7, 13, 12,
	11, 13, 6, 7, 14, 9, 13, 15, 14, 8, 13, 6, 5, 12, 7, 5,
	11, 12, 14, 15, 14, 15, 9, 8, 9, 14, 5, 6, 8, 6, 5, 12,
	9, 15, 5, 11, 6, 8, 13, 12, 5, 12, 13, 14, 11, 8, 5, 6,
}

var rmdSp = [80]int{
	8, 9, 9, 11, 13, 15, 15, 5, 7, 7, 8, 11, 14, 14, 12, 6,
	9, 13, 15, 7, 12, 8, 9, 11, 7, 7, 12, 7, 6, 15, 13, 11,
	9, 7, 15, 11, 8, 6, 6, 14, 12, 13, 5, 14, 13, 13, 7, 5,
	15, 5, 8, 11, 14, 14, 6, 14, 6, 9, 12, 9, 12, 5, 15, 8,
	8, 5, 12, 9, 12, 5, 14, 6, 8, 13, 6, 5, 15, 13, 11, 11,
}

var rmdK = [5]uint32{0x00000000, 0x5A827999, 0x6ED9EBA1, 0x8F1BBCDC, 0xA953FD4E}
var rmdKp = [5]uint32{0x50A28BE6, 0x5C4DD124, 0x6D703EF3, 0x7A6D76E9, 0x00000000}

func rmdF(j int, x, y, z uint32) uint32 {
	switch j / 16 {
	case 0:
		return x ^ y ^ z
	case 1:
		return (x & y) | (^x & z)
	case 2:
		return (x | ^y) ^ z
	case 3:
		return (x & z) | (y & ^z)
	default:
		return x ^ (y | ^z)
	}
}

// Ripemd160 returns the RIPEMD-160 digest of msg
func Ripemd160(msg []byte) [20]byte {
	h := [5]uint32{0x67452301, 0xEFCDAB89, 0x98BADCFE, 0x10325476, 0xC3D2E1F0}
	// padding: 0x80, zeros to 56 mod 64, 64-bit little-endian bit length
	m := append([]byte{}, msg...)
	m = append(m, 0x80)
	for len(m)%64 != 56 {
		m = append(m, 0)
	}
	bitLen := uint64(len(msg)) * 8
	for i := uint(0); i < 8; i++ {
		m = append(m, byte(bitLen>>(8*i)))
	}
	var x [16]uint32
	for off := 0; off < len(m); off += 64 {
		for i := 0; i < 16; i++ {
			x[i] = uint32(m[off+4*i]) | uint32(m[off+4*i+1])<<8 | uint32(m[off+4*i+2])<<16 | uint32(m[off+4*i+3])<<24
		}
		a, b, c, d, e := h[0], h[1], h[2], h[3], h[4]
		ap, bp, cp, dp, ep := a, b, c, d, e
		for j := 0; j < 80; j++ {
			t := bits.RotateLeft32(a+rmdF(j, b, c, d)+x[rmdR[j]]+rmdK[j/16], rmdS[j]) + e
			a, e, d, c, b = e, d, bits.RotateLeft32(c, 10), b, t
			t = bits.RotateLeft32(ap+rmdF(79-j, bp, cp, dp)+x[rmdRp[j]]+rmdKp[j/16], rmdSp[j]) + ep
			ap, ep, dp, cp, bp = ep, dp, bits.RotateLeft32(cp, 10), bp, t
		}
		t := h[1] + c + dp
		h[1] = h[2] + d + ep
		h[2] = h[3] + e + ap
		h[3] = h[4] + a + bp
		h[4] = h[0] + b + cp
		h[0] = t
	}
	var out [20]byte
	for i := 0; i < 5; i++ {
		out[4*i] = byte(h[i])
		out[4*i+1] = byte(h[i] >> 8)
		out[4*i+2] = byte(h[i] >> 16)
		out[4*i+3] = byte(h[i] >> 24)
	}
	return out
}
