package refbip

import (
	"bytes"
	"crypto/hmac"
	"crypto/sha256"
	"crypto/sha512"
	"errors"
	"fmt"
	"math/big"
	"strconv"
	"strings"

	"verif/lib/refb58"
	"verif/lib/refsecp"
)

// Hardened is 2^31, the first hardened child index
const Hardened = uint32(0x80000000)

// Version bytes of mainnet extended keys
var (
	VersionPrivate = []byte{0x04, 0x88, 0xAD, 0xE4} // "xprv"
	VersionPublic  = []byte{0x04, 0x88, 0xB2, 0x1E} // "xpub"
)

// Errors of the reference
var (
	ErrSeedLen       = errors.New("refbip: seed must be 128..512 bits")
	ErrInvalidChild  = errors.New("refbip: IL >= n or derived key is zero / infinity (skip this index)")
	ErrHardenedPub   = errors.New("refbip: hardened child of a public key")
	ErrDepth         = errors.New("refbip: depth would exceed 255")
	ErrSerLen        = errors.New("refbip: serialisation must be 78 bytes + 4 checksum bytes")
	ErrSerChecksum   = errors.New("refbip: checksum mismatch")
	ErrSerVersion    = errors.New("refbip: unknown or unexpected version")
	ErrSerDepthZero  = errors.New("refbip: depth 0 with non-zero parent fingerprint or child number")
	ErrSerPrivateKey = errors.New("refbip: private key data invalid (prefix not 0, or key not in 1..n-1)")
	ErrSerPublicKey  = errors.New("refbip: public key data invalid (prefix, x >= p or not on the curve)")
)

// Key is an extended key (k, c) or (K, c) with its serialisation metadata
type Key struct {
	Private   bool
	Depth     byte
	ParentFP  [4]byte
	Child     uint32
	ChainCode []byte // 32 bytes
	Key       []byte // ser256(k) (32 bytes) if Private, serP(K) (33 bytes) otherwise

	pub []byte // cache of serP(point(k)) for private keys (a scalar multiplication costs ~2 ms)
}

func hmac512(key, data []byte) []byte {
	m := hmac.New(sha512.New, key)
	m.Write(data)
	return m.Sum(nil)
}

func ser32(i uint32) []byte { return []byte{byte(i >> 24), byte(i >> 16), byte(i >> 8), byte(i)} }

// Hash160 is RIPEMD160(SHA256(b))
func Hash160(b []byte) [20]byte {
	h := sha256.Sum256(b)
	return Ripemd160(h[:])
}

// Master is BIP32 "Master key generation": I = HMAC-SHA512("Bitcoin seed", S)
func Master(seed []byte) (*Key, error) {
	if len(seed) < 16 || len(seed) > 64 {
		return nil, ErrSeedLen
	}
	I := hmac512([]byte("Bitcoin seed"), seed)
	k := new(big.Int).SetBytes(I[:32])
	if !refsecp.ValidScalar(k) {
		return nil, ErrInvalidChild
	}
	return &Key{Private: true, Depth: 0, Child: 0, ChainCode: I[32:], Key: I[:32]}, nil
}

// PubBytes returns serP(K) for either kind of key
func (k *Key) PubBytes() []byte {
	if !k.Private {
		return append([]byte{}, k.Key...)
	}
	if k.pub == nil {
		pub, err := refsecp.PubKey(k.Key)
		if err != nil {
			panic("refbip: extended private key holds an invalid scalar")
		}
		k.pub = pub
	}
	return append([]byte{}, k.pub...)
}

// Identifier is Hash160(serP(K))
func (k *Key) Identifier() [20]byte { return Hash160(k.PubBytes()) }

// Fingerprint is the first 4 bytes of the identifier
func (k *Key) Fingerprint() [4]byte {
	id := k.Identifier()
	var f [4]byte
	copy(f[:], id[:4])
	return f
}

// Neuter is N((k, c)) = (point(k), c)
func (k *Key) Neuter() *Key {
	return &Key{Private: false, Depth: k.Depth, ParentFP: k.ParentFP, Child: k.Child,
		ChainCode: append([]byte{}, k.ChainCode...), Key: k.PubBytes()}
}

// CKDpriv is "Private parent key -> private child key"
func (k *Key) CKDpriv(i uint32) (*Key, error) {
	if !k.Private {
		return nil, errors.New("refbip: CKDpriv on a public key")
	}
	if k.Depth == 255 {
		return nil, ErrDepth
	}
	var data []byte
	if i >= Hardened {
		data = append([]byte{0}, k.Key...)
	} else {
		data = k.PubBytes()
	}
	data = append(data, ser32(i)...)
	I := hmac512(k.ChainCode, data)
	il := new(big.Int).SetBytes(I[:32])
	if il.Cmp(refsecp.N) >= 0 {
		return nil, ErrInvalidChild
	}
	ki := new(big.Int).Add(il, new(big.Int).SetBytes(k.Key))
	ki.Mod(ki, refsecp.N)
	if ki.Sign() == 0 {
		return nil, ErrInvalidChild
	}
	return &Key{Private: true, Depth: k.Depth + 1, ParentFP: k.Fingerprint(), Child: i,
		ChainCode: I[32:], Key: refsecp.To32(ki)}, nil
}

// CKDpub is "Public parent key -> public child key" (works on the neutered key)
func (k *Key) CKDpub(i uint32) (*Key, error) {
	if i >= Hardened {
		return nil, ErrHardenedPub
	}
	if k.Depth == 255 {
		return nil, ErrDepth
	}
	pub := k.PubBytes()
	I := hmac512(k.ChainCode, append(append([]byte{}, pub...), ser32(i)...))
	il := new(big.Int).SetBytes(I[:32])
	if il.Cmp(refsecp.N) >= 0 {
		return nil, ErrInvalidChild
	}
	P, err := refsecp.Decompress(pub)
	if err != nil {
		return nil, ErrSerPublicKey
	}
	Ki := refsecp.Add(refsecp.Mul(il, refsecp.G()), P)
	if Ki.Inf {
		return nil, ErrInvalidChild
	}
	return &Key{Private: false, Depth: k.Depth + 1, ParentFP: k.Fingerprint(), Child: i,
		ChainCode: I[32:], Key: refsecp.Compress(Ki)}, nil
}

// Serialize78 is the 78-byte structure: version, depth, parent fingerprint, child number,
// chain code, key data (0x00 || ser256(k) or serP(K))
func (k *Key) Serialize78() []byte {
	out := make([]byte, 0, 78)
	if k.Private {
		out = append(out, VersionPrivate...)
	} else {
		out = append(out, VersionPublic...)
	}
	out = append(out, k.Depth)
	out = append(out, k.ParentFP[:]...)
	out = append(out, ser32(k.Child)...)
	out = append(out, k.ChainCode...)
	if k.Private {
		out = append(out, 0)
	}
	out = append(out, k.Key...)
	return out
}

// Serialize82 is Serialize78 followed by the 4-byte double-SHA256 checksum
func (k *Key) Serialize82() []byte {
	b := k.Serialize78()
	return append(b, refb58.Checksum4(b)...)
}

// String is the base58check text ("xprv..." / "xpub...")
func (k *Key) String() string { return refb58.EncodeCheck(k.Serialize78()) }

// Parse82 validates and parses an 82-byte serialisation. wantPrivate selects which of the two
// versions is acceptable. The returned class names the first rule that fails ("" if valid)
func Parse82(b []byte, wantPrivate bool) (*Key, string, error) {
	if len(b) != 82 {
		return nil, "length", ErrSerLen
	}
	if !bytes.Equal(refb58.Checksum4(b[:78]), b[78:]) {
		return nil, "checksum", ErrSerChecksum
	}
	isPriv := bytes.Equal(b[:4], VersionPrivate)
	isPub := bytes.Equal(b[:4], VersionPublic)
	if !isPriv && !isPub {
		return nil, "version-unknown", ErrSerVersion
	}
	if isPriv != wantPrivate {
		return nil, "version-other-kind", ErrSerVersion
	}
	k := &Key{Private: isPriv, Depth: b[4]}
	copy(k.ParentFP[:], b[5:9])
	k.Child = uint32(b[9])<<24 | uint32(b[10])<<16 | uint32(b[11])<<8 | uint32(b[12])
	k.ChainCode = append([]byte{}, b[13:45]...)
	if k.Depth == 0 && (k.ParentFP != [4]byte{} || k.Child != 0) {
		return nil, "depth0-metadata", ErrSerDepthZero
	}
	if isPriv {
		if b[45] != 0 {
			return nil, "private-prefix", ErrSerPrivateKey
		}
		if !refsecp.ValidScalar(new(big.Int).SetBytes(b[46:78])) {
			return nil, "private-range", ErrSerPrivateKey
		}
		k.Key = append([]byte{}, b[46:78]...)
	} else {
		if _, err := refsecp.Decompress(b[45:78]); err != nil {
			return nil, "public-point", ErrSerPublicKey
		}
		k.Key = append([]byte{}, b[45:78]...)
	}
	return k, "", nil
}

// ParseString decodes base58 text and applies Parse82. The empty string and strings with
// characters outside the alphabet are invalid
func ParseString(s string, wantPrivate bool) (*Key, string, error) {
	if s == "" {
		return nil, "base58", refb58.ErrChar
	}
	b, err := refb58.Decode(s)
	if err != nil {
		return nil, "base58", err
	}
	return Parse82(b, wantPrivate)
}

// ParsePath parses "m", "m/0", "m/44'/8000'/0'/0/7": decimal numbers below 2^31, an apostrophe
// marks a hardened element. Only this canonical notation is accepted
func ParsePath(p string) ([]uint32, error) {
	parts := strings.Split(p, "/")
	if parts[0] != "m" {
		return nil, errors.New("refbip: path must start with m")
	}
	var out []uint32
	for _, e := range parts[1:] {
		h := false
		if strings.HasSuffix(e, "'") {
			h = true
			e = e[:len(e)-1]
		}
		if e == "" {
			return nil, errors.New("refbip: empty path element")
		}
		for _, c := range e {
			if c < '0' || c > '9' {
				return nil, errors.New("refbip: path element is not a decimal number")
			}
		}
		n, err := strconv.ParseUint(e, 10, 64)
		if err != nil || n >= uint64(Hardened) {
			return nil, errors.New("refbip: path element out of range")
		}
		v := uint32(n)
		if h {
			v += Hardened
		}
		out = append(out, v)
	}
	return out, nil
}

// FormatPath is the inverse of ParsePath
func FormatPath(idx []uint32) string {
	s := "m"
	for _, i := range idx {
		if i >= Hardened {
			s += fmt.Sprintf("/%d'", i-Hardened)
		} else {
			s += fmt.Sprintf("/%d", i)
		}
	}
	return s
}

// Derive applies CKDpriv along idx
func (k *Key) Derive(idx []uint32) (*Key, error) {
	cur := k
	for _, i := range idx {
		n, err := cur.CKDpriv(i)
		if err != nil {
			return nil, err
		}
		cur = n
	}
	return cur, nil
}

// BIP44Path is m / 44' / coin' / account' / change / index (the last two optional: pass
// negative values to stop earlier)
func BIP44Path(coin, account uint32, change, index int64) []uint32 {
	p := []uint32{44 + Hardened, coin + Hardened, account + Hardened}
	if change >= 0 {
		p = append(p, uint32(change))
		if index >= 0 {
			p = append(p, uint32(index))
		}
	}
	return p
}
