// Package refbip is a naive reference implementation of BIP39 (English), BIP32 and BIP44,
// written from the BIP texts, RFC 8018 (PBKDF2) and the RIPEMD-160 paper. The only thing it
// shares with the repository under test is the 2048-word list (data). Hash primitives
// SHA-256/SHA-512/HMAC come from the Go standard library; curve arithmetic from lib/refsecp;
// base58check from lib/refb58.
package refbip

import (
	"crypto/hmac"
	"crypto/sha256"
	"crypto/sha512"
	"errors"
	"strings"
)

// Words is the English word list (index = 11-bit value)
var Words []string

var wordIndex map[string]int

func init() {
	Words = strings.Split(strings.TrimSpace(englishWords), "\n")
	if len(Words) != 2048 {
		panic("refbip: word list must have 2048 entries")
	}
	wordIndex = make(map[string]int, 2048)
	for i, w := range Words {
		wordIndex[w] = i
	}
}

// WordIndex returns the index of w in the list
func WordIndex(w string) (int, bool) {
	i, ok := wordIndex[w]
	return i, ok
}

// Errors describing why a mnemonic is not valid
var (
	ErrEntropySize = errors.New("refbip: entropy must be 128..256 bits in steps of 32")
	ErrFormat      = errors.New("refbip: words must be separated by single ASCII spaces, no surrounding whitespace")
	ErrWordCount   = errors.New("refbip: word count must be 12, 15, 18, 21 or 24")
	ErrWord        = errors.New("refbip: word not in list")
	ErrChecksum    = errors.New("refbip: checksum mismatch")
)

// ValidEntropyLen reports whether n bytes is an allowed BIP39 entropy size
func ValidEntropyLen(n int) bool {
	return n == 16 || n == 20 || n == 24 || n == 28 || n == 32
}

func bitsOf(b []byte) []byte {
	out := make([]byte, 0, len(b)*8)
	for _, v := range b {
		for i := 7; i >= 0; i-- {
			out = append(out, (v>>uint(i))&1)
		}
	}
	return out
}

// MnemonicFromEntropy is BIP39 "Generating the mnemonic": ENT bits followed by the first
// ENT/32 bits of SHA256(ENT), cut into 11-bit groups, each an index into the word list
func MnemonicFromEntropy(ent []byte) (string, error) {
	if !ValidEntropyLen(len(ent)) {
		return "", ErrEntropySize
	}
	h := sha256.Sum256(ent)
	cs := len(ent) * 8 / 32
	bits := append(bitsOf(ent), bitsOf(h[:])[:cs]...)
	n := len(bits) / 11
	words := make([]string, n)
	for i := 0; i < n; i++ {
		idx := 0
		for j := 0; j < 11; j++ {
			idx = idx<<1 | int(bits[i*11+j])
		}
		words[i] = Words[idx]
	}
	return strings.Join(words, " "), nil
}

// EntropyFromMnemonic inverts MnemonicFromEntropy; it fails unless m is exactly an allowed
// number of list words joined by single ASCII spaces with a correct checksum
func EntropyFromMnemonic(m string) ([]byte, error) {
	if m == "" {
		return nil, ErrWordCount
	}
	parts := strings.Split(m, " ")
	for _, w := range parts {
		if w == "" {
			return nil, ErrFormat
		}
	}
	// any other white space (tabs, newlines, NBSP, ...) ends up inside a "word" and fails the lookup
	n := len(parts)
	if n != 12 && n != 15 && n != 18 && n != 21 && n != 24 {
		// a word that is not in the list is also a reason; report the count first
		return nil, ErrWordCount
	}
	bits := make([]byte, 0, n*11)
	for _, w := range parts {
		idx, ok := wordIndex[w]
		if !ok {
			return nil, ErrWord
		}
		for j := 10; j >= 0; j-- {
			bits = append(bits, byte(idx>>uint(j))&1)
		}
	}
	cs := n * 11 / 33
	entBits := n*11 - cs
	ent := make([]byte, entBits/8)
	for i := 0; i < entBits; i++ {
		ent[i/8] |= bits[i] << uint(7-i%8)
	}
	h := sha256.Sum256(ent)
	hb := bitsOf(h[:])
	for i := 0; i < cs; i++ {
		if hb[i] != bits[entBits+i] {
			return nil, ErrChecksum
		}
	}
	return ent, nil
}

// ValidMnemonic reports whether m is a valid mnemonic (see EntropyFromMnemonic)
func ValidMnemonic(m string) bool {
	_, err := EntropyFromMnemonic(m)
	return err == nil
}

// PBKDF2SHA512 is PBKDF2 (RFC 8018 section 5.2) with PRF = HMAC-SHA-512:
// DK = T_1 || T_2 || ... ; T_i = U_1 xor ... xor U_c ; U_1 = PRF(P, S || INT(i)) ; U_j = PRF(P, U_{j-1})
func PBKDF2SHA512(password, salt []byte, c, dkLen int) []byte {
	const hLen = 64
	l := (dkLen + hLen - 1) / hLen
	dk := make([]byte, 0, l*hLen)
	for i := 1; i <= l; i++ {
		mac := hmac.New(sha512.New, password)
		mac.Write(salt)
		mac.Write([]byte{byte(i >> 24), byte(i >> 16), byte(i >> 8), byte(i)})
		u := mac.Sum(nil)
		t := append([]byte{}, u...)
		for j := 2; j <= c; j++ {
			mac = hmac.New(sha512.New, password)
			mac.Write(u)
			u = mac.Sum(nil)
			for k := range t {
				t[k] ^= u[k]
			}
		}
		dk = append(dk, t...)
	}
	return dk[:dkLen]
}

// nfkdTable: NFKD decompositions (Unicode Character Database, UnicodeData.txt decomposition
// mappings, applied recursively) of the few non-ASCII characters the harness uses in passphrases
// that are not already in NFKD form. Each maps to a base character followed by at most one
// combining mark, or to compatibility characters, so no reordering step is ever needed.
var nfkdTable = map[rune]string{
	0x00E9: "e\u0301",      // e acute
	0x00F1: "n\u0303",      // n tilde
	0x00FC: "u\u0308",      // u diaeresis
	0x00C5: "A\u030A",      // A ring
	0x00E7: "c\u0327",      // c cedilla
	0x0439: "\u0438\u0306", // Cyrillic short i
	0x304C: "\u304B\u3099", // Hiragana GA
	0xFB01: "fi",           // fi ligature
	0x00B2: "2",            // superscript two
	0x2126: "\u03A9",       // ohm sign -> Greek capital omega
	0x212B: "A\u030A",      // angstrom sign
	0xFF21: "A",            // fullwidth A
	0x3000: " ",            // ideographic space
	0x00A0: " ",            // no-break space
	0x2460: "1",            // circled digit one
	0xAC00: "\u1100\u1161", // Hangul syllable GA
}

// NFKDUnstable lists the characters of nfkdTable (for generators)
func NFKDUnstable() []rune {
	out := make([]rune, 0, len(nfkdTable))
	for _, r := range []rune{0x00E9, 0x00F1, 0x00FC, 0x00C5, 0x00E7, 0x0439, 0x304C, 0xFB01, 0x00B2, 0x2126, 0x212B, 0xFF21, 0x3000, 0x00A0, 0x2460, 0xAC00} {
		if _, ok := nfkdTable[r]; ok {
			out = append(out, r)
		}
	}
	return out
}

// nfkdInert reports characters known to be unchanged by NFKD and not combining: printable
// ASCII, Greek small alpha..omega, Cyrillic small a..ya except short i, CJK unified ideographs
// U+4E00..U+9FA5, emoticons U+1F600..U+1F64F
func nfkdInert(r rune) bool {
	switch {
	case r >= 0x20 && r <= 0x7E:
		return true
	case r >= 0x03B1 && r <= 0x03C9:
		return true
	case r >= 0x0430 && r <= 0x044F && r != 0x0439:
		return true
	case r >= 0x4E00 && r <= 0x9FA5:
		return true
	case r >= 0x1F600 && r <= 0x1F64F:
		return true
	}
	return false
}

// NFKD normalises s if it consists only of characters this package knows the normal form of;
// changed reports whether the result differs from s; ok=false means "outside the known set"
// (the caller must then not use s as an oracle input)
func NFKD(s string) (out string, changed bool, ok bool) {
	var sb strings.Builder
	for _, r := range s {
		if d, hit := nfkdTable[r]; hit {
			sb.WriteString(d)
			changed = true
			continue
		}
		if !nfkdInert(r) {
			return "", false, false
		}
		sb.WriteRune(r)
	}
	return sb.String(), changed, true
}

// Seed is BIP39 "From mnemonic to seed": PBKDF2-HMAC-SHA512(password = NFKD(mnemonic),
// salt = "mnemonic" + NFKD(passphrase), 2048 iterations, 64 bytes). ok=false if a normal form
// is not known to this package
func Seed(mnemonic, passphrase string) ([]byte, bool) {
	m, _, ok1 := NFKD(mnemonic)
	p, _, ok2 := NFKD(passphrase)
	if !ok1 || !ok2 {
		return nil, false
	}
	return PBKDF2SHA512([]byte(m), []byte("mnemonic"+p), 2048, 64), true
}
