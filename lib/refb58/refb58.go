// Package refb58 is the big-integer definition of Bitcoin-alphabet base58, written out
// naively with math/big. It shares no code with skycoin's cipher/base58 and is used as the
// reference oracle.
//
// Definition: a byte string b with z leading zero bytes is the z-fold repetition of '1'
// followed by the base-58 digits (most significant first, no leading zero digit) of the
// big-endian integer value of b; the integer 0 contributes no digits. A string decodes iff it
// consists of alphabet characters only; the result is the inverse of the above.
package refb58

import (
	"crypto/sha256"
	"errors"
	"math/big"
)

// Alphabet is the Bitcoin base58 alphabet
const Alphabet = "123456789ABCDEFGHJKLMNPQRSTUVWXYZabcdefghijkmnopqrstuvwxyz"

var (
	big58 = big.NewInt(58)

	// ErrChar is returned for a byte that is not in the alphabet
	ErrChar = errors.New("refb58: character not in alphabet")
	// ErrChecksum is returned by DecodeCheck
	ErrChecksum = errors.New("refb58: checksum mismatch")
)

// Index returns the digit value of c or -1
func Index(c byte) int {
	for i := 0; i < len(Alphabet); i++ {
		if Alphabet[i] == c {
			return i
		}
	}
	return -1
}

// InAlphabet reports whether every byte of s is an alphabet character (so any byte >= 0x80,
// i.e. any non-ASCII rune or invalid UTF-8, makes it false)
func InAlphabet(s string) bool {
	for i := 0; i < len(s); i++ {
		if Index(s[i]) < 0 {
			return false
		}
	}
	return true
}

// Encode returns the base58 text of b
func Encode(b []byte) string {
	z := 0
	for z < len(b) && b[z] == 0 {
		z++
	}
	x := new(big.Int).SetBytes(b)
	var digits []byte // least significant first
	m := new(big.Int)
	for x.Sign() > 0 {
		x.DivMod(x, big58, m)
		digits = append(digits, Alphabet[m.Int64()])
	}
	out := make([]byte, 0, z+len(digits))
	for i := 0; i < z; i++ {
		out = append(out, '1')
	}
	for i := len(digits) - 1; i >= 0; i-- {
		out = append(out, digits[i])
	}
	return string(out)
}

// Decode returns the bytes whose base58 text is s. The empty string decodes to the empty byte
// string under the mathematical definition (callers that treat "" as invalid say so themselves)
func Decode(s string) ([]byte, error) {
	z := 0
	for z < len(s) && s[z] == '1' {
		z++
	}
	x := new(big.Int)
	for i := 0; i < len(s); i++ {
		d := Index(s[i])
		if d < 0 {
			return nil, ErrChar
		}
		x.Mul(x, big58)
		x.Add(x, big.NewInt(int64(d)))
	}
	body := x.Bytes()
	out := make([]byte, z+len(body))
	copy(out[z:], body)
	return out, nil
}

// Checksum4 is the first four bytes of SHA256(SHA256(b)) (base58check as used by BIP32)
func Checksum4(b []byte) []byte {
	h1 := sha256.Sum256(b)
	h2 := sha256.Sum256(h1[:])
	return h2[:4]
}

// EncodeCheck is Encode(b || Checksum4(b))
func EncodeCheck(b []byte) string {
	full := append(append([]byte{}, b...), Checksum4(b)...)
	return Encode(full)
}

// DecodeCheck inverts EncodeCheck
func DecodeCheck(s string) ([]byte, error) {
	b, err := Decode(s)
	if err != nil {
		return nil, err
	}
	if len(b) < 4 {
		return nil, ErrChecksum
	}
	body, cs := b[:len(b)-4], b[len(b)-4:]
	want := Checksum4(body)
	for i := 0; i < 4; i++ {
		if cs[i] != want[i] {
			return nil, ErrChecksum
		}
	}
	return body, nil
}
