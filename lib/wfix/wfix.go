// Package wfix holds small wallet fixtures shared by the wallet checks (C13, C17, C18, C19):
// seed/mnemonic generators, a scripted activity oracle (TransactionsFinder), reload helpers
// and the per-entry consistency check against the textbook secp256k1 reference.
package wfix

import (
	"bytes"
	"encoding/hex"
	"errors"
	"fmt"
	"math/rand"
	"sync"

	"github.com/skycoin/skycoin/src/cipher"
	"github.com/skycoin/skycoin/src/cipher/bip39"
	"github.com/skycoin/skycoin/src/util/logging"
	"github.com/skycoin/skycoin/src/wallet"
	"github.com/skycoin/skycoin/src/wallet/bip44wallet"
	"github.com/skycoin/skycoin/src/wallet/collection"
	"github.com/skycoin/skycoin/src/wallet/deterministic"
	"github.com/skycoin/skycoin/src/wallet/xpubwallet"

	"verif/lib/refsecp"
)

// Quiet silences the product's logger (it would otherwise flood stdout)
func Quiet() { logging.Disable() }

// RandBytes returns n bytes from rng
func RandBytes(rng *rand.Rand, n int) []byte {
	b := make([]byte, n)
	for i := range b {
		b[i] = byte(rng.Intn(256))
	}
	return b
}

// Mnemonic makes a valid BIP39 mnemonic (12..24 words) from rng
func Mnemonic(rng *rand.Rand) string {
	sizes := []int{16, 20, 24, 28, 32}
	m, err := bip39.NewMnemonic(RandBytes(rng, sizes[rng.Intn(len(sizes))]))
	if err != nil {
		panic(err)
	}
	return m
}

const alnum = "abcdefghijklmnopqrstuvwxyzABCDEFGHIJKLMNOPQRSTUVWXYZ0123456789"

// RandToken returns n characters of [a-zA-Z0-9]
func RandToken(rng *rand.Rand, n int) string {
	b := make([]byte, n)
	for i := range b {
		b[i] = alnum[rng.Intn(len(alnum))]
	}
	return string(b)
}

// SeedString returns a seed for a deterministic wallet: a mnemonic, a hex string, or free text
func SeedString(rng *rand.Rand) string {
	switch rng.Intn(4) {
	case 0:
		return Mnemonic(rng)
	case 1:
		return hex.EncodeToString(RandBytes(rng, 16+rng.Intn(17)))
	case 2:
		return "seed " + RandToken(rng, 12+rng.Intn(20)) + " é世 end"
	default:
		return RandToken(rng, 16+rng.Intn(30))
	}
}

// SecKey returns a valid secret key from rng (validity decided by the reference)
func SecKey(rng *rand.Rand) cipher.SecKey {
	for {
		b := RandBytes(rng, 32)
		if _, err := refsecp.PubKey(b); err == nil {
			var s cipher.SecKey
			copy(s[:], b)
			return s
		}
	}
}

// ---------------------------------------------------------------------------------
// scripted activity oracle

// StubTF answers AddressesActivity from a queue of patterns; pattern i says which positions
// of the i-th call are "active". An exhausted queue answers all-false. Every call is logged.
type StubTF struct {
	mu       sync.Mutex
	Patterns [][]bool
	Calls    [][]cipher.Addresser
	Fail     error // if set, every call fails with it
}

// AddressesActivity implements wallet.TransactionsFinder
func (s *StubTF) AddressesActivity(addrs []cipher.Addresser) ([]bool, error) {
	s.mu.Lock()
	defer s.mu.Unlock()
	s.Calls = append(s.Calls, append([]cipher.Addresser(nil), addrs...))
	if s.Fail != nil {
		return nil, s.Fail
	}
	out := make([]bool, len(addrs))
	if len(s.Patterns) > 0 {
		p := s.Patterns[0]
		s.Patterns = s.Patterns[1:]
		for i := range out {
			if i < len(p) {
				out[i] = p[i]
			}
		}
	}
	return out, nil
}

// Pattern makes a random activity pattern of length n and returns it with the number of
// addresses a scan must keep (highest active index + 1)
func Pattern(rng *rand.Rand, n int) ([]bool, int) {
	p := make([]bool, n)
	keep := 0
	switch rng.Intn(4) {
	case 0: // nothing active
	case 1: // exactly one
		if n > 0 {
			i := rng.Intn(n)
			p[i] = true
			keep = i + 1
		}
	default:
		for i := range p {
			if rng.Intn(3) == 0 {
				p[i] = true
				keep = i + 1
			}
		}
	}
	return p, keep
}

// ---------------------------------------------------------------------------------
// reload

// LoadBytes deserialises a wallet of the given type through the package's exported loader
func LoadBytes(typ string, data []byte) (wallet.Wallet, error) {
	switch typ {
	case wallet.WalletTypeDeterministic:
		return deterministic.Loader{}.Load(data)
	case wallet.WalletTypeBip44:
		return bip44wallet.Loader{}.Load(data)
	case wallet.WalletTypeCollection:
		return collection.Loader{}.Load(data)
	case wallet.WalletTypeXPub:
		return xpubwallet.Loader{}.Load(data)
	}
	return nil, fmt.Errorf("unknown wallet type %q", typ)
}

// ---------------------------------------------------------------------------------
// entries

// FlatEntry is one wallet entry with its position
type FlatEntry struct {
	Account uint32
	Chain   uint32 // 0 external, 1 change (bip44); 0 otherwise
	Index   int
	E       wallet.Entry
}

// AllEntries lists every entry of a wallet: for bip44 each account's external then change chain
func AllEntries(w wallet.Wallet) ([]FlatEntry, error) {
	var out []FlatEntry
	if w.Type() == wallet.WalletTypeBip44 {
		for _, a := range w.Accounts() {
			for chain, opt := range []wallet.Option{wallet.OptionExternal(), wallet.OptionChange()} {
				es, err := w.GetEntries(wallet.OptionAccount(a.Index), opt)
				if err != nil {
					return nil, err
				}
				for i, e := range es {
					out = append(out, FlatEntry{a.Index, uint32(chain), i, e})
				}
			}
		}
		return out, nil
	}
	es, err := w.GetEntries()
	if err != nil {
		return nil, err
	}
	for i, e := range es {
		out = append(out, FlatEntry{0, 0, i, e})
	}
	return out, nil
}

// RefPubCache caches reference public keys by secret key (the reference is slow)
type RefPubCache struct {
	mu sync.Mutex
	m  map[cipher.SecKey][]byte
}

// NewRefPubCache makes an empty cache
func NewRefPubCache() *RefPubCache { return &RefPubCache{m: map[cipher.SecKey][]byte{}} }

// Pub returns the textbook public key of a secret key (nil if the scalar is invalid)
func (c *RefPubCache) Pub(s cipher.SecKey) []byte {
	c.mu.Lock()
	p, ok := c.m[s]
	c.mu.Unlock()
	if ok {
		return p
	}
	p, err := refsecp.PubKey(s[:])
	if err != nil {
		p = nil
	}
	c.mu.Lock()
	c.m[s] = p
	c.mu.Unlock()
	return p
}

// AddressOf is the address of a public key under the wallet's coin type
func AddressOf(coin wallet.CoinType, pk cipher.PubKey) cipher.Addresser {
	if coin == wallet.CoinTypeBitcoin {
		return cipher.BitcoinAddressFromPubKey(pk)
	}
	return cipher.AddressFromPubKey(pk)
}

// CheckEntry verifies Address = address(Public) and, when a secret is held,
// Public = reference public key of Secret. It returns a description of the first mismatch.
func CheckEntry(coin wallet.CoinType, e wallet.Entry, cache *RefPubCache) error {
	if e.Address == nil {
		return errors.New("entry has no address")
	}
	want := AddressOf(coin, e.Public)
	if e.Address.String() != want.String() || !bytes.Equal(e.Address.Bytes(), want.Bytes()) {
		return fmt.Errorf("address %s is not the address of public key %s (%s)", e.Address, e.Public.Hex(), want)
	}
	if e.Secret != (cipher.SecKey{}) {
		ref := cache.Pub(e.Secret)
		if ref == nil {
			return fmt.Errorf("secret key of %s is not a valid scalar", e.Address)
		}
		if !bytes.Equal(ref, e.Public[:]) {
			return fmt.Errorf("public key %s of %s is not the public key of its secret (reference %x)", e.Public.Hex(), e.Address, ref)
		}
	}
	return nil
}
