#!/bin/bash
# Offline setup: pre-warm the Go build cache for the harness and the verif-tagged skycoin packages.
cd "$(dirname "$(readlink -f "$0")")"
export GOFLAGS=-mod=mod GOPROXY=off GOSUMDB=off GOTOOLCHAIN=local
mkdir -p bin evidence replays
go build -tags verif ./lib/... ./cmd/... 2>&1 | tail -20
exit 0
